#!/usr/bin/env python3
"""Copies independently produced, re-verified seeded changes into /verif/seeded/<id>/ (patch.diff, demonstration,
DEMO_CMD.txt, notes.md) and writes meta.json from the verification (tools/verify_seed.py) and detection-matrix
(tools/seed_matrix.py) results. usage: import_seeds.py <round-dir> <verify.jsonl...> -- <matrix.jsonl> <suffix>"""
import glob, json, os, shutil, sys

DESC = {
 # id: (summary, what it needs to manifest)
 'C01-a': ("clearOldPoints compares the stored slot time with `<` instead of `!=`: only older laps are blanked", "a slot holding a later lap than the window (batch write dated after the clock, or a fetch with an earlier `now`)"),
 'C01-b': ("intervalForWrite computed as t.Add(-(Duration(t) % step)) in signed 32-bit seconds", "a clock at or after 2038-01-19 (t >= 2^31) and a step that does not divide 2^32"),
 'C02-a': ("known-fraction gate of propagate compared in float64 instead of float32", "an xFilesFactor that is inexact in float32 (0.1, 0.2, 0.3, 0.6) and a known count exactly at the boundary"),
 'C02-b': ("aggregate(max) starts its accumulator from the zero value instead of values[0]", "method max and a coarser interval whose known finer values are all negative"),
 'C03-a': ("UpdatePointForArchive passes t-1s to findBestArchive ('from is exclusive')", "a single update whose age equals a non-last archive's retention exactly"),
 'C03-b': ("UpdatePointsForArchive sorts only when archiveID == best", "a named archive, an unsorted batch, and a too-old point positioned after an in-range point"),
 'C04-a': ("FetchFromArchive clamps with the file's max retention instead of the selected archive's", "multi-archive file, explicitly named non-last archive, window reaching before that archive's retention"),
 'C04-b': ("'in the future' test also swallows from == now (`>=`)", "a window whose from equals the clock value exactly"),
 'C05-a': ("page buffer sized to a whole number of pages via a new helper", "file size not a page multiple, a write into the tail page, a Sync, and an observer that checks the file length"),
 'C05-b': ("updateFileDataWithPointsList ends with `return db.Sync()`", "an existing destination and a failure in printFileData after the update (text-out writes failing beyond the bufio buffer)"),
 'C06-a': ("interval/intervalForWrite rewritten with Duration(t) % step (int32)", "timestamps >= 2^31 on archives whose step does not divide 2^32; visible only to an independent reader"),
 'C06-b': ("archiveUpdateMany skips points at or before now-retention", "never-written archive, bulk update whose oldest point lies in the expired edge interval, no point in the current interval"),
 'C07-a': ("validate: `!(a.step < next.step)` became `a.step > next.step`", "two neighbouring archives with equal steps that satisfy every other pairwise rule"),
 'C07-b': ("ArchiveInfo.validate bounds the retention with `MaxRetention() <= 0` (int32 product)", "a step*points product that overflows and wraps into (0, 2^31); reachable through NewHeader/Create/TakeFrom/Open only"),
 'C08-a': ("openOrCreateCopyDestFile no longer syncs the header after Create", "destination absent and nothing to copy in the window (early return before the final Sync)"),
 'C08-b': ("copy's layout check compares the source layout with the command's -retentions instead of the destination file's", "existing destination with different point counts but same steps, -retentions equal to the source, narrow window inside all retentions"),
 'C09-a': ("diff's glob loop assigns diffFound = errors.Is(...) on every iteration", "glob mode, at least two files, a differing file followed by a clean one"),
 'C09-b': ("diffOneFile calls DiffExcludeSrcNaN instead of Diff", "a slot that is NaN in the source but has a value in the destination"),
 'C10-a': ("sumTimeSeriesListForArchive rewritten to `sumValues[j] += v` skipping NaN addends only", "at least two files and a hole in the first-sorted file at a slot another file has"),
 'C10-b': ("sum's layout loop compares file 0 with file 0 (index slip)", "files with equal archive counts and steps but different point counts, window inside every retention"),
 'C11-a': ("openOrCreateCopyDestFile no longer syncs the header after Create (sum-copy path)", "destination absent and the sum over the window all NaN"),
 'C11-b': ("sum-diff's item loop assigns diffFound = errors.Is(...) on every iteration", "at least two items, a deviating item that is not last"),
 'C12-a': ("readWhisperFileRemote wraps the decoder's error with fmt.Errorf(%w)", "a file missing from the served tree read with a URL base (os.IsNotExist does not unwrap)"),
 'C12-b': ("sumWhisperFileRemote escapes item and pattern with url.PathEscape", "an item directory or pattern containing + or &"),
 'C13-a': ("openAndLockFile skips the flock when the open flags contain O_EXCL", "someone opens the path while a default-flag Create handle is still open"),
 'C13-b': ("Open's 'file too short' branch lost its w.file.Close()", "a file with a valid complete header but a short body, then another Open of the same path"),
 'C14-a': ("Points.TakeFrom returns early for count == 0 before advancing past the 8-byte count", "an empty point list followed by more data (remote view-raw of one archive of a multi-archive file)"),
 'C14-b': ("Point.TakeFrom loses its up-front length guard", "a truncated point of 8..11 bytes handed to Point.TakeFrom directly"),
 'C15-a': ("validateAggregationMethod delegates to the generated IsAAggregationMethod (accepts mix, percentile)", "a header whose method word is 7 or 8, two archives, and a propagating update"),
 'C15-b': ("Points.TakeFrom bounds the count by MaxInt64 instead of by the size", "a count < 2^63 whose product with 12 wraps 64 bits"),
 'C16-a': ("withTextOutWriter's named result replaced by a plain error result", "a text-out file that opens but cannot be flushed (full disk, /dev/full) with output below 4 KiB"),
 'C16-b': ("openOrCreateCopyDestFile no longer syncs the header after Create", "destination absent and nothing to copy in the window"),
 'C17-a': ("sum workers append results under a mutex instead of writing their own index", "per-file reads finishing out of glob order and order-sensitive data (float sums, differing first header)"),
 'C17-b': ("fetchRawPoints bulk-reads into a handle-level scratch buffer", "two concurrent fetches on one handle whose windows do not reach the archive's physical end"),
 'C18-a': ("zero-length-window adjustment moved into filterPointsListByTimeRange's loop (until becomes loop-carried)", "-from X -until X on a file with at least two archives"),
 'C18-b': ("Value.String prints with 'g', 16", "values needing 17 significant digits"),
 'C19-a': ("leadingInt accumulates in int64 and checks the bound once after the loop", "a numeral of 20 or more digits whose value mod 2^64 is at most MaxInt32"),
 'C19-b': ("ParseTimestamp rejects times above MaxInt32", "a timestamp with bit 31 set (2038..2106)"),
 'C20-a': ("randomPoints uses `t <= thisHighStartTime` for the plain random branch", "a generation instant at which the finer archive's oldest slot lands exactly on a coarser slot boundary"),
 'C20-b': ("generate's final Sync moved inside the `if c.Fill` block", "generate -fill=false"),
 # ---- round 2
 'C01-a-r2': ("intervalForWrite computed as t.Add(-(Duration(t) % step)) ('timestamps are never negative')", "t >= 2^31 (2038+) and a step that does not divide 2^32; the read-side interval() is untouched"),
 'C01-b-r2': ("archiveUpdateMany aligns r.filterPoints(points, now): batch points dated after now are dropped", "a batch containing a point later than now, then a clock advance or a fetch of the displaced interval"),
 'C02-a-r2': ("propagate skips a coarser slot whose interval is at or before now-retention of that archive", "a coarser ring barely longer than the finer one and an old-but-accepted point"),
 'C02-b-r2': ("xFilesFactor gate moved to a helper and rewritten as float32(known) >= xff*float32(total)", "specific (ratio, xff, known) combinations at the boundary where the product rounds up"),
 'C03-a-r2': ("extractPoints is given r.intervalForWrite(now) instead of now", "step > 1 s, now off a step boundary, a point just past the retention boundary"),
 'C03-b-r2': ("sort.Stable only when archiveID == best", "named archive, non-ascending batch, a stale point after a fresh one"),
 'C04-a-r2': ("future test uses latest = r.intervalForWrite(now): from > latest returns nil", "step > 1 s, now not step-aligned, from inside the newest open slot"),
 'C04-b-r2': ("fetchRawPoints returns points[:i]", "a written archive whose stored base point is not step-aligned and a window straddling it"),
 'C05-a-r2': ("Close flushes while a new headerUnwritten flag is set (created, never synced)", "a handle from Create abandoned before its first Sync"),
 'C05-b-r2': ("updateFileDataWithPointsList ends with return db.Sync()", "existing destination, differences to copy, and a text-out failure beyond the bufio buffer"),
 'C06-a-r2': ("clearOldPoints compares with < instead of !=", "a slot label newer than the window expects (future-dated point or clock stepped back), read by both readers"),
 'C06-b-r2': ("create-time Sync removed from the shared helper; only copy's early return syncs, sum-copy's does not", "sum-copy into a missing destination with nothing to copy"),
 'C07-a-r2': ("ParseDuration's pre-multiplication overflow check removed", "a product of 2^32 or more that wraps to a small positive value (1s:7102w)"),
 'C07-b-r2': ("validateAggregationMethod delegates to IsAAggregationMethod (accepts mix, percentile)", "method 7 or 8 through NewHeader/Create/TakeFrom/Open"),
 'C08-a-r2': ("updateFileDataWithPointsList loses its now parameter and passes 0 (library clock) to UpdatePointsForArchive", "the wall clock crosses a step boundary between read and write and the window reaches the retention edge"),
 'C08-b-r2': ("archiveUpdateMany skips NaN points", "-copy-nan and a source hole over a slot where the destination has a value"),
 'C09-a-r2': ("withTextOutWriter calls finish() only when the body returned nil", "-text-out to a file and a difference verdict (ErrDiffFound)"),
 'C09-b-r2': ("convertRemoteErrNotExist wraps the PathError with fmt.Errorf(%w)", "a URL base and a file missing on that side"),
 'C10-a-r2': ("setRespForNotExistErr returns a 404 httpError with a text body", "server mode and an item or file pattern that matches nothing"),
 'C10-b-r2': ("sum's layout loop compares neighbours i, i+1 for i in 1..n-2", "the odd file sorts first (or only two files), layouts differ in retention only, window inside the common retention"),
 'C11-a-r2': ("sumCopyItem passes item and builds the destination path from item instead of itemToRelDir(item)", "an item more than one directory level deep"),
 'C11-b-r2': ("openOrCreateCopyDestFile no longer syncs the header after Create", "destination absent and the sum NaN in every slot of the window"),
 'C12-a-r2': ("glob clients parse the response with strings.Fields via an extracted helper", "a matched file or item name containing a space or tab"),
 'C12-b-r2': ("sumWhisperFileRemote wraps the error with fmt.Errorf(%w)", "item glob succeeds, the per-item source pattern matches nothing, source is a URL"),
 'C13-a-r2': ("openAndLockFile split; Open reads Stat/header before taking the lock", "a second Open started while the first handle is open, first session modifies page 0"),
 'C13-b-r2': ("explicit closes replaced by one deferred close guarded by a shadowed err", "any failure after the descriptor is obtained, then another access before a GC cycle"),
 'C14-a-r2': ("Points.TakeFrom returns early for count == 0 before consuming the count", "an empty list followed by more data"),
 'C14-b-r2': ("TimeSeries.TakeFrom loses its leading 12-byte guard", "a series message cut inside its fixed part"),
 'C15-a-r2': ("validateAggregationMethod delegates to IsAAggregationMethod", "method field 7 or 8, two archives, a propagating update"),
 'C15-b-r2': ("validate ranges over aa[:len(aa)-1]: the last (or only) archive is not validated on its own", "a bad step/count in the last archive; step 0 needs a single-archive file"),
 'C16-a-r2': ("diff's glob loop assigns diffFound = err != nil on every iteration", "glob of at least two files, the bad file not last, the last file equal"),
 'C16-b-r2': ("openOrCreateCopyDestFile no longer syncs the header after Create", "destination absent and nothing to copy"),
 'C17-a-r2': ("wrapHandler's hErr variable hoisted out of the per-request closure", "two failing requests in flight on the same endpoint (race detector)"),
 'C17-b-r2': ("sum worker assigns to the enclosing function's err (= instead of :=)", "two or more files (race detector); visible wrong result needs an unreadable file and a particular interleaving"),
 'C18-a-r2': ("filterPointsByTimeRange breaks out of its loop at the first slot newer than until", "a wrapped archive and an explicit -until older than slot 0's time"),
 'C18-b-r2': ("Value.String gets an integer fast path through int64", "a stored value that is +-Inf or has magnitude >= 2^63"),
 'C19-a-r2': ("leadingInt accumulates in int64 with one range check after the loop", "a numeral of 20+ digits whose value mod 2^64 lies in [1, 2^31-1]"),
 'C19-b-r2': ("TimestampFromStdTime clamps to [0, MaxInt32]", "a time at or after 2038-01-19T03:14:08Z"),
 'C20-a-r2': ("generate's final Sync moved inside if c.Fill", "generate -fill=false"),
 'C20-b-r2': ("Timestamp.Truncate implemented with time.Time.Truncate (grid relative to year 1)", "a layout containing a step that does not divide 719162 days (1w, 3d, 7s)"),
 # ---- round 3 (changes riding on refactorings)
 'C01-a-r3': ("fetchRawPoints rewritten with a chunked bulk-read helper whose offset is advanced after the chunk was consumed (adds 0)", "a window with a contiguous run of more than one page of slots (341 on 4 KiB pages)"),
 'C01-b-r3': ("archiveUpdateMany skips NaN points ('nothing to store')", "a batch write of NaN over a live value of the same interval"),
 'C02-a-r3': ("propagateChain/propagate clean-up: a shadowed `points` makes deeper levels recompute from the originally written points", "three archives, a batch touching a stored and a rejected next-level slot"),
 'C02-b-r3': ("xFilesFactor gate hoisted to minKnown := ceil(float64(xff)*slots), compared with len(values)", "an xFilesFactor inexact in float32 and a known fraction exactly at the boundary"),
 'C03-a-r3': ("named-archive batch path reuses ArchiveInfo.filterPoints (>= intervalForWrite(now-retention))", "a named-archive batch containing a point whose age equals the retention"),
 'C03-b-r3': ("UpdatePointForArchive delegates to UpdatePointsForArchive (archive chosen by retention > age instead of >=)", "a single update whose age equals a non-coarsest archive's retention"),
 'C04-a-r3': ("archive lookup extracted into lookupArchive, which treats every negative id as 'best'", "FetchFromArchive with an id <= -2"),
 'C04-b-r3': ("fetchRawPoints rewritten as one ring loop whose length is the difference of two truncated slot indexes", "a stored base point that is not step-aligned and a window straddling it"),
 'C05-a-r3': ("sum-copy closes its destination through a deferred Sync+Close helper on every exit path", "a failure after the update and before the old final Sync (unwritable text-out)"),
 'C05-b-r3': ("openOrCreateCopyDestFile replaced Open/Create(O_EXCL) by Create with O_RDWR|O_CREATE", "an existing destination whose header or size differs from the command-line layout"),
 'C06-a-r3': ("interval/intervalForWrite tidied to t.Add(-(Duration(t) % step)) (int32 remainder)", "timestamps >= 2^31 and a step that does not divide 2^32; visible to the reference reader"),
 'C06-b-r3': ("extracted ArchiveInfo.size() uint32 multiplies in 32 bits where validate and ExpectedFileSize multiplied in 64", "a layout in which one archive exceeds 4 GiB"),
 'C07-a-r3': ("31-bit retention check moved from every archive to the last one only", "a middle archive whose retention overflows and wraps between its neighbours'"),
 'C07-b-r3': ("the two six-way method switches replaced by IsStorable() { return m < Mix } (no lower bound)", "aggregation method 0 (or negative) through NewHeader/Create/TakeFrom/Open"),
 'C08-a-r3': ("DiffPoints/DiffPointsExcludeSrcNaN merged into a helper that advances the slot time at the loop bottom, after the NaN `continue`", "a source with a NaN hole followed by values, -copy-nan off"),
 'C08-b-r3': ("copy's glob loop logs a failing file, carries on and returns the last iteration's err", "glob mode, a failing file that is not last"),
 'C09-a-r3': ("diffOneFile's two readers merged into a closure factory; the destination call passes srcRelPath", "single-file diff with -dest different from -src"),
 'C09-b-r3': ("readWhisperFileLocal wraps errors with %w and WrapFileNotExistError moves to errors.Is; the server handlers keep os.IsNotExist", "a file missing behind a whispertool server"),
 'C10-a-r3': ("sum accumulation rewritten as copy-first-then `+=` skipping NaN addends only", "two or more files and a hole in the first-sorted one"),
 'C10-b-r3': ("glob prologue of sumWhisperFileLocal extracted; the not-exist PathError is wrapped with %w", "a non-matching -src pattern through the server or sum-diff"),
 'C11-a-r3': ("sumCopyItem drops itemRelDir and joins the dotted item name into the destination path", "an item in a nested directory"),
 'C11-b-r3': ("UpdatePointsForArchive filters NaN points through a new knownPoints helper", "a destination holding a stale value where the sum is NaN"),
 'C12-a-r3': ("not-exist handling centralised in wrapHandler; handleItems/handleFiles still wrap glob errors in a 400 httpError", "a non-matching item or file pattern through a URL"),
 'C12-b-r3': ("time-range query string extracted into a helper; the sum call passes (from, now, until)", "remote sum with an explicit -until in the past and a from older than now-retention"),
 'C13-a-r3': ("error-path closes of Open/Create converted to a defer that watches the function-level err, which the failing paths shadow", "a failed Open/Create followed by another lock attempt on the path"),
 'C13-b-r3': ("openAndLockFile split; Open reads and validates the header before taking the lock", "two overlapping sessions modifying page 0"),
 'C14-a-r3': ("takeFields helper reports the wanted size from the start of src but computes consumed after rest was set to nil", "a truncated Point (5..11 bytes) or TimeSeries prologue"),
 'C14-b-r3': ("Points.TakeFrom returns early for a zero count before consuming the count", "an empty point list followed by another message"),
 'C15-a-r3': ("shared checkElementsSize(int count) helper; Points.TakeFrom converts the uint64 count to int first", "an 8-byte count >= 2^63 in a hostile view-raw response"),
 'C15-b-r3': ("validateAggregationMethod delegates to the generated IsAAggregationMethod (accepts mix, percentile)", "a header with method 7 or 8, two archives, a propagating update"),
 'C16-a-r3': ("archive selection extracted into archiveIDRange, which rejects id > count instead of >=", "view-raw -archive N on an N-archive file (index out of range panic)"),
 'C16-b-r3': ("diff/sum-diff loops merged into diffEach, which assigns diffFound = errors.Is(...) per item", "two or more items, a differing or missing one that is not last"),
 'C17-a-r3': ("response encoding moved to a helper with a pooled buffer that is Put back (defer) before the handler writes it", "overlapping requests with a slow-reading client"),
 'C17-b-r3': ("sum workers assign to the enclosing function's err (= instead of :=)", "concurrent reads; -race, or an unreadable file"),
 'C18-a-r3': ("view-raw sorts before filtering and cuts the range with sort.Search using Time >= until for the upper bound", "-sort and a written slot stamped exactly `until`"),
 'C18-b-r3': ("PointsList.Print formats times with time.Unix(...).AppendFormat, bypassing the UTC conversion", "a non-UTC process time zone"),
 'C19-a-r3': ("leadingInt accumulates in int64 and checks the 32-bit range once after the loop", "a numeral of 19 or more digits (>= 2^63)"),
 'C19-b-r3': ("ParseTimestamp gains a range check against MaxInt32; timestampValue.Set/String call it", "a timestamp with bit 31 set (2038..2106)"),
 'C20-a-r3': ("Create's cleanup defer also os.Remove(filename), registered before the exclusive open", "generate onto an existing file"),
 'C20-b-r3': ("fill block extracted into fill(); the no-fill early return skips db.Sync()", "generate -fill=false"),
}

def main():
    rnd = sys.argv[1]            # e.g. /tmp/seed
    suffix = sys.argv[2]         # '' or 'r2'
    verifies = {}
    for f in sys.argv[3:-1]:
        for l in open(f):
            d = json.loads(l)
            if d.get('valid'):
                verifies[d['src']] = d
    matrix = {}
    for l in open(sys.argv[-1]):
        d = json.loads(l)
        matrix[d['src']] = d
    base = os.popen('git -C /repo rev-parse --short HEAD').read().strip()
    for src in sorted(glob.glob(os.path.join(rnd, 'out-C*', '[ab]'))):
        prop = os.path.basename(os.path.dirname(src)).replace('out-', '')
        x = os.path.basename(src)
        sid = f'{prop}-{x}' + (f'-{suffix}' if suffix else '')
        flat = os.path.join(rnd, 'flat', sid)
        v = verifies.get(src) or verifies.get(flat)
        mx = matrix.get(src) or matrix.get(flat)
        if not v or not mx:
            print('skip (not verified / no matrix):', sid)
            continue
        dst = os.path.join('/verif/seeded', sid)
        os.makedirs(dst, exist_ok=True)
        for f in os.listdir(src):
            if f.endswith(('.diff', '.go', '.txt', '.md')):
                shutil.copy(os.path.join(src, f), os.path.join(dst, f))
        summary, needs = DESC.get(sid, (None, None))
        if summary is None:
            nt = open(os.path.join(src, 'notes.md')).read() if os.path.exists(os.path.join(src, 'notes.md')) else ''
            summary, needs = nt.strip().split('\n')[0][:300], 'see notes.md'
        det = {p: r for p, r in mx['detected_by'].items()}
        meta = {
            'id': sid,
            'property': prop,
            'origin': 'fresh sub-agent given only the property text and its own scratch worktree; nothing from /verif',
            'summary': summary,
            'needs_to_manifest': needs,
            'verification': {
                'script': 'tools/verify_seed.py (scratch worktree of /repo HEAD outside /repo and /verif, removed afterwards)',
                'base_commit': v.get('base'),
                'patch_applies': v['applies'], 'build_and_vet_clean': v['build_vet'], 'existing_suite_passes_with_patch': v['suite_pass'],
                'demo_cmd': v.get('demo_cmd'), 'demo_fails_with_patch': v['demo_fails_with_patch'], 'demo_passes_without_patch': v['demo_passes_without_patch'],
                'touches_test_files': v['touches_tests'],
            },
            'detected_by': det,
            'detected_by_own_property_check': prop in det,
            'matrix_run': 'tools/seed_matrix.py: patch applied to a scratch copy of /repo, all 20 quick checks run with -repo <copy>',
            'matrix_base_commit': base,
        }
        json.dump(meta, open(os.path.join(dst, 'meta.json'), 'w'), indent=1)
        print(sid, 'detected by', sorted(det) or 'NOTHING')

if __name__ == '__main__':
    main()
