#!/usr/bin/env python3
"""For one seeded change: applies it to a scratch copy of /repo and runs all 20 quick checks (no controls) against the copy.
Prints a JSON line {src, detected_by: {prop: [rules]}}."""
import json, os, re, shutil, subprocess, sys, tempfile
src = sys.argv[1]
scratch = tempfile.mkdtemp(prefix='wtmx', dir='/tmp')
ev = tempfile.mkdtemp(prefix='wtev', dir='/tmp')
try:
    # copy of the committed tree (immune to patches temporarily applied to /repo's working tree)
    subprocess.check_call('git -C /repo archive HEAD | tar -x -C ' + scratch, shell=True)
    rc = subprocess.run(['git', 'apply', os.path.join(src, 'patch.diff')], cwd=scratch, capture_output=True, text=True, env=dict(os.environ, GIT_CEILING_DIRECTORIES='/tmp'))
    out = {'src': src, 'applies': rc.returncode == 0, 'detected_by': {}}
    if rc.returncode == 0:
        for i in range(1, 21):
            p = 'C%02d' % i
            r = subprocess.run(['/verif/bin/wtcheck', '-property', p, '-repo', scratch, '-no-controls', '-evidence-dir', ev], capture_output=True, text=True, cwd='/verif')
            rules = sorted(set(re.findall(r'(?:VIOLATED|UNDECIDED) (\S+) \[', r.stdout)))
            if r.returncode != 0:
                out['detected_by'][p] = rules
    print(json.dumps(out))
finally:
    shutil.rmtree(scratch, ignore_errors=True)
    shutil.rmtree(ev, ignore_errors=True)
