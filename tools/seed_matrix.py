#!/usr/bin/env python3
"""For one seeded change: applies it to a scratch copy of /repo and runs the rules of all 20 properties (wtcheck -all: one load, no controls) against the copy.
Prints a JSON line {src, detected_by: {prop: [rules]}}."""
import json, os, re, shutil, subprocess, sys, tempfile
src = sys.argv[1]
scratch = tempfile.mkdtemp(prefix='wtmx', dir='/tmp')
ev = tempfile.mkdtemp(prefix='wtev', dir='/tmp')
try:
    # copy of the committed tree (immune to patches temporarily applied to /repo's working tree)
    subprocess.check_call('git -C /repo archive HEAD | tar -x -C ' + scratch, shell=True)
    rc = subprocess.run(['git', 'apply', os.path.join(src, 'patch.diff')], cwd=scratch, capture_output=True, text=True, env=dict(os.environ, GIT_CEILING_DIRECTORIES='/tmp'))
    out = {'src': src, 'applies': rc.returncode == 0, 'detected_by': {}}
    if rc.returncode == 0:
        r = subprocess.run([os.environ.get('WTCHECK', '/verif/bin/wtcheck'), '-all', '-repo', scratch], capture_output=True, text=True, cwd='/verif')
        for l in r.stdout.splitlines():
            m = re.match(r'^(C\d\d) FAIL \S+ (?:VIOLATED|UNDECIDED) (\S+) \[', l)
            if m:
                rs = out['detected_by'].setdefault(m.group(1), [])
                if m.group(2) not in rs:
                    rs.append(m.group(2))
        for p in out['detected_by']:
            out['detected_by'][p].sort()
    print(json.dumps(out))
finally:
    shutil.rmtree(scratch, ignore_errors=True)
    shutil.rmtree(ev, ignore_errors=True)
