#!/usr/bin/env python3
"""For one behaviour-preserving refactoring: applies it to a scratch copy of /repo's committed tree and runs all 20 quick
checks (no controls). Any non-zero exit is a false alarm. Prints a JSON line {src, alarms: {prop: [lines]}}."""
import json, os, re, shutil, subprocess, sys, tempfile
src = sys.argv[1]
scratch = tempfile.mkdtemp(prefix='wtbn', dir='/tmp')
ev = tempfile.mkdtemp(prefix='wtev', dir='/tmp')
try:
    subprocess.check_call('git -C /repo archive HEAD | tar -x -C ' + scratch, shell=True)
    rc = subprocess.run(['git', 'apply', os.path.join(src, 'patch.diff')], cwd=scratch, capture_output=True, text=True, env=dict(os.environ, GIT_CEILING_DIRECTORIES='/tmp'))
    out = {'src': src, 'applies': rc.returncode == 0, 'alarms': {}}
    if rc.returncode == 0:
        for i in range(1, 21):
            p = 'C%02d' % i
            r = subprocess.run([os.environ.get('WTCHECK', '/verif/bin/wtcheck'), '-property', p, '-repo', scratch, '-no-controls', '-evidence-dir', ev], capture_output=True, text=True, cwd='/verif')
            if r.returncode != 0:
                out['alarms'][p] = [l[:400] for l in r.stdout.splitlines() if re.search(r'VIOLATED|UNDECIDED|panic', l)][:6]
    print(json.dumps(out))
finally:
    shutil.rmtree(scratch, ignore_errors=True)
    shutil.rmtree(ev, ignore_errors=True)
