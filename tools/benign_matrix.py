#!/usr/bin/env python3
"""For one behaviour-preserving refactoring: applies it to a scratch copy of /repo's committed tree and runs the rules of
all 20 properties on it (wtcheck -all: one load, no controls, no evidence). Any report is a false alarm.
Prints a JSON line {src, applies, alarms: {prop: [lines]}}. $WTCHECK selects the binary."""
import json, os, re, shutil, subprocess, sys, tempfile
src = sys.argv[1]
scratch = tempfile.mkdtemp(prefix='wtbn', dir='/tmp')
try:
    subprocess.check_call('git -C /repo archive HEAD | tar -x -C ' + scratch, shell=True)
    rc = subprocess.run(['git', 'apply', os.path.join(src, 'patch.diff')], cwd=scratch, capture_output=True, text=True, env=dict(os.environ, GIT_CEILING_DIRECTORIES='/tmp'))
    out = {'src': src, 'applies': rc.returncode == 0, 'alarms': {}}
    if rc.returncode == 0:
        r = subprocess.run([os.environ.get('WTCHECK', '/verif/bin/wtcheck'), '-all', '-repo', scratch], capture_output=True, text=True, cwd='/verif')
        for l in r.stdout.splitlines():
            m = re.match(r'^(C\d\d) FAIL (.*)', l)
            if m:
                out['alarms'].setdefault(m.group(1), []).append(m.group(2)[:400])
            elif l.startswith('LOAD-FAILED') or 'panic' in l:
                out['alarms'].setdefault('LOAD', []).append(l[:400])
        if r.returncode != 0 and not out['alarms']:
            out['alarms']['LOAD'] = [r.stdout[-400:] + r.stderr[-400:]]
    print(json.dumps(out))
finally:
    shutil.rmtree(scratch, ignore_errors=True)
