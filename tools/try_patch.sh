#!/bin/sh
# usage: try_patch.sh <patch.diff> <property>...   — applies the patch to /repo, runs the quick checks, reverts.
P=$1; shift
cd /repo || exit 2
if [ -n "$(git status --porcelain)" ]; then echo "/repo not clean"; exit 2; fi
git apply "$P" || { echo "patch does not apply"; exit 2; }
trap 'git -C /repo checkout -- . ; git -C /repo clean -fdq' EXIT
cd /verif
for id in "$@"; do
  ./bin/wtcheck -property $id > /tmp/try_$id.out 2>&1; rc=$?
  echo "== $id exit=$rc"; grep -E "VIOLATED|UNDECIDED|VIOLATION|KNOWN" /tmp/try_$id.out | head -8
done
