#!/usr/bin/env python3
"""Rewrites detected_by in /verif/seeded/<id>/meta.json from a detection matrix produced by tools/seed_matrix.py
(run over the seeded directories themselves). usage: update_seed_meta.py <matrix.jsonl>"""
import json, os, sys
n = 0
for l in open(sys.argv[1]):
    d = json.loads(l)
    mp = os.path.join(d['src'], 'meta.json')
    if not os.path.exists(mp):
        continue
    m = json.load(open(mp))
    m['detected_by'] = d['detected_by']
    own = m['id'][:3]
    if own not in d['detected_by']:
        print('NOT DETECTED BY OWN PROPERTY:', m['id'], list(d['detected_by']))
    json.dump(m, open(mp, 'w'), indent=1, sort_keys=True)
    n += 1
print(n, 'updated')
