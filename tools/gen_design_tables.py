#!/usr/bin/env python3
"""Regenerates the generated parts of DESIGN.md (between <!-- GEN:x --> and <!-- /GEN:x --> markers):
rules (rule inventory from the committed evidence files), corpus (mutants/INDEX.json), seeded (seeded/*/meta.json)."""
import glob, json, os, re
V = '/verif'

def rules_table():
    out = ['| property | rule | examined | floor | what it decides |', '|---|---|---|---|---|']
    for f in sorted(glob.glob(os.path.join(V, 'evidence', 'C*.json'))):
        e = json.load(open(f))
        for r in e['coverage'].get('rules', []):
            m = re.match(r'^(\S+) \(examined (\d+), floor (\d+)\): (.*)$', r, re.S)
            if not m:
                continue
            rid, ex, fl, doc = m.groups()
            if rid in ('G0', 'G.control') or not doc.strip():
                continue
            out.append(f"| {e['property_id']} | {rid} | {ex} | {fl} | {doc.strip()} |")
    return '\n'.join(out)

def corpus_table():
    idx = json.load(open(os.path.join(V, 'mutants', 'INDEX.json')))
    out = ['| variant | breaks | expected rule(s) | quick-tier control | properties whose check runs it |', '|---|---|---|---|---|']
    for e in idx:
        out.append(f"| {e['id']} | {e['note']} | {', '.join(e['expect_rules'])} | {'yes' if e['control'] else ''} | {', '.join(e['properties'])} |")
    return '\n'.join(out)

def seeded_table():
    out = ['| id | change | needs, to manifest | detected by (property: rules) |', '|---|---|---|---|']
    for f in sorted(glob.glob(os.path.join(V, 'seeded', '*', 'meta.json'))):
        m = json.load(open(f))
        det = '; '.join(f"{p}: {', '.join(r)}" for p, r in sorted(m['detected_by'].items())) or '**not detected**'
        out.append(f"| {m['id']} | {m['summary']} | {m['needs_to_manifest']} | {det} |")
    return '\n'.join(out)

def benign_table():
    idx = json.load(open(os.path.join(V, 'benign', 'INDEX.json')))
    out = ['| round | refactorings | silent on all 20 checks | alarming (property checks that raise) |', '|---|---|---|---|']
    names = {'r1': 'round 1 (extraction, early returns, guarded defers, locals)', 'r2': 'round 2 (renames, getters/fields, receivers, mirrored tests, loops, inlined-and-deleted helpers)', 'r3': 'round 3 (everyday clean-ups, unseen by the machinery when written)', 'r4': 'round 4 (larger clean-ups mixing several kinds, unseen when written)', 'r5': 'round 5 (aimed at the functions the post-mutation rules read)', 'r6': 'round 6 (aimed at the functions the rules of the fourth seeding round read)', 'r7': 'round 7 (aimed at the functions the rules of the fifth seeding round read)', 'r8': 'round 8 (aimed at the functions the rules of the sixth seeding round read)', 'r9': 'round 9 (aimed at the functions the rules of the seventh seeding round read)', 'r10': 'round 10 (aimed at the functions the rules of the eighth seeding round read)', 'r11': 'round 11 (aimed at the functions the rules of the ninth and tenth seeding rounds read)', 'r12': 'round 12 (aimed at the functions the rules of the eleventh seeding round read)'}
    for rn in ('r1', 'r2', 'r3', 'r4', 'r5', 'r6', 'r7', 'r8', 'r9', 'r10', 'r11', 'r12'):
        es = [e for e in idx if e['id'].startswith(rn + '-')]
        bad = [e for e in es if not e.get('silent')]
        lst = '; '.join(f"{e['id']} ({', '.join(e.get('alarms', []))})" for e in bad) or 'none'
        out.append(f"| {names[rn]} | {len(es)} | {len(es) - len(bad)} | {lst} |")
    return '\n'.join(out)

def main():
    p = os.path.join(V, 'DESIGN.md')
    s = open(p).read()
    for name, fn in (('rules', rules_table), ('corpus', corpus_table), ('seeded', seeded_table), ('benign', benign_table)):
        a, b = f'<!-- GEN:{name} -->', f'<!-- /GEN:{name} -->'
        if a in s and b in s:
            s = s[:s.index(a) + len(a)] + '\n' + fn() + '\n' + s[s.index(b):]
    open(p, 'w').write(s)

if __name__ == '__main__':
    main()
