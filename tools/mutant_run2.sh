#!/bin/sh
# usage: mutant_run2.sh <n>  — second operator set (MUTATE_SET=${MUTATE_SET:-2}): applies mutation n to a scratch copy and classifies it:
#   nocompile | detected:<props> (checker first; tests not run) | killed (checker silent, tests fail) | SURVIVED
n=$1
export GOFLAGS=-mod=mod GOPROXY=off GOSUMDB=off GOTOOLCHAIN=local MUTATE_SET=${MUTATE_SET:-2}; unset GOWORK
bin=${WTCHECK:-/verif/bin/wtcheck}
d=$(mktemp -d /tmp/wtmu.XXXXXX); trap 'rm -rf "$d"' EXIT
git -C /repo archive HEAD | tar -x -C "$d"
desc=$(/verif/bin/mutate apply "$d" $n)
cd "$d"
if ! go build ./... >/dev/null 2>&1; then echo "$desc	nocompile"; exit 0; fi
if ! go vet ./... >/dev/null 2>&1; then echo "$desc	novet"; exit 0; fi
$bin -all -repo "$d" >"$d/.out" 2>&1
det=$(grep -E '^(C[0-9][0-9] FAIL|LOAD-FAILED)' "$d/.out" | cut -d' ' -f1 | sort -u | tr '\n' ' ')
if [ -n "$det" ]; then echo "$desc	detected: $det"; exit 0; fi
if ! go test -mod=mod -vet=off -count=1 -timeout 5m . ./cmd >/dev/null 2>&1; then echo "$desc	killed"; exit 0; fi
if ! go test -mod=mod -vet=off -count=1 -timeout 10m ./internal/... >/dev/null 2>&1; then echo "$desc	killed"; exit 0; fi
echo "$desc	SURVIVED"
