#!/usr/bin/env python3
"""Independently re-verifies a seeded change: applies patch.diff to a scratch worktree of /repo HEAD,
checks build+vet+full suite pass, the demo FAILS with the patch and PASSES without it. Prints one JSON line."""
import json, os, re, subprocess, sys, shutil, glob
ENV = dict(os.environ, GOFLAGS='-mod=mod', GOPROXY='off', GOSUMDB='off', GOTOOLCHAIN='local')
ENV.pop('GOWORK', None)
def run(cmd, cwd, timeout=1500):
    p = subprocess.run(cmd, cwd=cwd, env=ENV, shell=isinstance(cmd, str), capture_output=True, text=True, timeout=timeout)
    return p.returncode, (p.stdout + p.stderr)
def main(src):
    tag = src.strip('/').replace('/', '_')
    wt = f'/tmp/vs-{tag}'
    res = {'src': src}
    subprocess.run(['git', '-C', '/repo', 'worktree', 'remove', '--force', wt], capture_output=True)
    rc, out = run(['git', '-C', '/repo', 'worktree', 'add', '-q', '--detach', wt, 'HEAD'], '/')
    if rc: res['error'] = 'worktree: ' + out; return res
    try:
        res['base'] = run(['git', 'rev-parse', '--short', 'HEAD'], wt)[1].strip()
        rc, out = run(['git', 'apply', os.path.join(src, 'patch.diff')], wt)
        res['applies'] = rc == 0
        if rc: res['error'] = out[-400:]; return res
        res['touches_tests'] = any(l.startswith('+++') and '_test.go' in l for l in open(os.path.join(src, 'patch.diff')))
        rc, out = run('go build ./... && go vet ./...', wt)
        res['build_vet'] = rc == 0
        rc, out = run('go test -mod=mod -vet=off -count=1 -timeout 25m ./...', wt)
        res['suite_pass'] = rc == 0
        if rc: res['suite_tail'] = out[-600:]
        demos = [f for f in glob.glob(os.path.join(src, '*_test.go'))]
        res['demos'] = [os.path.basename(d) for d in demos]
        dirs, tests = set(), []
        for d in demos:
            txt = open(d).read()
            pkg = re.search(r'^package (\w+)', txt, re.M).group(1)
            sub = {'whispertool': '.', 'whispertool_test': '.', 'cmd': 'cmd', 'cmd_test': 'cmd', 'main': 'cmd/whispertool', 'compattest': 'internal/compattest'}.get(pkg, '.')
            shutil.copy(d, os.path.join(wt, sub, os.path.basename(d)))
            dirs.add(sub)
            tests += re.findall(r'^func (Test\w+)\(', txt, re.M)
        rx = '^(' + '|'.join(tests) + ')$'
        pk = ' '.join('./' + d if d != '.' else '.' for d in sorted(dirs))
        race = ''
        dc = os.path.join(src, 'DEMO_CMD.txt')
        if os.path.exists(dc) and '-race' in open(dc).read():
            race = '-race '
        cmd = f"go test -mod=mod -vet=off -count=1 -timeout 10m {race}-run '{rx}' {pk}"
        res['demo_cmd'] = cmd
        rc, out = run(cmd, wt)
        res['demo_fails_with_patch'] = rc != 0
        res['demo_with_tail'] = out[-500:]
        rc, out2 = run(['git', 'apply', '-R', os.path.join(src, 'patch.diff')], wt)
        if rc: res['error'] = 'revert: ' + out2; return res
        rc, out = run(cmd, wt)
        res['demo_passes_without_patch'] = rc == 0
        if rc: res['demo_without_tail'] = out[-500:]
        res['valid'] = bool(res['applies'] and res['build_vet'] and res['suite_pass'] and res['demo_fails_with_patch'] and res['demo_passes_without_patch'] and not res['touches_tests'])
    finally:
        subprocess.run(['git', '-C', '/repo', 'worktree', 'remove', '--force', wt], capture_output=True)
        shutil.rmtree(wt, ignore_errors=True)
    return res
if __name__ == '__main__':
    print(json.dumps(main(sys.argv[1])))
