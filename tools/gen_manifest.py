#!/usr/bin/env python3
"""Regenerates /verif/MANIFEST.json from the table below (run after arming or dropping a property)."""
import json, os
V = os.path.dirname(os.path.dirname(os.path.abspath(__file__)))
ids = [json.loads(l)['id'] for l in open(os.path.join(V, 'properties.jsonl'))]

# id -> (technique, level text, level note, design ref)
claimed = {}
exec(open(os.path.join(V, 'tools', 'claims.py')).read())

NA_DEFAULT = "check not built yet (DESIGN.md section 5 lists the rules planned); will be claimed when its rules are armed"
na_reasons = {}
if os.path.exists(os.path.join(V, 'tools', 'na.json')):
    na_reasons = json.load(open(os.path.join(V, 'tools', 'na.json')))

TRUST = ("Trusted base: go/types, go/ssa and callgraph/vta of golang.org/x/tools v0.29.0 (vendored); the rule code in /verif/checker; "
         "documented behaviour of the standard library and bitset (leaves); filebuffer analysed from the module cache. "
         "Before the rules run the tree is normalised against the reference inventory (checker/inventory.txt, checker/refsrc): renamed functions/fields/constants are resolved, "
         "functions that are new are expanded in place at their call sites, and an anchored function that was inlined and deleted is put back when the callers prove canonically equal "
         "to their reference text with it expanded (DESIGN.md 10.6); what was done is written to the evidence notes. The thorough tier also re-runs the rules under linux/386, darwin/arm64 "
         "and -tags tools, on the seeded-variant corpus (must be reported) and on behaviour-preserving refactorings and syntactic rewrites (must stay silent), and on the single-site mutants of the mutation campaigns that the tests do not notice (must be reported). "
         "Every check also evaluates <id>.RE (no failure is turned into success in the module functions reachable from the property's entry points) and the rules it borrows from the properties it depends on (DESIGN.md 10.8, 10.9). ")
checks = []
for i in ids:
    if i not in claimed:
        continue
    tech, text, note, ref = claimed[i]
    checks.append({
        "property_id": i,
        "quick_cmd": f"./bin/wtcheck -property {i} -tier quick",
        "thorough_cmd": f"./bin/wtcheck -property {i} -tier thorough",
        "evidence_file": f"/verif/evidence/{i}.json",
        "replay_cmd_template": "./bin/wtcheck -replay {path}",
        "engine": "wtcheck",
        "level_claimed": {"category": "other", "text": text, "design_ref": ref},
        "level_note": TRUST + note,
        "technique": tech,
    })
m = {
    "version": 1,
    "setup_cmd": "cd /verif/checker && GOFLAGS=-mod=vendor GOPROXY=off GOSUMDB=off GOTOOLCHAIN=local GOWORK=off go build -o /verif/bin/wtcheck .",
    "hooks": {"guard": "verif",
              "enable": "no hooks: the analysis reads /repo's production source as the compiler sees it (go/packages on the working tree on every run)",
              "baseline_off_cmd": "cd /repo && go test -mod=mod -vet=off -count=1 -timeout 25m ./...",
              "source_commits": [], "add_only": True},
    "engines": [{"name": "wtcheck", "path": "/verif/checker", "serves_properties": sorted(claimed),
                 "kind_free_text": "repository-specific static analyser (go/packages + go/types + go/ssa + VTA call graph): who-may-call, must-pass-through, return classification, truth tables and decision diagrams over abstract cases, codec cursor analysis, range/taint, effects, nil-contract, set agreement; source-level normalisation (helper expansion, rename resolution, re-outlining by canonical equality)"}],
    "checks": checks,
    "notes": "All claims are level 'other': each check decides named structural clauses (necessary conditions) of its property on every path of the current source; value clauses are listed as not decided in DESIGN.md section 5. Known findings: /verif/KNOWN_FINDINGS.txt.",
    "not_applicable": [{"property_id": i, "reason": na_reasons.get(i, NA_DEFAULT)} for i in ids if i not in claimed],
}
json.dump(m, open(os.path.join(V, 'MANIFEST.json'), 'w'), indent=1)
print("claimed:", sorted(claimed), "na:", [i for i in ids if i not in claimed])
