#!/bin/sh
# usage: seed_own.sh <seeded-dir>   — runs the check of the seed's own property on a scratch copy with the patch; prints "<id> DETECTED rules..." or "<id> MISSED"
s=$1; id=$(basename $s); p=$(echo $id | cut -c1-3)
d=$(mktemp -d /tmp/wtso.XXXXXX); trap 'rm -rf "$d"' EXIT
git -C /repo archive HEAD | tar -x -C "$d"
(cd "$d" && GIT_CEILING_DIRECTORIES=/tmp git apply "$s/patch.diff") || { echo "$id NOAPPLY"; exit 0; }
out=$(/verif/bin/wtcheck -property $p -repo "$d" -no-controls -evidence-dir "$d/.ev" 2>&1); rc=$?
rules=$(echo "$out" | grep -oE '(VIOLATED|UNDECIDED) [A-Z0-9.a-z]+' | awk '{print $2}' | sort -u | tr '\n' ' ')
if [ $rc -ne 0 ]; then echo "$id DETECTED $rules"; else echo "$id MISSED"; fi
