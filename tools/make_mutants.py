#!/usr/bin/env python3
"""Builds /verif/mutants/*.patch (the seeded-variant corpus of hand-written single-instance breakages)
from textual edit specs against /repo's current tree, checks that each variant compiles, and writes
/verif/mutants/INDEX.json. These are checker controls ("does the rule fire"), distinct from the
independently produced /verif/seeded/ changes. Re-run after /repo changes."""
import difflib, json, os, shutil, subprocess, sys, tempfile

REPO = '/repo'
OUT = '/verif/mutants'
ENV = dict(os.environ, GOFLAGS='-mod=mod', GOPROXY='off', GOSUMDB='off', GOTOOLCHAIN='local')
ENV.pop('GOWORK', None)

# id, property list, expected rule prefixes (any), control flag, edits [(file, old, new)], note
M = []
def m(id, props, rules, edits, note, control=False):
    M.append(dict(id=id, properties=props, expect_rules=rules, edits=edits, note=note, control=control))

m('C01-floormod', ['C01', 'C06'], ['C01.R1', 'C06.R6'], [('archive_info.go', 'return int(floorMod(pointDistance, int64(a.numberOfPoints)))', 'return int(pointDistance % int64(a.numberOfPoints))')], 'slot index by truncated %', True)
m('C01-no-clear', ['C01'], ['C01.R2'], [('whisper.go', '\tclearOldPoints(points, fromInterval, step)\n', '')], 'FetchFromArchive drops the stale-lap filter', True)
m('C01-raw-aggregate', ['C01', 'C02'], ['C01.R2'], [('whisper.go', 'values := filterValidValues(points, fromInterval, rHigh)', '_ = rHigh\n\t\tvalues := Points(points).Values()')], 'propagate aggregates raw slots')
m('C01-unaligned-write', ['C01'], ['C01.R3'], [('whisper.go', 'pt := Point{Time: myInterval, Value: v}', 'pt := Point{Time: t, Value: v}')], 'single update stores the unaligned time')
m('C01-filter-wrong-start', ['C01'], ['C01.R2'], [('whisper.go', 'clearOldPoints(points, fromInterval, step)', 'clearOldPoints(points, untilInterval, step)')], 'filter started at the wrong interval')
m('C02-no-empty-guard', ['C02'], ['C02.R1'], [('whisper.go', '\t\tif len(values) == 0 {\n\t\t\tcontinue\n\t\t}\n', '')], 'revert of the D1 fix', True)
m('C02-accept-mix', ['C02', 'C07', 'C15', 'C16'], ['C02.R2', 'C15.R6'], [('header.go', 'case Average, Sum, Last, Max, Min, First:', 'case Average, Sum, Last, Max, Min, First, Mix:')], 'validator accepts a method aggregate cannot compute', True)
m('C02-queue-before-store', ['C02'], ['C02.R4'], [('whisper.go', '''		knownFactor := float32(len(values)) / float32(len(points))
		if knownFactor < w.XFilesFactor() {
			continue
		}
''', '''		if rLow != nil {
			propagatedTs = append(propagatedTs, rLow.intervalForWrite(t))
		}
		knownFactor := float32(len(values)) / float32(len(points))
		if knownFactor < w.XFilesFactor() {
			continue
		}
''')], 'interval queued for the next level before the xff gate')
m('C02-last-is-first', ['C02'], ['C02.R5'], [('whisper.go', 'return knownValues[len(knownValues)-1]', 'return knownValues[0]')], 'last returns the first value')
m('C02-min-direction', ['C02'], ['C02.R5'], [('whisper.go', 'if value < min {', 'if value > min {')], 'min compares in the wrong direction')
m('C03-unstable-sort', ['C03'], ['C03.R1'], [('whisper.go', 'sort.Stable(Points(points))', 'sort.Sort(Points(points))')], 'unstable sort', True)
m('C03-no-range-check', ['C03'], ['C03.R2'], [('whisper.go', 'if t <= now.Add(-w.MaxRetention()) || now < t {', 'if now < t {')], 'too-old single updates accepted')
m('C03-split-drop', ['C03'], ['C03.R3'], [('whisper.go', 'return points[i+1:], points[:i+1]', 'return points[i+1:], points[:i]')], 'partition loses the stale point boundary', True)
m('C04-extension-after-branch', ['C04'], ['C04.R1', 'C04.R4'], [('whisper.go', '''	// Zero-length time range: always include the next point
	if fromInterval == untilInterval {
		untilInterval = untilInterval.Add(step)
	}

	if baseInterval == 0 {''', '''	if baseInterval == 0 {'''), ('whisper.go', '''	points, err := w.fetchRawPoints(arhiveID, fromInterval, untilInterval)''', '''	if fromInterval == untilInterval {
		untilInterval = untilInterval.Add(step)
	}
	points, err := w.fetchRawPoints(arhiveID, fromInterval, untilInterval)''')], 'revert of the D2 fix', True)
m('C04-best-after-clamp', ['C04'], ['C04.R4'], [('whisper.go', 'arhiveID = w.findBestArchive(from, now)', 'arhiveID = w.findBestArchive(from+1, now)')], 'best archive from a modified from')
m('C04-no-upper-id-check', ['C04'], ['C04.R3'], [('whisper.go', 'if (arhiveID != ArchiveIDBest && arhiveID < 0) || len(w.ArchiveInfoList())-1 < arhiveID {', 'if arhiveID != ArchiveIDBest && arhiveID < 0 {')], 'upper archive-id test dropped')
m('C05-close-flushes', ['C05'], ['C05.R1', 'C05.R4'], [('whisper.go', 'func (w *Whisper) Close() error {\n\treturn w.file.Close()', 'func (w *Whisper) Close() error {\n\tw.fileBuf.Flush()\n\treturn w.file.Close()')], 'Close flushes dirty pages', True)
m('C05-direct-write', ['C05'], ['C05.R3'], [('whisper.go', 'if _, err := w.fileBuf.WriteAt(dest, int64(offset)); err != nil {', 'if _, err := w.file.WriteAt(dest, int64(offset)); err != nil {')], 'slot written straight to the file', True)
m('C05-sync-no-fsync', ['C05'], ['C05.R2'], [('whisper.go', '''	if err := w.file.Sync(); err != nil {
		return err
	}
	return nil
}''', '''	return nil
}''')], 'Sync skips fsync')
m('C05-copy-no-sync', ['C05', 'C08', 'C16'], ['C05.R7'], [('cmd/copy.go', '''	if err := destDB.Sync(); err != nil {
		return err
	}
	return nil
}

func openOrCreateCopyDestFile''', '''	return nil
}

func openOrCreateCopyDestFile''')], 'copy omits the final Sync', True)
m('C05-update-syncs', ['C05'], ['C05.R1'], [('whisper.go', '''	if err := w.propagateChain(archiveID, alignedPoints, now); err != nil {
		return err
	}
	return nil
}

// UpdateMany''', '''	if err := w.propagateChain(archiveID, alignedPoints, now); err != nil {
		return err
	}
	return w.Sync()
}

// UpdateMany''')], 'library syncs on its own')
m('C06-little-endian', ['C06', 'C14'], ['C06.R2', 'C14.R1'], [('timestamp.go', 'binary.BigEndian.PutUint32(b[:], uint32(*t))', 'binary.LittleEndian.PutUint32(b[:], uint32(*t))')], 'timestamp encoded little-endian', True)
m('C06-swap-fields', ['C06', 'C14'], ['C06.R2', 'C14.R1'], [('header.go', '''	binary.BigEndian.PutUint32(b[:], math.Float32bits(h.xFilesFactor))
	dst = append(dst, b[:]...)

	binary.BigEndian.PutUint32(b[:], h.archiveCount)
	dst = append(dst, b[:]...)
''', '''	binary.BigEndian.PutUint32(b[:], h.archiveCount)
	dst = append(dst, b[:]...)

	binary.BigEndian.PutUint32(b[:], math.Float32bits(h.xFilesFactor))
	dst = append(dst, b[:]...)
''')], 'header fields swapped in the encoder')
m('C06-offset-step', ['C06'], ['C06.R3'], [('archive_info.go', '''		a.offset = off
		off += uint32(a.numberOfPoints) * pointSize''', '''		a.offset = off
		off += uint32(a.numberOfPoints) * uint32Size''')], 'offsets advance by 4 bytes per point')
m('C06-slot-scale', ['C06'], ['C06.R6'], [('archive_info.go', 'return a.offset + uint32(index)*pointSize', 'return a.offset + uint32(index)*uint64Size')], 'slot address scaled by 8')
m('C07-skip-validate', ['C07'], ['C07.R1'], [('header.go', '''	if err := h.archiveInfoList.validate(); err != nil {
		return nil, err
	}

	return src, nil''', '''	return src, nil''')], 'decoded headers are not validated', True)
m('C07-nan-xff', ['C07'], ['C07.R2'], [('header.go', 'if !(0 <= xFilesFactor && xFilesFactor <= 1) {', 'if xFilesFactor < 0 || 1 < xFilesFactor {')], 'revert of the D3 fix (library)', True)
m('C07-nan-xff-flag', ['C07'], ['C07.R2'], [('cmd/flags.go', 'if !(0 <= f && f <= 1) {', 'if f < 0 || 1 < f {')], 'revert of the D3 fix (flag)')
m('C07-retention-not-strict', ['C07'], ['C07.R3'], [('archive_info.go', 'if a.MaxRetention() >= rNext.MaxRetention() {', 'if a.MaxRetention() > rNext.MaxRetention() {')], 'equal retentions accepted')
m('C07-no-32bit', ['C07'], ['C07.R4'], [('archive_info.go', '''		if uint64(off)+uint64(a.numberOfPoints)*pointSize > math.MaxUint32 {''', '''		if uint64(off+a.numberOfPoints*pointSize) > math.MaxUint32 {''')], 'offset bound computed in wrapping uint32')
m('C08-wrong-nan-mode', ['C08'], ['C08.R4'], [('cmd/copy.go', '''	if c.CopyNaN {
		srcPlDif, destPlDif = srcTsList.Diff(destTsList)
	} else {
		srcPlDif, destPlDif = srcTsList.DiffExcludeSrcNaN(destTsList)
	}''', '''	if c.CopyNaN {
		srcPlDif, destPlDif = srcTsList.DiffExcludeSrcNaN(destTsList)
	} else {
		srcPlDif, destPlDif = srcTsList.Diff(destTsList)
	}''')], 'NaN modes swapped', True)
m('C08-write-dest-side', ['C08'], ['C08.R5'], [('cmd/copy.go', 'if err := updateFileDataWithPointsList(destDB, srcPlDif, now); err != nil {', 'if err := updateFileDataWithPointsList(destDB, destPlDif, now); err != nil {')], 'destination side of the diff written')
m('C08-no-range-check', ['C08'], ['C08.R2'], [('cmd/copy.go', '''	if !srcTsList.AllEqualTimeRangeAndStep(destTsList) {
		return errors.New("timeseries time ranges and steps are unalike. " +
			"retry reading input files before copying")
	}

	var srcPlDif''', '''	var srcPlDif''')], 'window agreement check dropped in copy')
m('C08-diff-predicate', ['C08', 'C09'], ['C08.R6'], [('timeseries.go', '''		if t != t2 || !v.Equal(v2) {
			pts = append(pts, Point{Time: t, Value: v})''', '''		if t != t2 && !v.Equal(v2) {
			pts = append(pts, Point{Time: t, Value: v})''')], 'DiffPoints requires both time and value to differ')
m('C08-source-written', ['C08'], ['C08.R1'], [('cmd/view.go', '''	tsList, err := fetchTimeSeriesList(db, archiveID, from, until, now)
	if err != nil {
		return nil, nil, err
	}
	return db.Header(), tsList, nil''', '''	tsList, err := fetchTimeSeriesList(db, archiveID, from, until, now)
	if err != nil {
		return nil, nil, err
	}
	db.Sync()
	return db.Header(), tsList, nil''')], 'the read side syncs the file it read')
m('C09-equal-nan', ['C09'], ['C09.R1'], [('timeseries.go', 'return (pIsNaN && qIsNaN) || (!pIsNaN && !qIsNaN && v == u)', 'return !pIsNaN && !qIsNaN && v == u')], 'two NaNs compare unequal', True)
m('C09-missing-is-error', ['C09'], ['C09.R2'], [('cmd/diff.go', '''			fmt.Fprintf(tow, "err:%s\\tsrcOrDest:%s\\n", err2.cause, err2.srcOrDest)
			return ErrDiffFound''', '''			fmt.Fprintf(tow, "err:%s\\tsrcOrDest:%s\\n", err2.cause, err2.srcOrDest)
			return err''')], 'a missing side fails diff instead of counting as a difference', True)
m('C09-exit-code', ['C09'], ['C09.R5'], [('cmd/whispertool/main.go', '''		if errors.Is(err, cmd.ErrDiffFound) {
			return 1
		}''', '''		if errors.Is(err, cmd.ErrDiffFound) {
			return 2
		}''')], 'difference and failure share an exit code')
m('C09-listing-operands', ['C09'], ['C09.R6'], [('cmd/diff.go', 'archiveID, srcPt.Time, srcPt.Value, destPt.Value, destPt.Value.Diff(srcPt.Value))', 'archiveID, srcPt.Time, srcPt.Value, destPt.Value, srcPt.Value.Diff(destPt.Value))')], 'listed difference has the wrong sign')
m('C09-wrap-side', ['C09'], ['C09.R4'], [('cmd/diff.go', 'return WrapFileNotExistError(Destination, err)', 'return err')], 'destination read error not classified')
m('C10-add-nan', ['C10', 'C11'], ['C10.R1'], [('timeseries.go', '''	if v.IsNaN() {
		return u
	}
	if u.IsNaN() {
		return v
	}
	return v + u''', '''	if v.IsNaN() || u.IsNaN() {
		return Value(math.NaN())
	}
	return v + u''')], 'Add propagates NaN', True)
m('C10-no-range-loop', ['C10'], ['C10.R2'], [('cmd/sum.go', '''	for i := 1; i < len(tsListList); i++ {
		if !tsListList[0].AllEqualTimeRangeAndStep(tsListList[i]) {
			return nil, nil, fmt.Errorf("%s and %s timeseries time ranges and steps are unalike. "+
				"Retry reading input files before summing", srcFilenames[0], srcFilenames[i])
		}
	}
''', '')], 'window agreement loop removed from sum')
m('C10-empty-glob', ['C10'], ['C10.R3'], [('cmd/glob.go', '''	if len(items) == 0 {
		return nil, &os.PathError{
			Op:   "glob",
			Path: itemDirAbsPattern,
			Err:  os.ErrNotExist,
		}
	}
''', '')], 'empty item glob is not not-exist', True)
m('C11-exclude-nan', ['C11'], ['C11.R1'], [('cmd/sum_copy.go', 'srcPlDif, destPlDif := srcTsList.Diff(destTsList)', 'srcPlDif, destPlDif := srcTsList.DiffExcludeSrcNaN(destTsList)')], 'sum-copy excludes NaN', True)
m('C11-other-sum', ['C11'], ['C11.R2'], [('cmd/sum_diff.go', 'sumHeader, sumTsList, err = sumWhisperFile(c.SrcBase, item, c.SrcPattern, c.ArchiveID, c.From, until, now)', 'sumHeader, sumTsList, err = sumWhisperFile(c.DestBase, item, c.SrcPattern, c.ArchiveID, c.From, until, now)')], 'sum-diff sums the wrong base')
m('C12-swap-args', ['C12'], ['C12.R2'], [('cmd/server.go', 'h, tsList, err := readWhisperFileLocal(filename, retID, from, until, now)', 'h, tsList, err := readWhisperFileLocal(filename, retID, until, from, now)')], 'handler swaps from and until', True)
m('C12-omit-now', ['C12'], ['C12.R2'], [('cmd/view.go', '''	reqURL := fmt.Sprintf("%s/view?file=%s&retention=%d&from=%s&until=%s&now=%s",
		srcURL,
		url.QueryEscape(fileRelPath),
		archiveID,
		url.QueryEscape(from.String()),
		url.QueryEscape(until.String()),
		url.QueryEscape(now.String()))''', '''	_ = now
	reqURL := fmt.Sprintf("%s/view?file=%s&retention=%d&from=%s&until=%s",
		srcURL,
		url.QueryEscape(fileRelPath),
		archiveID,
		url.QueryEscape(from.String()),
		url.QueryEscape(until.String()))''')], 'client omits the clock')
m('C12-no-notexist', ['C12'], ['C12.R5'], [('cmd/server.go', '''	h, ptsList, err := readWhisperFileRawLocal(filename, retID)
	if err != nil {
		if os.IsNotExist(err) {
			return setRespForNotExistErr(w, err)
		}
		return err
	}''', '''	h, ptsList, err := readWhisperFileRawLocal(filename, retID)
	if err != nil {
		return err
	}''')], 'revert of the D5 fix (handler)', True)
m('C13-no-close-stat', ['C13'], ['C13.R1'], [('whisper.go', '''	if err != nil {
		w.file.Close()
		return nil, fmt.Errorf("stat: %s: %s", filename, err)''', '''	if err != nil {
		return nil, fmt.Errorf("stat: %s: %s", filename, err)''')], 'revert of the D6 fix (one path)', True)
m('C13-lock-nb', ['C13'], ['C13.R2'], [('whisper.go', 'syscall.Flock(int(file.Fd()), syscall.LOCK_EX)', 'syscall.Flock(int(file.Fd()), syscall.LOCK_EX|syscall.LOCK_NB)')], 'non-blocking lock', True)
m('C13-lock-shared', ['C13'], ['C13.R2'], [('whisper.go', 'syscall.Flock(int(file.Fd()), syscall.LOCK_EX)', 'syscall.Flock(int(file.Fd()), syscall.LOCK_SH)')], 'shared lock')
m('C13-default-unlocked', ['C13'], ['C13.R4'], [('whisper.go', '''		openFileFlag: os.O_RDWR,
		flock:        true,''', '''		openFileFlag: os.O_RDWR,
		flock:        false,''')], 'Open defaults to no lock')
m('C13-read-before-lock', ['C13'], ['C13.R2', 'C13.R3'], [('whisper.go', '''	w.file = file

	if w.flock {''', '''	w.file = file
	if _, err := file.Stat(); err != nil {
		return err
	}

	if w.flock {''')], 'file touched before the lock')
m('C13-handler-leak', ['C13'], ['C13.R6'], [('cmd/view_raw.go', '''	defer db.Close()

	ptsList, err := fetchRawPointsLists(db, archiveID)''', '''	ptsList, err := fetchRawPointsLists(db, archiveID)''')], 'server-reachable read never closes its handle')
m('C14-field-order', ['C14'], ['C14.R1'], [('timeseries.go', '''	src, err = ts.untilTime.TakeFrom(src)
	if err != nil {
		return nil, err
	}
	src, err = ts.step.TakeFrom(src)''', '''	src, err = ts.step.TakeFrom(src)
	if err != nil {
		return nil, err
	}
	src, err = ts.untilTime.TakeFrom(src)''')], 'series decoder reads step before until', True)
m('C14-want-size', ['C14'], ['C14.R4'], [('timeseries.go', 'return nil, &WantLargerBufferError{WantedBufSize: uint64Size + wantedSize}', 'return nil, &WantLargerBufferError{WantedBufSize: wantedSize}')], 'wanted size misses the 8-byte prefix', True)
m('C14-float-conversion', ['C14'], ['C14.R2', 'C14.R1'], [('timeseries.go', 'binary.BigEndian.PutUint64(b[:], math.Float64bits(float64(*v)))', 'binary.BigEndian.PutUint64(b[:], uint64(int64(float64(*v))))')], 'value encoded by numeric conversion')
m('C15-header-count', ['C15'], ['C15.R1'], [('header.go', '''	if h.archiveCount > (math.MaxInt32-metaSize)/archiveInfoListSize {
		return nil, errors.New("too many archives")
	}
	wantedSize := int(h.archiveCount) * archiveInfoListSize''', '''	wantedSize := int(h.archiveCount * archiveInfoListSize)''')], 'revert of the D7a fix', True)
m('C15-no-step-check', ['C15'], ['C15.R1', 'C15.R4'], [('timeseries.go', '''	if ts.step <= 0 {
		return nil, errors.New("step must be positive")
	}''', '''	if ts.step < 0 {
		return nil, errors.New("step must be positive")
	}''')], 'zero step reaches the division', True)
m('C15-no-size-check', ['C15'], ['C15.R2'], [('whisper.go', '''	if st.Size() < w.header.ExpectedFileSize() {
		w.file.Close()
		return nil, fmt.Errorf("file too short: %s: size=%d, expected=%d", filename, st.Size(), w.header.ExpectedFileSize())
	}
''', '')], 'revert of the D7d fix')
m('C15-unbounded-index', ['C15'], ['C15.R7'], [('whisper.go', 'for off := arcStartOffset; off < untilOffset && i < len(points); off += pointSize {', 'for off := arcStartOffset; off < untilOffset; off += pointSize {')], 'revert of the D13 fix (one loop)')
m('C16-swallow-textout', ['C16'], ['C16.R1'], [('cmd/text_out.go', '''	if err != nil {
		return err
	}
	defer func() {''', '''	if err != nil {
		return nil
	}
	defer func() {''')], 'revert of the D8 fix', True)
m('C16-execute-drops-error', ['C16'], ['C16.R4'], [('cmd/view.go', '''func (c *ViewCommand) Execute() error {
	return withTextOutWriter(c.TextOut, c.execute)
}''', '''func (c *ViewCommand) Execute() error {
	withTextOutWriter(c.TextOut, c.execute)
	return nil
}''')], 'view drops its error', True)
m('C16-discard-update-error', ['C16'], ['C16.R3'], [('cmd/generate.go', '''		if err := db.UpdatePointsForArchive(pointsList[archiveID], archiveID, now); err != nil {
			return err
		}''', '''		db.UpdatePointsForArchive(pointsList[archiveID], archiveID, now)''')], 'update error discarded')
m('C16-nil-deref', ['C16'], ['C16.R2'], [('timeseries.go', '''func (ts *TimeSeries) Values() []Value {
	if ts == nil {
		return nil
	}
	return ts.values
}''', '''func (ts *TimeSeries) Values() []Value {
	return ts.values
}''')], 'partial revert of the D9 fix', True)
m('C17-scratch-buffer', ['C17'], ['C17.R1'], [('whisper.go', '''	fileBuf *filebuffer.FileBuffer
''', '''	fileBuf *filebuffer.FileBuffer
	scratch [pointSize]byte
'''), ('whisper.go', '''func (w *Whisper) readPointAt(offset uint32) (Point, error) {
	var buf [pointSize]byte
	if _, err := w.fileBuf.ReadAt(buf[:], int64(offset)); err != nil {
		return Point{}, err
	}

	var p Point
	if _, err := p.TakeFrom(buf[:]); err != nil {''', '''func (w *Whisper) readPointAt(offset uint32) (Point, error) {
	if _, err := w.fileBuf.ReadAt(w.scratch[:], int64(offset)); err != nil {
		return Point{}, err
	}

	var p Point
	if _, err := p.TakeFrom(w.scratch[:]); err != nil {''')], 'shared scratch buffer on the read path', True)
m('C17-global-cache', ['C17'], ['C17.R4', 'C17.R5'], [('cmd/view.go', '''func readWhisperFileLocal(filename string, archiveID int, from, until, now whispertool.Timestamp) (*whispertool.Header, TimeSeriesList, error) {
	db, err := whispertool.Open(filename)''', '''var lastReadFile string

func readWhisperFileLocal(filename string, archiveID int, from, until, now whispertool.Timestamp) (*whispertool.Header, TimeSeriesList, error) {
	lastReadFile = filename
	db, err := whispertool.Open(filename)''')], 'package variable written by a handler-reachable read', True)
m('C17-capture-loop-var', ['C17', 'C10'], ['C17.R3'], [('cmd/sum.go', '''			hList[i] = db
			tsListList[i] = ptsList''', '''			hList[0] = db
			tsListList[i] = ptsList''')], 'all workers write element 0')
m('C18-precision', ['C18'], ['C18.R1'], [('timeseries.go', "return strconv.FormatFloat(float64(v), 'f', -1, 64)", "return strconv.FormatFloat(float64(v), 'f', 6, 64)")], 'values printed with 6 decimals', True)
m('C18-local-time', ['C18', 'C19'], ['C18.R1', 'C19.R2'], [('timestamp.go', 'return time.Unix(int64(t), 0).UTC()', 'return time.Unix(int64(t), 0)')], 'timestamps rendered in local time', True)
m('C18-line-args', ['C18'], ['C18.R2'], [('cmd/points_list.go', '_, err := fmt.Fprintf(w, "archive:%d\\tt:%s\\tval:%s\\n", i, p.Time, p.Value)', '_, err := fmt.Fprintf(w, "archive:%d\\tt:%s\\tval:%s\\n", i, p.Value, p.Time)')], 'time and value swapped on the line')
m('C19-week-unit', ['C19'], ['C19.R1'], [('timestamp.go', '''	case 'w':
		return Week, nil''', '''	case 'w':
		return 5 * Day, nil''')], 'w parses as five days', True)
m('C19-layout', ['C19'], ['C19.R2'], [('cmd/flags.go', 't2, err := time.Parse(whispertool.UTCTimeLayout, s)', 't2, err := time.Parse(time.RFC3339, s)')], 'flag parses RFC3339', True)
m('C19-separator', ['C19'], ['C19.R3'], [('archive_info.go', '''			b.WriteString(",")''', '''			b.WriteString(";")''')], 'list printed with a separator the parser does not split on')
m('C20-no-excl', ['C20'], ['C20.R1'], [('whisper.go', 'openFileFlag: os.O_RDWR | os.O_CREATE | os.O_EXCL,', 'openFileFlag: os.O_RDWR | os.O_CREATE | os.O_TRUNC,')], 'Create overwrites existing files', True)
m('C20-wrong-layout', ['C20'], ['C20.R2'], [('cmd/generate.go', 'db, err := whispertool.Create(c.Dest, c.ArchiveInfoList, c.AggregationMethod, c.XFilesFactor)', 'db, err := whispertool.Create(c.Dest, c.ArchiveInfoList, whispertool.Sum, c.XFilesFactor)')], 'generate ignores the requested method', True)
m('C20-fill-always', ['C20'], ['C20.R3'], [('cmd/generate.go', 'if c.Fill {', 'if c.Fill || c.RandMax > 0 {')], 'fill happens without the flag')

def build(m):
    files = {}
    for (f, old, new) in m['edits']:
        src = files.get(f) or open(os.path.join(REPO, f)).read()
        if src.count(old) != 1:
            return None, f"edit context for {f} matches {src.count(old)} times"
        files[f] = src.replace(old, new)
    patch = ''
    for f, new in files.items():
        old = open(os.path.join(REPO, f)).read()
        patch += ''.join(difflib.unified_diff(old.splitlines(True), new.splitlines(True), 'a/' + f, 'b/' + f))
    return patch, files

def main():
    os.makedirs(OUT, exist_ok=True)
    for f in os.listdir(OUT):
        if f.endswith('.patch'):
            os.remove(os.path.join(OUT, f))
    index = []
    scratch = tempfile.mkdtemp(prefix='wtmut', dir='/tmp')
    try:
        subprocess.check_call(['rsync', '-a', '--exclude', '.git', REPO + '/', scratch + '/'])
        for m in M:
            patch, files = build(m)
            if patch is None:
                print('SKIP', m['id'], files)
                continue
            # compile check
            saved = {}
            for f, new in files.items():
                p = os.path.join(scratch, f)
                saved[p] = open(p).read()
                open(p, 'w').write(new)
            rc = subprocess.run('go build ./... && go vet ./...', shell=True, cwd=scratch, env=ENV, capture_output=True, text=True)
            for p, old in saved.items():
                open(p, 'w').write(old)
            if rc.returncode != 0:
                print('NOCOMPILE', m['id'], (rc.stdout + rc.stderr)[-300:])
                continue
            fn = m['id'] + '.patch'
            open(os.path.join(OUT, fn), 'w').write(patch)
            index.append(dict(id=m['id'], file=fn, properties=m['properties'], expect_rules=m['expect_rules'], control=m['control'], note=m['note']))
            print('ok', m['id'])
    finally:
        shutil.rmtree(scratch, ignore_errors=True)
    json.dump(index, open(os.path.join(OUT, 'INDEX.json'), 'w'), indent=1)
    print(len(index), 'variants')

if __name__ == '__main__':
    main()
