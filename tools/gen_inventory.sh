#!/bin/sh
# regenerates the reference inventory (functions, fields, constants) and the embedded reference sources from /repo's HEAD
set -e
cd /verif/checker
rm -rf refsrc && mkdir -p refsrc
(cd /repo && git ls-files '*.go' | grep -v _test.go) | while read f; do mkdir -p refsrc/$(dirname $f); git -C /repo show HEAD:$f > refsrc/$f.txt; done
: > inventory.txt.new
GOFLAGS=-mod=vendor GOPROXY=off GOSUMDB=off GOTOOLCHAIN=local GOWORK=off go build -o /verif/bin/wtcheck.new . && mv /verif/bin/wtcheck.new /verif/bin/wtcheck
d=$(mktemp -d /tmp/wtinv.XXXXXX); trap 'rm -rf "$d"' EXIT
git -C /repo archive HEAD | tar -x -C "$d"
/verif/bin/wtcheck -gen-inventory -repo "$d" > inventory.txt.new
mv inventory.txt.new inventory.txt
GOFLAGS=-mod=vendor GOPROXY=off GOSUMDB=off GOTOOLCHAIN=local GOWORK=off go build -o /verif/bin/wtcheck.new . && mv /verif/bin/wtcheck.new /verif/bin/wtcheck
echo "inventory: $(grep -vc '^\(field\|const\):' inventory.txt) functions, $(grep -c '^field:' inventory.txt) fields, $(grep -c '^const:' inventory.txt) constants; $(find refsrc -type f | wc -l) reference files"
