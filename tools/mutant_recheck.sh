#!/bin/sh
# usage: mutant_recheck.sh <n> — applies mutation n (set $MUTATE_SET) to a scratch copy and runs only the checker
# (all properties on one load; binary $WTCHECK or bin/wtcheck). VERBOSE=1 prints the reports.
n=$1
bin=${WTCHECK:-/verif/bin/wtcheck}
d=$(mktemp -d /tmp/wtmr.XXXXXX); trap 'rm -rf "$d"' EXIT
git -C /repo archive HEAD | tar -x -C "$d"
desc=$(/verif/bin/mutate apply "$d" $n)
$bin -all -repo "$d" >"$d/.out" 2>&1
det=$(grep -E '^(C[0-9][0-9] FAIL|LOAD-FAILED)' "$d/.out" | cut -d' ' -f1 | sort -u | tr '\n' ' ')
[ -n "$VERBOSE" ] && grep -E ' FAIL |LOAD-FAILED|panic' "$d/.out" | cut -c1-300
if [ -n "$det" ]; then echo "$desc	detected: $det"; else echo "$desc	SURVIVED"; fi
