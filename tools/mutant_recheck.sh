#!/bin/sh
# usage: mutant_recheck.sh <n> [property...] — applies mutation n to a scratch copy and runs only the checker (binary $WTCHECK or bin/wtcheck)
n=$1; shift
props=${*:-C01 C02 C03 C04 C05 C06 C07 C08 C09 C10 C11 C12 C13 C14 C15 C16 C17 C18 C19 C20}
bin=${WTCHECK:-/verif/bin/wtcheck}
d=$(mktemp -d /tmp/wtmr.XXXXXX); trap 'rm -rf "$d"' EXIT
git -C /repo archive HEAD | tar -x -C "$d"
desc=$(/verif/bin/mutate apply "$d" $n)
det=""
for p in $props; do
  if ! $bin -property $p -repo "$d" -no-controls -evidence-dir "$d/.ev" >"$d/.out" 2>&1; then
    det="$det $p"
    [ -n "$VERBOSE" ] && grep -E 'VIOLATED|UNDECIDED|panic' "$d/.out" | cut -c1-300
  fi
done
if [ -n "$det" ]; then echo "$desc	detected:$det"; else echo "$desc	SURVIVED"; fi
