#!/bin/sh
# usage: mutant_recheck.sh <n> — re-creates mutation n (set $MUTATE_SET) and runs only the checker on it (all properties
# on one load; binary $WTCHECK or bin/wtcheck). VERBOSE=1 prints the reports.
# The campaigns numbered their mutants on /repo at $MUTATE_BASE (default a64fc04: the numbering of the campaigns, which
# were run at 41eb48c, is unchanged there). Later fix: commits add sites and would shift the numbers, so the mutation is
# produced on a copy of that commit and carried over to HEAD as a patch.
n=$1
bin=${WTCHECK:-/verif/bin/wtcheck}
base=${MUTATE_BASE:-a64fc04}
d=$(mktemp -d /tmp/wtmr.XXXXXX); trap 'rm -rf "$d"' EXIT
mkdir "$d/a" "$d/b" "$d/h"
git -C /repo archive $base | tar -x -C "$d/a"
cp -r "$d/a/." "$d/b/"
desc=$(/verif/bin/mutate apply "$d/b" $n)
(cd "$d" && diff -ruN a b > m.diff)
git -C /repo archive HEAD | tar -x -C "$d/h"
if ! (cd "$d/h" && patch -p1 -s --no-backup-if-mismatch < ../m.diff >/dev/null 2>&1); then
  echo "$desc	N/A (the mutated line was changed by a later fix)"; exit 0
fi
$bin -all -repo "$d/h" >"$d/.out" 2>&1
det=$(grep -E '^(C[0-9][0-9] FAIL|LOAD-FAILED)' "$d/.out" | cut -d' ' -f1 | sort -u | tr '\n' ' ')
[ -n "$VERBOSE" ] && grep -E ' FAIL |LOAD-FAILED|panic' "$d/.out" | cut -c1-300
if [ -n "$det" ]; then echo "$desc	detected: $det"; else echo "$desc	SURVIVED"; fi
