#!/bin/sh
# usage: try_benign.sh <dir-with-patch.diff> [wtcheck args...]   (runs wtcheck on a scratch copy of /repo HEAD with the patch applied)
set -e
d=$(mktemp -d /tmp/wtbn.XXXXXX)
trap 'rm -rf "$d"' EXIT
git -C /repo archive HEAD | tar -x -C "$d"
(cd "$d" && GIT_CEILING_DIRECTORIES=/tmp git apply "$1/patch.diff")
shift
for a in "$@"; do
  case "$a" in
    C[0-9][0-9]) ${WTCHECK:-/verif/bin/wtcheck} -property "$a" -repo "$d" -no-controls -evidence-dir "$d/.ev" | grep -E 'VIOLATED|UNDECIDED|panic|obligations' || true;;
    *) ${WTCHECK:-/verif/bin/wtcheck} -repo "$d" $a;;
  esac
done
