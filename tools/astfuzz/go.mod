module astfuzz

go 1.23
