#!/usr/bin/env python3
"""Sets silent/alarms in /verif/benign/INDEX.json from matrices produced by tools/benign_matrix.py.
Later files override earlier ones. usage: update_benign_index.py <matrix.jsonl>..."""
import json, re, sys
idx = json.load(open('/verif/benign/INDEX.json'))
by = {e['id']: e for e in idx}
def bid(src):
    m = re.search(r'/verif/benign/([^/]+)/?$', src)
    if m: return m.group(1)
    m = re.search(r'/tmp/benign(\d?)/out-(\d\d)/r(\d)$', src)
    if m: return 'r%s-%s-%s' % (m.group(1) or '1', m.group(2), m.group(3))
    return None
for f in sys.argv[1:]:
    for l in open(f):
        d = json.loads(l)
        b = bid(d['src'])
        if b in by:
            by[b]['silent'] = d['applies'] and not d['alarms']
            by[b]['alarms'] = sorted(d['alarms'])
json.dump(idx, open('/verif/benign/INDEX.json', 'w'), indent=1)
print(sum(1 for e in idx if e.get('silent')), 'silent of', len(idx))
