// mutate: enumerates and applies single-site mutations to the non-test Go files of a tree (used to look for
// property-breaking changes that neither the test suite nor the checks notice).
//   mutate list <dir>            prints "<n>\t<file>:<line>\t<operator>\t<before> -> <after>" for every site
//   mutate apply <dir> <n>       applies mutation n in place
// operators: relational boundary (< <-> <=, > <-> >=), && <-> ||, integer literal 1 -> 0 / +1 removal in x+1, x-1,
// deletion of an expression statement that is a call, negation of an if condition without else.
package main

import (
	"bytes"
	"fmt"
	"go/ast"
	"go/format"
	"go/parser"
	"go/token"
	"os"
	"path/filepath"
	"sort"
	"strconv"
	"strings"
)

type site struct {
	file  string
	line  int
	op    string
	desc  string
	apply func()
}

func render(fset *token.FileSet, n ast.Node) string {
	var b bytes.Buffer
	format.Node(&b, fset, n)
	s := strings.Join(strings.Fields(b.String()), " ")
	if len(s) > 90 {
		s = s[:90] + "..."
	}
	return s
}

func collect(root string, target int) {
	var files []string
	filepath.Walk(root, func(p string, info os.FileInfo, err error) error {
		if err != nil || info.IsDir() || !strings.HasSuffix(p, ".go") || strings.HasSuffix(p, "_test.go") || strings.HasSuffix(p, "_string.go") {
			return nil
		}
		if strings.Contains(p, "/internal/") || strings.Contains(p, "/.git/") {
			return nil
		}
		files = append(files, p)
		return nil
	})
	sort.Strings(files)
	n := 0
	for _, p := range files {
		fset := token.NewFileSet()
		f, err := parser.ParseFile(fset, p, nil, parser.ParseComments)
		if err != nil {
			continue
		}
		rel, _ := filepath.Rel(root, p)
		var sites []site
		add := func(pos token.Pos, op, desc string, apply func()) {
			sites = append(sites, site{rel, fset.Position(pos).Line, op, desc, apply})
		}
		var visitList func(list *[]ast.Stmt)
		visitList = func(list *[]ast.Stmt) {
			for i := range *list {
				i := i
				if es, ok := (*list)[i].(*ast.ExprStmt); ok {
					if _, isCall := es.X.(*ast.CallExpr); isCall {
						before := render(fset, es)
						add(es.Pos(), "delete-call", before+" -> (deleted)", func() { (*list)[i] = &ast.EmptyStmt{Semicolon: es.Pos(), Implicit: false} })
					}
				}
			}
		}
		ast.Inspect(f, func(nd ast.Node) bool {
			switch x := nd.(type) {
			case *ast.BlockStmt:
				visitList(&x.List)
			case *ast.CaseClause:
				visitList(&x.Body)
			case *ast.BinaryExpr:
				before := render(fset, x)
				swap := map[token.Token]token.Token{token.LSS: token.LEQ, token.LEQ: token.LSS, token.GTR: token.GEQ, token.GEQ: token.GTR, token.LAND: token.LOR, token.LOR: token.LAND}
				if to, ok := swap[x.Op]; ok {
					from := x.Op
					add(x.OpPos, "op:"+from.String()+"->"+to.String(), before, func() { x.Op = to })
				}
				if (x.Op == token.ADD || x.Op == token.SUB) && isOne(x.Y) {
					add(x.OpPos, "drop-one", before+" -> "+render(fset, x.X), func() { x.Y = &ast.BasicLit{Kind: token.INT, Value: "0"} })
				}
			case *ast.IfStmt:
				if x.Else == nil {
					before := render(fset, x.Cond)
					add(x.Cond.Pos(), "negate-if", "if "+before+" -> if !("+before+")", func() { x.Cond = &ast.UnaryExpr{Op: token.NOT, X: &ast.ParenExpr{X: x.Cond}} })
				}
			}
			return true
		})
		for _, s := range sites {
			if target < 0 {
				fmt.Printf("%d\t%s:%d\t%s\t%s\n", n, s.file, s.line, s.op, s.desc)
			} else if n == target {
				s.apply()
				var buf bytes.Buffer
				if err := format.Node(&buf, fset, f); err != nil {
					fmt.Fprintln(os.Stderr, err)
					os.Exit(1)
				}
				os.WriteFile(p, buf.Bytes(), 0644)
				fmt.Printf("%d\t%s:%d\t%s\t%s\n", n, s.file, s.line, s.op, s.desc)
				return
			}
			n++
		}
	}
}

func isOne(e ast.Expr) bool {
	b, ok := e.(*ast.BasicLit)
	return ok && b.Kind == token.INT && b.Value == "1"
}

func main() {
	switch os.Args[1] {
	case "list":
		collect(os.Args[2], -1)
	case "apply":
		n, _ := strconv.Atoi(os.Args[3])
		collect(os.Args[2], n)
	}
}
