// mutate: enumerates and applies single-site mutations to the non-test Go files of a tree (used to look for
// property-breaking changes that neither the test suite nor the checks notice).
//   mutate list <dir>            prints "<n>\t<file>:<line>\t<operator>\t<before> -> <after>" for every site
//   mutate apply <dir> <n>       applies mutation n in place
// operators: relational boundary (< <-> <=, > <-> >=), && <-> ||, integer literal 1 -> 0 / +1 removal in x+1, x-1,
// deletion of an expression statement that is a call, negation of an if condition without else.
// With MUTATE_SET=2 a second operator set is used instead: deletion of a guard (an if without else whose body ends in
// return/continue/break/panic), deletion of a plain assignment, deletion of a defer, break <-> continue,
// + <-> - and * <-> /, == <-> != outside if conditions, swap of two adjacent identifier arguments.
// With MUTATE_SET=3: negation of an if condition that has an else, relational reversal (< <-> >, <= <-> >=),
// swap of two results of a return, `return …, nil` in place of a returned error, integer literal n>=2 -> n+1,
// a call of a sibling method with a similar name (Diff <-> DiffExcludeSrcNaN, FromTime <-> UntilTime, Min <-> Max …).
package main

import (
	"bytes"
	"fmt"
	"go/ast"
	"go/format"
	"go/parser"
	"go/token"
	"os"
	"path/filepath"
	"sort"
	"strconv"
	"strings"
)

type site struct {
	file  string
	line  int
	op    string
	desc  string
	apply func()
}

func render(fset *token.FileSet, n ast.Node) string {
	var b bytes.Buffer
	format.Node(&b, fset, n)
	s := strings.Join(strings.Fields(b.String()), " ")
	if len(s) > 90 {
		s = s[:90] + "..."
	}
	return s
}

func collect(root string, target int) {
	var files []string
	filepath.Walk(root, func(p string, info os.FileInfo, err error) error {
		if err != nil || info.IsDir() || !strings.HasSuffix(p, ".go") || strings.HasSuffix(p, "_test.go") || strings.HasSuffix(p, "_string.go") {
			return nil
		}
		if strings.Contains(p, "/internal/") || strings.Contains(p, "/.git/") {
			return nil
		}
		files = append(files, p)
		return nil
	})
	sort.Strings(files)
	n := 0
	for _, p := range files {
		fset := token.NewFileSet()
		f, err := parser.ParseFile(fset, p, nil, parser.ParseComments)
		if err != nil {
			continue
		}
		rel, _ := filepath.Rel(root, p)
		var sites []site
		add := func(pos token.Pos, op, desc string, apply func()) {
			sites = append(sites, site{rel, fset.Position(pos).Line, op, desc, apply})
		}
		var visitList func(list *[]ast.Stmt)
		visitList = func(list *[]ast.Stmt) {
			for i := range *list {
				i := i
				if es, ok := (*list)[i].(*ast.ExprStmt); ok {
					if _, isCall := es.X.(*ast.CallExpr); isCall {
						before := render(fset, es)
						add(es.Pos(), "delete-call", before+" -> (deleted)", func() { (*list)[i] = &ast.EmptyStmt{Semicolon: es.Pos(), Implicit: false} })
					}
				}
			}
		}
		set2 := os.Getenv("MUTATE_SET") == "2"
		ifConds := map[ast.Expr]bool{}
		if set2 {
			visitList = func(list *[]ast.Stmt) {
				for i := range *list {
					i := i
					st := (*list)[i]
					switch x := st.(type) {
					case *ast.IfStmt:
						if x.Else == nil && len(x.Body.List) > 0 {
							last := x.Body.List[len(x.Body.List)-1]
							exits := false
							switch l := last.(type) {
							case *ast.ReturnStmt, *ast.BranchStmt:
								exits = true
							case *ast.ExprStmt:
								if c, ok := l.X.(*ast.CallExpr); ok {
									if id, ok := c.Fun.(*ast.Ident); ok && id.Name == "panic" {
										exits = true
									}
								}
							}
							if exits {
								add(x.Pos(), "delete-guard", "if "+render(fset, x.Cond)+" {...} -> (deleted)", func() { (*list)[i] = &ast.EmptyStmt{Semicolon: x.Pos()} })
							}
						}
					case *ast.AssignStmt:
						if x.Tok != token.DEFINE {
							add(x.Pos(), "delete-assign", render(fset, x)+" -> (deleted)", func() { (*list)[i] = &ast.EmptyStmt{Semicolon: x.Pos()} })
						}
					case *ast.DeferStmt:
						add(x.Pos(), "delete-defer", render(fset, x)+" -> (deleted)", func() { (*list)[i] = &ast.EmptyStmt{Semicolon: x.Pos()} })
					case *ast.BranchStmt:
						if x.Label == nil && (x.Tok == token.BREAK || x.Tok == token.CONTINUE) {
							to := token.CONTINUE
							if x.Tok == token.CONTINUE {
								to = token.BREAK
							}
							add(x.Pos(), "branch-swap", x.Tok.String()+" -> "+to.String(), func() { x.Tok = to })
						}
					}
				}
			}
			ast.Inspect(f, func(nd ast.Node) bool {
				switch x := nd.(type) {
				case *ast.BlockStmt:
					visitList(&x.List)
				case *ast.CaseClause:
					visitList(&x.Body)
				case *ast.IfStmt:
					if x.Else == nil {
						ifConds[x.Cond] = true
					}
				case *ast.BinaryExpr:
					before := render(fset, x)
					swap := map[token.Token]token.Token{token.ADD: token.SUB, token.SUB: token.ADD, token.MUL: token.QUO, token.QUO: token.MUL, token.EQL: token.NEQ, token.NEQ: token.EQL}
					if to, ok := swap[x.Op]; ok {
						if (x.Op == token.EQL || x.Op == token.NEQ) && ifConds[x] {
							break
						}
						if x.Op == token.ADD {
							if bl, ok := x.X.(*ast.BasicLit); ok && bl.Kind == token.STRING {
								break
							}
							if bl, ok := x.Y.(*ast.BasicLit); ok && bl.Kind == token.STRING {
								break
							}
						}
						from := x.Op
						add(x.OpPos, "op:"+from.String()+"->"+to.String(), before, func() { x.Op = to })
					}
				case *ast.CallExpr:
					for i := 0; i+1 < len(x.Args); i++ {
						i := i
						_, ok1 := x.Args[i].(*ast.Ident)
						_, ok2 := x.Args[i+1].(*ast.Ident)
						if s1, ok := x.Args[i].(*ast.SelectorExpr); ok {
							_, ok1 = s1.X.(*ast.Ident)
						}
						if s2, ok := x.Args[i+1].(*ast.SelectorExpr); ok {
							_, ok2 = s2.X.(*ast.Ident)
						}
						if ok1 && ok2 && render(fset, x.Args[i]) != render(fset, x.Args[i+1]) {
							add(x.Args[i].Pos(), "swap-args", render(fset, x)+": "+render(fset, x.Args[i])+" <-> "+render(fset, x.Args[i+1]), func() { x.Args[i], x.Args[i+1] = x.Args[i+1], x.Args[i] })
							break
						}
					}
				}
				return true
			})
		}
		set3 := os.Getenv("MUTATE_SET") == "3"
		if set3 {
			siblings := map[string]string{"Diff": "DiffExcludeSrcNaN", "DiffExcludeSrcNaN": "Diff", "DiffPoints": "DiffPointsExcludeSrcNaN", "DiffPointsExcludeSrcNaN": "DiffPoints",
				"FromTime": "UntilTime", "UntilTime": "FromTime", "intervalForWrite": "interval", "interval": "intervalForWrite", "SrcBase": "DestBase", "DestBase": "SrcBase",
				"SrcRelPath": "DestRelPath", "DestRelPath": "SrcRelPath", "Flush": "Reset", "secondsPerPoint": "numberOfPoints", "numberOfPoints": "secondsPerPoint",
				"Add": "Sub", "Sub": "Add", "HasPrefix": "HasSuffix", "Max": "Min", "Min": "Max", "First": "Last", "Last": "First", "Sum": "Average", "Average": "Sum"}
			ast.Inspect(f, func(nd ast.Node) bool {
				switch x := nd.(type) {
				case *ast.IfStmt:
					if x.Else != nil {
						before := render(fset, x.Cond)
						add(x.Cond.Pos(), "negate-if-else", "if "+before+" {..} else {..} -> if !("+before+")", func() { x.Cond = &ast.UnaryExpr{Op: token.NOT, X: &ast.ParenExpr{X: x.Cond}} })
					}
				case *ast.BinaryExpr:
					swap := map[token.Token]token.Token{token.LSS: token.GTR, token.GTR: token.LSS, token.LEQ: token.GEQ, token.GEQ: token.LEQ}
					if to, ok := swap[x.Op]; ok {
						from := x.Op
						add(x.OpPos, "op:"+from.String()+"->"+to.String(), render(fset, x), func() { x.Op = to })
					}
				case *ast.ReturnStmt:
					if len(x.Results) >= 2 {
						a, b := x.Results[0], x.Results[1]
						if render(fset, a) != render(fset, b) && render(fset, a) != "nil" && render(fset, b) != "nil" {
							add(x.Pos(), "swap-results", render(fset, x)+": results 0 <-> 1", func() { x.Results[0], x.Results[1] = x.Results[1], x.Results[0] })
						}
					}
					if n := len(x.Results); n >= 1 {
						last := x.Results[n-1]
						if id, ok := last.(*ast.Ident); ok && (id.Name == "err" || strings.HasPrefix(id.Name, "err")) && id.Name != "nil" {
							add(x.Pos(), "return-nil-error", render(fset, x)+" -> nil error", func() { x.Results[n-1] = ast.NewIdent("nil") })
						}
					}
				case *ast.BasicLit:
					if x.Kind == token.INT {
						if v, err := strconv.Atoi(x.Value); err == nil && v >= 2 && v < 100000 {
							old := x.Value
							add(x.Pos(), "const+1", old+" -> "+strconv.Itoa(v+1), func() { x.Value = strconv.Itoa(v + 1) })
						}
					}
				case *ast.SelectorExpr:
					if to, ok := siblings[x.Sel.Name]; ok {
						from := x.Sel.Name
						add(x.Sel.Pos(), "sibling", render(fset, x)+" -> ."+to, func() { x.Sel = ast.NewIdent(to) })
						_ = from
					}
				}
				return true
			})
		}
		ast.Inspect(f, func(nd ast.Node) bool {
			if set2 || set3 {
				return false
			}
			switch x := nd.(type) {
			case *ast.BlockStmt:
				visitList(&x.List)
			case *ast.CaseClause:
				visitList(&x.Body)
			case *ast.BinaryExpr:
				before := render(fset, x)
				swap := map[token.Token]token.Token{token.LSS: token.LEQ, token.LEQ: token.LSS, token.GTR: token.GEQ, token.GEQ: token.GTR, token.LAND: token.LOR, token.LOR: token.LAND}
				if to, ok := swap[x.Op]; ok {
					from := x.Op
					add(x.OpPos, "op:"+from.String()+"->"+to.String(), before, func() { x.Op = to })
				}
				if (x.Op == token.ADD || x.Op == token.SUB) && isOne(x.Y) {
					add(x.OpPos, "drop-one", before+" -> "+render(fset, x.X), func() { x.Y = &ast.BasicLit{Kind: token.INT, Value: "0"} })
				}
			case *ast.IfStmt:
				if x.Else == nil {
					before := render(fset, x.Cond)
					add(x.Cond.Pos(), "negate-if", "if "+before+" -> if !("+before+")", func() { x.Cond = &ast.UnaryExpr{Op: token.NOT, X: &ast.ParenExpr{X: x.Cond}} })
				}
			}
			return true
		})
		for _, s := range sites {
			if target < 0 {
				fmt.Printf("%d\t%s:%d\t%s\t%s\n", n, s.file, s.line, s.op, s.desc)
			} else if n == target {
				s.apply()
				var buf bytes.Buffer
				if err := format.Node(&buf, fset, f); err != nil {
					fmt.Fprintln(os.Stderr, err)
					os.Exit(1)
				}
				os.WriteFile(p, buf.Bytes(), 0644)
				fmt.Printf("%d\t%s:%d\t%s\t%s\n", n, s.file, s.line, s.op, s.desc)
				return
			}
			n++
		}
	}
}

func isOne(e ast.Expr) bool {
	b, ok := e.(*ast.BasicLit)
	return ok && b.Kind == token.INT && b.Value == "1"
}

func main() {
	switch os.Args[1] {
	case "list":
		collect(os.Args[2], -1)
	case "apply":
		n, _ := strconv.Atoi(os.Args[3])
		collect(os.Args[2], n)
	}
}
