# property id -> (technique, level text, level note, design ref); exec'd by gen_manifest.py
claimed["C05"] = (
 "static who-may-call over the VTA call graph + must-pass-through on SSA control flow + value derivation",
 "Decides on every path of the current source that only Whisper.Sync can move bytes to the file (who may call Flush/fsync/WriteAt/Truncate/OpenFile, incl. inside the filebuffer dependency), that Sync is flush-then-fsync with both errors surfaced, that Close reaches no write, that header and length are fixed in Create/Open, and that every cmd function that mutates a handle passes a checked Sync on it before any success return and nothing fallible follows the Sync of an existing destination. A necessary structural condition of C05, not the behaviour itself.",
 "Not decided: page-level equality of a reopened handle (correctness of filebuffer's page arithmetic), torn writes inside one Flush, pwritevFull swallowing write errors in the dependency.",
 "DESIGN.md 5 (C05)")
claimed["C13"] = (
 "static must-pass-through on SSA control flow (close on every failure path, lock on every success path), constant and who-may-call rules",
 "Decides on every path of the current source the lock discipline C13 rests on: a failed Open/Create closes the descriptor after the lock was taken; openAndLockFile takes a blocking LOCK_EX on the descriptor it opened on every success path (only bypass: the handle's flock option), closes on lock failure and touches nothing before the lock; the default is locked and the module never opts out; only openAndLockFile calls flock; the library never hands out a handle whose descriptor it closed; server-reachable code closes every handle it opens. Necessary structural conditions of C13.",
 "Not decided: lost-update freedom and page-mixture freedom under real schedules (consequences of flock semantics and of this discipline), behaviour of flock across processes/filesystems.",
 "DESIGN.md 5 (C13)")
claimed["C16"] = (
 "static return classification and error-discard discipline on SSA, nil-contract fixpoint over the call graph, derives-from checks on command plumbing, must-pass-through Sync",
 "Decides on every path of the current source: no return of nil inside a region entered only with a non-nil error (swallowed error), no discarded error result outside an enumerated reasoned list, every Execute returns withTextOutWriter(c.TextOut, c.execute) whose result is f's error with finish's error stored into the returned variable, main returns Parse/Execute errors to the exit-code mapping, possibly-nil *TimeSeries values never reach a dereferencing position in command/handler-reachable code, the only explicit panic is unreachable for validated headers, and mutating commands pass a checked Sync before reporting success. Necessary structural conditions of 'no panic and no silent success'.",
 "Not decided: that each command's effect is complete and correct (value clauses of C08-C11, C18, C20); faults below the os package; panics from slice indexing on hostile data (C15).",
 "DESIGN.md 5 (C16)")
claimed["C08"] = (
 "static no-path over the call graph, guard-dominates and derives-from on SSA, truth tables of the diff predicates by abstract enumeration",
 "Decides on every path of the current source the structure copy rests on: the read side reaches no mutator; both files are read with one clock/window/archive selection; the layout and window checks compare source with destination and guard the write with failing edges; CopyNaN selects Diff vs DiffExcludeSrcNaN computed as source.Diff(destination); the source side is written to the destination handle at the reads' clock; glob mode keeps relative paths; the slot-inclusion predicates of DiffPoints/DiffPointsExcludeSrcNaN have the specified truth tables; a created destination is synced even when nothing is copied. Necessary structural conditions of C08.",
 "Not decided: slot-by-slot equality of the post-state, idempotence. Known finding C08.R8 (copy's writer propagates, D11) is reported as KNOWN-FINDING.",
 "DESIGN.md 5 (C08)")
claimed["C09"] = (
 "static truth tables by abstract enumeration of decision diagrams, return classification and latched-flag analysis on SSA, derives-from",
 "Decides on every path: Value.Equal/Value.Diff truth tables over (IsNaN v, IsNaN u, v==u); DiffPoints' inclusion predicate; diffOneFile's verdict (missing side and listed differences -> ErrDiffFound, clean only under AllEmpty of source.Diff(destination), mismatches -> error, other errors propagated); the verdict flag over files is latched; both reads classify not-exist with their own side; exit-code mapping 0/1/other; the listing's arguments. Necessary structural conditions of C09.",
 "Not decided: that exactly the differing slots are listed for every pair of files (value clause), symmetry.",
 "DESIGN.md 5 (C09)")
claimed["C10"] = (
 "static truth table of Value.Add, guard-dominates for the agreement loops, return classification of empty globs, derives-from on the accumulator stores",
 "Decides on every path: Value.Add skips NaN symmetrically; the layout and window loops compare file 0 with files 1..n-1 and must complete before the summation, failing otherwise; an empty match is an os.ErrNotExist PathError at all three glob sites; the accumulator is only initialised from a file's value or updated by Value.Add(acc, file value) at the same slot over full ranges; all files are read with one clock. Necessary structural conditions of C10.",
 "Not decided: the numeric sum, filepath.Glob semantics.",
 "DESIGN.md 5 (C10)")
claimed["C11"] = (
 "static sibling-skeleton agreement (the copy and diff rule sets re-applied to sum-copy and sum-diff), derives-from, latched-flag analysis",
 "Decides on every path that sumCopyItem meets copy's obligations (one clock, guarded write of the source side of Diff with NaN included, destination handle, Sync) and sumDiffItem/execute meet diff's verdict obligations, both taking the sum from sumWhisperFile(SrcBase, item, SrcPattern). Necessary structural conditions of C11.",
 "Not decided: that the stored series equals the sum (value clause). Known finding C08.R8 applies to sum-copy as well.",
 "DESIGN.md 5 (C11)")
claimed["C07"] = (
 "static must-pass-through on SSA, abstract evaluation of validators over class representatives, canonicalised failing-condition extraction, set agreement by enumeration",
 "Decides on every path: all five entry points pass the validators with errors surfaced and share one ArchiveInfoList.validate; the xFilesFactor validators (library and flag) accept exactly {-0,0,(0,1),1}; each pairwise rule exists as a rejecting branch with exactly the stated relation (strict step, divisibility, strict retention, enough points, offset recurrence, non-empty, positive step/count), the pairwise ones guarded only by not-last; retention and end offsets are bounded in 64-bit arithmetic and the decoded archive count is bounded; library and CLI accept the same six methods. Necessary structural conditions of C07.",
 "Not decided: equality of a reopened header with the created one (C14's codec symmetry covers the bytes), the retention-string grammar (C19).",
 "DESIGN.md 5 (C07)")
claimed["C02"] = (
 "static guard-dominates for the non-empty contract and the xFilesFactor gate, set agreement by enumeration, derives-from per aggregation method",
 "Decides on every path: aggregate is only reached with a slice proven non-empty; validator/aggregator/CLI agree on methods 1..6 (panic arm unreachable); the gate is a float32 comparison of len(known)/len(all) with XFilesFactor() whose failing edge skips the write; only stored slots are queued for the next level and propagateChain feeds levels in order; the aggregated set is the stale-filtered one; first/last/max/min/sum/average derive from the right elements with the right comparison direction and initial value. Necessary structural conditions of C02.",
 "Not decided: the numeric value of each aggregate, the coarse-interval/fine-slot correspondence, 'left exactly as it was'.",
 "DESIGN.md 5 (C02)")
claimed["C03"] = (
 "static dominance and callee identity (stable sort first), canonicalised failing conditions (range check), shape recognition of the suffix partition, derives-from for routing",
 "Decides on every path: sort.Stable on the whole batch dominates every partition and write; a single update fails iff t <= now-maxRetention or now < t, before any write; extractPoints is a backward scan that on a stale point at i returns (points[i+1:], points[:i+1]) and otherwise (points, empty), testing time <= now-retention; archives are written with result #0 of the partition of the previous remainder with the loop index as id; findBestArchive gets the point's own time. Necessary structural conditions of C03.",
 "Not decided: findBestArchive's choice arithmetic, last-wins inside alignPoints, behaviour for unsorted input inside archiveUpdateMany.",
 "DESIGN.md 5 (C03)")
claimed["C18"] = (
 "static constant and derives-from checks on SSA (rendering calls, line arguments, loop ranges), guard-dominates for flags",
 "Decides on every path: values are rendered with FormatFloat(v,'f',-1,64) and times as UTC in the fixed layout; a line carries (archive, time, value) of every point of every archive; view prints exactly the header and PointsList of what the read returned; Points() maps slot i to (from+i*step, values[i]); view-raw reads all N physical slots from the archive offset, filters every archive with the caller's unchanged window, sorts stably only under the flag and prints the filtered list. Necessary structural conditions of C18.",
 "Not decided: boundary operators of the view-raw time filter, inclusion relations between view and view-raw output for every content.",
 "DESIGN.md 5 (C18)")
claimed["C19"] = (
 "static set agreement by abstract evaluation over all 256 unit bytes, constant-table evaluation from the syntax tree, canonicalised failing conditions, callee/constant identity for layouts and separators",
 "Decides: printed (letter, multiplier) pairs equal the parser's table and are printed under exact divisibility, larger units first; one UTC layout for all timestamp printing/parsing and ParseTimestamp rejects only syntax; printed separators are the runes parsers split on; ParseArchiveInfo rejects exactly non-positive and non-multiple retentions; generated method-name tables are mutually consistent; digit accumulation and unit multiplication are overflow-guarded per iteration / before multiplying, exactly one unit character is required. Necessary structural conditions of C19.",
 "Not decided: exactness of the overflow bounds' constants for every numeral (value clause), the exhaustive round-trip laws over 2^31 durations / 2^32 timestamps.",
 "DESIGN.md 5 (C19)")
claimed["C20"] = (
 "static constant, derives-from and guard-dominates checks on SSA; must-pass-through Sync",
 "Decides on every path: exclusive creation by default and no overriding option; Create gets the command's layout, method and xFilesFactor; the fill and its write happen only under Fill, from randomPointsList(layout, rnd, max, now, now) at one clock reading with one list per archive; values are Intn(max+1) or the finer-sum helper and the plain random value is used only for slots strictly before the first slot holding finer data; times are offsets from the truncated until; every success path passes a checked Sync. Necessary structural conditions of C20.",
 "Not decided: the numeric bound max*step/step0 and sum-consistency of every coarser slot (value clauses of the random construction).",
 "DESIGN.md 5 (C20)")
claimed["C12"] = (
 "static sibling/set agreement (routes, query keys, parameter flows) over SSA expressions, callee identity, return classification, framing-sequence comparison",
 "Decides: every dispatcher's local branch and the handler of the route its remote branch requests run the same Local function; client query keys = handler keys and each key reaches the Local parameter the local path feeds from the same dispatcher argument; query values are QueryEscape'd, timestamps cross as String()/ParseTimestamp; handler AppendTo sequence = client TakeFrom sequence (Header, then one element per archive of the header); not-exist protocol on both ends incl. empty-body signalling and an os.ErrNotExist PathError, with remote errors returned unwrapped. Necessary structural conditions of C12.",
 "Not decided: equality of results through real HTTP round trips, net/http behaviour, url escaping round-trip semantics beyond callee identity.",
 "DESIGN.md 5 (C12)")
claimed["C17"] = (
 "static effects analysis (bottom-up write summaries over the call graph with memory roots fresh/param/global), lockset check of the page cache, goroutine-body capture analysis",
 "Decides: the three read-path roots and all module code they reach write nothing reachable from the shared handle and no global/unknown memory; every exported FileBuffer method takes its mutex first with a deferred unlock and unexported ones are reached only from those; errgroup bodies write only captured variables no sibling touches, loop bodies write only elements indexed by a per-iteration copy of the loop variable (no shared append/map/variable), the parent reads results only after Wait; handlers write neither the shared *app nor globals; package variables are stored only at initialisation. Necessary (and, under the trusted base, sufficient for data-race freedom of these paths) structural conditions of C17.",
 "Not decided: equality of concurrent and sequential results as such; races inside the standard library or bitset (trusted); command-level goroutines other than errgroup.Go bodies.",
 "DESIGN.md 5 (C17)")
claimed["C14"] = (
 "static cursor analysis of the codec (E-codec): linear byte offsets and guard-established length guarantees over SSA, encoder/decoder layout comparison",
 "Decides for all eight AppendTo/TakeFrom pairs: decoder layout = encoder layout (offset, width, big-endian, field, nested type, counted loop); floats cross via Float{32,64}bits/frombits only; every read and nested fixed-size decode is covered by a dominating length guard of the same decoder; every WantLargerBufferError carries consumed+needed of the failed guard; every success return hands back the input advanced by exactly what its path decoded, and the encoder produces what the decoder consumes; archiveCount is always len(archiveInfoList); readHeader retries exactly once. Necessary structural conditions of C14 (for well-formed series: len(values) = (until-from)/step).",
 "Not decided: behaviour for hostile counts (C15), equality of decoded objects as values (follows from the layout symmetry for the fields covered).",
 "DESIGN.md 5 (C14)")
claimed["C06"] = (
 "static cursor analysis of the encoders compared with the Whisper format table, constant evaluation, recurrence and derives-from checks on SSA expressions",
 "Decides: size constants; encoder layouts equal the classic Whisper table (offset, width, byte order, field role) and decoders mirror them; offsets follow the contiguous recurrence in fillOffset and validate; file length = header + 12 x points and Create truncates to it; maxRetention = last archive's retention; slot address = offset + index*12 with index = floorMod((interval-base)/step, points), base from the archive's first 4 bytes, first point of an empty archive at slot 0, every aligned point written unconditionally; alignment in 64-bit floored arithmetic. Necessary structural conditions of C06.",
 "Not decided: that go-whisper reads the same series for every history (behavioural cross-reading); go-whisper itself is not analysed.",
 "DESIGN.md 5 (C06)")
claimed["C15"] = (
 "static untrusted-size discipline: canonicalised rejecting tests as bounds, big-integer wrap check of the guarded size, E-codec guard coverage, divisor positivity, bounded-index rule",
 "Decides: decoder allocations sized by decoded counts are proportional to the input (dominated by this decoder's length guard), bounded by a rejecting test whose constant keeps prefix+elem*count within MaxInt32 with the product computed in int, and non-negative; Open bounds the retried header read by the file size and rejects files shorter than ExpectedFileSize; no decoder reads past its guards; every integer division/modulo by a non-constant is by a validated field, a positivity-tested value, or a unit multiplier; slot counters driven by file content are bounded by the destination's length; the page cache checks bounds first; the explicit panic is unreachable. Necessary structural conditions of C15.",
 "Not decided: hang-freedom, memory high-water marks, the 57 bounds checks the compiler cannot prove (cross-referenced once, not decided), behaviour of reads beyond ExpectedFileSize for files that are longer than described.",
 "DESIGN.md 5 (C15)")
claimed["C04"] = (
 "static non-interference of the result shape (E-ni) on SSA, canonicalised rejecting/nil conditions, derives-from for clamping, alignment and archive selection",
 "Decides: fromTime, untilTime and step stored into a returned series are identical on both sides of the file-dependent never-written branch and the value count derives from them on both sides; no nil result depends on file content; the nil results are exactly `now < from` and `until < now - retention(selected archive)`; the failures are exactly from > until and an out-of-range archive id, before any file read; best archive from the unclamped from; clamping to [now-retention(selected), now]; bounds are the selected archive's interval() of the clamped values with the one-step extension exactly when they coincide; step is the selected archive's. Necessary structural conditions of C04.",
 "Not decided: the alignment arithmetic and the exact count as numbers; Points() times are covered under C18.R3.",
 "DESIGN.md 5 (C04)")
claimed["C01"] = (
 "static type-based sign analysis of % (E-range), typestate of raw ring slots (E-stale), greatest-fixpoint alignment dataflow (E-align) over SSA",
 "Decides: every % with a possibly negative dividend and sign-sensitive use sits in floorMod, no timestamp is narrowed to int32 before %, the slot index is floorMod by the point count; every consumer of fetchRawPoints passes the raw slots through a stale-lap filter (loop comparing stored time for (in)equality with an expected time advanced by the step; mismatch blanked to NaN or dropped) called with the read's start interval and archive before any value is used; every point reaching putPointAt has a Time produced by intervalForWrite (directly, via an aligning slice builder, or via a parameter all callers fill so). Necessary structural conditions of C01.",
 "Not decided: the ring arithmetic as numbers, wrap-around loop bounds of fetchRawPoints, page-boundary behaviour of the cache, history-quantified behaviour.",
 "DESIGN.md 5 (C01)")

# rules added after the mutation campaigns (DESIGN.md 10.8): appended to the level texts above
_extra = {
 "C02": "Also: the loop of propagate over the touched slots is left only when they are exhausted or by a failing return (a slot without known values skips itself, not the rest).",
 "C03": "Also: the per-archive loop of UpdatePointsForArchive and the per-point loop of archiveUpdateMany are left only when exhausted or by a failing return.",
 "C08": "Also decided by decision diagrams: PointsList.AllEmpty (true iff every list is empty), TimeSeriesList.Diff/DiffExcludeSrcNaN (element i is the matching result of DiffPoints*(tl[i], ul[i])), the length guard of DiffPoints*, ArchiveInfo(List).Equal and TimeSeries.EqualTimeRangeAndStep (true iff all parts equal); until is Until or, when 0, the clock reading; single-file mode passes SrcRelPath and DestRelPath (SrcRelPath when empty); the glob loop visits every file.",
 "C09": "Also decided by decision diagrams: the predicates listed under C08, WrapFileNotExistError (wraps exactly when os.IsNotExist) and AsFileNotExistError; until and destination-path defaults of diff; the verdict loop goes on after a difference.",
 "C10": "Also: file 0 initialises the accumulator and files 1.. are added (the test on the file index decides which store runs); the sum command reads sumWhisperFile(SrcBase, item, SrcPattern, ArchiveID, From, until, now) for every item of globItems(SrcBase, ItemPattern) with until defaulting to the clock and prints what it read; the item loop visits every item.",
 "C11": "Also: the predicates listed under C08/C09, the until defaults of sum-copy and sum-diff, and both item loops visit every item.",
 "C12": "Also: isBaseURL is true iff the base starts with http:// or https:// (decision diagram); the base directory is the first element of every filepath.Join in package cmd; wrapHandler answers a handler failure with an error response on every path and appends nothing to a success, httpError.WriteTo sends its status code.",
 "C14": "Also: the slice a decoder loop fills is made with the loop's count before the loop; the retry buffer of readHeader is at least WantedBufSize long; TimeSeries.TakeFrom rejects only until < from and step <= 0 among what the table lists and accepts the all-zero series written for an absent one (decision diagram).",
 "C16": "Also: from the failure edge of a tested call no path reaches a success return without touching the error; a tested error is not returned on its own nil edge; an error stored into a named result is read before it is overwritten; withTextOutWriter and runSubcommand run the body unless they return an error known non-nil, test the open error first, keep the body's error over a nil finish error and store a finish failure; every success return of newTextOutWriter carries a finish function, and the file's finish flushes.",
 "C18": "Also decided: the time filter of view-raw keeps a point iff (from == 0 or t > from) and t <= until (until + step when until == from), as a truth table over sign valuations; view-raw reads (SrcBase, SrcRelPath, ArchiveID) and filters what it read by (From, until); until defaults as for copy; each label of the header lines is fed from the field it names.",
 "C19": "Also: ArchiveInfoList.String, evaluated for three archives, writes e0 , e1 , e2.",
 "C20": "Also decided (decision diagrams and polynomial normal form): slot i of N is at until.Truncate(step) - (N-1-i)*step; randomValWithHighSum adds exactly the finer values truncating to t, stops only past t and adds N*Intn(highRndMax+1) only for slots older than the first finer point; randomPoints takes the covered start from the finer points iff they exist and do not start after until; randomPointsList chains archive k-1 into archive k with bound max*step/step_0; every flag.Value.Set stores what it parsed.",
}
_borrow = {
 "C01": "Also evaluates C03.R1/R4 (a point routed to the wrong archive is not the last value of its slot) and that the writer stores exactly the aligned point it was given (putPointAt encodes its parameter).",
 "C04": "Also evaluates C01.R1 and C06.R6 (the fetch bounds are aligned by interval(), so the floored-modulo and slot-placement rules are this property's as well).",
 "C07": "Also: the first read of readHeader stays within the smallest valid file, so every accepted layout can be reopened.",
 "C08": "Also evaluates C02.R3/R6 (copy writes through the propagating batch writer), that every glob name is filepath.Rel(baseDir, match), and that archives are written finest first with their own lists.",
 "C09": "Also: every glob name is filepath.Rel(baseDir, match) and the glob is expanded on (SrcBase, SrcRelPath).",
 "C10": "Also evaluates C17.R4 (remote sum goes through a handler that must keep no state across requests).",
 "C11": "Also evaluates C10.R2/R4, C17.R3 and C02.R3/R6 (sum-copy stores what sum computes through the propagating writer).",
 "C12": "Also evaluates C17.R4 (handlers keep no state across requests) and C19.R2 (the server parses every timestamp the client prints).",
 "C14": "Also: the decoder's value count is exactly Sub(until, from)/step; the first read of readHeader stays within the smallest valid file.",
 "C15": "Also evaluates C07.R4 (sizes from untrusted counts are bounded in wide arithmetic by the layout validation).",
}
# rules added after the sixth seeding round (DESIGN.md 10.11)
_r6 = {
 "C01": "Also evaluates C03.R3 (the age partition of a batch) and, through C03.R4, that a named archive is the archive written.",
 "C02": "Also: the work-list holds intervalForWrite of each written point's time and nothing in between; what propagate passes on is aligned to archive archiveID+1; the cases of aggregate are found through the named method constants.",
 "C03": "Also: Points.Less is `<` on the two times themselves; the archive id of a single write changes only on the archiveID == ArchiveIDBest outcome.",
 "C06": "Also: the header's max retention is taken from the list the header stores; the aggregation codes are Average..First = 1..6.",
 "C08": "Also evaluates the readWhisperFile/globFiles obligations of C12.R2 (the remote source is requested with the query the handler reads back); the layout comparison pairs element i of one list with element i of the other.",
 "C09": "Also evaluates the readWhisperFile/globFiles obligations of C12.R2 and C18.R1 (values and slot times are listed as stored).",
 "C11": "Also evaluates the sumWhisperFile/globItems obligations of C12.R2; finish() of the text-out writer runs whatever the body returned (the listing reaches its file).",
 "C12": "Also: the client maps an empty body to not-exist for every value it goes on to decode (the body is identified by its use); neither end of the list protocol reorders the names.",
 "C13": "Also: no constant carrying O_TRUNC reaches the flag of os.OpenFile (backward slice through the option field, its stores and the callers).",
 "C14": "Also: the fixed-size decoders (ArchiveInfo, Point, Value, Timestamp, Duration) fail only behind the short edge of a length test.",
 "C15": "Also (C15.R8): in the cmd functions that issue HTTP requests every non-constant make length is built from len(...) and constants.",
 "C16": "Also evaluates C10.R2 (a layout that does not match is refused by sum) and the every-archive obligation of C08.R9.",
 "C17": "Also evaluates C13.R6 (a worker closes the handle it opened before it returns: no hold-and-wait between overlapping sums).",
 "C18": "Also evaluates C19.R2 and the readWhisperFile/readWhisperFileRaw obligations of C12.R2 (the window of a remote view is printed by the client and parsed back by the server).",
 "C20": "The covered start is taken from the finer points iff they exist and start at or before until.",
}
for _k, _v in _r6.items():
    _borrow[_k] = (_borrow.get(_k, "") + " " + _v).strip()
# rules added after the seventh seeding round (DESIGN.md 10.12)
_r7 = {
 "C02": "Also: the max/min loops read the elements of the slice their counter runs over; the loop over the touched slots is not left by a return that reports success.",
 "C03": "Also: below Update/UpdateMany/UpdatePoint(s)ForArchive the package's clock variable is read at exactly one place and time.Now is never called directly.",
 "C04": "Also: below Fetch/FetchFromArchive the clock is read at exactly one place.",
 "C05": "Also: every constant that can reach the flag of os.OpenFile has access mode O_RDWR (a read-only handle makes Sync succeed without writing).",
 "C07": "Also: the number leadingInt returns reaches ParseDuration's guards without a narrowing conversion; no entry point sorts an archive list.",
 "C08": "Also evaluates the archiveUpdateMany obligations of C06.R6; Parse compares From with Until only when -until was given.",
 "C09": "Also: Parse of diff compares From with Until only when -until was given.",
 "C10": "Also evaluates C18.R1; the sum of archive k is stored at index k of a list as long as the files' lists; Parse of sum compares From with Until only when -until was given.",
 "C11": "Also: sum-diff makes the window/step agreement test of its siblings before diffing; Parse of sum-copy and sum-diff does not refuse a window whose until is still to default.",
 "C12": "Also evaluates C14.R1 (encoder and decoder agree field by field); an error response always carries a body.",
 "C13": "Also: a Close on the handle's file field in Open/Create comes after the opened file was stored there.",
 "C14": "Also: the remainder a decoder returns is its parameter advanced by low-bound slicing and nested decoders only, never cut at an upper bound.",
 "C15": "Also (C15.R8): every non-constant make length or capacity in package cmd is built from len(...) and constants (randomPoints excepted, with its reason).",
 "C16": "Also evaluates C17.R3; the exemption of the dropped FlagSet.Parse result holds only while every flag set is created with flag.ExitOnError (checked).",
 "C17": "Also evaluates C13.R2 (the blocking exclusive lock serialises overlapping requests on one file); errgroup workers are started with Go, never TryGo.",
 "C18": "Also: view-raw -sort sorts every list (no way round sort.Stable in the loop); Parse of view and view-raw compares From with Until only when -until was given.",
 "C19": "Also evaluates the aggregationMethodValue obligations of C02.R2; ParseArchiveInfoList keeps the written order; the parsed number is not narrowed before its guards.",
 "C20": "Also: a number parsed for a float32 option is parsed with bitSize 32.",
}
for _k, _v in _r7.items():
    _borrow[_k] = (_borrow.get(_k, "") + " " + _v).strip()
# rules added after the eighth seeding round (DESIGN.md 10.13)
_r8 = {
 "C01": "Also evaluates C02.R6; a single write always stores its point and hands it to the coarser levels.",
 "C02": "Also: the batch writer hands to the coarser levels exactly the aligned points it wrote; the generated name table calls the value of each method constant by that constant's name.",
 "C03": "Also: of two points of one time the later replaces the earlier unconditionally.",
 "C06": "Also evaluates C07.R3 (the pairwise layout rules, no stricter than the reference).",
 "C07": "Also: AggregationMethod is at least 32 bits wide, so the 4-byte header field is validated whole.",
 "C10": "Also evaluates the globItemsLocal obligations of C08.R7.",
 "C11": "Also evaluates the globItemsLocal obligations of C08.R7; no two options of a Parse store into the same field.",
 "C12": "Also: on both ends of the binary protocol the per-archive loop has no way round its codec call; the clients decode ReadAll of the response body itself.",
 "C14": "Also evaluates the upper-bound obligations of C15.R1.",
 "C15": "Also evaluates the TimeSeries.Points obligation of C18.R3; in Open nothing is handed a header-derived size before the file-size test passed.",
 "C16": "Also evaluates the dest-path obligation of C11.R4 and the layout-sides obligation of C08.R2.",
 "C17": "Also: nothing reachable from a handler changes process-wide state (working directory, environment, umask, log defaults).",
 "C19": "Also (C19.R6): the String methods of the flag values branch on the nil pointer only.",
}
for _k, _v in _r8.items():
    _borrow[_k] = (_borrow.get(_k, "") + " " + _v).strip()
# rules added after the ninth seeding round (DESIGN.md 10.14)
_r9 = {
 "C01": "Also: the batch writer replaces a stored base interval only when it is 0.",
 "C02": "Also evaluates the writes-and-propagates obligation of C03.R4.",
 "C03": "Also: Timestamp.Add does not wrap below the epoch.",
 "C04": "Also: both ends of the window are clamped on every path to a series; below FetchFromArchive no function creates an error of its own; Timestamp.Add does not wrap below the epoch.",
 "C06": "Also evaluates the first-read obligation of C14.R5 and the validateAggregationMethod obligation of C02.R2.",
 "C07": "Also: NewHeader validates the method and factor it was given.",
 "C08": "Also: no success return of copy is reachable around the layout comparison; flag timestamps are parsed in UTC; each archive of a remote read is decoded into its own object.",
 "C09": "Also: diff reads the two files it was given (source at srcRelPath, destination at destRelPath); no verdict of success around the layout comparison.",
 "C10": "Also: one reader per matched file, indexed like the result lists.",
 "C11": "Also: the obligations added for C08 and C10 in this round, for sum-copy and sum-diff.",
 "C12": "Also: each archive is decoded into a fresh object; the handle keeps the decoded header; the server's request-header budget is not below net/http's default.",
 "C13": "Also: no in-process mutex is held across the return of a function of the package.",
 "C14": "Also: a counted decoder refuses only counts whose message cannot fit; readHeader stores the decoded header object.",
 "C15": "Also evaluates C04.R1; a piece of a Split result other than the first is taken only after a length test.",
 "C16": "Also evaluates the until-default obligation of C08.R3 and the reads-named-files obligation of C09.R2.",
 "C17": "Also: the spawning loop does not reassign a list its workers read.",
 "C18": "Also evaluates the stores-decoded-header obligation of C14.R5 and the decode-loop obligations of C12.R4.",
 "C19": "Also: every piece between commas reaches ParseArchiveInfo; timestamp texts are parsed in UTC.",
}
for _k, _v in _r9.items():
    _borrow[_k] = (_borrow.get(_k, "") + " " + _v).strip()
# rules added after the tenth seeding round (DESIGN.md 10.15)
_r10 = {
 "C01": "Also evaluates the findBestArchive obligation of C04.R4.",
 "C03": "Also: the partition's clock is the caller's or the package clock, never a time from the batch; evaluates the findBestArchive obligation of C04.R4.",
 "C04": "Also: findBestArchive makes one comparison, of an archive's retention with now.Sub(t), walking the list in order.",
 "C05": "Also: no function of the module removes, renames, truncates or rewrites a file by path.",
 "C06": "Also evaluates C04.R1.",
 "C07": "Also: Header.TakeFrom validates the decoded method and factor after storing them; evaluates the ParseArchiveInfo:rejects obligation of C19.R3.",
 "C09": "Also evaluates the glob…Remote obligations of C12.R6.",
 "C10": "Also: every file read below sumWhisperFileLocal is an element of the glob result.",
 "C11": "Also evaluates C08.R6.",
 "C13": "Also evaluates the retry-buffer obligation of C14.R5.",
 "C14": "Also evaluates the Header.TakeFrom must-validate obligations of C07.R1.",
 "C15": "Also: below the remote readers every loop is driven by a length, a range or a Scanner; evaluates the findBestArchive obligation of C04.R4.",
 "C16": "Also evaluates the writes-every-point obligation of C08.R9.",
 "C18": "Also: no function of cmd that takes an io.Writer prints to standard output; evaluates the zero-series obligation of C14.R6.",
 "C19": "Also evaluates the flag-value obligations of C20.R6.",
 "C20": "Also: the generated lists reach the writer unchanged; a flag's Set stores the parsed value itself, not appended to the old one.",
}
for _k, _v in _r10.items():
    _borrow[_k] = (_borrow.get(_k, "") + " " + _v).strip()
# rules added after the eleventh seeding round (DESIGN.md 10.16)
_r11 = {
 "C01": "Also: FetchFromArchive tests the first slot's time for zero only, and touches the page buffer only through baseInterval and the slot reader.",
 "C03": "Also: Timestamp.Add compares the step back with the time in the unsigned domain.",
 "C04": "Also: Timestamp.Add compares in the unsigned domain; evaluates the retention-31-bits obligation of C07.R4.",
 "C05": "Also evaluates the always-reads-the-file obligation of C06.R6 (the ring's phase is answered from the page buffer on every call).",
 "C06": "Also: baseInterval answers from the page buffer on every call; evaluates C02.R3 and C02.R5.",
 "C07": "Also evaluates the retry-buffer obligation of C14.R5.",
 "C08": "Also: the instant handed to the library is the clock reading itself; evaluates C02.R5.",
 "C09": "Also: the instant handed to the library is the clock reading itself.",
 "C10": "Also: the instant handed to the library is the clock reading itself.",
 "C11": "Also: the instant handed to the library is the clock reading itself; evaluates C02.R5 and the globItemsRemote obligations of C12.R6.",
 "C12": "Also evaluates the EqualTimeRangeAndStep obligation of C08.R2.",
 "C13": "Also: no cmd function opens the file its parameters name more than once on a path.",
 "C15": "Also evaluates the retry-buffer obligation of C14.R5.",
 "C16": "Also evaluates the until-default obligations of diff and the flags-distinct obligations of sum and sum-copy.",
 "C18": "Also: the -text-out file is opened appending or truncating; the instant handed to the library is the clock reading itself.",
}
for _k, _v in _r11.items():
    _borrow[_k] = (_borrow.get(_k, "") + " " + _v).strip()
for _k, _v in _borrow.items():
    _extra[_k] = (_extra.get(_k, "") + " " + _v).strip()
_re = "Every property also evaluates <id>.RE: no failure is turned into success in the functions reachable from its entry points."
for _k, _v in _extra.items():
    _t = claimed[_k]
    claimed[_k] = (_t[0], _t[1] + " " + _v, _t[2], _t[3])
claimed["C18"] = (claimed["C18"][0], claimed["C18"][1], "Not decided: inclusion relations between view and view-raw output for every content.", claimed["C18"][3])
claimed["C20"] = (claimed["C20"][0], claimed["C20"][1], "Not decided: the numeric values themselves (the bound and the sums follow from the decided formulas only for layouts whose steps divide, which C07 guarantees).", claimed["C20"][3])
