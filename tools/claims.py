# property id -> (technique, level text, level note, design ref); exec'd by gen_manifest.py
claimed["C05"] = (
 "static who-may-call over the VTA call graph + must-pass-through on SSA control flow + value derivation",
 "Decides on every path of the current source that only Whisper.Sync can move bytes to the file (who may call Flush/fsync/WriteAt/Truncate/OpenFile, incl. inside the filebuffer dependency), that Sync is flush-then-fsync with both errors surfaced, that Close reaches no write, that header and length are fixed in Create/Open, and that every cmd function that mutates a handle passes a checked Sync on it before any success return and nothing fallible follows the Sync of an existing destination. A necessary structural condition of C05, not the behaviour itself.",
 "Not decided: page-level equality of a reopened handle (correctness of filebuffer's page arithmetic), torn writes inside one Flush, pwritevFull swallowing write errors in the dependency.",
 "DESIGN.md 5 (C05)")
