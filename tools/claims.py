# property id -> (technique, level text, level note, design ref); exec'd by gen_manifest.py
claimed["C05"] = (
 "static who-may-call over the VTA call graph + must-pass-through on SSA control flow + value derivation",
 "Decides on every path of the current source that only Whisper.Sync can move bytes to the file (who may call Flush/fsync/WriteAt/Truncate/OpenFile, incl. inside the filebuffer dependency), that Sync is flush-then-fsync with both errors surfaced, that Close reaches no write, that header and length are fixed in Create/Open, and that every cmd function that mutates a handle passes a checked Sync on it before any success return and nothing fallible follows the Sync of an existing destination. A necessary structural condition of C05, not the behaviour itself.",
 "Not decided: page-level equality of a reopened handle (correctness of filebuffer's page arithmetic), torn writes inside one Flush, pwritevFull swallowing write errors in the dependency.",
 "DESIGN.md 5 (C05)")
claimed["C13"] = (
 "static must-pass-through on SSA control flow (close on every failure path, lock on every success path), constant and who-may-call rules",
 "Decides on every path of the current source the lock discipline C13 rests on: a failed Open/Create closes the descriptor after the lock was taken; openAndLockFile takes a blocking LOCK_EX on the descriptor it opened on every success path (only bypass: the handle's flock option), closes on lock failure and touches nothing before the lock; the default is locked and the module never opts out; only openAndLockFile calls flock; the library never hands out a handle whose descriptor it closed; server-reachable code closes every handle it opens. Necessary structural conditions of C13.",
 "Not decided: lost-update freedom and page-mixture freedom under real schedules (consequences of flock semantics and of this discipline), behaviour of flock across processes/filesystems.",
 "DESIGN.md 5 (C13)")
claimed["C16"] = (
 "static return classification and error-discard discipline on SSA, nil-contract fixpoint over the call graph, derives-from checks on command plumbing, must-pass-through Sync",
 "Decides on every path of the current source: no return of nil inside a region entered only with a non-nil error (swallowed error), no discarded error result outside an enumerated reasoned list, every Execute returns withTextOutWriter(c.TextOut, c.execute) whose result is f's error with finish's error stored into the returned variable, main returns Parse/Execute errors to the exit-code mapping, possibly-nil *TimeSeries values never reach a dereferencing position in command/handler-reachable code, the only explicit panic is unreachable for validated headers, and mutating commands pass a checked Sync before reporting success. Necessary structural conditions of 'no panic and no silent success'.",
 "Not decided: that each command's effect is complete and correct (value clauses of C08-C11, C18, C20); faults below the os package; panics from slice indexing on hostile data (C15).",
 "DESIGN.md 5 (C16)")
