#!/bin/sh
# runs every claimed check (quick by default) and prints one line per property
tier=${1:-quick}
cd /verif
rc=0
for id in $(python3 -c "import json;print(' '.join(c['property_id'] for c in json.load(open('MANIFEST.json'))['checks']))"); do
  out=$(./bin/wtcheck -property $id -tier $tier 2>&1); code=$?
  echo "$id exit=$code $(echo "$out" | grep -E "^$id $tier" | cut -c1-120)"
  if [ $code -ne 0 ]; then rc=1; echo "$out" | grep -E "VIOLATED|UNDECIDED" | cut -c1-300; fi
done
exit $rc
