#!/usr/bin/env python3
"""Builds /verif/mutation/controls from the mutation campaigns: every single-site mutant that compiles, passes the
66 tests (campaign result SURVIVED, i.e. the tests do not notice it) and is reported by the checker becomes a positive
control of the thorough tier (patch.diff + meta.json with the reporting rules per property).
usage: make_mutation_controls.py <set>:<campaign.tsv> ...   (e.g. 1:mutation/campaign1.tsv 2:mutation/campaign2.tsv)"""
import json, os, re, shutil, subprocess, sys, tempfile
from concurrent.futures import ThreadPoolExecutor
V = '/verif'
out = os.path.join(V, 'mutation', 'controls')
def rows(path):
    rs, cur = [], None
    for l in open(path):
        l = l.rstrip('\n')
        if re.match(r'^\d+\t', l):
            if cur: rs.append(cur)
            cur = l
        else:
            cur = (cur or '') + ' ' + l
    if cur: rs.append(cur)
    return rs
def one(job):
    mset, n, desc = job
    d = tempfile.mkdtemp(prefix='wtmc', dir='/tmp')
    try:
        subprocess.check_call('git -C /repo archive HEAD | tar -x -C ' + d, shell=True)
        subprocess.check_call(['cp', '-r', d, d + '.orig'])
        env = dict(os.environ, MUTATE_SET=str(mset))
        subprocess.check_output([V + '/bin/mutate', 'apply', d, str(n)], env=env)
        r = subprocess.run([V + '/bin/wtcheck', '-all', '-repo', d], capture_output=True, text=True, cwd=V)
        det = {}
        for l in r.stdout.splitlines():
            m = re.match(r'^(C\d\d) FAIL \S+ (VIOLATED|UNDECIDED) (\S+) ', l)
            if m:
                det.setdefault(m.group(1), [])
                if m.group(3) not in det[m.group(1)]:
                    det[m.group(1)].append(m.group(3))
        if not det:
            return None
        p = subprocess.run(['diff', '-ruN', '--label', 'a', '--label', 'b', d + '.orig', d], capture_output=True, text=True).stdout
        # rewrite headers to git style a/<file> b/<file>
        p = re.sub(r'^diff -ruN .*? (\S+)\.orig/(\S+) \S+$', lambda m: 'diff --git a/%s b/%s' % (m.group(2), m.group(2)), p, flags=re.M)
        files = re.findall(r'^diff --git a/(\S+) b/', p, flags=re.M)
        lines, fi = [], 0
        for l in p.splitlines():
            if l == '--- a':
                lines.append('--- a/' + files[fi]); continue
            if l == '+++ b':
                lines.append('+++ b/' + files[fi]); fi += 1; continue
            lines.append(l)
        return (mset, n, desc, det, '\n'.join(lines) + '\n')
    finally:
        shutil.rmtree(d, ignore_errors=True); shutil.rmtree(d + '.orig', ignore_errors=True)
jobs = []
for a in sys.argv[1:]:
    mset, path = a.split(':', 1)
    for r in rows(path):
        f = r.split('\t')
        if f[-1].strip() == 'SURVIVED':
            jobs.append((int(mset), int(f[0]), '\t'.join(f[1:4])))
shutil.rmtree(out, ignore_errors=True); os.makedirs(out)
n = 0
with ThreadPoolExecutor(max_workers=6) as ex:
    for res in ex.map(one, jobs):
        if not res: continue
        mset, k, desc, det, patch = res
        mid = 'm%d-%04d' % (mset, k)
        os.makedirs(os.path.join(out, mid))
        open(os.path.join(out, mid, 'patch.diff'), 'w').write(patch)
        json.dump({'id': mid, 'summary': 'single-site mutation (set %d): %s' % (mset, desc.replace('\t', ' | ')), 'detected_by': det}, open(os.path.join(out, mid, 'meta.json'), 'w'), indent=1)
        n += 1
print(n, 'controls of', len(jobs), 'test-surviving mutants')
