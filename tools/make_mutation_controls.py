#!/usr/bin/env python3
"""Builds /verif/mutation/controls from the mutation campaigns (at most 40 controls per property, the mutants that no check
reported on first contact first): every single-site mutant that compiles, passes the
66 tests (campaign result SURVIVED, i.e. the tests do not notice it) and is reported by the checker becomes a positive
control of the thorough tier (patch.diff + meta.json with the reporting rules per property).
usage: make_mutation_controls.py <set>:<campaign.tsv> ...   (e.g. 1:mutation/campaign1.tsv 2:mutation/campaign2.tsv)"""
import json, os, re, shutil, subprocess, sys, tempfile
from concurrent.futures import ThreadPoolExecutor
V = '/verif'
out = os.path.join(V, 'mutation', 'controls')
def rows(path):
    rs, cur = [], None
    for l in open(path):
        l = l.rstrip('\n')
        if re.match(r'^\d+\t', l):
            if cur: rs.append(cur)
            cur = l
        else:
            cur = (cur or '') + ' ' + l
    if cur: rs.append(cur)
    return rs
def one(job):
    mset, n, desc = job
    d = tempfile.mkdtemp(prefix='wtmc', dir='/tmp')
    try:
        subprocess.check_call('git -C /repo archive HEAD | tar -x -C ' + d, shell=True)
        subprocess.check_call(['cp', '-r', d, d + '.orig'])
        env = dict(os.environ, MUTATE_SET=str(mset))
        subprocess.check_output([V + '/bin/mutate', 'apply', d, str(n)], env=env)
        r = subprocess.run([V + '/bin/wtcheck', '-all', '-repo', d], capture_output=True, text=True, cwd=V)
        det = {}
        for l in r.stdout.splitlines():
            m = re.match(r'^(C\d\d) FAIL \S+ (VIOLATED|UNDECIDED) (\S+) ', l)
            if m:
                det.setdefault(m.group(1), [])
                if m.group(3) not in det[m.group(1)]:
                    det[m.group(1)].append(m.group(3))
        if not det:
            return None
        q = subprocess.run(['diff', '-rq', d + '.orig', d], capture_output=True, text=True).stdout
        patch = ''
        for l in q.splitlines():
            m = re.match(r'^Files (\S+) and (\S+) differ$', l)
            if not m:
                continue
            rel = os.path.relpath(m.group(2), d)
            patch += subprocess.run(['diff', '-u', '--label', 'a/' + rel, '--label', 'b/' + rel, m.group(1), m.group(2)], capture_output=True, text=True).stdout
        if not patch:
            return None
        return (mset, n, desc, det, patch)
    finally:
        shutil.rmtree(d, ignore_errors=True); shutil.rmtree(d + '.orig', ignore_errors=True)
jobs = []
for a in sys.argv[1:]:
    mset, path = a.split(':', 1)
    for r in rows(path):
        f = r.split('\t')
        # set 1 ran the tests before the checks: its "detected" rows passed the tests as well
        if f[-1].strip() == 'SURVIVED' or (mset == '1' and f[-1].strip().startswith('detected')):
            jobs.append((int(mset), int(f[0]), '\t'.join(f[1:4])))
shutil.rmtree(out, ignore_errors=True); os.makedirs(out)
n = 0
# the mutants no check reported on first contact come first; then at most CAP controls per property
first = {(int(a.split(':')[0]), int(r.split('\t')[0])) for a in sys.argv[1:] for r in rows(a.split(':', 1)[1]) if r.split('\t')[-1].strip() == 'SURVIVED'}
jobs.sort(key=lambda j: (0 if (j[0], j[1]) in first else 1, j[0], j[1]))
CAP = 40
per = {}
with ThreadPoolExecutor(max_workers=6) as ex:
    for res in ex.map(one, jobs):
        if not res: continue
        mset, k, desc, det, patch = res
        det = {p: rs for p, rs in det.items() if per.get(p, 0) < CAP}
        if not det: continue
        for p in det: per[p] = per.get(p, 0) + 1
        mid = 'm%d-%04d' % (mset, k)
        os.makedirs(os.path.join(out, mid))
        open(os.path.join(out, mid, 'patch.diff'), 'w').write(patch)
        json.dump({'id': mid, 'summary': 'single-site mutation (set %d): %s' % (mset, desc.replace('\t', ' | ')), 'detected_by': det}, open(os.path.join(out, mid, 'meta.json'), 'w'), indent=1)
        n += 1
print(n, 'controls of', len(jobs), 'test-surviving mutants')
