#!/bin/sh
# usage: mutant_run.sh <n>  — applies mutation n to a scratch copy, classifies it: nocompile | killed-by-tests | detected:<props> | SURVIVED
n=$1
export GOFLAGS=-mod=mod GOPROXY=off GOSUMDB=off GOTOOLCHAIN=local; unset GOWORK
d=$(mktemp -d /tmp/wtmu.XXXXXX); trap 'rm -rf "$d"' EXIT
git -C /repo archive HEAD | tar -x -C "$d"
desc=$(/verif/bin/mutate apply "$d" $n)
cd "$d"
if ! go build ./... >/dev/null 2>&1; then echo "$desc	nocompile"; exit 0; fi
if ! go vet ./... >/dev/null 2>&1; then echo "$desc	novet"; exit 0; fi
if ! go test -mod=mod -vet=off -count=1 -timeout 5m . ./cmd >/dev/null 2>&1; then echo "$desc	killed"; exit 0; fi
if ! go test -mod=mod -vet=off -count=1 -timeout 10m ./internal/... >/dev/null 2>&1; then echo "$desc	killed"; exit 0; fi
det=""
for i in 01 02 03 04 05 06 07 08 09 10 11 12 13 14 15 16 17 18 19 20; do
  if ! /verif/bin/wtcheck -property C$i -repo "$d" -no-controls -evidence-dir "$d/.ev" >/dev/null 2>&1; then det="$det C$i"; fi
done
if [ -n "$det" ]; then echo "$desc	detected:$det"; else echo "$desc	SURVIVED"; fi
