#!/usr/bin/env python3
"""Prepares a seeding round: /tmp/seed<N>/out-Cxx/{PROMPT.txt,PROPERTY.txt} and a scratch worktree /tmp/seed<N>/wt-Cxx
of /repo HEAD per property. The prompt lists the one-line summaries of every earlier seeded change for the property
(from /verif/seeded/*/meta.json) so that authors do not repeat them. usage: make_seed_round.py <N> [template-round]"""
import glob, json, os, re, subprocess, sys
n = sys.argv[1]
tmpl_round = sys.argv[2] if len(sys.argv) > 2 else '6'
root = f'/tmp/seed{n}'
props = {}
for l in open('/verif/properties.jsonl'):
    d = json.loads(l); props[d['id']] = d
tried = {}
for m in sorted(glob.glob('/verif/seeded/*/meta.json')):
    d = json.load(open(m))
    s = re.sub(r'^#\s*', '', d.get('summary', '').strip())
    tried.setdefault(d['property'], []).append(s)
EXTRA = open('/verif/tools/seed_round_guidance.txt').read() if os.path.exists('/verif/tools/seed_round_guidance.txt') else ''
for pid, p in props.items():
    out = f'{root}/out-{pid}'
    os.makedirs(out, exist_ok=True)
    a = p['anchors']
    txt = f"{pid} — {p['title']}\n\n{p['statement']}\n\nQuantifier: {json.dumps(p['quantifier'])}\n\nWhy tests cannot settle it: {p['why_tests_cant']}\n\nAnchors: {json.dumps(a, indent=1)}\n"
    open(f'{out}/PROPERTY.txt', 'w').write(txt)
    t = open(f'/tmp/seed{tmpl_round}/out-{pid}/PROMPT.txt').read()
    head = t.split('Additional guidance for this round:')[0]
    head = head.replace(f'/tmp/seed{tmpl_round}/', f'{root}/')
    lst = '\n'.join('- ' + s for s in tried.get(pid, []))
    tail = ("Additional guidance for this round: ten earlier rounds of volunteers and a mechanical mutation campaign (every comparison operator, every `if err != nil`, every deleted statement or guard, swapped arguments, swapped results, sibling calls, constants +1) have been through this code already. The changes already tried FOR THIS PROPERTY are listed below — do NOT repeat any of them or a close variant (same function and same idea):\n"
            + lst + "\n" + EXTRA)
    open(f'{out}/PROMPT.txt', 'w').write(head + tail)
    wt = f'{root}/wt-{pid}'
    if not os.path.isdir(wt):
        subprocess.check_call(['git', '-C', '/repo', 'worktree', 'add', '-q', '--detach', wt, 'HEAD'])
print('prepared', root, len(props), 'properties;', sum(len(v) for v in tried.values()), 'earlier changes listed')
