#!/bin/sh
# Triage helper (not a check): runs the defect demonstrations of
# /verif/findings/demos against a scratch copy of /repo's working tree.
# usage: run_demos.sh [go-test -run regexp]
set -e
export GOFLAGS=-mod=mod GOPROXY=off GOSUMDB=off GOTOOLCHAIN=local
unset GOWORK
S=$(mktemp -d /tmp/wtdemo.XXXXXX)
trap 'rm -rf "$S"' EXIT
rsync -a --exclude .git /repo/ "$S/"
cp /verif/findings/demos/lib_demo_test.go "$S/zz_demo_lib_test.go"
cp /verif/findings/demos/cmd_demo_test.go "$S/cmd/zz_demo_cmd_test.go"
cd "$S"
go test -vet=off -count=1 -run "${1:-TestDemo}" . ./cmd 2>&1 | grep -v '^conda' | grep -E '^(---|===|ok|FAIL|panic|\s+zz_|\s+---)' || true
