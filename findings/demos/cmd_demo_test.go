package cmd

// Triage demonstrations for the command-level defects listed in
// /verif/DESIGN.md section 6 (not checks; see lib_demo_test.go).

import (
	"flag"
	"io/ioutil"
	"math/rand"
	"net/http"
	"net/http/httptest"
	"os"
	"path/filepath"
	"testing"
	"time"

	"github.com/hnakamur/whispertool"
)

func demoDir(t *testing.T) string {
	t.Helper()
	dir, err := ioutil.TempDir("", "wtdemo")
	if err != nil {
		t.Fatal(err)
	}
	t.Cleanup(func() { os.RemoveAll(dir) })
	return dir
}

func demoServer(t *testing.T, baseDir string) *httptest.Server {
	a := &app{baseDir: baseDir}
	mux := http.NewServeMux()
	mux.HandleFunc("/view", wrapHandler(a.handleView))
	mux.HandleFunc("/view-raw", wrapHandler(a.handleViewRaw))
	mux.HandleFunc("/sum", wrapHandler(a.handleSum))
	mux.HandleFunc("/items", wrapHandler(a.handleItems))
	mux.HandleFunc("/files", wrapHandler(a.handleFiles))
	s := httptest.NewServer(mux)
	t.Cleanup(s.Close)
	return s
}

// D5 (C12.R5): a missing file is not-exist through view, local view-raw, but
// not through remote view-raw.
func TestDemoD5ViewRawRemoteNotExist(t *testing.T) {
	dir := demoDir(t)
	s := demoServer(t, dir)
	_, _, errLocal := readWhisperFileRaw(dir, "missing.wsp", ArchiveIDAll)
	if !os.IsNotExist(errLocal) {
		t.Fatalf("local: %v", errLocal)
	}
	_, _, errView := readWhisperFile(s.URL, "missing.wsp", ArchiveIDAll, 0, 100, 100)
	if !os.IsNotExist(errView) {
		t.Fatalf("remote view: %v", errView)
	}
	_, _, errRemote := readWhisperFileRaw(s.URL, "missing.wsp", ArchiveIDAll)
	if !os.IsNotExist(errRemote) {
		t.Fatalf("remote view-raw reports %q instead of not-exist", errRemote)
	}
}

func demoGenerate(t *testing.T, path, layout string, fill bool) whispertool.ArchiveInfoList {
	t.Helper()
	l, err := whispertool.ParseArchiveInfoList(layout)
	if err != nil {
		t.Fatal(err)
	}
	if err := os.MkdirAll(filepath.Dir(path), 0755); err != nil {
		t.Fatal(err)
	}
	g := &GenerateCommand{Dest: path, Perm: 0644, ArchiveInfoList: l, AggregationMethod: whispertool.Sum, RandMax: 10, Fill: fill}
	if err := g.Execute(); err != nil {
		t.Fatal(err)
	}
	return l
}

// D8 (C16.R1): an unopenable -text-out makes the command report success
// without having run.
func TestDemoD8TextOutUnopenable(t *testing.T) {
	dir := demoDir(t)
	demoGenerate(t, filepath.Join(dir, "a.wsp"), "1s:10s", true)
	c := &ViewCommand{SrcBase: dir, SrcRelPath: "a.wsp", ArchiveID: ArchiveIDAll, ShowHeader: true,
		TextOut: filepath.Join(dir, "no", "such", "dir", "out.txt")}
	if err := c.Execute(); err == nil {
		t.Fatal("view reported success although its output could not be opened")
	}
}

// D9 (C16.R2): selecting one archive (or a window outside an archive's
// retention) leaves nil series in the list.
func TestDemoD9SingleArchiveNilSeries(t *testing.T) {
	dir := demoDir(t)
	l := demoGenerate(t, filepath.Join(dir, "s", "item1", "a.wsp"), "1s:10s,5s:50s", true)
	demoGenerate(t, filepath.Join(dir, "d", "item1", "a.wsp"), "1s:10s,5s:50s", true)
	run := func(name string, f func() error) {
		t.Run(name, func(t *testing.T) {
			defer func() {
				if r := recover(); r != nil {
					t.Fatalf("%s panicked: %v", name, r)
				}
			}()
			if err := f(); err != nil && err != ErrDiffFound {
				t.Fatalf("%s: %v", name, err)
			}
		})
	}
	run("diff -archive 1", func() error {
		return (&DiffCommand{SrcBase: filepath.Join(dir, "s"), SrcRelPath: "item1/a.wsp", DestBase: filepath.Join(dir, "d"), ArchiveID: 1, TextOut: ""}).Execute()
	})
	run("copy -archive 1", func() error {
		return (&CopyCommand{SrcBase: filepath.Join(dir, "s"), SrcRelPath: "item1/a.wsp", DestBase: filepath.Join(dir, "d"),
			ArchiveInfoList: l, AggregationMethod: whispertool.Sum, ArchiveID: 1, TextOut: ""}).Execute()
	})
	run("sum -archive 1", func() error {
		return (&SumCommand{SrcBase: filepath.Join(dir, "s"), ItemPattern: "item1", SrcPattern: "*.wsp", ArchiveID: 1, TextOut: ""}).Execute()
	})
	run("sum-diff -archive 0", func() error {
		return (&SumDiffCommand{SrcBase: filepath.Join(dir, "s"), ItemPattern: "item1", SrcPattern: "*.wsp",
			DestBase: filepath.Join(dir, "d"), DestRelPath: "a.wsp", ArchiveID: 0, TextOut: ""}).Execute()
	})
	s := demoServer(t, filepath.Join(dir, "s"))
	t.Run("remote view -archive 1 equals local", func(t *testing.T) {
		now := whispertool.TimestampFromStdTime(time.Now())
		_, local, err := readWhisperFile(filepath.Join(dir, "s"), "item1/a.wsp", 1, 0, now, now)
		if err != nil {
			t.Fatal(err)
		}
		_, remote, err := readWhisperFile(s.URL, "item1/a.wsp", 1, 0, now, now)
		if err != nil {
			t.Fatalf("remote: %v", err)
		}
		lp, rp := local.PointsList(), remote.PointsList()
		if len(lp) != len(rp) {
			t.Fatalf("archive counts differ: %d vs %d", len(lp), len(rp))
		}
		for i := range lp {
			if !lp[i].Equal(rp[i]) {
				t.Fatalf("archive %d differs: local %v remote %v", i, lp[i], rp[i])
			}
		}
	})
}

// D10 (C16.R1): sum-diff with a missing destination reports success.
func TestDemoD10SumDiffMissingDest(t *testing.T) {
	dir := demoDir(t)
	demoGenerate(t, filepath.Join(dir, "s", "item1", "a.wsp"), "1s:10s", true)
	if err := os.MkdirAll(filepath.Join(dir, "d"), 0755); err != nil {
		t.Fatal(err)
	}
	c := &SumDiffCommand{SrcBase: filepath.Join(dir, "s"), ItemPattern: "item1", SrcPattern: "*.wsp",
		DestBase: filepath.Join(dir, "d"), DestRelPath: "sum.wsp", ArchiveID: ArchiveIDAll, TextOut: ""}
	if err := c.Execute(); err == nil {
		t.Fatal("sum-diff reported success although the destination does not exist")
	}
}

// D11 (C08.R8): a coarse slot that already matches is overwritten by the
// copy's own propagation of the finer differences.
func TestDemoD11CopyPropagationCorruptsMatchingSlot(t *testing.T) {
	dir := demoDir(t)
	l, _ := whispertool.ParseArchiveInfoList("1s:10s,5s:50s")
	now := whispertool.TimestampFromStdTime(time.Now())
	base := now.Truncate(5) - 10
	mk := func(sub string, fine whispertool.Value) {
		p := filepath.Join(dir, sub, "a.wsp")
		os.MkdirAll(filepath.Dir(p), 0755)
		db, err := whispertool.Create(p, l, whispertool.Sum, 0)
		if err != nil {
			t.Fatal(err)
		}
		defer db.Close()
		// coarse archive first (not the aggregate of the finer one), then fine.
		if err := db.UpdatePointsForArchive([]whispertool.Point{{Time: base + 5, Value: 100}}, 1, now); err != nil {
			t.Fatal(err)
		}
		if err := db.UpdatePointsForArchive([]whispertool.Point{{Time: base + 6, Value: fine}}, 0, now); err != nil {
			t.Fatal(err)
		}
		// restore the coarse value that propagation just replaced
		if err := db.UpdatePointsForArchive([]whispertool.Point{{Time: base + 5, Value: 100}}, 1, now); err != nil {
			t.Fatal(err)
		}
		if err := db.Sync(); err != nil {
			t.Fatal(err)
		}
	}
	mk("s", 1)
	mk("d", 2)
	cp := &CopyCommand{SrcBase: filepath.Join(dir, "s"), SrcRelPath: "a.wsp", DestBase: filepath.Join(dir, "d"),
		ArchiveInfoList: l, AggregationMethod: whispertool.Sum, ArchiveID: ArchiveIDAll, TextOut: "", Until: now}
	if err := cp.Execute(); err != nil {
		t.Fatal(err)
	}
	df := &DiffCommand{SrcBase: filepath.Join(dir, "s"), SrcRelPath: "a.wsp", DestBase: filepath.Join(dir, "d"),
		ArchiveID: ArchiveIDAll, TextOut: "", Until: now}
	if err := df.Execute(); err != nil {
		t.Fatalf("diff after a successful copy: %v", err)
	}
}

// D14 (C20.R5): layout 1s:60s,1m:1h generated at an instant in the last second
// of a minute: the 60 finer points start exactly at the newest coarser slot,
// which is therefore fully covered, and it held a plain random value instead of
// their sum (fixed by a64fc04; passes on the repaired tree).
func TestDemoD14GenerateNewestCoarseSlotCovered(t *testing.T) {
	rets, err := whispertool.ParseArchiveInfoList("1s:60s,1m:1h")
	if err != nil {
		t.Fatal(err)
	}
	m := whispertool.Timestamp(1600000020) // a whole minute
	for _, now := range []whispertool.Timestamp{m + 58, m + 59} {
		rnd := rand.New(rand.NewSource(1))
		pl := randomPointsList(rets, rnd, 100, now, now)
		fine, coarse := pl[0], pl[1]
		last := coarse[len(coarse)-1]
		sum, n := whispertool.Value(0), 0
		for _, p := range fine {
			if p.Time.Truncate(whispertool.Minute) == last.Time {
				sum += p.Value
				n++
			}
		}
		if n == 60 && last.Value != sum {
			t.Errorf("now=minute+%d: the newest coarser slot is covered by 60 finer slots summing to %s but holds %s", now-m, sum, last.Value)
		}
	}
}

// D15 (window-check rule of C08/C09/C10/C18): the commands read Until == 0 as
// "until now", but Parse refused every -from given without -until because it
// compared From with the still-zero Until (fixed by 0fa9054; passes on the
// repaired tree).
func TestDemoD15FromWithoutUntil(t *testing.T) {
	dir := demoDir(t)
	for name, c := range map[string]Command{
		"copy":     &CopyCommand{},
		"diff":     &DiffCommand{},
		"sum":      &SumCommand{},
		"view":     &ViewCommand{},
		"view-raw": &ViewRawCommand{},
	} {
		fs := flag.NewFlagSet(name, flag.ContinueOnError)
		args := []string{"-src-base", dir, "-src", "a.wsp", "-from", "2020-01-01T00:00:00Z"}
		switch name {
		case "copy", "diff":
			args = append(args, "-dest-base", dir)
		case "sum":
			args = []string{"-src-base", dir, "-item", "a", "-src", "*.wsp", "-from", "2020-01-01T00:00:00Z"}
		}
		if name == "copy" {
			args = append(args, "-agg-method", "sum", "-retentions", "1m:1h")
		}
		if err := c.Parse(fs, args); err != nil {
			t.Errorf("%s -from T (no -until): Parse refuses the window: %v", name, err)
		}
	}
}

// D16 (C11.R3 range-check, C16): sum-diff compared the sum with the destination
// without the window/step agreement test its siblings (diff, copy, sum-copy)
// make first. A /sum response with the destination's layout but a longer series
// made printDiff index past the destination's list (fixed; passes on the
// repaired tree, where sum-diff returns an error instead).
func TestDemoD16SumDiffSeriesLengthMismatch(t *testing.T) {
	dir := demoDir(t)
	rets, err := whispertool.ParseArchiveInfoList("1s:10s")
	if err != nil {
		t.Fatal(err)
	}
	if err := os.MkdirAll(filepath.Join(dir, "it"), 0755); err != nil {
		t.Fatal(err)
	}
	db, err := whispertool.Create(filepath.Join(dir, "it", "sum.wsp"), rets, whispertool.Sum, 0)
	if err != nil {
		t.Fatal(err)
	}
	if err := db.Sync(); err != nil {
		t.Fatal(err)
	}
	h := db.Header()
	db.Close()
	mux := http.NewServeMux()
	mux.HandleFunc("/sum", func(w http.ResponseWriter, r *http.Request) {
		// the destination's layout, a series of 100 values
		buf := h.AppendTo(nil)
		vals := make([]whispertool.Value, 100)
		for i := range vals {
			vals[i] = whispertool.Value(i)
		}
		ts := whispertool.NewTimeSeries(1000, 1100, whispertool.Second, vals)
		buf = ts.AppendTo(buf)
		w.Write(buf)
	})
	s := httptest.NewServer(mux)
	defer s.Close()
	c := &SumDiffCommand{SrcBase: s.URL, DestBase: dir, ItemPattern: "it", SrcPattern: "*.wsp", DestRelPath: "sum.wsp", ArchiveID: ArchiveIDAll, TextOut: ""}
	defer func() {
		if p := recover(); p != nil {
			t.Errorf("sum-diff panicked on a /sum response whose series is longer than the destination's: %v", p)
		}
	}()
	err = c.sumDiffItem("it", ioutil.Discard)
	if err == nil || err == ErrDiffFound {
		t.Logf("sum-diff returned %v", err)
	}
}
