package whispertool

// Triage demonstrations for the library-level defects listed in
// /verif/DESIGN.md section 6. They are NOT checks: they only show, against the
// real code, the concrete input on which each reported construct fails.
// Run with /verif/findings/run_demos.sh (works on a scratch copy of /repo).

import (
	"encoding/binary"
	"io/ioutil"
	"math"
	"os"
	"path/filepath"
	"runtime"
	"syscall"
	"testing"
	"time"
)

func demoTempFile(t *testing.T) string {
	t.Helper()
	dir, err := ioutil.TempDir("", "wtdemo")
	if err != nil {
		t.Fatal(err)
	}
	t.Cleanup(func() { os.RemoveAll(dir) })
	return filepath.Join(dir, "a.wsp")
}

func demoMustParse(t *testing.T, s string) ArchiveInfoList {
	t.Helper()
	l, err := ParseArchiveInfoList(s)
	if err != nil {
		t.Fatal(err)
	}
	return l
}

// D1 (C02.R1): a batch in which a freshly written finer slot is overwritten
// before it is aggregated leaves zero known values; with xff=0 the gate lets
// the empty set through to aggregate().
func TestDemoD1PropagateEmptyKnownSet(t *testing.T) {
	for _, m := range []AggregationMethod{Last, First, Max, Min, Average, Sum} {
		m := m
		t.Run(m.String(), func(t *testing.T) {
			defer func() {
				if r := recover(); r != nil {
					t.Fatalf("update panicked: %v", r)
				}
			}()
			path := demoTempFile(t)
			db, err := Create(path, demoMustParse(t, "4s:8s,8s:32s"), m, 0)
			if err != nil {
				t.Fatal(err)
			}
			defer db.Close()
			// ring of 2 slots of 4s: t=16 overwrites the slot of t=8 (=10 aligned),
			// so the coarse interval 8 has no known finer value when it is aggregated.
			if err := db.UpdatePointsForArchive([]Point{{Time: 10, Value: 1}, {Time: 16, Value: 2}}, 0, 17); err != nil {
				t.Fatal(err)
			}
			pts, err := db.GetAllRawUnsortedPoints(1)
			if err != nil {
				t.Fatal(err)
			}
			for _, p := range pts {
				if p.Time == 8 {
					t.Fatalf("coarse slot 8 stored value %v invented from an empty set of known values", p.Value)
				}
			}
		})
	}
}

// D2 (C04.R1): the shape of a degenerate window depends on whether the
// archive was ever written.
func TestDemoD2FetchShapeIndependentOfContent(t *testing.T) {
	mk := func(write bool) *TimeSeries {
		path := demoTempFile(t)
		db, err := Create(path, demoMustParse(t, "4s:40s"), Sum, 0)
		if err != nil {
			t.Fatal(err)
		}
		defer db.Close()
		if write {
			if err := db.UpdatePointForArchive(0, 90, 1, 100); err != nil {
				t.Fatal(err)
			}
		}
		ts, err := db.FetchFromArchive(0, 81, 82, 100)
		if err != nil {
			t.Fatal(err)
		}
		return ts
	}
	a, b := mk(false), mk(true)
	if a.FromTime() != b.FromTime() || a.UntilTime() != b.UntilTime() || len(a.Values()) != len(b.Values()) {
		t.Fatalf("shape differs: never-written %v..%v n=%d, written %v..%v n=%d",
			uint32(a.FromTime()), uint32(a.UntilTime()), len(a.Values()),
			uint32(b.FromTime()), uint32(b.UntilTime()), len(b.Values()))
	}
}

// D3 (C07.R2): NaN is not a number within [0,1].
func TestDemoD3NaNXFilesFactor(t *testing.T) {
	nan := float32(math.NaN())
	if _, err := NewHeader(Sum, nan, demoMustParse(t, "1s:10s")); err == nil {
		t.Fatal("NewHeader accepted xFilesFactor NaN")
	}
}

// D4 (C07.R4): a layout whose offsets do not fit 32 bits is accepted.
func TestDemoD4OffsetsWrap32Bits(t *testing.T) {
	l, err := ParseArchiveInfoList("1s:20y")
	if err == nil {
		h, err2 := NewHeader(Sum, 0, l)
		if err2 == nil {
			t.Fatalf("layout 1s:20y accepted: expected file size %d does not fit the format's 32-bit offsets", h.ExpectedFileSize())
		}
	}
	// two archives: the second archive's offset wraps.
	l2 := ArchiveInfoList{NewArchiveInfo(1, 300000000), NewArchiveInfo(2, 300000000)}
	if _, err := NewHeader(Sum, 0, l2); err == nil {
		t.Fatal("layout with wrapped second offset accepted")
	}
	// retention does not fit int32
	l3 := ArchiveInfoList{NewArchiveInfo(60, 100000000)}
	if _, err := NewHeader(Sum, 0, l3); err == nil {
		t.Fatal("layout whose retention overflows 31 bits accepted")
	}
}

// D6 (C13.R1): a failed Open leaves the descriptor open and locked.
func TestDemoD6FailedOpenKeepsLock(t *testing.T) {
	path := demoTempFile(t)
	if err := ioutil.WriteFile(path, []byte{0, 0, 0, 1}, 0644); err != nil {
		t.Fatal(err)
	}
	w, err := Open(path)
	if err == nil {
		w.Close()
		t.Fatal("expected Open to fail")
	}
	f, err := os.Open(path)
	if err != nil {
		t.Fatal(err)
	}
	defer f.Close()
	if err := syscall.Flock(int(f.Fd()), syscall.LOCK_EX|syscall.LOCK_NB); err != nil {
		t.Fatalf("file is still locked after a failed Open: %v", err)
	}
}

func TestDemoD6FailedCreateKeepsLock(t *testing.T) {
	path := demoTempFile(t)
	if err := ioutil.WriteFile(path, nil, 0644); err != nil {
		t.Fatal(err)
	}
	// read-only descriptor: Truncate fails after the lock was taken.
	w, err := Create(path, demoMustParse(t, "1s:10s"), Sum, 0, WithOpenFileFlag(os.O_RDONLY))
	if err == nil {
		w.Close()
		t.Fatal("expected Create to fail")
	}
	f, err := os.Open(path)
	if err != nil {
		t.Fatal(err)
	}
	defer f.Close()
	if err := syscall.Flock(int(f.Fd()), syscall.LOCK_EX|syscall.LOCK_NB); err != nil {
		t.Fatalf("file is still locked after a failed Create: %v", err)
	}
}

func demoNoPanic(t *testing.T, name string, f func() error) {
	t.Helper()
	defer func() {
		if r := recover(); r != nil {
			t.Fatalf("%s panicked: %v", name, r)
		}
	}()
	if err := f(); err == nil {
		t.Fatalf("%s: expected an error", name)
	}
}

// D7a (C15.R1): archiveCount*12 wraps 32 bits, the guard passes, 4 GiB of
// ArchiveInfo are allocated for a 28-byte input.
func TestDemoD7aHeaderCountWraps(t *testing.T) {
	b := make([]byte, 28)
	binary.BigEndian.PutUint32(b[0:], 1)
	binary.BigEndian.PutUint32(b[4:], 10)
	binary.BigEndian.PutUint32(b[8:], 0)
	binary.BigEndian.PutUint32(b[12:], 0x55555556) // *12 == 8 (mod 2^32)
	var before, after runtime.MemStats
	runtime.ReadMemStats(&before)
	var h Header
	_, err := h.TakeFrom(b)
	runtime.ReadMemStats(&after)
	if err == nil {
		t.Fatal("expected error")
	}
	if grown := after.TotalAlloc - before.TotalAlloc; grown > 64<<20 {
		t.Fatalf("decoding 28 bytes allocated %d MiB (error: %v)", grown>>20, err)
	}
}

// D7b (C15.R1): a series whose (until-from)/step is negative.
func TestDemoD7bTimeSeriesNegativeCount(t *testing.T) {
	b := make([]byte, 12)
	binary.BigEndian.PutUint32(b[0:], 0)
	binary.BigEndian.PutUint32(b[4:], 100)
	binary.BigEndian.PutUint32(b[8:], 0xffffffff) // step = -1
	demoNoPanic(t, "TimeSeries.TakeFrom", func() error {
		var ts TimeSeries
		_, err := ts.TakeFrom(b)
		return err
	})
}

// D7c (C15.R1): a point count whose product with 12 wraps 64 bits.
func TestDemoD7cPointsCountWraps(t *testing.T) {
	b := make([]byte, 8)
	binary.BigEndian.PutUint64(b, 0x8000000000000000)
	demoNoPanic(t, "Points.TakeFrom(count=2^63)", func() error {
		var pp Points
		_, err := pp.TakeFrom(b)
		return err
	})
	binary.BigEndian.PutUint64(b, 0x1555555555555556) // *12 == 8 (mod 2^64)
	demoNoPanic(t, "Points.TakeFrom(count*12 wraps)", func() error {
		var pp Points
		_, err := pp.TakeFrom(append(b, make([]byte, 8)...))
		return err
	})
}

// D7d (C15.R2): a truncated file with a valid header opens; a raw dump then
// allocates numberOfPoints records before the first read fails.
func TestDemoD7dTruncatedFileOpens(t *testing.T) {
	path := demoTempFile(t)
	l := ArchiveInfoList{NewArchiveInfo(1, 100000000)}
	h, err := NewHeader(Sum, 0, l)
	if err != nil {
		t.Fatal(err)
	}
	if err := ioutil.WriteFile(path, h.AppendTo(nil), 0644); err != nil {
		t.Fatal(err)
	}
	w, err := Open(path)
	if err == nil {
		w.Close()
		t.Fatalf("Open accepted a %d-byte file whose header describes %d bytes", h.Size(), h.ExpectedFileSize())
	}
}

// D7e (C15.R1, Open path): the retry buffer of readHeader is sized from the
// untrusted archive count, not bounded by the file size.
func TestDemoD7eReadHeaderAllocation(t *testing.T) {
	path := demoTempFile(t)
	b := make([]byte, 28)
	binary.BigEndian.PutUint32(b[0:], 1)
	binary.BigEndian.PutUint32(b[4:], 10)
	binary.BigEndian.PutUint32(b[12:], 0x08000000) // 134M archives = 1.5 GiB of header
	if err := ioutil.WriteFile(path, b, 0644); err != nil {
		t.Fatal(err)
	}
	var before, after runtime.MemStats
	runtime.ReadMemStats(&before)
	w, err := Open(path)
	runtime.ReadMemStats(&after)
	if err == nil {
		w.Close()
		t.Fatal("expected error")
	}
	if grown := after.TotalAlloc - before.TotalAlloc; grown > 64<<20 {
		t.Fatalf("Open of a 28-byte file allocated %d MiB", grown>>20)
	}
}

// D12 (C03.R3): exactly one stale point at the head of a batch diverts every
// fresh point.
func TestDemoD12ExtractPointsOneStale(t *testing.T) {
	pts := Points{{Time: 40, Value: 1}, {Time: 95, Value: 2}, {Time: 96, Value: 3}}
	cur, rest := extractPoints(pts, 100, 10)
	if len(cur) != 2 || len(rest) != 1 {
		t.Fatalf("current=%v remaining=%v; want 2 current points and 1 remaining", cur, rest)
	}
}

// D13 (C15.R7): a file that opens successfully but whose base interval (first
// slot of the archive) is not a multiple of the step makes the slot-range
// arithmetic of fetchRawPoints disagree with the length of its result slice.
func TestDemoD13MisalignedBaseInterval(t *testing.T) {
	path := demoTempFile(t)
	db, err := Create(path, demoMustParse(t, "10s:100s"), Sum, 0)
	if err != nil {
		t.Fatal(err)
	}
	now := Timestamp(1000)
	if err := db.UpdatePointForArchive(0, now, 1, now); err != nil {
		t.Fatal(err)
	}
	if err := db.Sync(); err != nil {
		t.Fatal(err)
	}
	db.Close()
	// damage: base interval := now-5 (not aligned to 10s)
	raw, err := ioutil.ReadFile(path)
	if err != nil {
		t.Fatal(err)
	}
	binary.BigEndian.PutUint32(raw[28:], uint32(now-5))
	if err := ioutil.WriteFile(path, raw, 0644); err != nil {
		t.Fatal(err)
	}
	db, err = Open(path)
	if err != nil {
		return // rejecting the damaged file is fine too
	}
	defer db.Close()
	defer func() {
		if r := recover(); r != nil {
			t.Fatalf("fetch on a damaged (but opened) file panicked: %v", r)
		}
	}()
	for from := now - 100; from < now; from++ {
		for until := from; until <= now; until += 3 {
			db.FetchFromArchive(0, from, until, now)
		}
	}
}

// D17 (C04.R4 / C03.R2 Timestamp.Add:saturates-at-epoch): a valid layout whose
// retention reaches back before 1970 (1d:60y today) made now.Add(-retention) wrap
// around in uint32: every update was refused as "not covered by any archives"
// and every fetch answered "no series" (fixed; passes on the repaired tree).
func TestDemoD17RetentionLongerThanTheEpoch(t *testing.T) {
	dir, err := ioutil.TempDir("", "wtdemo")
	if err != nil {
		t.Fatal(err)
	}
	defer os.RemoveAll(dir)
	rets, err := ParseArchiveInfoList("1d:60y")
	if err != nil {
		t.Fatal(err)
	}
	db, err := Create(filepath.Join(dir, "long.wsp"), rets, Sum, 0)
	if err != nil {
		t.Fatal(err)
	}
	defer db.Close()
	now := TimestampFromStdTime(time.Now())
	if err := db.UpdatePointForArchive(0, now.Add(-Day), 7, now); err != nil {
		t.Errorf("update of yesterday's point in a 1d:60y file: %v", err)
	}
	ts, err := db.FetchFromArchive(0, now.Add(-10*Day), now, now)
	if err != nil {
		t.Fatal(err)
	}
	if ts == nil {
		t.Errorf("fetch of the last ten days of a 1d:60y file returns no series")
	}
}
