package main

import (
	"fmt"
	"go/constant"
	"go/token"
	"go/types"
	"sort"
	"strings"

	"golang.org/x/tools/go/ssa"
)

// ---- instruction iteration ----

func eachInstr(f *ssa.Function, visit func(ssa.Instruction)) {
	for _, b := range f.Blocks {
		for _, in := range b.Instrs {
			visit(in)
		}
	}
}

// withLiterals returns f and all function literals nested in it.
func withLiterals(f *ssa.Function) []*ssa.Function {
	out := []*ssa.Function{f}
	for _, a := range f.AnonFuncs {
		out = append(out, withLiterals(a)...)
	}
	return out
}

func callsIn(f *ssa.Function) []ssa.CallInstruction {
	var out []ssa.CallInstruction
	eachInstr(f, func(in ssa.Instruction) {
		if c, ok := in.(ssa.CallInstruction); ok {
			out = append(out, c)
		}
	})
	return out
}

// stdMethod reports whether call c statically calls method `name` of named
// type pkgPath.typeName (pointer or value receiver), e.g. ("os","File","Close").
func isMethodCall(c ssa.CallInstruction, pkgPath, typeName, name string) bool {
	cc := c.Common()
	if cc.IsInvoke() {
		return false
	}
	f := cc.StaticCallee()
	if f == nil {
		return false
	}
	return isMethodFunc(f, pkgPath, typeName, name)
}

func isMethodFunc(f *ssa.Function, pkgPath, typeName, name string) bool {
	if f == nil || f.Name() != name || f.Signature.Recv() == nil {
		return false
	}
	t := f.Signature.Recv().Type()
	if p, ok := t.(*types.Pointer); ok {
		t = p.Elem()
	}
	n, ok := t.(*types.Named)
	if !ok || n.Obj().Name() != typeName || n.Obj().Pkg() == nil {
		return false
	}
	return n.Obj().Pkg().Path() == pkgPath
}

// isPkgFunc reports whether f is the package-level function pkgPath.name.
func isPkgFunc(f *ssa.Function, pkgPath, name string) bool {
	if f == nil || f.Signature.Recv() != nil || f.Name() != name {
		return false
	}
	if f.Pkg != nil {
		return f.Pkg.Pkg.Path() == pkgPath
	}
	if o := f.Object(); o != nil && o.Pkg() != nil {
		return o.Pkg().Path() == pkgPath
	}
	return false
}

func isCallToPkgFunc(c ssa.CallInstruction, pkgPath, name string) bool {
	return isPkgFunc(c.Common().StaticCallee(), pkgPath, name)
}

// callArgs returns the arguments excluding the receiver for method calls.
func callArgs(c ssa.CallInstruction) []ssa.Value {
	cc := c.Common()
	if cc.IsInvoke() {
		return cc.Args
	}
	if f := cc.StaticCallee(); f != nil && f.Signature.Recv() != nil && len(cc.Args) > 0 {
		return cc.Args[1:]
	}
	return cc.Args
}

func callRecv(c ssa.CallInstruction) ssa.Value {
	cc := c.Common()
	if cc.IsInvoke() {
		return cc.Value
	}
	if f := cc.StaticCallee(); f != nil && f.Signature.Recv() != nil && len(cc.Args) > 0 {
		return cc.Args[0]
	}
	return nil
}

// ---- value helpers ----

func isNilConst(v ssa.Value) bool {
	c, ok := v.(*ssa.Const)
	return ok && c.Value == nil && !isBasic(c.Type())
}

func isBasic(t types.Type) bool {
	_, ok := t.Underlying().(*types.Basic)
	return ok
}

func constInt(v ssa.Value) (int64, bool) {
	c, ok := v.(*ssa.Const)
	if !ok || c.Value == nil {
		return 0, false
	}
	if c.Value.Kind() != constant.Int {
		return 0, false
	}
	i, exact := constant.Int64Val(c.Value)
	return i, exact
}

func constString(v ssa.Value) (string, bool) {
	c, ok := v.(*ssa.Const)
	if !ok || c.Value == nil || c.Value.Kind() != constant.String {
		return "", false
	}
	return constant.StringVal(c.Value), true
}

// stripConv removes value-preserving wrappers: ChangeType, Convert between
// types (caller decides whether a Convert is acceptable), MakeInterface.
func stripChangeType(v ssa.Value) ssa.Value {
	for {
		switch x := v.(type) {
		case *ssa.ChangeType:
			v = x.X
		default:
			return v
		}
	}
}

func stripConvert(v ssa.Value) ssa.Value {
	for {
		switch x := v.(type) {
		case *ssa.ChangeType:
			v = x.X
		case *ssa.Convert:
			v = x.X
		default:
			return v
		}
	}
}

// fieldOf: if v is FieldAddr/Field of struct field named name, returns base.
func fieldAddrOf(v ssa.Value) (base ssa.Value, field string, ok bool) {
	switch x := v.(type) {
	case *ssa.FieldAddr:
		st := x.X.Type().Underlying().(*types.Pointer).Elem().Underlying().(*types.Struct)
		return x.X, fieldName(st.Field(x.Field)), true
	case *ssa.Field:
		st := x.X.Type().Underlying().(*types.Struct)
		return x.X, fieldName(st.Field(x.Field)), true
	}
	return nil, "", false
}

// loadOfField reports whether v is a load (*FieldAddr) or Field of a field
// with the given name in a struct type named typeName.
func isLoadOfField(v ssa.Value, typeName, field string) bool {
	v = stripChangeType(v)
	if u, ok := v.(*ssa.UnOp); ok && u.Op == token.MUL {
		v = u.X
	}
	base, f, ok := fieldAddrOf(v)
	if !ok || f != field {
		return false
	}
	t := base.Type()
	if p, ok := t.Underlying().(*types.Pointer); ok {
		t = p.Elem()
	}
	if n, ok := t.(*types.Named); ok {
		return n.Obj().Name() == typeName
	}
	return false
}

// reachingStores: for a load `*addr` at instruction `at`, returns the set of
// values that may have been stored to exactly that address value (same SSA
// address, or an equivalent FieldAddr/IndexAddr of the same base and
// field/const index) on paths reaching `at`; ok=false when some path has no
// store (value unknown/initial).
func reachingStores(addr ssa.Value, at ssa.Instruction) (vals []ssa.Value, complete bool) {
	fn := at.Parent()
	_ = fn
	type state struct {
		b   *ssa.BasicBlock
		idx int
	}
	seen := map[*ssa.BasicBlock]bool{}
	complete = true
	var walk func(b *ssa.BasicBlock, from int)
	walk = func(b *ssa.BasicBlock, from int) {
		for i := from; i >= 0; i-- {
			if st, ok := b.Instrs[i].(*ssa.Store); ok && sameAddr(st.Addr, addr) {
				vals = append(vals, st.Val)
				return
			}
		}
		if len(b.Preds) == 0 {
			complete = false
			return
		}
		for _, p := range b.Preds {
			if seen[p] {
				continue
			}
			seen[p] = true
			walk(p, len(p.Instrs)-1)
		}
	}
	b := at.Block()
	idx := -1
	for i, in := range b.Instrs {
		if in == at {
			idx = i
		}
	}
	walk(b, idx-1)
	return vals, complete
}

func sameAddr(a, b ssa.Value) bool {
	if a == b {
		return true
	}
	switch x := a.(type) {
	case *ssa.FieldAddr:
		y, ok := b.(*ssa.FieldAddr)
		return ok && x.Field == y.Field && sameAddr(x.X, y.X)
	case *ssa.IndexAddr:
		y, ok := b.(*ssa.IndexAddr)
		if !ok || !sameAddr(x.X, y.X) {
			return false
		}
		return sameValue(x.Index, y.Index)
	case *ssa.UnOp:
		y, ok := b.(*ssa.UnOp)
		return ok && x.Op == y.Op && x.Op == token.MUL && sameAddr(x.X, y.X) && false
	}
	return false
}

// sameValue: structural equality of pure values (go/ssa performs no CSE).
func sameValue(a, b ssa.Value) bool {
	return sameValueDepth(a, b, 0)
}

func sameValueDepth(a, b ssa.Value, d int) bool {
	if a == b {
		return true
	}
	if d > 12 || a == nil || b == nil {
		return false
	}
	switch x := a.(type) {
	case *ssa.Const:
		y, ok := b.(*ssa.Const)
		if !ok {
			return false
		}
		if x.Value == nil || y.Value == nil {
			return x.Value == nil && y.Value == nil && types.Identical(x.Type(), y.Type())
		}
		return constant.Compare(x.Value, token.EQL, y.Value)
	case *ssa.BinOp:
		y, ok := b.(*ssa.BinOp)
		return ok && x.Op == y.Op && sameValueDepth(x.X, y.X, d+1) && sameValueDepth(x.Y, y.Y, d+1)
	case *ssa.UnOp:
		y, ok := b.(*ssa.UnOp)
		if !ok || x.Op != y.Op {
			return false
		}
		if x.Op == token.MUL {
			// two loads: equal only if same address and no intervening store is
			// possible; conservatively require identical address of an
			// immutable-looking location (field of parameter) in the same block.
			return sameAddr(x.X, y.X) && x.Block() == y.Block() && noStoreBetween(x, y)
		}
		return sameValueDepth(x.X, y.X, d+1)
	case *ssa.Convert:
		y, ok := b.(*ssa.Convert)
		return ok && types.Identical(x.Type(), y.Type()) && sameValueDepth(x.X, y.X, d+1)
	case *ssa.ChangeType:
		y, ok := b.(*ssa.ChangeType)
		return ok && types.Identical(x.Type(), y.Type()) && sameValueDepth(x.X, y.X, d+1)
	case *ssa.FieldAddr:
		return sameAddr(a, b)
	case *ssa.IndexAddr:
		return sameAddr(a, b)
	case *ssa.Field:
		y, ok := b.(*ssa.Field)
		return ok && x.Field == y.Field && sameValueDepth(x.X, y.X, d+1)
	case *ssa.Extract:
		y, ok := b.(*ssa.Extract)
		return ok && x.Index == y.Index && x.Tuple == y.Tuple
	}
	return false
}

func noStoreBetween(x, y *ssa.UnOp) bool {
	b := x.Block()
	in := false
	for _, ins := range b.Instrs {
		if ins == ssa.Instruction(x) || ins == ssa.Instruction(y) {
			if in {
				return true
			}
			in = true
			continue
		}
		if in {
			switch s := ins.(type) {
			case *ssa.Store:
				if sameAddr(s.Addr, x.X) {
					return false
				}
			case ssa.CallInstruction:
				_ = s
				// calls could write through aliases; address is a local
				// FieldAddr of a pointer: be conservative only for Allocs that escape.
			}
		}
	}
	return true
}

// ---- error results and returns ----

var errorType = types.Universe.Lookup("error").Type()

func isErrorType(t types.Type) bool { return types.Identical(t, errorType) }

// errResultIndex returns the index of the last result if it is `error`, else -1.
func errResultIndex(f *ssa.Function) int {
	res := f.Signature.Results()
	if res.Len() == 0 {
		return -1
	}
	if isErrorType(res.At(res.Len() - 1).Type()) {
		return res.Len() - 1
	}
	return -1
}

func returnsOf(f *ssa.Function) []*ssa.Return {
	var out []*ssa.Return
	for _, b := range f.Blocks {
		if len(b.Instrs) == 0 {
			continue
		}
		if r, ok := b.Instrs[len(b.Instrs)-1].(*ssa.Return); ok {
			out = append(out, r)
		}
	}
	return out
}

// resultValues resolves operand i of a Return to the set of values it may
// carry, looking through loads of named-result allocs (defer-spilled
// returns) and phis.
func resultValues(r *ssa.Return, i int) (vals []ssa.Value, complete bool) {
	return resolveValue(r.Results[i], r, map[ssa.Value]bool{})
}

func resolveValue(v ssa.Value, at ssa.Instruction, seen map[ssa.Value]bool) ([]ssa.Value, bool) {
	if seen[v] {
		return nil, true
	}
	seen[v] = true
	switch x := v.(type) {
	case *ssa.Phi:
		var out []ssa.Value
		complete := true
		for _, e := range x.Edges {
			vs, c := resolveValue(e, x, seen)
			out = append(out, vs...)
			complete = complete && c
		}
		return out, complete
	case *ssa.UnOp:
		if x.Op == token.MUL {
			if _, isAlloc := x.X.(*ssa.Alloc); isAlloc {
				vs, c := reachingStores(x.X, x)
				var out []ssa.Value
				for _, s := range vs {
					r, c2 := resolveValue(s, x, seen)
					out = append(out, r...)
					c = c && c2
				}
				return out, c
			}
		}
	}
	return []ssa.Value{v}, true
}

// errClass classifies an error-typed value.
type errClass int

const (
	errNil        errClass = iota // the nil constant
	errSentinel                   // load of a package-level error variable
	errPropagated                 // result of a call / parameter / free var
	errFresh                      // errors.New / fmt.Errorf / composite error value
	errUnknown
)

func (c errClass) String() string {
	return [...]string{"nil", "sentinel", "propagated", "fresh", "unknown"}[c]
}

type errInfo struct {
	class    errClass
	sentinel string    // for errSentinel: pkg.Name
	from     ssa.Value // for propagated: the call or parameter
	notExist bool      // fresh *os.PathError{Err: os.ErrNotExist}
}

func classifyErr(v ssa.Value) errInfo {
	v = stripChangeType(v)
	switch x := v.(type) {
	case *ssa.Const:
		if x.Value == nil {
			return errInfo{class: errNil}
		}
	case *ssa.UnOp:
		if x.Op == token.MUL {
			if g, ok := x.X.(*ssa.Global); ok {
				return errInfo{class: errSentinel, sentinel: g.Pkg.Pkg.Name() + "." + g.Name()}
			}
		}
	case *ssa.Extract:
		if c, ok := x.Tuple.(*ssa.Call); ok {
			if f := c.Common().StaticCallee(); f != nil && alwaysFreshErrorAt(f, x.Index, 0) {
				return errInfo{class: errFresh, from: c}
			}
		}
		return errInfo{class: errPropagated, from: x.Tuple}
	case *ssa.Call:
		if f := x.Common().StaticCallee(); f != nil {
			if isPkgFunc(f, "errors", "New") || isPkgFunc(f, "fmt", "Errorf") {
				return errInfo{class: errFresh}
			}
			// a function (local closure or helper) that only ever returns freshly built errors
			if alwaysFreshError(f, 0) {
				return errInfo{class: errFresh, from: x}
			}
		}
		return errInfo{class: errPropagated, from: x}
	case *ssa.Parameter, *ssa.FreeVar:
		return errInfo{class: errPropagated, from: x}
	case *ssa.MakeInterface:
		inner := x.X
		// &os.PathError{...Err: os.ErrNotExist}
		if a, ok := inner.(*ssa.Alloc); ok {
			ei := errInfo{class: errFresh}
			if refs := a.Referrers(); refs != nil {
				for _, r := range *refs {
					fa, ok := r.(*ssa.FieldAddr)
					if !ok {
						continue
					}
					if _, fname, _ := fieldAddrOf(fa); fname == "Err" {
						for _, r2 := range *fa.Referrers() {
							if st, ok := r2.(*ssa.Store); ok {
								if c := classifyErr(st.Val); c.class == errSentinel && c.sentinel == "os.ErrNotExist" {
									ei.notExist = true
								}
							}
						}
					}
				}
			}
			return ei
		}
		switch y := inner.(type) {
		case *ssa.Call:
			// newHTTPError(...), newRequiredOptionError(...): fresh error constructors
			return errInfo{class: errFresh, from: y}
		case *ssa.Extract, *ssa.Parameter:
			return errInfo{class: errPropagated, from: inner}
		}
		return errInfo{class: errFresh}
	}
	return errInfo{class: errUnknown}
}

// ---- nil-test recognition ----

// nilTest describes `if x != nil` / `if x == nil` on block b's terminator:
// returns the tested value and the successor taken when x is non-nil / nil.
func nilTest(b *ssa.BasicBlock) (x ssa.Value, nonNil, isNil *ssa.BasicBlock, ok bool) {
	if len(b.Instrs) == 0 {
		return
	}
	iff, isIf := b.Instrs[len(b.Instrs)-1].(*ssa.If)
	if !isIf {
		return
	}
	bo, isBin := iff.Cond.(*ssa.BinOp)
	if !isBin || (bo.Op != token.NEQ && bo.Op != token.EQL) {
		return
	}
	var v ssa.Value
	switch {
	case isNilConst(bo.Y):
		v = bo.X
	case isNilConst(bo.X):
		v = bo.Y
	default:
		return
	}
	if bo.Op == token.NEQ {
		return v, b.Succs[0], b.Succs[1], true
	}
	return v, b.Succs[1], b.Succs[0], true
}

// errorOfCall returns the value(s) carrying the error result of call c:
// the call itself for single-result calls, else the Extract of the last index.
func errorOfCall(c *ssa.Call) []ssa.Value {
	sig := c.Common().Signature()
	n := sig.Results().Len()
	if n == 0 || !isErrorType(sig.Results().At(n-1).Type()) {
		return nil
	}
	if n == 1 {
		return []ssa.Value{c}
	}
	var out []ssa.Value
	if refs := c.Referrers(); refs != nil {
		for _, r := range *refs {
			if e, ok := r.(*ssa.Extract); ok && e.Index == n-1 {
				out = append(out, e)
			}
		}
	}
	return out
}

// flowsTo reports whether value `src` reaches `dst` through phis, stores to
// and loads from local allocs, and ChangeType (used to follow an error from a
// call to the nil test that examines it).
func flowsTo(src, dst ssa.Value) bool {
	seen := map[ssa.Value]bool{}
	var rec func(v ssa.Value) bool
	rec = func(v ssa.Value) bool {
		if v == src {
			return true
		}
		if seen[v] {
			return false
		}
		seen[v] = true
		switch x := v.(type) {
		case *ssa.Phi:
			for _, e := range x.Edges {
				if rec(e) {
					return true
				}
			}
		case *ssa.ChangeType:
			return rec(x.X)
		case *ssa.UnOp:
			if x.Op == token.MUL {
				if a, ok := x.X.(*ssa.Alloc); ok {
					for _, r := range *a.Referrers() {
						if st, ok := r.(*ssa.Store); ok && st.Addr == a && rec(st.Val) {
							return true
						}
					}
				}
			}
		}
		return false
	}
	return rec(dst)
}

// successEdge finds the block entered when call c's error result is nil.
// Also returns the failure block. ok=false if the error is not tested by an
// `if err != nil`-style branch.
func successEdge(c *ssa.Call) (succ, fail *ssa.BasicBlock, ok bool) {
	errs := errorOfCall(c)
	if len(errs) == 0 {
		return nil, nil, false
	}
	f := c.Parent()
	for _, b := range f.Blocks {
		x, nonNil, isNil, isTest := nilTest(b)
		if !isTest {
			continue
		}
		for _, e := range errs {
			if flowsTo(e, x) && (b == c.Block() || c.Block().Dominates(b)) {
				return isNil, nonNil, true
			}
			// `_, err = f()` on one branch, tested after the join: the test applies to this call's
			// error on every path through the call
			if ph, isPhi := x.(*ssa.Phi); isPhi && (ph.Block() == b || ph.Block().Dominates(b)) {
				for i, ed := range ph.Edges {
					if (ed == e || flowsTo(e, ed)) && i < len(ph.Block().Preds) {
						p := ph.Block().Preds[i]
						if p == c.Block() || c.Block().Dominates(p) {
							return isNil, nonNil, true
						}
					}
				}
			}
		}
	}
	return nil, nil, false
}

// ---- path search (T2) ----

type pathQuery struct {
	fn *ssa.Function
	// start: walking begins at the first instruction of startBlock (or after
	// instruction startAfter when set).
	startBlock *ssa.BasicBlock
	startAfter ssa.Instruction
	// passes: an instruction that satisfies the obligation (path is cut there).
	passes func(ssa.Instruction) bool
	// exit: a Return that must not be reached without passing.
	exit func(*ssa.Return) bool
	// skipEdge: edges not to follow (e.g. the failure edge of the start call).
	skipEdge func(from, to *ssa.BasicBlock) bool
}

// findBypass returns a block path from the start to an exit Return that does
// not pass through a `passes` instruction, or nil if every path passes.
func findBypass(q pathQuery) (path []*ssa.BasicBlock, ret *ssa.Return) {
	type item struct {
		b    *ssa.BasicBlock
		prev *item
	}
	startIdx := 0
	sb := q.startBlock
	if q.startAfter != nil {
		sb = q.startAfter.Block()
		for i, in := range sb.Instrs {
			if in == q.startAfter {
				startIdx = i + 1
			}
		}
	}
	// scan returns: (cut, ret)
	scan := func(b *ssa.BasicBlock, from int) (bool, *ssa.Return) {
		for i := from; i < len(b.Instrs); i++ {
			in := b.Instrs[i]
			if q.passes(in) {
				return true, nil
			}
			if r, ok := in.(*ssa.Return); ok && q.exit(r) {
				return false, r
			}
		}
		return false, nil
	}
	seen := map[*ssa.BasicBlock]bool{}
	first := &item{b: sb}
	cut, r := scan(sb, startIdx)
	if r != nil {
		return []*ssa.BasicBlock{sb}, r
	}
	if cut {
		return nil, nil
	}
	queue := []*item{first}
	// the start block may be re-entered through a loop from its beginning;
	// mark seen only when entered from index 0.
	if startIdx == 0 {
		seen[sb] = true
	}
	for len(queue) > 0 {
		it := queue[0]
		queue = queue[1:]
		for _, s := range it.b.Succs {
			if q.skipEdge != nil && q.skipEdge(it.b, s) {
				continue
			}
			if seen[s] {
				continue
			}
			seen[s] = true
			ni := &item{b: s, prev: it}
			cut, r := scan(s, 0)
			if r != nil {
				var p []*ssa.BasicBlock
				for x := ni; x != nil; x = x.prev {
					p = append([]*ssa.BasicBlock{x.b}, p...)
				}
				return p, r
			}
			if !cut {
				queue = append(queue, ni)
			}
		}
	}
	return nil, nil
}

func (w *World) blockPathString(p []*ssa.BasicBlock) string {
	var parts []string
	for _, b := range p {
		pos := "-"
		for _, in := range b.Instrs {
			if in.Pos().IsValid() {
				pos = w.pos(in.Pos())
				break
			}
		}
		c := b.Comment
		if c == "" {
			c = "block"
		}
		parts = append(parts, fmt.Sprintf("b%d(%s@%s)", b.Index, c, pos))
	}
	return strings.Join(parts, " -> ")
}

// dominatesInstr reports whether instruction a dominates instruction b.
func dominatesInstr(a, b ssa.Instruction) bool {
	ba, bb := a.Block(), b.Block()
	if ba == bb {
		for _, in := range ba.Instrs {
			if in == a {
				return true
			}
			if in == b {
				return false
			}
		}
		return false
	}
	return ba.Dominates(bb)
}

// deferredCalls lists the functions that may run deferred in f (static
// callees of Defer instructions, including literals).
func deferredFuncs(f *ssa.Function) []*ssa.Function {
	var out []*ssa.Function
	eachInstr(f, func(in ssa.Instruction) {
		if d, ok := in.(*ssa.Defer); ok {
			if sc := d.Call.StaticCallee(); sc != nil {
				out = append(out, sc)
			} else if mc, ok := d.Call.Value.(*ssa.MakeClosure); ok {
				out = append(out, mc.Fn.(*ssa.Function))
			}
		}
	})
	return out
}

func sortedKeys(m map[string]bool) []string {
	var ks []string
	for k := range m {
		ks = append(ks, k)
	}
	sort.Strings(ks)
	return ks
}

// ---- looking through helper functions ----

// callChain is a call found (transitively) below a root function, with the
// call sites leading to it (outermost first; empty when the call is in the
// root itself).
type foundCall struct {
	call  ssa.CallInstruction
	chain []ssa.CallInstruction
}

// findCallsBelow lists calls satisfying pred in f and, up to depth levels, in
// module functions statically called from f (helpers extracted by a refactoring).
func (w *World) findCallsBelow(f *ssa.Function, pred func(ssa.CallInstruction) bool, depth int) []foundCall {
	var out []foundCall
	seen := map[*ssa.Function]bool{}
	var rec func(g *ssa.Function, chain []ssa.CallInstruction, d int)
	rec = func(g *ssa.Function, chain []ssa.CallInstruction, d int) {
		if seen[g] {
			return
		}
		seen[g] = true
		for _, c := range callsIn(g) {
			if pred(c) {
				out = append(out, foundCall{call: c, chain: append([]ssa.CallInstruction{}, chain...)})
				continue
			}
			if d > 0 {
				if sc := c.Common().StaticCallee(); sc != nil && w.inModule(sc) && len(sc.Blocks) > 0 {
					rec(sc, append(append([]ssa.CallInstruction{}, chain...), c), d-1)
				}
			}
		}
	}
	rec(f, nil, depth)
	return out
}

// originThroughChain maps a value used inside a helper back to the root
// function: while v is (a conversion of) a parameter of the helper, replace
// it by the argument at the corresponding call site of the chain.
func originThroughChain(v ssa.Value, chain []ssa.CallInstruction) ssa.Value {
	for i := len(chain) - 1; i >= 0; i-- {
		p, ok := stripChangeType(v).(*ssa.Parameter)
		if !ok {
			return v
		}
		callee := chain[i].Common().StaticCallee()
		if callee == nil || p.Parent() != callee {
			return v
		}
		idx := -1
		for k, q := range callee.Params {
			if q == p {
				idx = k
			}
		}
		if idx < 0 || idx >= len(chain[i].Common().Args) {
			return v
		}
		v = chain[i].Common().Args[idx]
	}
	return v
}

// fieldAlias: a renamed struct field answers to the name it has in the inventory.
var fieldAlias = map[*types.Var]string{}

func fieldName(v *types.Var) string {
	if a, ok := fieldAlias[v]; ok {
		return a
	}
	return v.Name()
}

// alwaysFreshError: f has source, a single error result, and every return carries a freshly built error.
func alwaysFreshError(f *ssa.Function, depth int) bool {
	return f.Signature.Results().Len() == 1 && alwaysFreshErrorAt(f, 0, depth)
}

// alwaysFreshErrorAt: result #idx of f is an error and every return carries a freshly built error there.
func alwaysFreshErrorAt(f *ssa.Function, idx, depth int) bool {
	if depth > 3 || len(f.Blocks) == 0 || idx >= f.Signature.Results().Len() || !isErrorType(f.Signature.Results().At(idx).Type()) {
		return false
	}
	rets := returnsOf(f)
	if len(rets) == 0 {
		return false
	}
	for _, rt := range rets {
		vals, complete := resultValues(rt, idx)
		if !complete || len(vals) == 0 {
			return false
		}
		for _, v := range vals {
			v = stripChangeType(v)
			switch x := v.(type) {
			case *ssa.Call:
				sc := x.Common().StaticCallee()
				if sc == nil {
					return false
				}
				if isPkgFunc(sc, "errors", "New") || isPkgFunc(sc, "fmt", "Errorf") {
					continue
				}
				if !alwaysFreshError(sc, depth+1) {
					return false
				}
			case *ssa.MakeInterface:
				if _, ok := x.X.(*ssa.Alloc); !ok {
					if _, isCall := x.X.(*ssa.Call); !isCall {
						return false
					}
				}
			default:
				return false
			}
		}
	}
	return true
}

// lenEmptyEdge: block b ends in a test that decides whether len(x) is zero, in any spelling
// (len(x) == 0, 0 == len(x), len(x) < 1, len(x) != 0, len(x) > 0, 1 <= len(x), negated forms).
// Returns the len call, the successor taken when the length is zero and the one taken when it is not.
func lenEmptyEdge(b *ssa.BasicBlock) (lc *ssa.Call, empty, nonEmpty *ssa.BasicBlock, ok bool) {
	if len(b.Instrs) == 0 {
		return
	}
	iff, isIf := b.Instrs[len(b.Instrs)-1].(*ssa.If)
	if !isIf {
		return
	}
	c, emptyWhenTrue, ok2 := lenEmptyCond(iff.Cond)
	if !ok2 {
		return
	}
	if emptyWhenTrue {
		return c, b.Succs[0], b.Succs[1], true
	}
	return c, b.Succs[1], b.Succs[0], true
}

// lenEmptyCond: cond decides whether len(x) is zero, in any spelling; emptyWhenTrue tells which outcome means "empty".
func lenEmptyCond(cond ssa.Value) (lc *ssa.Call, emptyWhenTrue, ok bool) {
	neg := false
	for i := 0; i < 4; i++ {
		u, isU := cond.(*ssa.UnOp)
		if !isU || u.Op != token.NOT {
			break
		}
		cond = u.X
		neg = !neg
	}
	bo, isB := cond.(*ssa.BinOp)
	if !isB {
		return
	}
	isLen := func(v ssa.Value) bool {
		c, isCall := v.(*ssa.Call)
		if !isCall {
			return false
		}
		bi, isBi := c.Common().Value.(*ssa.Builtin)
		return isBi && bi.Name() == "len"
	}
	op, x, y := bo.Op, bo.X, bo.Y
	if !isLen(x) {
		if !isLen(y) {
			return
		}
		x, y = y, x
		switch op {
		case token.LSS:
			op = token.GTR
		case token.GTR:
			op = token.LSS
		case token.LEQ:
			op = token.GEQ
		case token.GEQ:
			op = token.LEQ
		}
	}
	k, isK := constInt(y)
	if !isK {
		return
	}
	switch {
	case op == token.EQL && k == 0, op == token.LSS && k == 1, op == token.LEQ && k == 0:
		return x.(*ssa.Call), !neg, true
	case op == token.NEQ && k == 0, op == token.GTR && k == 0, op == token.GEQ && k == 1:
		return x.(*ssa.Call), neg, true
	}
	return
}
