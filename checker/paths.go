package main

import (
	"fmt"
	"go/constant"
	"go/token"
	"go/types"

	"golang.org/x/tools/go/ssa"
)

// edgeDominated reports whether block b is only reachable through the CFG
// edge p->s (s dominates b and s has p as its sole predecessor).
func edgeDominates(p, s, b *ssa.BasicBlock) bool {
	if s == nil || b == nil {
		return false
	}
	if len(s.Preds) != 1 || s.Preds[0] != p {
		return false
	}
	return s == b || s.Dominates(b)
}

// knownNonNilAt reports whether error value v is known non-nil at block b:
// b is dominated by the non-nil edge of a nil test on a value v flows from/to.
func knownNonNilAt(v ssa.Value, b *ssa.BasicBlock) bool {
	f := b.Parent()
	for _, tb := range f.Blocks {
		x, nonNil, _, ok := nilTest(tb)
		if !ok {
			continue
		}
		if (x == v || flowsTo(x, v) || flowsTo(v, x)) && edgeDominates(tb, nonNil, b) {
			return true
		}
	}
	return false
}

// isFailureReturn: every value the error operand may carry is definitely
// non-nil (fresh error, sentinel, or a value known non-nil here).
func isFailureReturn(ret *ssa.Return) bool {
	f := ret.Parent()
	idx := errResultIndex(f)
	if idx < 0 {
		return false
	}
	vals, complete := resultValues(ret, idx)
	if !complete || len(vals) == 0 {
		return false
	}
	for _, v := range vals {
		ci := classifyErr(v)
		switch ci.class {
		case errFresh, errSentinel:
			continue
		case errNil:
			return false
		default:
			if knownNonNilAt(v, ret.Block()) {
				continue
			}
			return false
		}
	}
	return true
}

// isSuccessReturn: the error operand is the nil constant on every resolved path.
func isSuccessReturn(ret *ssa.Return) bool {
	f := ret.Parent()
	idx := errResultIndex(f)
	if idx < 0 {
		return true
	}
	vals, complete := resultValues(ret, idx)
	if !complete || len(vals) == 0 {
		return false
	}
	for _, v := range vals {
		if classifyErr(v).class != errNil {
			return false
		}
	}
	return true
}

// maySucceed: not a definite failure return.
func maySucceed(ret *ssa.Return) bool { return !isFailureReturn(ret) }

// callMatcher decides whether an instruction performs X. Wrappers: a call to
// a module function all of whose paths perform X also performs X (must
// summary, memoised). A Defer of a function containing an X call counts.
type mustPerf struct {
	w      *World
	direct func(c ssa.CallInstruction) bool
	memo   map[*ssa.Function]int // 0 unknown, 1 in progress, 2 yes, 3 no
	// exit: the returns the caller's query is about (nil = all). A cleanup guarded by a
	// success flag or a local error performs X only on some returns; it counts when it
	// covers all returns of interest.
	exit func(*ssa.Return) bool
}

func newMustPerf(w *World, direct func(c ssa.CallInstruction) bool) *mustPerf {
	return &mustPerf{w: w, direct: direct, memo: map[*ssa.Function]int{}}
}

func (m *mustPerf) instr(in ssa.Instruction) bool {
	c, ok := in.(ssa.CallInstruction)
	if !ok {
		return false
	}
	if _, isGo := in.(*ssa.Go); isGo {
		return false
	}
	if d, isDefer := in.(*ssa.Defer); isDefer {
		// a registered defer performs X when its body performs X on every path, or
		// performs X under a nil test of a variable that is the enclosing
		// function's named error result (so that every failing return sets it).
		if m.direct(c) {
			return true
		}
		if _, isMC := d.Call.Value.(*ssa.MakeClosure); !isMC {
			if sc := d.Call.StaticCallee(); sc != nil {
				return m.w.inModuleOrFB(sc) && m.fn(sc)
			}
		}
		mc, ok := d.Call.Value.(*ssa.MakeClosure)
		if !ok {
			return false
		}
		df := mc.Fn.(*ssa.Function)
		if m.fn(df) {
			return true
		}
		if !m.contains(df) {
			return false
		}
		// conditional: find the guarding nil tests in the closure and require each guard variable to be a named result
		okGuard := false
		for _, b := range df.Blocks {
			x, nonNil, _, isTest := nilTest(b)
			if !isTest {
				continue
			}
			// X call under the non-nil edge?
			hasX := false
			for _, bb := range df.Blocks {
				if !edgeDominates(b, nonNil, bb) {
					continue
				}
				for _, in2 := range bb.Instrs {
					if c2, ok := in2.(ssa.CallInstruction); ok && m.direct(c2) {
						hasX = true
					}
				}
			}
			if !hasX {
				continue
			}
			ld, ok := x.(*ssa.UnOp)
			if !ok {
				continue
			}
			fv, ok := ld.X.(*ssa.FreeVar)
			if !ok {
				continue
			}
			var bound ssa.Value
			for i, v := range df.FreeVars {
				if v == fv && i < len(mc.Bindings) {
					bound = mc.Bindings[i]
				}
			}
			al, ok := bound.(*ssa.Alloc)
			if !ok {
				continue
			}
			// named result: every Return of the parent loads its error operand from this alloc
			parent := in.Parent()
			idx := errResultIndex(parent)
			all := idx >= 0
			for _, rt := range returnsOf(parent) {
				u, ok := rt.Results[idx].(*ssa.UnOp)
				if !ok || u.X != ssa.Value(al) {
					all = false
				}
			}
			if all {
				okGuard = true
			}
		}
		if !okGuard && m.exit != nil {
			if g := analyseFlagGuard(d, m.direct); g != nil && g.coversExits(m.exit) {
				okGuard = true
			}
		}
		return okGuard
	}
	if m.direct(c) {
		return true
	}
	if sc := c.Common().StaticCallee(); sc != nil && m.w.inModuleOrFB(sc) {
		return m.fn(sc)
	}
	return false
}

func (m *mustPerf) contains(f *ssa.Function) bool {
	found := false
	for _, g := range withLiterals(f) {
		eachInstr(g, func(in ssa.Instruction) {
			if c, ok := in.(ssa.CallInstruction); ok && m.direct(c) {
				found = true
			}
		})
	}
	return found
}

// fn: every entry->return path of f performs X.
func (m *mustPerf) fn(f *ssa.Function) bool {
	switch m.memo[f] {
	case 1, 3:
		return false
	case 2:
		return true
	}
	if len(f.Blocks) == 0 {
		m.memo[f] = 3
		return false
	}
	m.memo[f] = 1
	p, _ := findBypass(pathQuery{
		fn: f, startBlock: f.Blocks[0],
		passes: m.instr,
		exit:   func(*ssa.Return) bool { return true },
	})
	if p == nil {
		m.memo[f] = 2
		return true
	}
	m.memo[f] = 3
	return false
}

// checkErrorHandled verifies that the error result of call c is tested and
// that its non-nil edge cannot reach a success return. Returns a description
// of the problem, or "".
func checkErrorHandled(w *World, c *ssa.Call) string {
	errs := errorOfCall(c)
	sig := c.Common().Signature()
	if n := sig.Results().Len(); n == 0 || !isErrorType(sig.Results().At(n-1).Type()) {
		return ""
	}
	// tail position: `return x.Call()` propagates the error directly
	if refs := c.Referrers(); refs != nil && len(errs) == 1 && errs[0] == ssa.Value(c) {
		for _, r := range *refs {
			if _, ok := r.(*ssa.Return); ok {
				return ""
			}
		}
	}
	if len(errs) == 0 {
		return "error result is discarded"
	}
	// `return x.Call()` in a function whose results are spilled (defer / named
	// results): the error is stored into the result variable that the Return loads
	for _, e := range errs {
		if refs := e.Referrers(); refs != nil {
			for _, r := range *refs {
				st, ok := r.(*ssa.Store)
				if !ok || st.Val != e {
					continue
				}
				al, ok := st.Addr.(*ssa.Alloc)
				if !ok {
					continue
				}
				idx := errResultIndex(c.Parent())
				if idx < 0 {
					continue
				}
				for _, rt := range returnsOf(c.Parent()) {
					if u, ok := rt.Results[idx].(*ssa.UnOp); ok && u.X == ssa.Value(al) && (st.Block() == rt.Block() || st.Block().Dominates(rt.Block())) {
						// nothing overwrites it in between on the straight path to that return
						return ""
					}
				}
			}
		}
	}
	// the error value may also be returned directly via Extract
	for _, e := range errs {
		if refs := e.Referrers(); refs != nil {
			for _, r := range *refs {
				if _, ok := r.(*ssa.Return); ok {
					return ""
				}
			}
		}
	}
	_, fail, ok := successEdge(c)
	if !ok {
		return "error result is never tested against nil"
	}
	p, ret := findBypass(pathQuery{
		fn: c.Parent(), startBlock: fail,
		passes: func(ssa.Instruction) bool { return false },
		exit:   func(r *ssa.Return) bool { return isSuccessReturn(r) },
	})
	if p != nil {
		return fmt.Sprintf("after the call failed a success return is reachable at %s via %s", w.instrPos(ret), w.blockPathString(p))
	}
	return ""
}

// ---- guarded deferred cleanup ----

// boolTest: block b ends in a test of a boolean value x (possibly negated or
// compared with a constant); onTrue/onFalse are the successors taken when x is true/false.
func boolTest(b *ssa.BasicBlock) (x ssa.Value, onTrue, onFalse *ssa.BasicBlock, ok bool) {
	if len(b.Instrs) == 0 {
		return
	}
	iff, isIf := b.Instrs[len(b.Instrs)-1].(*ssa.If)
	if !isIf {
		return
	}
	v := iff.Cond
	t, f := b.Succs[0], b.Succs[1]
	for i := 0; i < 4; i++ {
		switch c := v.(type) {
		case *ssa.UnOp:
			if c.Op == token.NOT {
				v = c.X
				t, f = f, t
				continue
			}
		case *ssa.BinOp:
			if c.Op == token.EQL || c.Op == token.NEQ {
				var other ssa.Value
				var k *ssa.Const
				if kk, ok := c.Y.(*ssa.Const); ok {
					k, other = kk, c.X
				} else if kk, ok := c.X.(*ssa.Const); ok {
					k, other = kk, c.Y
				}
				if k != nil && k.Value != nil && k.Value.Kind() == constant.Bool {
					same := constant.BoolVal(k.Value) == (c.Op == token.EQL)
					v = other
					if !same {
						t, f = f, t
					}
					continue
				}
			}
		}
		break
	}
	if bt, isB := v.Type().Underlying().(*types.Basic); !isB || bt.Kind() != types.Bool {
		return
	}
	return v, t, f, true
}

// flagGuard describes `defer func() { if flag == runWhen { X } }()` where flag is a
// boolean local of the enclosing function captured only by this closure.
type flagGuard struct {
	d       *ssa.Defer
	parent  *ssa.Function
	al      *ssa.Alloc
	runWhen bool
	sets    []*ssa.Store // stores that make the flag differ from runWhen
}

func analyseFlagGuard(d *ssa.Defer, isX func(ssa.CallInstruction) bool) *flagGuard {
	mc, ok := d.Call.Value.(*ssa.MakeClosure)
	if !ok {
		return nil
	}
	df := mc.Fn.(*ssa.Function)
	var g *flagGuard
	for _, b := range df.Blocks {
		x, onT, onF, isTest := boolTest(b)
		if !isTest {
			continue
		}
		ld, ok := x.(*ssa.UnOp)
		if !ok || ld.Op != token.MUL {
			continue
		}
		fv, ok := ld.X.(*ssa.FreeVar)
		if !ok {
			continue
		}
		for _, pol := range []bool{true, false} {
			edge := onT
			if !pol {
				edge = onF
			}
			hasX, allX := false, true
			for _, bb := range df.Blocks {
				for _, in2 := range bb.Instrs {
					if c2, ok := in2.(ssa.CallInstruction); ok && isX(c2) {
						if edgeDominates(b, edge, bb) {
							hasX = true
						} else {
							allX = false
						}
					}
				}
			}
			if !hasX || !allX {
				continue
			}
			var bound ssa.Value
			for i, v := range df.FreeVars {
				if v == fv && i < len(mc.Bindings) {
					bound = mc.Bindings[i]
				}
			}
			al, ok := bound.(*ssa.Alloc)
			if !ok {
				continue
			}
			g = &flagGuard{d: d, parent: d.Parent(), al: al, runWhen: pol}
		}
	}
	if g == nil {
		return nil
	}
	// the flag is written only by plain stores of the enclosing function and captured by this closure alone
	refs := g.al.Referrers()
	if refs == nil {
		return nil
	}
	initOK := !g.runWhen // the zero value is false
	for _, r := range *refs {
		switch x := r.(type) {
		case *ssa.Store:
			if x.Addr != ssa.Value(g.al) {
				return nil
			}
			if k, ok := x.Val.(*ssa.Const); ok && k.Value != nil && k.Value.Kind() == constant.Bool && constant.BoolVal(k.Value) == g.runWhen {
				if dominatesInstr(x, d) {
					initOK = true
				}
				continue
			}
			g.sets = append(g.sets, x)
		case *ssa.MakeClosure:
			if x != mc {
				return nil
			}
		case *ssa.UnOp, *ssa.DebugRef:
		default:
			return nil
		}
	}
	if !initOK {
		return nil
	}
	return g
}

// coversExits: at every return satisfying exit the flag still has the value under which X runs
// (no flag-changing store can reach such a return).
func (g *flagGuard) coversExits(exit func(*ssa.Return) bool) bool {
	for _, s := range g.sets {
		if p, _ := findBypass(pathQuery{fn: g.parent, startAfter: s, passes: func(ssa.Instruction) bool { return false }, exit: exit}); p != nil {
			return false
		}
	}
	return true
}

// setBefore: every path from the defer to a return satisfying exit passes a flag-changing store
// (so X does not run there).
func (g *flagGuard) setBefore(exit func(*ssa.Return) bool) bool {
	isSet := func(in ssa.Instruction) bool {
		for _, s := range g.sets {
			if in == ssa.Instruction(s) {
				return true
			}
		}
		return false
	}
	p, _ := findBypass(pathQuery{fn: g.parent, startAfter: g.d, passes: isSet, exit: exit})
	return p == nil
}
