package main

import (
	"fmt"

	"golang.org/x/tools/go/ssa"
)

// edgeDominated reports whether block b is only reachable through the CFG
// edge p->s (s dominates b and s has p as its sole predecessor).
func edgeDominates(p, s, b *ssa.BasicBlock) bool {
	if s == nil || b == nil {
		return false
	}
	if len(s.Preds) != 1 || s.Preds[0] != p {
		return false
	}
	return s == b || s.Dominates(b)
}

// knownNonNilAt reports whether error value v is known non-nil at block b:
// b is dominated by the non-nil edge of a nil test on a value v flows from/to.
func knownNonNilAt(v ssa.Value, b *ssa.BasicBlock) bool {
	f := b.Parent()
	for _, tb := range f.Blocks {
		x, nonNil, _, ok := nilTest(tb)
		if !ok {
			continue
		}
		if (x == v || flowsTo(x, v) || flowsTo(v, x)) && edgeDominates(tb, nonNil, b) {
			return true
		}
	}
	return false
}

// isFailureReturn: every value the error operand may carry is definitely
// non-nil (fresh error, sentinel, or a value known non-nil here).
func isFailureReturn(ret *ssa.Return) bool {
	f := ret.Parent()
	idx := errResultIndex(f)
	if idx < 0 {
		return false
	}
	vals, complete := resultValues(ret, idx)
	if !complete || len(vals) == 0 {
		return false
	}
	for _, v := range vals {
		ci := classifyErr(v)
		switch ci.class {
		case errFresh, errSentinel:
			continue
		case errNil:
			return false
		default:
			if knownNonNilAt(v, ret.Block()) {
				continue
			}
			return false
		}
	}
	return true
}

// isSuccessReturn: the error operand is the nil constant on every resolved path.
func isSuccessReturn(ret *ssa.Return) bool {
	f := ret.Parent()
	idx := errResultIndex(f)
	if idx < 0 {
		return true
	}
	vals, complete := resultValues(ret, idx)
	if !complete || len(vals) == 0 {
		return false
	}
	for _, v := range vals {
		if classifyErr(v).class != errNil {
			return false
		}
	}
	return true
}

// maySucceed: not a definite failure return.
func maySucceed(ret *ssa.Return) bool { return !isFailureReturn(ret) }

// callMatcher decides whether an instruction performs X. Wrappers: a call to
// a module function all of whose paths perform X also performs X (must
// summary, memoised). A Defer of a function containing an X call counts.
type mustPerf struct {
	w      *World
	direct func(c ssa.CallInstruction) bool
	memo   map[*ssa.Function]int // 0 unknown, 1 in progress, 2 yes, 3 no
}

func newMustPerf(w *World, direct func(c ssa.CallInstruction) bool) *mustPerf {
	return &mustPerf{w: w, direct: direct, memo: map[*ssa.Function]int{}}
}

func (m *mustPerf) instr(in ssa.Instruction) bool {
	c, ok := in.(ssa.CallInstruction)
	if !ok {
		return false
	}
	if _, isGo := in.(*ssa.Go); isGo {
		return false
	}
	if d, isDefer := in.(*ssa.Defer); isDefer {
		// a registered defer performs X when its body performs X on every path, or
		// performs X under a nil test of a variable that is the enclosing
		// function's named error result (so that every failing return sets it).
		if m.direct(c) {
			return true
		}
		if sc := d.Call.StaticCallee(); sc != nil {
			return m.w.inModuleOrFB(sc) && m.fn(sc)
		}
		mc, ok := d.Call.Value.(*ssa.MakeClosure)
		if !ok {
			return false
		}
		df := mc.Fn.(*ssa.Function)
		if m.fn(df) {
			return true
		}
		if !m.contains(df) {
			return false
		}
		// conditional: find the guarding nil tests in the closure and require each guard variable to be a named result
		okGuard := false
		for _, b := range df.Blocks {
			x, nonNil, _, isTest := nilTest(b)
			if !isTest {
				continue
			}
			// X call under the non-nil edge?
			hasX := false
			for _, bb := range df.Blocks {
				if !edgeDominates(b, nonNil, bb) {
					continue
				}
				for _, in2 := range bb.Instrs {
					if c2, ok := in2.(ssa.CallInstruction); ok && m.direct(c2) {
						hasX = true
					}
				}
			}
			if !hasX {
				continue
			}
			ld, ok := x.(*ssa.UnOp)
			if !ok {
				continue
			}
			fv, ok := ld.X.(*ssa.FreeVar)
			if !ok {
				continue
			}
			var bound ssa.Value
			for i, v := range df.FreeVars {
				if v == fv && i < len(mc.Bindings) {
					bound = mc.Bindings[i]
				}
			}
			al, ok := bound.(*ssa.Alloc)
			if !ok {
				continue
			}
			// named result: every Return of the parent loads its error operand from this alloc
			parent := in.Parent()
			idx := errResultIndex(parent)
			all := idx >= 0
			for _, rt := range returnsOf(parent) {
				u, ok := rt.Results[idx].(*ssa.UnOp)
				if !ok || u.X != ssa.Value(al) {
					all = false
				}
			}
			if all {
				okGuard = true
			}
		}
		return okGuard
	}
	if m.direct(c) {
		return true
	}
	if sc := c.Common().StaticCallee(); sc != nil && m.w.inModuleOrFB(sc) {
		return m.fn(sc)
	}
	return false
}

func (m *mustPerf) contains(f *ssa.Function) bool {
	found := false
	for _, g := range withLiterals(f) {
		eachInstr(g, func(in ssa.Instruction) {
			if c, ok := in.(ssa.CallInstruction); ok && m.direct(c) {
				found = true
			}
		})
	}
	return found
}

// fn: every entry->return path of f performs X.
func (m *mustPerf) fn(f *ssa.Function) bool {
	switch m.memo[f] {
	case 1, 3:
		return false
	case 2:
		return true
	}
	if len(f.Blocks) == 0 {
		m.memo[f] = 3
		return false
	}
	m.memo[f] = 1
	p, _ := findBypass(pathQuery{
		fn: f, startBlock: f.Blocks[0],
		passes: m.instr,
		exit:   func(*ssa.Return) bool { return true },
	})
	if p == nil {
		m.memo[f] = 2
		return true
	}
	m.memo[f] = 3
	return false
}

// checkErrorHandled verifies that the error result of call c is tested and
// that its non-nil edge cannot reach a success return. Returns a description
// of the problem, or "".
func checkErrorHandled(w *World, c *ssa.Call) string {
	errs := errorOfCall(c)
	sig := c.Common().Signature()
	if n := sig.Results().Len(); n == 0 || !isErrorType(sig.Results().At(n-1).Type()) {
		return ""
	}
	// tail position: `return x.Call()` propagates the error directly
	if refs := c.Referrers(); refs != nil && len(errs) == 1 && errs[0] == ssa.Value(c) {
		for _, r := range *refs {
			if _, ok := r.(*ssa.Return); ok {
				return ""
			}
		}
	}
	if len(errs) == 0 {
		return "error result is discarded"
	}
	// `return x.Call()` in a function whose results are spilled (defer / named
	// results): the error is stored into the result variable that the Return loads
	for _, e := range errs {
		if refs := e.Referrers(); refs != nil {
			for _, r := range *refs {
				st, ok := r.(*ssa.Store)
				if !ok || st.Val != e {
					continue
				}
				al, ok := st.Addr.(*ssa.Alloc)
				if !ok {
					continue
				}
				idx := errResultIndex(c.Parent())
				if idx < 0 {
					continue
				}
				for _, rt := range returnsOf(c.Parent()) {
					if u, ok := rt.Results[idx].(*ssa.UnOp); ok && u.X == ssa.Value(al) && (st.Block() == rt.Block() || st.Block().Dominates(rt.Block())) {
						// nothing overwrites it in between on the straight path to that return
						return ""
					}
				}
			}
		}
	}
	// the error value may also be returned directly via Extract
	for _, e := range errs {
		if refs := e.Referrers(); refs != nil {
			for _, r := range *refs {
				if _, ok := r.(*ssa.Return); ok {
					return ""
				}
			}
		}
	}
	_, fail, ok := successEdge(c)
	if !ok {
		return "error result is never tested against nil"
	}
	p, ret := findBypass(pathQuery{
		fn: c.Parent(), startBlock: fail,
		passes: func(ssa.Instruction) bool { return false },
		exit:   func(r *ssa.Return) bool { return isSuccessReturn(r) },
	})
	if p != nil {
		return fmt.Sprintf("after the call failed a success return is reachable at %s via %s", w.instrPos(ret), w.blockPathString(p))
	}
	return ""
}
