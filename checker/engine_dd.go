package main

import (
	"fmt"
	"go/constant"
	"go/token"
	"go/types"
	"math"
	"sort"
	"strings"

	"golang.org/x/tools/go/ssa"
)

// E-dd (template T6): a function's CFG read as a decision diagram. Values
// are abstract: known ints/bools/floats (constants or bound representatives),
// nil / non-nil errors, or symbolic leaves. Branch conditions that cannot be
// folded are *atoms*; every consistent assignment of the atoms is enumerated
// and the leaf reached (a Return with abstract operands, or a stop block) is
// reported. No arithmetic on symbolic values is ever computed.

type akind int

const (
	kSym akind = iota
	kInt
	kBool
	kFloat
	kNil
	kNonNil // a non-nil error/pointer
	kStr
)

type aval struct {
	k   akind
	i   int64
	b   bool
	f   float64
	s   string
	sym ssa.Value // for kSym: the defining value (leaf)
}

func (a aval) String() string {
	switch a.k {
	case kInt:
		return fmt.Sprintf("%d", a.i)
	case kBool:
		return fmt.Sprintf("%v", a.b)
	case kFloat:
		return fmt.Sprintf("%v", a.f)
	case kNil:
		return "nil"
	case kNonNil:
		return "non-nil"
	case kStr:
		return fmt.Sprintf("%q", a.s)
	}
	if a.sym != nil {
		return "sym(" + a.sym.Name() + ")"
	}
	return "sym"
}

type ddLeaf struct {
	atoms   map[string]bool // atom key -> chosen truth value
	atomVal map[string]ssa.Value
	ret     *ssa.Return
	results []aval
	stop    *ssa.BasicBlock // when ended at a stop block
	path    []*ssa.BasicBlock
	panics  bool
	st      *ddState // the state at the leaf (for evaluating operands of the return afterwards)
}

type ddEngine struct {
	w        *World
	env      map[ssa.Value]aval
	stop     func(b *ssa.BasicBlock) bool
	maxLeafs int
	maxAtoms int // undetermined conditions per path (default 6)
	leaves   []ddLeaf
	err      error
	// descend into module callees that are pure predicates? if nil, calls are leaves/atoms
	inline func(f *ssa.Function) bool
	// concreteAtoms: undetermined conditions are keyed with the known values of their operands substituted
	// (points[i].Time with i = 2 is the atom "...[2]..."), so that a loop over known indexes yields one atom per element
	concreteAtoms bool
	// onCall: called for every call instruction executed on a path, with the state at that point
	onCall func(s *ddState, c *ssa.Call)
	// stopInstr: a path ends (as a stop leaf carrying its state) right before the first instruction for which it is true
	stopInstr func(in ssa.Instruction) bool
	// initMem: the content of local variables at the start (runFrom in the middle of a function)
	initMem map[*ssa.Alloc]aval
}

// keyOf: the atom key of condition v in state s.
func (e *ddEngine) keyOf(s *ddState, v ssa.Value) string {
	if !e.concreteAtoms {
		return atomKey(v)
	}
	var rec func(v ssa.Value, d int) string
	rec = func(v ssa.Value, d int) string {
		if d > 12 {
			return v.Name()
		}
		if _, isConst := v.(*ssa.Const); !isConst {
			switch a := e.value(s, v); a.k {
			case kInt:
				return fmt.Sprint(a.i)
			case kBool:
				return fmt.Sprint(a.b)
			case kStr:
				return fmt.Sprintf("%q", a.s)
			}
		}
		switch x := v.(type) {
		case *ssa.Phi:
			// the value that flowed in on this path
			if a := e.value(s, v); a.k == kSym && a.sym != nil && a.sym != v {
				return rec(a.sym, d+1)
			}
		case *ssa.BinOp:
			return "(" + rec(x.X, d+1) + " " + x.Op.String() + " " + rec(x.Y, d+1) + ")"
		case *ssa.UnOp:
			return x.Op.String() + rec(x.X, d+1)
		case *ssa.Convert:
			return rec(x.X, d+1)
		case *ssa.ChangeType:
			return rec(x.X, d+1)
		case *ssa.Extract:
			return fmt.Sprintf("%s#%d", rec(x.Tuple, d+1), x.Index)
		case *ssa.FieldAddr:
			return rec(x.X, d+1) + ".f" + fmt.Sprint(x.Field)
		case *ssa.Field:
			return rec(x.X, d+1) + ".f" + fmt.Sprint(x.Field)
		case *ssa.IndexAddr:
			return rec(x.X, d+1) + "[" + rec(x.Index, d+1) + "]"
		case *ssa.Index:
			return rec(x.X, d+1) + "[" + rec(x.Index, d+1) + "]"
		case *ssa.Alloc:
			// a local copy (p := points[i]): what the single store put there
			var st *ssa.Store
			n := 0
			if refs := x.Referrers(); refs != nil {
				for _, r := range *refs {
					if s2, ok := r.(*ssa.Store); ok && s2.Addr == ssa.Value(x) {
						st = s2
						n++
					}
				}
			}
			if n == 1 {
				return "&" + rec(st.Val, d+1)
			}
		case *ssa.Call:
			var args []string
			for _, a := range x.Common().Args {
				args = append(args, rec(a, d+1))
			}
			name := "?"
			if sc := x.Common().StaticCallee(); sc != nil {
				name = funcName(sc)
			}
			return name + "(" + strings.Join(args, ",") + ")"
		}
		return atomKey(v)
	}
	return rec(v, 0)
}

func atomKey(v ssa.Value) string {
	// structural key so that two evaluations of the same predicate are one atom
	switch x := v.(type) {
	case *ssa.BinOp:
		return "(" + atomKey(x.X) + " " + x.Op.String() + " " + atomKey(x.Y) + ")"
	case *ssa.UnOp:
		return x.Op.String() + atomKey(x.X)
	case *ssa.Call:
		var args []string
		for _, a := range x.Common().Args {
			args = append(args, atomKey(a))
		}
		name := "?"
		if sc := x.Common().StaticCallee(); sc != nil {
			name = funcName(sc)
		} else if x.Common().IsInvoke() {
			name = x.Common().Method.Name()
			args = append([]string{atomKey(x.Common().Value)}, args...)
		}
		return name + "(" + strings.Join(args, ",") + ")"
	case *ssa.Const:
		if x.Value == nil {
			return "nil"
		}
		return x.Value.ExactString()
	case *ssa.Convert:
		return atomKey(x.X)
	case *ssa.ChangeType:
		return atomKey(x.X)
	case *ssa.Parameter:
		return "$" + x.Name()
	case *ssa.Extract:
		return fmt.Sprintf("%s#%d", atomKey(x.Tuple), x.Index)
	case *ssa.FieldAddr:
		return atomKey(x.X) + ".f" + fmt.Sprint(x.Field)
	case *ssa.Field:
		return atomKey(x.X) + ".f" + fmt.Sprint(x.Field)
	case *ssa.IndexAddr:
		return atomKey(x.X) + "[" + atomKey(x.Index) + "]"
	}
	return v.Name()
}

type ddState struct {
	vals  map[ssa.Value]aval
	atoms map[string]bool
	atomV map[string]ssa.Value
	path  []*ssa.BasicBlock
	// mem: what the last store on this path put into a local variable that is kept in memory (captured by a
	// closure, a named result of a function that defers); only direct stores to the Alloc are tracked
	mem map[*ssa.Alloc]aval
	// memElem: the same for an element of a local array or a field of a local struct addressed with a known index
	memElem map[elemKey]aval
	// log: notes an onCall hook leaves on this path (copied at branches)
	log []string
}

type elemKey struct {
	al  ssa.Value // *ssa.Alloc (local array or struct) or *ssa.MakeSlice (a slice made in this function)
	idx int64
}

func (s *ddState) clone() *ddState {
	n := &ddState{vals: map[ssa.Value]aval{}, atoms: map[string]bool{}, atomV: map[string]ssa.Value{}}
	for k, v := range s.vals {
		n.vals[k] = v
	}
	for k, v := range s.atoms {
		n.atoms[k] = v
	}
	for k, v := range s.atomV {
		n.atomV[k] = v
	}
	n.path = append([]*ssa.BasicBlock{}, s.path...)
	n.log = append([]string{}, s.log...)
	if s.mem != nil {
		n.mem = map[*ssa.Alloc]aval{}
		for k, v := range s.mem {
			n.mem[k] = v
		}
	}
	if s.memElem != nil {
		n.memElem = map[elemKey]aval{}
		for k, v := range s.memElem {
			n.memElem[k] = v
		}
	}
	return n
}

func (e *ddEngine) value(s *ddState, v ssa.Value) aval {
	if a, ok := s.vals[v]; ok {
		return a
	}
	if a, ok := e.env[v]; ok {
		return a
	}
	switch x := v.(type) {
	case *ssa.Const:
		if x.Value == nil {
			if isBasic(x.Type()) {
				// zero value of a basic type
				switch b := x.Type().Underlying().(*types.Basic); {
				case b.Info()&types.IsInteger != 0:
					return aval{k: kInt}
				case b.Info()&types.IsBoolean != 0:
					return aval{k: kBool}
				case b.Info()&types.IsFloat != 0:
					return aval{k: kFloat}
				case b.Info()&types.IsString != 0:
					return aval{k: kStr}
				}
			}
			return aval{k: kNil}
		}
		switch x.Value.Kind() {
		case constant.Int:
			i, _ := constant.Int64Val(x.Value)
			if b, ok := x.Type().Underlying().(*types.Basic); ok && b.Info()&types.IsFloat != 0 {
				return aval{k: kFloat, f: float64(i)}
			}
			return aval{k: kInt, i: i}
		case constant.Bool:
			return aval{k: kBool, b: constant.BoolVal(x.Value)}
		case constant.Float:
			f, _ := constant.Float64Val(x.Value)
			return aval{k: kFloat, f: f}
		case constant.String:
			return aval{k: kStr, s: constant.StringVal(x.Value)}
		}
	case *ssa.Convert:
		a := e.value(s, x.X)
		tb, _ := x.Type().Underlying().(*types.Basic)
		if tb == nil {
			return a
		}
		switch a.k {
		case kInt:
			if tb.Info()&types.IsFloat != 0 {
				return aval{k: kFloat, f: float64(a.i)}
			}
			return a
		case kFloat:
			if tb.Info()&types.IsFloat != 0 {
				if tb.Kind() == types.Float32 {
					return aval{k: kFloat, f: float64(float32(a.f))}
				}
				return a
			}
			return aval{k: kSym, sym: v}
		case kSym:
			return aval{k: kSym, sym: a.sym}
		}
		return a
	case *ssa.ChangeType:
		return e.value(s, x.X)
	case *ssa.MakeInterface:
		a := e.value(s, x.X)
		if a.k == kNil {
			return aval{k: kNonNil} // typed nil in interface is non-nil; conservative
		}
		if _, ok := x.X.(*ssa.Alloc); ok {
			return aval{k: kNonNil}
		}
		if a.k == kSym {
			return aval{k: kNonNil}
		}
		return a
	case *ssa.Alloc:
		return aval{k: kNonNil}
	case *ssa.Global:
		return aval{k: kSym, sym: v}
	}
	return aval{k: kSym, sym: v}
}

func cmpFloat(op token.Token, a, b float64) bool {
	switch op {
	case token.EQL:
		return a == b
	case token.NEQ:
		return a != b
	case token.LSS:
		return a < b
	case token.LEQ:
		return a <= b
	case token.GTR:
		return a > b
	case token.GEQ:
		return a >= b
	}
	return false
}

func cmpInt(op token.Token, a, b int64) bool {
	switch op {
	case token.EQL:
		return a == b
	case token.NEQ:
		return a != b
	case token.LSS:
		return a < b
	case token.LEQ:
		return a <= b
	case token.GTR:
		return a > b
	case token.GEQ:
		return a >= b
	}
	return false
}

func isCmp(op token.Token) bool {
	switch op {
	case token.EQL, token.NEQ, token.LSS, token.LEQ, token.GTR, token.GEQ:
		return true
	}
	return false
}

// evalInstr computes the abstract value of a value-producing instruction.
func (e *ddEngine) evalInstr(s *ddState, in ssa.Instruction, prev *ssa.BasicBlock) {
	if st, isStore := in.(*ssa.Store); isStore {
		if al, ok := st.Addr.(*ssa.Alloc); ok {
			if s.mem == nil {
				s.mem = map[*ssa.Alloc]aval{}
			}
			a := e.value(s, st.Val)
			if a.k == kSym && a.sym == nil {
				a.sym = st.Val
			}
			s.mem[al] = a
		}
		if k, ok := e.elemOf(s, st.Addr); ok {
			if s.memElem == nil {
				s.memElem = map[elemKey]aval{}
			}
			a := e.value(s, st.Val)
			if a.k == kSym && a.sym == nil {
				a.sym = st.Val
			}
			s.memElem[k] = a
		}
		return
	}
	v, ok := in.(ssa.Value)
	if !ok {
		return
	}
	if _, bound := e.env[v]; bound {
		return
	}
	switch x := in.(type) {
	case *ssa.Phi:
		for i, p := range x.Block().Preds {
			if p == prev {
				s.vals[x] = e.value(s, x.Edges[i])
				return
			}
		}
		s.vals[x] = aval{k: kSym, sym: x}
	case *ssa.BinOp:
		a, b := e.value(s, x.X), e.value(s, x.Y)
		switch {
		case isCmp(x.Op) && a.k == kInt && b.k == kInt:
			s.vals[x] = aval{k: kBool, b: cmpInt(x.Op, a.i, b.i)}
		case isCmp(x.Op) && a.k == kFloat && b.k == kFloat:
			s.vals[x] = aval{k: kBool, b: cmpFloat(x.Op, a.f, b.f)}
		case isCmp(x.Op) && a.k == kStr && b.k == kStr && (x.Op == token.EQL || x.Op == token.NEQ):
			s.vals[x] = aval{k: kBool, b: (a.s == b.s) == (x.Op == token.EQL)}
		case (x.Op == token.EQL || x.Op == token.NEQ) && (a.k == kNil || a.k == kNonNil) && (b.k == kNil || b.k == kNonNil) && (a.k == kNil || b.k == kNil):
			eq := a.k == b.k
			s.vals[x] = aval{k: kBool, b: eq == (x.Op == token.EQL)}
		case (x.Op == token.EQL || x.Op == token.NEQ) && a.k == kBool && b.k == kBool:
			s.vals[x] = aval{k: kBool, b: (a.b == b.b) == (x.Op == token.EQL)}
		case a.k == kInt && b.k == kInt:
			switch x.Op {
			case token.ADD:
				s.vals[x] = aval{k: kInt, i: a.i + b.i}
			case token.SUB:
				s.vals[x] = aval{k: kInt, i: a.i - b.i}
			case token.MUL:
				s.vals[x] = aval{k: kInt, i: a.i * b.i}
			case token.QUO:
				if b.i != 0 {
					s.vals[x] = aval{k: kInt, i: a.i / b.i}
				} else {
					s.vals[x] = aval{k: kSym, sym: x}
				}
			case token.REM:
				if b.i != 0 {
					s.vals[x] = aval{k: kInt, i: a.i % b.i}
				} else {
					s.vals[x] = aval{k: kSym, sym: x}
				}
			default:
				s.vals[x] = aval{k: kSym, sym: x}
			}
		default:
			s.vals[x] = aval{k: kSym, sym: x}
		}
	case *ssa.UnOp:
		if al, isAlloc := x.X.(*ssa.Alloc); isAlloc && x.Op == token.MUL {
			if a, ok := s.mem[al]; ok {
				s.vals[x] = a
				return
			}
		}
		if x.Op == token.MUL {
			if k, ok := e.elemOf(s, x.X); ok {
				if a, ok := s.memElem[k]; ok {
					s.vals[x] = a
					return
				}
			}
		}
		a := e.value(s, x.X)
		switch {
		case x.Op == token.NOT && a.k == kBool:
			s.vals[x] = aval{k: kBool, b: !a.b}
		case x.Op == token.SUB && a.k == kInt:
			s.vals[x] = aval{k: kInt, i: -a.i}
		case x.Op == token.SUB && a.k == kFloat:
			s.vals[x] = aval{k: kFloat, f: -a.f}
		default:
			s.vals[x] = aval{k: kSym, sym: x}
		}
	case *ssa.Call:
		cc := x.Common()
		if b, ok := cc.Value.(*ssa.Builtin); ok && b.Name() == "len" {
			a := e.value(s, cc.Args[0])
			if a.k == kStr {
				s.vals[x] = aval{k: kInt, i: int64(len(a.s))}
				return
			}
			// the length of a slice made with a known length, or of a slice over a local array literal
			if n, ok := e.knownLen(s, cc.Args[0]); ok {
				s.vals[x] = aval{k: kInt, i: n}
				return
			}
		}
		if sc := cc.StaticCallee(); sc != nil {
			switch {
			case isPkgFunc(sc, "math", "IsNaN"):
				if a := e.value(s, cc.Args[0]); a.k == kFloat {
					s.vals[x] = aval{k: kBool, b: math.IsNaN(a.f)}
					return
				}
			case isPkgFunc(sc, "math", "NaN"):
				s.vals[x] = aval{k: kFloat, f: math.NaN()}
				return
			case isPkgFunc(sc, "errors", "New") || isPkgFunc(sc, "fmt", "Errorf"):
				s.vals[x] = aval{k: kNonNil}
				return
			}
			if e.inline != nil && e.inline(sc) && len(sc.Blocks) > 0 {
				// evaluate a pure module predicate on known arguments
				sub := &ddEngine{w: e.w, env: map[ssa.Value]aval{}, maxLeafs: 4, inline: e.inline}
				allKnown := true
				for i, p := range sc.Params {
					a := e.value(s, cc.Args[i])
					if a.k == kSym {
						allKnown = false
					}
					sub.env[p] = a
				}
				if allKnown {
					sub.run(sc)
					if sub.err == nil && len(sub.leaves) == 1 && len(sub.leaves[0].results) == 1 {
						s.vals[x] = sub.leaves[0].results[0]
						return
					}
				}
			}
		}
		s.vals[x] = aval{k: kSym, sym: x}
	case *ssa.Extract:
		s.vals[x] = aval{k: kSym, sym: x}
	case *ssa.Lookup:
		a, i := e.value(s, x.X), e.value(s, x.Index)
		if a.k == kStr && i.k == kInt && i.i >= 0 && int(i.i) < len(a.s) {
			s.vals[x] = aval{k: kInt, i: int64(a.s[i.i])}
			return
		}
		s.vals[v] = aval{k: kSym, sym: v}
	case *ssa.Index:
		// an element of a local array literal that was loaded as a whole (range over [...]T{…})
		if u, ok := x.X.(*ssa.UnOp); ok && u.Op == token.MUL {
			if al, ok := u.X.(*ssa.Alloc); ok {
				if i := e.value(s, x.Index); i.k == kInt {
					if a, ok := s.memElem[elemKey{al, i.i}]; ok {
						s.vals[x] = a
						return
					}
				}
			}
		}
		a, i := e.value(s, x.X), e.value(s, x.Index)
		if a.k == kStr && i.k == kInt && i.i >= 0 && int(i.i) < len(a.s) {
			s.vals[x] = aval{k: kInt, i: int64(a.s[i.i])}
			return
		}
		s.vals[v] = aval{k: kSym, sym: v}
	default:
		// leave unevaluated (value() falls back to sym)
	}
}

func (e *ddEngine) run(f *ssa.Function) {
	if len(f.Blocks) == 0 {
		e.err = fmt.Errorf("no body")
		return
	}
	e.runFrom(f.Blocks[0], nil)
}

func (e *ddEngine) runFrom(start, prev *ssa.BasicBlock) {
	if e.maxLeafs == 0 {
		e.maxLeafs = 64
	}
	st := &ddState{vals: map[ssa.Value]aval{}, atoms: map[string]bool{}, atomV: map[string]ssa.Value{}}
	if e.initMem != nil {
		st.mem = map[*ssa.Alloc]aval{}
		for k, v := range e.initMem {
			st.mem[k] = v
		}
	}
	e.walk(st, start, prev, 0)
}

func (e *ddEngine) walk(s *ddState, b, prev *ssa.BasicBlock, steps int) {
	for {
		if e.err != nil {
			return
		}
		if steps > 400 {
			e.err = fmt.Errorf("evaluation does not terminate within 400 blocks (loop on symbolic values)")
			return
		}
		steps++
		s.path = append(s.path, b)
		if e.stop != nil && e.stop(b) {
			e.leaves = append(e.leaves, ddLeaf{atoms: s.atoms, atomVal: s.atomV, stop: b, path: s.path, st: s})
			return
		}
		for _, in := range b.Instrs {
			if e.stopInstr != nil && e.stopInstr(in) {
				e.leaves = append(e.leaves, ddLeaf{atoms: s.atoms, atomVal: s.atomV, stop: b, path: s.path, st: s})
				return
			}
			switch x := in.(type) {
			case *ssa.Return:
				var res []aval
				for _, rv := range x.Results {
					res = append(res, e.value(s, rv))
				}
				e.leaves = append(e.leaves, ddLeaf{atoms: s.atoms, atomVal: s.atomV, ret: x, results: res, path: s.path, st: s})
				return
			case *ssa.Panic:
				e.leaves = append(e.leaves, ddLeaf{atoms: s.atoms, atomVal: s.atomV, panics: true, path: s.path})
				return
			case *ssa.Jump:
				prev, b = b, b.Succs[0]
			case *ssa.If:
				c := e.value(s, x.Cond)
				if c.k == kBool {
					if c.b {
						prev, b = b, b.Succs[0]
					} else {
						prev, b = b, b.Succs[1]
					}
					break
				}
				key := e.keyOf(s, x.Cond)
				if chosen, ok := s.atoms[key]; ok {
					if chosen {
						prev, b = b, b.Succs[0]
					} else {
						prev, b = b, b.Succs[1]
					}
					break
				}
				maxAtoms := 6
				if e.maxAtoms > 0 {
					maxAtoms = e.maxAtoms
				}
				if len(e.leaves) >= e.maxLeafs || len(s.atoms) >= maxAtoms {
					e.err = fmt.Errorf("too many undetermined branch conditions (atom %s)", key)
					return
				}
				s2 := s.clone()
				s.atoms[key], s.atomV[key] = true, x.Cond
				s.vals[x.Cond] = aval{k: kBool, b: true}
				s2.atoms[key], s2.atomV[key] = false, x.Cond
				s2.vals[x.Cond] = aval{k: kBool, b: false}
				e.walk(s2, b.Succs[1], b, steps)
				prev, b = b, b.Succs[0]
			default:
				if e.onCall != nil {
					if cv, ok := in.(*ssa.Call); ok {
						e.onCall(s, cv)
					}
				}
				e.evalInstr(s, in, prev)
			}
		}
	}
}

// ---- helpers for switch-like functions over an enum parameter ----

// evalEnumFunc runs f with its first non-receiver parameter bound to each of
// the given integer values and returns, per value, the single leaf reached
// (error if the diagram has free atoms for that input).
func evalEnumFunc(w *World, f *ssa.Function, param ssa.Value, values []int64, extraEnv map[ssa.Value]aval) (map[int64]ddLeaf, error) {
	out := map[int64]ddLeaf{}
	for _, k := range values {
		e := &ddEngine{w: w, env: map[ssa.Value]aval{param: {k: kInt, i: k}}}
		for kk, vv := range extraEnv {
			e.env[kk] = vv
		}
		e.run(f)
		if e.err != nil {
			return nil, e.err
		}
		if len(e.leaves) != 1 {
			var ks []string
			for _, l := range e.leaves {
				for a := range l.atoms {
					ks = append(ks, a)
				}
			}
			sort.Strings(ks)
			return nil, fmt.Errorf("input %d does not determine the outcome (undetermined conditions: %v)", k, ks)
		}
		out[k] = e.leaves[0]
	}
	return out, nil
}

// acceptedMethods: the AggregationMethod values for which a validator
// (func(m) error) returns nil.
func acceptedMethods(w *World, f *ssa.Function) map[int64]bool {
	if f == nil || len(f.Params) == 0 {
		return nil
	}
	var vals []int64
	for k := int64(-1); k <= 12; k++ {
		vals = append(vals, k)
	}
	leaves, err := evalEnumFunc(w, f, f.Params[len(f.Params)-1], vals, nil)
	if err != nil {
		return nil
	}
	acc := map[int64]bool{}
	for k, l := range leaves {
		if l.ret != nil && len(l.results) > 0 && l.results[len(l.results)-1].k == kNil {
			acc[k] = true
		}
	}
	return acc
}

// switchCasesReturning: the values of f's first parameter for which f
// returns (rather than panics), other parameters symbolic.
func switchCasesReturning(w *World, f *ssa.Function) map[int64]bool {
	if f == nil || len(f.Params) == 0 {
		return nil
	}
	out := map[int64]bool{}
	for k := int64(-1); k <= 12; k++ {
		e := &ddEngine{w: w, env: map[ssa.Value]aval{f.Params[0]: {k: kInt, i: k}}, maxLeafs: 64}
		// stop as soon as the method has been dispatched: at any block that is
		// not part of the dispatch chain we only need to know whether the
		// panic is reached; loops over the (symbolic) slice would not
		// terminate, so treat the first block that is entered through a
		// decided dispatch and contains no comparison with the parameter as a leaf.
		e.stop = func(b *ssa.BasicBlock) bool {
			if len(b.Instrs) == 0 {
				return false
			}
			for _, in := range b.Instrs {
				if _, isPanic := in.(*ssa.Panic); isPanic {
					return false
				}
				if bo, ok := in.(*ssa.BinOp); ok && (bo.X == ssa.Value(f.Params[0]) || bo.Y == ssa.Value(f.Params[0])) {
					return false
				}
			}
			return b != f.Blocks[0]
		}
		e.run(f)
		if e.err != nil {
			return nil
		}
		panics := false
		for _, l := range e.leaves {
			if l.panics {
				panics = true
			}
		}
		if !panics && len(e.leaves) > 0 {
			out[k] = true
		}
	}
	return out
}

// elemOf: addr is &local[i] (local array, or a slice made in this function — also when it is reached through a
// phi or a slice expression over the array) or &local.f, with i known on this path.
func (e *ddEngine) elemOf(s *ddState, addr ssa.Value) (elemKey, bool) {
	switch x := addr.(type) {
	case *ssa.IndexAddr:
		base := e.sliceBase(s, x.X)
		if base == nil {
			return elemKey{}, false
		}
		if i := e.value(s, x.Index); i.k == kInt {
			return elemKey{base, i.i}, true
		}
	case *ssa.FieldAddr:
		if al, ok := x.X.(*ssa.Alloc); ok {
			return elemKey{al, int64(x.Field)}, true
		}
	}
	return elemKey{}, false
}

// sliceBase: the local array or made slice that v denotes on this path (nil when unknown).
func (e *ddEngine) sliceBase(s *ddState, v ssa.Value) ssa.Value {
	for i := 0; i < 6; i++ {
		switch x := v.(type) {
		case *ssa.Alloc:
			return x
		case *ssa.MakeSlice:
			return x
		case *ssa.ChangeType:
			v = x.X
			continue
		case *ssa.Slice:
			if x.Low == nil && x.High == nil {
				v = x.X
				continue
			}
			return nil
		case *ssa.Phi, *ssa.UnOp, *ssa.Extract:
			a := e.value(s, v)
			if a.k == kSym && a.sym != nil && a.sym != v {
				v = a.sym
				continue
			}
			return nil
		}
		return nil
	}
	return nil
}

// knownLen: the length of the array or made slice v denotes on this path.
func (e *ddEngine) knownLen(s *ddState, v ssa.Value) (int64, bool) {
	switch b := e.sliceBase(s, v).(type) {
	case *ssa.MakeSlice:
		if l := e.value(s, b.Len); l.k == kInt {
			return l.i, true
		}
	case *ssa.Alloc:
		if p, ok := b.Type().Underlying().(*types.Pointer); ok {
			if arr, ok := p.Elem().Underlying().(*types.Array); ok {
				return arr.Len(), true
			}
		}
	}
	return 0, false
}
