package main

import (
	"go/token"
	"go/types"
	"regexp"
	"strings"

	"golang.org/x/tools/go/ssa"
)

// Rules added with seeding round 11.

// ruleClockUnmodified: the instant a command hands to the library as "now" is the clock reading itself. The library
// clamps every window to that instant, so a reading that was rounded, truncated or shifted first silently drops (or
// admits) the slots between the two instants. Judged at every conversion of a time.Time into a Timestamp in the
// functions selected by sel: the converted value must be a clock reading, a parsed time or a parameter; the methods
// that only change the presentation (UTC, In, Local) are seen through.
func ruleClockUnmodified(w *World, r *Report, rule string, sel *regexp.Regexp) {
	conv := fn(w.Lib, "TimestampFromStdTime")
	if conv == nil {
		r.Undecided(rule, "clock-unmodified", "-", "TimestampFromStdTime not found")
		return
	}
	for _, f := range cmdFuncs(w) {
		if !sel.MatchString(funcName(f)) {
			continue
		}
		for _, c := range callsIn(f) {
			if c.Common().StaticCallee() != conv || len(c.Common().Args) != 1 {
				continue
			}
			bad := ""
			var rec func(v ssa.Value, depth int)
			rec = func(v ssa.Value, depth int) {
				if depth > 8 || bad != "" {
					return
				}
				for _, l := range leavesOf(v) {
					switch x := l.(type) {
					case *ssa.Parameter, *ssa.FreeVar:
					case *ssa.Extract:
						// a parsed time (time.Parse and friends) or another call's result: not a clock reading
					case *ssa.Call:
						if isCallToPkgFunc(x, "time", "Now") {
							continue
						}
						if cal := x.Common().StaticCallee(); cal != nil && cal.Signature.Recv() != nil && cal.Pkg != nil && cal.Pkg.Pkg.Path() == "time" {
							switch cal.Name() {
							case "UTC", "In", "Local":
								rec(x.Common().Args[0], depth+1)
							default:
								bad = "time.Time." + cal.Name() + " at " + w.instrPos(x)
							}
							continue
						}
						// the package clock (a function variable) and other producers
					default:
					}
				}
			}
			rec(c.Common().Args[0], 0)
			key := funcName(f) + ":clock-unmodified"
			r.Check(bad == "", rule, key, w.instrPos(c), "the instant passed on is the clock reading itself", funcName(f)+" passes on a clock reading altered by "+bad+": the library clamps the window to that instant, so the slots between it and the real time are neither read, compared nor written")
		}
	}
}

// ruleFetchEmptyOnlyWhenNeverWritten (C01): FetchFromArchive answers "all unknown" without reading the slots only for
// an archive that was never written, which the format marks by a zero time in its first slot. The first slot's time is
// the phase of the ring and nothing else: it may be older or newer than any bound of the window, so any ordering test
// on it (against now, from, until) hides live slots.
func ruleFetchEmptyOnlyWhenNeverWritten(w *World, r *Report, rule string) {
	f := fn(w.Lib, "Whisper.FetchFromArchive")
	bi := fn(w.Lib, "Whisper.baseInterval")
	if f == nil || bi == nil {
		r.Undecided(rule, "FetchFromArchive:base-only-tested-for-zero", "-", "FetchFromArchive or baseInterval not found")
		return
	}
	isBase := func(v ssa.Value) bool {
		for _, l := range leavesOf(v) {
			if ex, ok := l.(*ssa.Extract); ok && ex.Index == 0 {
				if cv, ok := ex.Tuple.(*ssa.Call); ok && cv.Common().StaticCallee() == bi {
					return true
				}
			}
		}
		return false
	}
	bad := ""
	n := 0
	eachInstr(f, func(in ssa.Instruction) {
		bo, ok := in.(*ssa.BinOp)
		if !ok || !isCmp(bo.Op) {
			return
		}
		if !isBase(bo.X) && !isBase(bo.Y) {
			return
		}
		n++
		other := bo.Y
		if isBase(bo.Y) {
			other = bo.X
		}
		k, isK := constInt(other)
		if (bo.Op == token.EQL || bo.Op == token.NEQ) && isK && k == 0 {
			return
		}
		// the time is unsigned: `base <= 0` is `base == 0`, `base > 0` is `base != 0` (and mirrored)
		if isK && k == 0 && unsignedType(bo.X.Type()) {
			if (isBase(bo.X) && (bo.Op == token.LEQ || bo.Op == token.GTR)) || (isBase(bo.Y) && (bo.Op == token.GEQ || bo.Op == token.LSS)) {
				return
			}
		}
		bad = "the first slot's time is compared with " + newExprCtx(w).expr(other) + " (" + bo.Op.String() + ") at " + w.instrPos(bo)
	})
	r.Check(bad == "" && n > 0, rule, "FetchFromArchive:base-only-tested-for-zero", w.pos(f.Pos()), "the first slot's time is only tested for zero (never written)", "FetchFromArchive: "+bad+": the first slot's time is the phase of the ring, not a bound of what was written; an ordering test on it answers `unknown` for live slots")
}

// ruleFetchReadsOnlyThroughSlotReader (C01): inside FetchFromArchive the file is touched by baseInterval and by the
// slot reader only. Both address one slot at a time through the ring arithmetic; a range of the file computed here from
// a window (offset of the first slot plus window length) ignores the wrap-around and runs past the archive, and for the
// last archive past the end of the file.
func ruleFetchReadsOnlyThroughSlotReader(w *World, r *Report, rule string) {
	f := fn(w.Lib, "Whisper.FetchFromArchive")
	if f == nil {
		r.Undecided(rule, "FetchFromArchive:no-range-reads", "-", "FetchFromArchive not found")
		return
	}
	bad := ""
	for _, c := range callsIn(f) {
		cal := c.Common().StaticCallee()
		if cal == nil || cal.Pkg == nil || cal.Pkg.Pkg.Path() != fbPath || cal.Signature.Recv() == nil {
			continue
		}
		bad = "calls the page buffer's " + cal.Name() + " at " + w.instrPos(c) + " with a range of its own"
	}
	r.Check(bad == "", rule, "FetchFromArchive:no-range-reads", w.pos(f.Pos()), "the file is read slot by slot through the ring arithmetic only", "FetchFromArchive "+bad+": a linear range from the window's first slot ignores the wrap-around of the ring and runs past the archive (past the end of the file for the last archive)")
}

// ruleTextOutKeepsWholeLines (C18 and the other printing commands): the -text-out file is opened so that what a run
// prints stays whole: appended behind what is there, or the old contents cut off. Opened for plain writing the new text
// overwrites the beginning of the old and leaves a torn line and stale records behind it.
func ruleTextOutKeepsWholeLines(w *World, r *Report, rule string) {
	f := fn(w.Cmd, "newTextOutWriter")
	if f == nil {
		r.Undecided(rule, "newTextOutWriter:appends-or-truncates", "-", "newTextOutWriter not found")
		return
	}
	n := 0
	bad := ""
	for _, c := range callsIn(f) {
		if isCallToPkgFunc(c, "os", "Create") {
			n++
			continue
		}
		if !isCallToPkgFunc(c, "os", "OpenFile") || len(c.Common().Args) != 3 {
			continue
		}
		n++
		var flags int64
		known := true
		seen := map[ssa.Value]bool{}
		var visit func(v ssa.Value)
		visit = func(v ssa.Value) {
			if seen[v] {
				return
			}
			seen[v] = true
			switch t := v.(type) {
			case *ssa.Const:
				if k, ok := constInt(t); ok {
					flags |= k
				}
			case *ssa.BinOp:
				if t.Op != token.OR {
					known = false
				}
				visit(t.X)
				visit(t.Y)
			case *ssa.Phi:
				for _, e := range t.Edges {
					visit(e)
				}
			case *ssa.Convert:
				visit(t.X)
			default:
				known = false
			}
		}
		visit(c.Common().Args[1])
		if !known {
			continue
		}
		if flags&(osConst(w, "O_APPEND")|osConst(w, "O_TRUNC")) == 0 {
			bad = "opens the file at " + w.instrPos(c) + " with neither O_APPEND nor O_TRUNC"
		}
	}
	r.Check(bad == "" && n > 0, rule, "newTextOutWriter:appends-or-truncates", w.pos(f.Pos()), "the text file is appended to or cut off first", "newTextOutWriter "+bad+": a second run into the same file overwrites the start of the earlier text and leaves a torn line and records of other archives and windows behind the new ones")
}

// ruleOneSessionPerRead (C13): a command or handler reads a file in one session. A cmd function that opens the file
// named by its own parameters more than once on a path (two call sites one after the other, or one inside a loop) lets a
// writer's whole open-modify-Sync-close session run between the two: the reader then returns some archives from before
// the Sync and some from after it.
func ruleOneSessionPerRead(w *World, r *Report, rule string) {
	open := fn(w.Lib, "Open")
	if open == nil {
		r.Undecided(rule, "cmd:one-session-per-read", "-", "whispertool.Open not found")
		return
	}
	reaches := map[*ssa.Function]bool{}
	for _, f := range cmdFuncs(w) {
		if w.findPath(f, func(g *ssa.Function) bool { return g == open }, func(g *ssa.Function) bool { return w.inModule(g) }) != nil {
			reaches[f] = true
		}
	}
	n := 0
	bad := ""
	for _, f := range cmdFuncs(w) {
		type site struct {
			c   ssa.CallInstruction
			sig string
		}
		var sites []site
		for _, c := range callsIn(f) {
			cal := c.Common().StaticCallee()
			if cal == nil || !(cal == open || reaches[cal]) {
				continue
			}
			if _, isGo := c.(*ssa.Go); isGo {
				continue
			}
			// the file is named by this function's own parameters
			sig := ""
			ok := true
			for _, a := range c.Common().Args {
				b, isB := a.Type().Underlying().(*types.Basic)
				if !isB || b.Kind() != types.String {
					continue
				}
				p, isP := a.(*ssa.Parameter)
				if !isP {
					ok = false
					break
				}
				sig += p.Name() + ","
			}
			if !ok || sig == "" {
				continue
			}
			sites = append(sites, site{c, cal.Name() + "(" + sig + ")"})
		}
		for i, a := range sites {
			n++
			if inLoopWith(a.c.Block()) {
				bad = funcName(f) + " opens the file named by its parameters inside a loop (" + a.sig + " at " + w.instrPos(a.c) + ")"
			}
			for j, b := range sites {
				if i == j || a.sig[strings.Index(a.sig, "("):] != b.sig[strings.Index(b.sig, "("):] {
					continue
				}
				if a.c.Block() == b.c.Block() && i < j || (a.c.Block() != b.c.Block() && blockReaches(a.c.Block(), b.c.Block())) {
					bad = funcName(f) + " opens the file named by its parameters twice on one path (" + w.instrPos(a.c) + ", then " + w.instrPos(b.c) + ")"
				}
			}
		}
	}
	r.Check(bad == "" && n > 0, rule, "cmd:one-session-per-read", "-", "no cmd function opens the file its parameters name more than once on a path", bad+": between two sessions of one read a writer's whole session can run, and the reader returns a mixture of archives from before and after that Sync")
}

// unsignedType reports whether t is an unsigned integer type.
func unsignedType(t types.Type) bool {
	b, ok := t.Underlying().(*types.Basic)
	return ok && b.Info()&types.IsUnsigned != 0
}

var _ = strings.Contains
