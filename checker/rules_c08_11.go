package main

import (
	"fmt"
	"go/token"
	"math"
	"regexp"
	"sort"
	"strings"

	"golang.org/x/tools/go/ssa"
)

func init() {
	register(&propertyDef{
		ID: "C08",
		Explanation: "Decides the structure of copy: the read side reaches no mutator (no-path over the call graph); source and destination are read at one clock/window/archive selection; the layout and window agreement checks compare source with destination and dominate the write; the NaN mode selects Diff vs DiffExcludeSrcNaN computed as source.Diff(destination); what is written is the source side of that diff, to the destination handle, at the same clock; glob mode copies each file to the same relative path; the diff inclusion predicates have the right truth tables; the new destination is created and synced even when nothing is copied (C05.R7). " +
			"Not decided: slot-by-slot post-state equality and idempotence. Known finding: copy writes through the propagating writer (rule C08.R8).",
		Run: rulesC08,
	})
	register(&propertyDef{
		ID: "C09",
		Explanation: "Decides the structure of diff: NaN-aware Value.Equal / Value.Diff truth tables (abstract enumeration of the decision diagram); the slot inclusion predicate of DiffPoints; the verdict of one file by return classification (missing side -> ErrDiffFound, listed differences -> ErrDiffFound, clean only under AllEmpty of Diff(source,destination), other errors propagated, layout/window mismatch -> error); the latched accumulation over files; classification of the missing side on both reads; the exit-code mapping; the arguments of the listing. " +
			"Not decided: that exactly the differing slots are listed for every pair of files; symmetry.",
		Run: rulesC09,
	})
	register(&propertyDef{
		ID: "C10",
		Explanation: "Decides the structure of sum: the NaN-skipping Value.Add truth table; the layout and window agreement loops compare file 0 with every other file and dominate the summation; a pattern matching nothing yields an *os.PathError with os.ErrNotExist in all three glob sites; the accumulation stores only file-0 values or Add(accumulator, file-i value) over whole ranges; goroutine writes are index-disjoint (C17.R3); all files are read with one clock. " +
			"Not decided: the numeric sum; glob semantics.",
		Run: rulesC10,
	})
	register(&propertyDef{
		ID: "C11",
		Explanation: "Decides that sum-copy has the same skeleton as copy (one clock, checks before the write, source side of Diff — NaN included — written to the destination handle, Sync) and sum-diff the same verdict structure as diff, both obtaining the sum from sumWhisperFile with the item's directory and the command's pattern. " +
			"Not decided: that the stored series equals the sum (value clause); subject to the copy-propagation finding C08.R8.",
		Run: rulesC11,
	})
}

func methodByName(w *World, pkg *ssa.Package, name string) *ssa.Function { return fn(pkg, name) }

// ---------- item-level rule sets ----------

func copySkeletonRules(w *World, r *Report, a *cmdAnchors, f *ssa.Function, srcFn *ssa.Function, rOne, rChecks, rMode, rWrite string, nanModes bool) {
	sk, msg := findSkeleton(w, a, f, srcFn, true)
	if sk == nil {
		r.Violate(rOne, funcName(f)+":skeleton", w.pos(f.Pos()), msg)
		return
	}
	ruleOneClock(w, r, rOne, a, sk)
	ruleUntilDefault(w, r, rOne, f, []*ssa.Function{a.readWhisperFile, a.sumWhisperFile})
	ruleParseWindowCheck(w, r, rOne, ownerTypeName(f))
	var upd *ssa.Call
	for _, c := range callsTo(f, a.update) {
		if c.Parent() == f {
			upd = c
		}
	}
	key := funcName(f)
	if upd == nil {
		r.Violate(rWrite, key+":write", w.pos(f.Pos()), "the destination is not written through updateFileDataWithPointsList")
		return
	}
	ruleChecksBefore(w, r, rChecks, a, sk, upd, "write", true)
	args := upd.Common().Args
	// handle = the destination handle that was read
	r.Check(sameLeaves(args[0], sk.destRead.Common().Args[0]), rWrite, key+":write-handle", w.instrPos(upd), "writes to the destination handle that was read", "the handle written is not the destination handle that was compared")
	// now
	sa := sk.srcRead.Common().Args
	if len(args) >= 3 {
		r.Check(sameLeaves(args[2], sa[len(sa)-1]), rWrite, key+":write-now", w.instrPos(upd), "writes at the clock value used for the reads", "the write uses a different clock value than the reads")
	} else {
		r.Violate(rWrite, key+":write-now", w.instrPos(upd), "the writer is not given the clock value used for the reads")
	}
	// what is written
	allowed := []*ssa.Function{a.tslDiff}
	if nanModes {
		allowed = append(allowed, a.tslDiffEx)
	}
	calls := diffCallsOf(w, r, rWrite, key+":write-source-side", args[1], 0, sk, allowed...)
	if nanModes {
		// Diff under CopyNaN==true, DiffExcludeSrcNaN under false
		for _, c := range calls {
			wantTrue := calleeIs(c, a.tslDiff)
			okMode := false
			for _, b := range f.Blocks {
				if len(b.Instrs) == 0 {
					continue
				}
				iff, ok := b.Instrs[len(b.Instrs)-1].(*ssa.If)
				if !ok || !isLoadOfField(iff.Cond, "CopyCommand", "CopyNaN") {
					continue
				}
				succ := b.Succs[1]
				if wantTrue {
					succ = b.Succs[0]
				}
				if edgeDominates(b, succ, c.Block()) {
					okMode = true
				}
			}
			r.Check(okMode, rMode, key+":nan-mode:"+c.Common().StaticCallee().Name(), w.instrPos(c),
				"selected by the CopyNaN option", fmt.Sprintf("%s is not selected by CopyNaN==%v", c.Common().StaticCallee().Name(), wantTrue))
		}
		if len(calls) != 2 {
			r.Violate(rMode, key+":nan-mode", w.instrPos(upd), fmt.Sprintf("expected both Diff (copy-nan) and DiffExcludeSrcNaN (default) to feed the write, found %d", len(calls)))
		}
	}
	// the early `nothing to do` return is guarded by AllEmpty of both sides
	for _, ret := range returnsOf(f) {
		if !isSuccessReturn(ret) || dominatesInstr(upd, ret) {
			continue
		}
		guarded := false
		for _, c := range callsTo(f, a.plAllEmpty) {
			for _, b := range f.Blocks {
				onT, ok := boolCallTrueEdge(b, c)
				if ok && edgeDominates(b, onT, ret.Block()) {
					if ls, ok := leafCallsOf(c.Common().Args[0]); ok && len(ls) > 0 && calleeIs(ls[0].call, allowed...) {
						guarded = true
					}
				}
			}
		}
		r.Check(guarded, rWrite, key+":nothing-to-do", w.instrPos(ret), "the early success return requires empty diff lists", "a success return before the write is not guarded by AllEmpty() of the diff")
	}
	// the destination is opened/created with the command's layout parameters
	for _, c := range callsTo(f, a.openOrCreate) {
		hdr := c.Common().Args[1]
		ls, ok := leafCallsOf(hdr)
		okHdr := ok && len(ls) == 1 && calleeIs(ls[0].call, fn(w.Lib, "NewHeader")) && ls[0].idx == 0
		if okHdr {
			ex := newExprCtx(w)
			na := ls[0].call.Common().Args
			okHdr = strings.HasSuffix(ex.expr(na[0]), ".AggregationMethod") && strings.HasSuffix(ex.expr(na[1]), ".XFilesFactor") && strings.HasSuffix(ex.expr(na[2]), ".ArchiveInfoList")
		}
		r.Check(okHdr, rWrite, key+":create-layout", w.instrPos(c), "a missing destination is created from the command's method, xFilesFactor and archive list", "a missing destination is not created with the requested layout (AggregationMethod, XFilesFactor, ArchiveInfoList of the command)")
	}
}

func rulesC08(w *World, r *Report) {
	ruleSourceNeverWrites(w, r, "C08.R1")
	a := getCmdAnchors(w, r, "C08.R2")
	if a == nil {
		return
	}
	r.Rule("C08.R2", "guard-dominates: in copyOneFile the layout-equality check (source header vs destination header) and the window/step agreement check (source list vs destination list) guard the write; their failing edges reach only failure returns", 4)
	ruleLayoutEquality(w, r, "C08.R2")
	ruleWindowEquality(w, r, "C08.R2")
	rulePointsListAllEmpty(w, r, "C08.R5")
	ruleListDiffElementwise(w, r, "C08.R5")
	r.Rule("C08.R3", "derives-from: source and destination are read with the same archive id, from, until and one reading of the clock", 5)
	r.Rule("C08.R4", "derives-from: the value written comes from Diff under CopyNaN and from DiffExcludeSrcNaN otherwise", 2)
	r.Rule("C08.R5", "derives-from: what is written is result #0 (source side) of source.Diff*(destination), to the destination handle, at the reads' clock; early success requires empty diff lists; a missing destination is created from the command's layout", 5)
	cp := need(w, r, "C08.R2", w.Cmd, "CopyCommand.copyOneFile")
	if cp != nil {
		copySkeletonRules(w, r, a, cp, a.readWhisperFile, "C08.R3", "C08.R2", "C08.R4", "C08.R5", true)
		ruleClockUnmodified(w, r, "C08.R3", regexp.MustCompile(`^cmd\.CopyCommand\.`))
	}
	ruleDiffPredicates(w, r, "C08.R6")
	// R7 glob mode
	r.Rule("C08.R7", "derives-from: in glob mode every matched relative path is passed as both source and destination path", 1)
	if ex := need(w, r, "C08.R7", w.Cmd, "CopyCommand.execute"); ex != nil && cp != nil {
		n := 0
		for _, c := range callsTo(ex, cp) {
			args := c.Common().Args
			// the call inside the loop takes the range element twice
			if inLoopWith(c.Block()) {
				n++
				r.Check(sameLeaves(args[1], args[2]), "C08.R7", "CopyCommand.execute:glob-same-path", w.instrPos(c), "same relative path on both sides", "glob mode copies a matched file to a different relative path")
			}
		}
		if n == 0 {
			r.Undecided("C08.R7", "CopyCommand.execute:glob", w.pos(ex.Pos()), "no copyOneFile call over the glob result found")
		}
	}
	if ex := fn(w.Cmd, "CopyCommand.execute"); ex != nil && cp != nil {
		ruleLoopGoesOn(w, r, "C08.R7", "CopyCommand.execute:every-file", firstLoopCall(ex, cp), "with a glob pattern every matched file is copied")
		ruleDestPathDefault(w, r, "C08.R7", ex, cp)
		ruleGlobArgs(w, r, "C08.R7", ex, fn(w.Cmd, "globFiles"), "SrcRelPath")
		ruleGlobRel(w, r, "C08.R7")
	}
	ruleC08R8(w, r, a)
	{
		var fs []*ssa.Function
		for f := range cmdReachableFrom(w, "CopyCommand") {
			fs = append(fs, f)
		}
		sort.Slice(fs, func(i, j int) bool { return funcName(fs[i]) < funcName(fs[j]) })
		ruleLoopFailureStops(w, r, "C08.R7", fs)
	}
	ruleC05R7(w, r, "C05.R7", 3, cmdReachableFrom(w, "CopyCommand"))
	r.Rule("C08.R9", "the batch writer stores every aligned point it is given (no value- or age-dependent skip inside archiveUpdateMany), so NaN points requested by -copy-nan clear the destination slot; the write happens at the reads' clock all the way down to UpdatePointsForArchive", 2)
	ruleWriterWritesAll(w, r, "C08.R9")
	if cp != nil {
		ruleWriteClock(w, r, "C08.R9", a, cp)
	}
}

func ruleC08R8(w *World, r *Report, a *cmdAnchors) {
	r.Rule("C08.R8", "no-path: the per-archive writer used by copy and sum-copy writes the differing points of every selected archive; it must not reach Whisper.propagate, whose writes to coarser archives are not covered by the diff computed beforehand", 1)
	if prop := fn(w.Lib, "Whisper.propagate"); prop != nil {
		if p := w.findPath(a.update, func(g *ssa.Function) bool { return g == prop }, w.inModule); p != nil {
			r.Violate("C08.R8", "cmd.updateFileDataWithPointsList:reaches-propagate", w.pos(a.update.Pos()), "copy writes its per-archive diffs through the propagating writer: coarser slots that already matched are overwritten by aggregates of the finer diffs: "+w.pathString(p))
		} else {
			r.OK("C08.R8", "cmd.updateFileDataWithPointsList:reaches-propagate", w.pos(a.update.Pos()), "the copy writer does not propagate")
		}
	} else {
		r.Undecided("C08.R8", "anchor:propagate", "-", "Whisper.propagate not found")
	}
}

func rulesC09(w *World, r *Report) {
	a := getCmdAnchors(w, r, "C09.R2")
	ruleValueTables(w, r, "C09.R1", true, true, false)
	ruleDiffPredicates(w, r, "C08.R6")
	if a == nil {
		return
	}
	r.Rule("C09.R2", "return classification: diffOneFile returns ErrDiffFound for a missing side and after listing, nil only under AllEmpty of source.Diff(destination), an error when layouts or windows disagree; the listing gets both headers and both sides of one Diff call", 10)
	ruleLayoutEquality(w, r, "C09.R2")
	ruleWindowEquality(w, r, "C09.R2")
	rulePointsListAllEmpty(w, r, "C09.R2")
	ruleListDiffElementwise(w, r, "C09.R2")
	ruleNotExistWrap(w, r, "C09.R4")
	r.Rule("C09.R3", "latched verdict: in execute the flag selecting the final ErrDiffFound is only ever set to the constant true, under errors.Is(err, ErrDiffFound)", 1)
	r.Rule("C09.R4", "derives-from: the source read is wrapped with WrapFileNotExistError(Source, ·) and the destination read with (Destination, ·)", 2)
	r.Rule("C09.R5", "return classification: main.run maps errors.Is(err, cmd.ErrDiffFound) to exit status 1, other errors to a status other than 0 and 1, success to 0", 3)
	r.Rule("C09.R6", "derives-from: each listed line carries (archive index, source time, source value, destination value, destination.Diff(source)) of the same slot", 1)
	f := need(w, r, "C09.R2", w.Cmd, "DiffCommand.diffOneFile")
	if f != nil {
		sk, msg := findSkeleton(w, a, f, a.readWhisperFile, false)
		if sk == nil {
			r.Violate("C09.R2", funcName(f)+":skeleton", w.pos(f.Pos()), msg)
		} else {
			ruleVerdict(w, r, "C09.R2", a, sk, true)
			// the two files compared are the two files named: the source is read at (SrcBase, srcRelPath), the
			// destination at (DestBase, destRelPath)
			{
				bad := ""
				n := 0
				eachInstr2 := func(g *ssa.Function) {
					for _, c := range callsIn(g) {
						if c.Common().StaticCallee() != a.readWhisperFile || len(c.Common().Args) < 2 {
							continue
						}
						n++
						ex := newExprCtx(w)
						base, rel := ex.expr(c.Common().Args[0]), ex.expr(c.Common().Args[1])
						switch base {
						case "p0.SrcBase":
							if rel != "p1" {
								bad = "the source is read at " + rel + ", not at the source path it was given"
							}
						case "p0.DestBase":
							if rel != "p2" {
								bad = "the destination is read at " + rel + " (" + w.instrPos(c) + "), not at the destination path it was given"
							}
						}
					}
				}
				eachInstr2(f)
				for _, g := range f.AnonFuncs {
					eachInstr2(g)
				}
				r.Check(bad == "" && n >= 2, "C09.R2", "DiffCommand.diffOneFile:reads-named-files", w.pos(f.Pos()), "source read at (SrcBase, srcRelPath), destination at (DestBase, destRelPath)", "diffOneFile: "+bad+": with -dest naming another file than -src the named destination is never looked at — a differing or missing destination is reported clean")
			}
			ruleOneClock(w, r, "C08.R3", a, sk)
			ruleUntilDefault(w, r, "C08.R3", f, []*ssa.Function{a.readWhisperFile, a.sumWhisperFile})
			ruleParseWindowCheck(w, r, "C08.R3", "DiffCommand")
			ruleClockUnmodified(w, r, "C08.R3", regexp.MustCompile(`^cmd\.DiffCommand\.`))
			ruleWrapSides(w, r, "C09.R4", a, sk)
		}
	}
	if ex := need(w, r, "C09.R3", w.Cmd, "DiffCommand.execute"); ex != nil {
		ruleLatchedVerdict(w, r, "C09.R3", ex)
		dof := fn(w.Cmd, "DiffCommand.diffOneFile")
		ruleLoopGoesOn(w, r, "C09.R3", "DiffCommand.execute:every-file", firstLoopCall(ex, dof), "with a glob pattern every matched file is compared, also after a difference was found")
		ruleDestPathDefault(w, r, "C09.R3", ex, dof)
		ruleGlobArgs(w, r, "C09.R3", ex, fn(w.Cmd, "globFiles"), "SrcRelPath")
		ruleGlobRel(w, r, "C09.R3")
		for _, c := range callsTo(ex, dof) {
			if inLoopWith(c.Block()) {
				r.Check(sameLeaves(c.Common().Args[1], c.Common().Args[2]), "C09.R3", "DiffCommand.execute:glob-same-path", w.instrPos(c), "same relative path on both sides", "glob mode compares a matched file with a different relative path")
			}
		}
	}
	ruleExitCode(w, r, "C09.R5")
	rulePrintDiff(w, r, "C09.R6", a)
	r.Rule("C09.R7", "the listing reaches its destination and a missing side is classified: finish() of the text-out writer runs on every path after the command body (also when the body returns the ErrDiffFound verdict); the not-exist protocol ends produce/recognise a bare os.ErrNotExist PathError; remote read functions pass errors on unwrapped", 9)
	ruleFinishAlways(w, r, "C09.R7")
	ruleNotExistProtocolEnds(w, r, "C09.R7")
	ruleRemoteErrorsUnwrapped(w, r, "C09.R7")
}

func rulesC11(w *World, r *Report) {
	a := getCmdAnchors(w, r, "C11.R1")
	if a == nil {
		return
	}
	r.Rule("C11.R1", "sibling skeleton: sumCopyItem satisfies copy's obligations (one clock, checks guard the write, source side of Diff — never DiffExcludeSrcNaN — to the destination handle at the reads' clock)", 12)
	ruleLayoutEquality(w, r, "C11.R1")
	ruleWindowEquality(w, r, "C11.R1")
	rulePointsListAllEmpty(w, r, "C11.R1")
	ruleListDiffElementwise(w, r, "C11.R1")
	ruleNotExistWrap(w, r, "C11.R3")
	r.Rule("C11.R2", "derives-from: sum-copy and sum-diff obtain the sum from sumWhisperFile(SrcBase, item, SrcPattern, ...)", 2)
	r.Rule("C11.R3", "return classification: sumDiffItem has diff's verdict structure and execute latches the verdict", 8)
	if sc := need(w, r, "C11.R1", w.Cmd, "SumCopyCommand.sumCopyItem"); sc != nil {
		copySkeletonRules(w, r, a, sc, a.sumWhisperFile, "C11.R1", "C11.R1", "C11.R1", "C11.R1", false)
		ruleClockUnmodified(w, r, "C11.R1", regexp.MustCompile(`^cmd\.Sum(Copy|Diff)Command\.`))
		ruleSumArgs(w, r, "C11.R2", a, sc)
	}
	if sd := need(w, r, "C11.R3", w.Cmd, "SumDiffCommand.sumDiffItem"); sd != nil {
		sk, msg := findSkeleton(w, a, sd, a.sumWhisperFile, false)
		if sk == nil {
			r.Violate("C11.R3", funcName(sd)+":skeleton", w.pos(sd.Pos()), msg)
		} else {
			ruleVerdict(w, r, "C11.R3", a, sk, true) // sum-diff makes the window/step agreement test of its siblings (D16)
			ruleOneClock(w, r, "C11.R3", a, sk)
			ruleUntilDefault(w, r, "C11.R3", sd, []*ssa.Function{a.readWhisperFile, a.sumWhisperFile})
			ruleParseWindowCheck(w, r, "C11.R3", "SumDiffCommand")
			ruleWrapSides(w, r, "C11.R3", a, sk)
		}
		ruleSumArgs(w, r, "C11.R2", a, sd)
	}
	if ex := need(w, r, "C11.R3", w.Cmd, "SumDiffCommand.execute"); ex != nil {
		ruleLatchedVerdict(w, r, "C11.R3", ex)
		ruleGlobArgs(w, r, "C11.R3", ex, fn(w.Cmd, "globItems"), "ItemPattern")
		ruleLoopGoesOn(w, r, "C11.R3", "SumDiffCommand.execute:every-item", firstLoopCall(ex, fn(w.Cmd, "SumDiffCommand.sumDiffItem")), "every matched item is compared, also after a difference was found")
		// the listing of deviating slots reaches the text output also when the verdict (an error) is returned
		ruleFinishAlways(w, r, "C11.R3")
	}
	if ex := fn(w.Cmd, "SumCopyCommand.execute"); ex != nil {
		ruleGlobArgs(w, r, "C11.R1", ex, fn(w.Cmd, "globItems"), "ItemPattern")
		ruleLoopGoesOn(w, r, "C11.R1", "SumCopyCommand.execute:every-item", firstLoopCall(ex, fn(w.Cmd, "SumCopyCommand.sumCopyItem")), "the destination of every matched item is written")
	}
	{
		var fs []*ssa.Function
		for f := range cmdReachableFrom(w, "SumCopyCommand", "SumDiffCommand") {
			fs = append(fs, f)
		}
		sort.Slice(fs, func(i, j int) bool { return funcName(fs[i]) < funcName(fs[j]) })
		ruleLoopFailureStops(w, r, "C11.R3", fs)
	}
	ruleC05R7(w, r, "C05.R7", 3, cmdReachableFrom(w, "SumCopyCommand", "SumDiffCommand"))
	ruleValueTables(w, r, "C10.R1", false, false, true)
	ruleC08R8(w, r, a)
	r.Rule("C11.R4", "sibling agreement: sum-copy writes the file sum-diff reads — both build the destination path from DestBase, itemToRelDir(item) and DestRelPath; the batch writer stores every point at the reads' clock", 3)
	ruleDestPathAgreement(w, r, "C11.R4", a)
	ruleWriterWritesAll(w, r, "C11.R4")
	if sc := fn(w.Cmd, "SumCopyCommand.sumCopyItem"); sc != nil {
		ruleWriteClock(w, r, "C11.R4", a, sc)
	}
}

// ruleSumArgs: sumWhisperFile gets the command's SrcBase and SrcPattern and the item.
func ruleSumArgs(w *World, r *Report, rule string, a *cmdAnchors, f *ssa.Function) {
	for _, c := range callsTo(f, a.sumWhisperFile) {
		ex := newExprCtx(w)
		args := c.Common().Args
		ok := strings.HasSuffix(ex.expr(args[0]), ".SrcBase") && strings.HasSuffix(ex.expr(args[2]), ".SrcPattern") && strings.Contains(ex.expr(args[1]), "p1")
		r.Check(ok, rule, funcName(f)+":sum-args", w.instrPos(c), "sum of (SrcBase, item, SrcPattern)", "the sum is not computed from the command's SrcBase/SrcPattern and the item ("+ex.expr(args[0])+", "+ex.expr(args[1])+", "+ex.expr(args[2])+")")
	}
}

// ruleWrapSides: C09.R4
func ruleWrapSides(w *World, r *Report, rule string, a *cmdAnchors, sk *itemSkeleton) {
	for _, side := range []struct {
		name string
		read *ssa.Call
		want int64
	}{{"source", sk.srcRead, 1}, {"destination", sk.destRead, 2}} {
		lit := side.read.Parent()
		key := funcName(sk.f) + ":wrap-" + side.name
		ok := false
		for _, ret := range returnsOf(lit) {
			for _, res := range ret.Results {
				c, isCall := res.(*ssa.Call)
				if !isCall || !calleeIs(c, a.wrapNotExist) {
					continue
				}
				k, isC := constInt(c.Common().Args[0])
				errLeaf := leavesOf(c.Common().Args[1])
				fromRead := false
				for _, l := range errLeaf {
					if cc, idx, isRes := callResult(l); isRes && cc == side.read && idx == 2 {
						fromRead = true
					}
				}
				if isC && k == side.want && fromRead {
					ok = true
				}
			}
		}
		r.Check(ok, rule, key, w.instrPos(side.read), "the "+side.name+" read's error is wrapped as "+side.name, "the error of the "+side.name+" read is not classified with WrapFileNotExistError("+strings.Title(side.name)+", err): a missing "+side.name+" would fail the command instead of counting as a difference")
	}
}

// ruleExitCode: C09.R5
func ruleExitCode(w *World, r *Report, rule string) {
	run := need(w, r, rule, w.Main, "run")
	if run == nil {
		return
	}
	var isCall *ssa.Call
	for _, c := range callsIn(run) {
		if cv, ok := c.(*ssa.Call); ok && isCallToPkgFunc(c, "errors", "Is") {
			if ci := classifyErr(cv.Common().Args[1]); ci.class == errSentinel && ci.sentinel == "cmd.ErrDiffFound" {
				isCall = cv
			}
		}
	}
	if isCall == nil {
		r.Violate(rule, "run:diff-found", w.pos(run.Pos()), "main.run does not test errors.Is(err, cmd.ErrDiffFound)")
		return
	}
	// regions
	var errTest, errRegion, okRegion *ssa.BasicBlock
	for _, b := range run.Blocks {
		x, nonNil, isNil, ok := nilTest(b)
		if ok && isErrorType(x.Type()) && (b == isCall.Block() || b.Dominates(isCall.Block())) {
			errTest, errRegion, okRegion = b, nonNil, isNil
		}
	}
	if errTest == nil {
		r.Violate(rule, "run:err-test", w.instrPos(isCall), "the subcommand error is not tested against nil")
		return
	}
	var isB *ssa.BasicBlock
	var isT *ssa.BasicBlock
	for _, b := range run.Blocks {
		if onT, _, ok := boolCallEdges(b, isCall); ok {
			isB, isT = b, onT
		}
	}
	n1, n2, n0 := 0, 0, 0
	for _, ret := range returnsOf(run) {
		k, isC := constInt(ret.Results[0])
		switch {
		case isB != nil && edgeDominates(isB, isT, ret.Block()):
			n1++
			r.Check(isC && k == 1, rule, "run:diff-found->1", w.instrPos(ret), "ErrDiffFound maps to exit status 1", fmt.Sprintf("ErrDiffFound maps to exit status %d, not 1", k))
		case edgeDominates(errTest, errRegion, ret.Block()):
			n2++
			r.Check(isC && k != 0 && k != 1, rule, "run:error->2", w.instrPos(ret), "other errors map to a distinct failure status", fmt.Sprintf("a failed command exits with status %d (must differ from success and from 'difference found')", k))
		case edgeDominates(errTest, okRegion, ret.Block()):
			n0++
			r.Check(isC && k == 0, rule, "run:success->0", w.instrPos(ret), "success maps to 0", fmt.Sprintf("success maps to exit status %d", k))
		}
	}
	if n1 == 0 || n2 == 0 || n0 == 0 {
		r.Undecided(rule, "run:returns", w.pos(run.Pos()), fmt.Sprintf("exit-code mapping not recognised (found %d/%d/%d returns for diff-found/error/success)", n1, n2, n0))
	}
}

// rulePrintDiff: C09.R6
func rulePrintDiff(w *World, r *Report, rule string, a *cmdAnchors) {
	f := a.printDiff
	var fp *ssa.Call
	for _, c := range callsIn(f) {
		if cv, ok := c.(*ssa.Call); ok && isCallToPkgFunc(c, "fmt", "Fprintf") {
			fp = cv
		}
	}
	if fp == nil {
		r.Violate(rule, "printDiff:line", w.pos(f.Pos()), "printDiff prints nothing")
		return
	}
	va := variadicArgs(fp.Common().Args[2])
	if len(va) != 5 {
		r.Violate(rule, "printDiff:line", w.instrPos(fp), fmt.Sprintf("a difference line must carry 5 values (archive, time, source value, destination value, destination-source), found %d", len(va)))
		return
	}
	ex := newExprCtx(w)
	var es []string
	for _, v := range va {
		es = append(es, ex.expr(v))
	}
	// p3 = srcPlDif, p4 = destPlDif ; indices i?, j? shared
	srcElem := strings.TrimSuffix(es[1], ".Time")
	okShape := strings.HasPrefix(srcElem, "p3[") && es[1] == srcElem+".Time" && es[2] == srcElem+".Value"
	dstElem := strings.TrimSuffix(es[3], ".Value")
	okShape = okShape && strings.HasPrefix(dstElem, "p4[") && es[3] == dstElem+".Value"
	// same indices on both sides
	okShape = okShape && strings.TrimPrefix(srcElem, "p3") == strings.TrimPrefix(dstElem, "p4")
	// first index is the archive index printed
	okShape = okShape && strings.HasPrefix(strings.TrimPrefix(srcElem, "p3"), "["+es[0]+"]")
	wantDiff := "whispertool.Value.Diff(" + dstElem + ".Value, " + srcElem + ".Value)"
	okDiff := es[4] == wantDiff
	r.Check(okShape && okDiff, rule, "printDiff:line", w.instrPos(fp), "line = (archive, src time, src value, dest value, dest.Diff(src)) of one slot",
		"the difference line does not carry (archive, source time, source value, destination value, destination.Diff(source)) of the same slot: got ["+strings.Join(es, "; ")+"]")
	// format verbs count
	if fs, ok := constString(fp.Common().Args[1]); ok {
		r.Check(strings.Count(fs, "%") == 5 && strings.HasSuffix(fs, "\n"), rule, "printDiff:format", w.instrPos(fp), "five verbs, one line per slot", "the format string does not print five values on one line: "+fmt.Sprintf("%q", fs))
	}
}

// ---------- T6 tables ----------

type valueAtoms struct{ nanV, nanU, eq, known bool }

// interpretAtoms maps the atoms of a leaf to (IsNaN v, IsNaN u, v==u); the
// returned masks tell which are determined.
func interpretValueAtoms(f *ssa.Function, leaf ddLeaf) (vals map[string]bool, ok bool, unknown string) {
	vals = map[string]bool{}
	for key, chosen := range leaf.atoms {
		v := leaf.atomVal[key]
		switch x := v.(type) {
		case *ssa.Call:
			sc := x.Common().StaticCallee()
			if sc != nil && sc.Name() == "IsNaN" {
				arg := stripConvert(x.Common().Args[0])
				switch arg {
				case ssa.Value(f.Params[0]):
					vals["nanV"] = chosen
					continue
				case ssa.Value(f.Params[1]):
					vals["nanU"] = chosen
					continue
				}
			}
		case *ssa.BinOp:
			a, b := stripConvert(x.X), stripConvert(x.Y)
			isVU := (a == ssa.Value(f.Params[0]) && b == ssa.Value(f.Params[1])) || (a == ssa.Value(f.Params[1]) && b == ssa.Value(f.Params[0]))
			if isVU && x.Op == token.EQL {
				vals["eq"] = chosen
				continue
			}
			if isVU && x.Op == token.NEQ {
				vals["eq"] = !chosen
				continue
			}
			if a == b && a == ssa.Value(f.Params[0]) && x.Op == token.NEQ {
				vals["nanV"] = chosen
				continue
			}
			if a == b && a == ssa.Value(f.Params[1]) && x.Op == token.NEQ {
				vals["nanU"] = chosen
				continue
			}
		}
		return nil, false, key
	}
	return vals, true, ""
}

// completions enumerates the consistent total assignments extending vals.
func valueCompletions(vals map[string]bool) []map[string]bool {
	var out []map[string]bool
	for m := 0; m < 8; m++ {
		c := map[string]bool{"nanV": m&1 != 0, "nanU": m&2 != 0, "eq": m&4 != 0}
		if (c["nanV"] || c["nanU"]) && c["eq"] {
			continue // NaN compares unequal to everything
		}
		okc := true
		for k, v := range vals {
			if c[k] != v {
				okc = false
			}
		}
		if okc {
			out = append(out, c)
		}
	}
	return out
}

func ruleValueTables(w *World, r *Report, rule string, equal, diff, add bool) {
	r.Rule(rule, "truth table (T6): the decision diagram of the Value method is enumerated over the atoms IsNaN(v), IsNaN(u), v==u; every consistent case must reach the expected leaf (boolean, parameter, NaN, or the arithmetic node with operands in order) — no float is computed", 2)
	isNaN := need(w, r, rule, w.Lib, "Value.IsNaN")
	if isNaN != nil {
		e := &ddEngine{w: w, env: map[ssa.Value]aval{}}
		e.run(isNaN)
		ok := e.err == nil && len(e.leaves) == 1 && len(e.leaves[0].results) == 1
		if ok {
			res := e.leaves[0].results[0]
			c, isCall := res.sym.(*ssa.Call)
			ok = res.k == kSym && isCall && isCallToPkgFunc(c, "math", "IsNaN") && stripConvert(c.Common().Args[0]) == ssa.Value(isNaN.Params[0])
		}
		r.Check(ok, rule, "Value.IsNaN", w.pos(isNaN.Pos()), "IsNaN(v) is math.IsNaN(float64(v))", "Value.IsNaN is not math.IsNaN of its receiver")
	}
	type spec struct {
		name string
		on   bool
		want func(c map[string]bool, f *ssa.Function, res aval) (bool, string)
	}
	specs := []spec{
		{"Value.Equal", equal, func(c map[string]bool, f *ssa.Function, res aval) (bool, string) {
			want := (c["nanV"] && c["nanU"]) || (!c["nanV"] && !c["nanU"] && c["eq"])
			return res.k == kBool && res.b == want, fmt.Sprintf("want %v", want)
		}},
		{"Value.Diff", diff, func(c map[string]bool, f *ssa.Function, res aval) (bool, string) {
			if c["nanV"] || c["nanU"] {
				return res.k == kFloat && math.IsNaN(res.f), "want NaN"
			}
			bo, ok := res.sym.(*ssa.BinOp)
			return res.k == kSym && ok && bo.Op == token.SUB && bo.X == ssa.Value(f.Params[0]) && bo.Y == ssa.Value(f.Params[1]), "want v - u"
		}},
		{"Value.Add", add, func(c map[string]bool, f *ssa.Function, res aval) (bool, string) {
			switch {
			case c["nanV"]:
				return res.k == kSym && res.sym == ssa.Value(f.Params[1]), "want u (v is NaN)"
			case c["nanU"]:
				return res.k == kSym && res.sym == ssa.Value(f.Params[0]), "want v (u is NaN)"
			}
			bo, ok := res.sym.(*ssa.BinOp)
			okOps := ok && bo.Op == token.ADD && ((bo.X == ssa.Value(f.Params[0]) && bo.Y == ssa.Value(f.Params[1])) || (bo.X == ssa.Value(f.Params[1]) && bo.Y == ssa.Value(f.Params[0])))
			return res.k == kSym && okOps, "want v + u"
		}},
	}
	for _, sp := range specs {
		if !sp.on {
			continue
		}
		f := need(w, r, rule, w.Lib, sp.name)
		if f == nil {
			continue
		}
		e := &ddEngine{w: w, env: map[ssa.Value]aval{}}
		e.run(f)
		if e.err != nil {
			r.Undecided(rule, sp.name, w.pos(f.Pos()), "decision diagram not enumerable: "+e.err.Error())
			continue
		}
		covered := map[string]bool{}
		bad := 0
		for _, leaf := range e.leaves {
			vals, ok, unk := interpretValueAtoms(f, leaf)
			if !ok {
				r.Undecided(rule, sp.name, w.pos(f.Pos()), "branches on something other than IsNaN(v), IsNaN(u), v==u: "+unk)
				bad++
				break
			}
			if leaf.ret == nil || len(leaf.results) != 1 {
				r.Violate(rule, sp.name, w.pos(f.Pos()), "a case does not return a value (panic or multiple results)")
				bad++
				continue
			}
			for _, c := range valueCompletions(vals) {
				ck := fmt.Sprintf("nanV=%v nanU=%v eq=%v", c["nanV"], c["nanU"], c["eq"])
				covered[ck] = true
				res := leaf.results[0]
				if res.k == kSym && res.sym != nil {
					// a boolean leaf that is itself one of the atoms (e.g. `return ... && v == u`)
					if av, ok, _ := interpretValueAtoms(f, ddLeaf{atoms: map[string]bool{"x": true}, atomVal: map[string]ssa.Value{"x": res.sym}}); ok && len(av) == 1 {
						for name, pol := range av {
							res = aval{k: kBool, b: c[name] == pol}
						}
					}
				}
				if okc, want := sp.want(c, f, res); !okc {
					bad++
					r.Violate(rule, sp.name+":"+ck, w.instrPos(leaf.ret), fmt.Sprintf("case (%s): returns %s, %s", ck, leaf.results[0], want))
				}
			}
		}
		if bad == 0 {
			r.OK(rule, sp.name, w.pos(f.Pos()), fmt.Sprintf("all %d consistent cases reach the expected leaf (%d diagram leaves)", len(covered), len(e.leaves)), sortedStrs(covered)...)
		}
	}
}

// ruleDiffPredicates: C08.R6 — inside DiffPoints / DiffPointsExcludeSrcNaN the
// slot is appended iff t!=t2 || !Equal(v,v2) [&& !IsNaN(v)].
func ruleDiffPredicates(w *World, r *Report, rule string) {
	r.Rule(rule, "truth table (T6) of the slot-inclusion predicate inside the loop of DiffPoints (t≠t2 ∨ ¬Equal(v,v2)) and DiffPointsExcludeSrcNaN (… ∧ ¬IsNaN(v)), v the receiver's value and v2 the argument's at the same index; both sides appended together; length mismatch returns all points", 2)
	ruleDiffLengthGuard(w, r, rule)
	for _, sp := range []struct {
		name    string
		exclNaN bool
	}{{"TimeSeries.DiffPoints", false}, {"TimeSeries.DiffPointsExcludeSrcNaN", true}} {
		f := need(w, r, rule, w.Lib, sp.name)
		if f == nil {
			continue
		}
		// the appends
		var appends []*ssa.Call
		for _, c := range callsIn(f) {
			if cv, ok := c.(*ssa.Call); ok {
				if b, ok := cv.Common().Value.(*ssa.Builtin); ok && b.Name() == "append" {
					appends = append(appends, cv)
				}
			}
		}
		if len(appends) != 2 || appends[0].Block() != appends[1].Block() {
			r.Violate(rule, sp.name+":appends", w.pos(f.Pos()), fmt.Sprintf("expected the source point and the destination point to be appended together in one block, found %d appends", len(appends)))
			continue
		}
		appBlock := appends[0].Block()
		// loop body entry: the block where the Equal call's inputs are computed = block containing the Equal call's dominator chain start.
		var eq *ssa.Call
		for _, c := range callsIn(f) {
			if cv, ok := c.(*ssa.Call); ok && cv.Common().StaticCallee() == fn(w.Lib, "Value.Equal") {
				eq = cv
			}
		}
		if eq == nil {
			r.Violate(rule, sp.name+":equal", w.pos(f.Pos()), "values are not compared with the NaN-aware Value.Equal")
			continue
		}
		// find the body entry: nearest dominator of appBlock that is a loop body head (successor of the loop header's If)
		body := eq.Block()
		for body.Idom() != nil && !isLoopHeader(body.Idom()) {
			body = body.Idom()
		}
		latchOrExit := func(b *ssa.BasicBlock) bool {
			return b == appBlock || (b != body && !body.Dominates(b)) || isLoopHeader(b)
		}
		e := &ddEngine{w: w, env: map[ssa.Value]aval{}, stop: latchOrExit}
		e.runFrom(body, body.Idom())
		if e.err != nil {
			r.Undecided(rule, sp.name, w.pos(f.Pos()), "loop body not enumerable: "+e.err.Error())
			continue
		}
		bad := 0
		cases := 0
		for _, leaf := range e.leaves {
			// interpret atoms: tNE (t != t2), eq (Equal(v,v2)), nan (IsNaN(v))
			at := map[string]bool{}
			okAtoms := true
			for key, chosen := range leaf.atoms {
				switch x := leaf.atomVal[key].(type) {
				case *ssa.BinOp:
					if x.Op == token.NEQ || x.Op == token.EQL {
						at["tNE"] = chosen == (x.Op == token.NEQ)
						continue
					}
				case *ssa.Call:
					if sc := x.Common().StaticCallee(); sc != nil {
						if sc.Name() == "Equal" {
							at["eq"] = chosen
							continue
						}
						if sc.Name() == "IsNaN" {
							at["nan"] = chosen
							continue
						}
					}
				}
				okAtoms = false
			}
			if !okAtoms {
				r.Undecided(rule, sp.name, w.pos(f.Pos()), "the inclusion test branches on something other than t!=t2, Equal(v,v2), IsNaN(v)")
				bad++
				break
			}
			included := leaf.stop == appBlock
			for m := 0; m < 8; m++ {
				c := map[string]bool{"tNE": m&1 != 0, "eq": m&2 != 0, "nan": m&4 != 0}
				if c["nan"] && !sp.exclNaN && false {
					continue
				}
				match := true
				for k, v := range at {
					if c[k] != v {
						match = false
					}
				}
				if !match {
					continue
				}
				cases++
				want := c["tNE"] || !c["eq"]
				if sp.exclNaN {
					want = want && !c["nan"]
				}
				if want != included {
					bad++
					r.Violate(rule, sp.name+fmt.Sprintf(":tNE=%v,eq=%v,nan=%v", c["tNE"], c["eq"], c["nan"]), w.instrPos(eq),
						fmt.Sprintf("slot with (t!=t2)=%v Equal=%v srcNaN=%v is %s; it must be %s", c["tNE"], c["eq"], c["nan"], inclStr(included), inclStr(want)))
				}
			}
		}
		// operands of Equal: receiver's value vs argument's value at the same index
		ex := newExprCtx(w)
		ea, eb := ex.expr(eq.Common().Args[0]), ex.expr(eq.Common().Args[1])
		okOps := strings.HasPrefix(ea, "p0.values[") && strings.HasPrefix(eb, "p1.values[") && ea[strings.Index(ea, "["):] == eb[strings.Index(eb, "["):]
		if !okOps {
			bad++
			r.Violate(rule, sp.name+":operands", w.instrPos(eq), "Equal does not compare the receiver's value with the argument's value at the same index: "+ea+" vs "+eb)
		}
		if sp.exclNaN {
			// IsNaN must be asked of the source (receiver) value
			for _, c := range callsIn(f) {
				if cv, ok := c.(*ssa.Call); ok && cv.Common().StaticCallee() == fn(w.Lib, "Value.IsNaN") {
					if e2 := newExprCtx(w).expr(cv.Common().Args[0]); !strings.HasPrefix(e2, "p0.values[") {
						bad++
						r.Violate(rule, sp.name+":nan-operand", w.instrPos(cv), "the NaN exclusion tests "+e2+", not the source value")
					}
				}
			}
		}
		// the appended points carry the slot time computed from the slot index (from + i*step), with the index of the compared values
		reTime := regexp.MustCompile(`^whispertool\.Timestamp\.Add\(p([01])\.fromTime, \(((?:i\d+|\(i\d+ \+ 1\))) \*:int32 p[01]\.step\)\)$`)
		nTimes := 0
		eachInstr(f, func(in ssa.Instruction) {
			st, ok := in.(*ssa.Store)
			if !ok {
				return
			}
			fa, ok := st.Addr.(*ssa.FieldAddr)
			if !ok {
				return
			}
			if _, fname, _ := fieldAddrOf(fa); fname != "Time" {
				return
			}
			// a Point literal (local complit, or an element of the argument array of append)
			switch x := fa.X.(type) {
			case *ssa.Alloc:
				if !strings.HasSuffix(x.Type().String(), "whispertool.Point") {
					return
				}
			case *ssa.IndexAddr:
				if al, ok := x.X.(*ssa.Alloc); !ok || (al.Comment != "varargs" && al.Comment != "slicelit") {
					return
				}
			default:
				return
			}
			nTimes++
			ex := newExprCtx(w)
			eqIdx := ""
			if m := regexp.MustCompile(`\[(.+)\]$`).FindStringSubmatch(ex.expr(eq.Common().Args[0])); m != nil {
				eqIdx = m[1]
			}
			ts := ex.expr(st.Val)
			m := reTime.FindStringSubmatch(ts)
			if m == nil || (eqIdx != "" && m[2] != eqIdx) {
				bad++
				r.Violate(rule, sp.name+":point-time", w.instrPos(st), "a reported point's time is "+ts+", not fromTime + i*step for the index i of the compared values: after a skipped slot the listed times drift from the slots they belong to")
			}
		})
		if nTimes < 2 {
			bad++
			r.Undecided(rule, sp.name+":point-time", w.pos(f.Pos()), fmt.Sprintf("expected the times of the two appended points, found %d", nTimes))
		}
		if bad == 0 {
			r.OK(rule, sp.name, w.instrPos(eq), fmt.Sprintf("%d atom cases reach the expected inclusion", cases))
		}
		// length mismatch -> all points
		okLen := false
		for _, ret := range returnsOf(f) {
			if len(ret.Results) == 2 {
				x0, x1 := newExprCtx(w).expr(ret.Results[0]), newExprCtx(w).expr(ret.Results[1])
				if strings.Contains(x0, "Points(p0)") && strings.Contains(x1, "Points(p1)") {
					okLen = true
				}
			}
		}
		r.Check(okLen, rule, sp.name+":len-mismatch", w.pos(f.Pos()), "a length mismatch returns all points of both series", "a length mismatch does not return (ts.Points(), ts2.Points())")
	}
}

func inclStr(b bool) string {
	if b {
		return "included"
	}
	return "skipped"
}

func isLoopHeader(b *ssa.BasicBlock) bool {
	for _, p := range b.Preds {
		if b.Dominates(p) {
			return true
		}
	}
	return false
}

// ---------- C10 ----------

func rulesC10(w *World, r *Report) {
	ruleValueTables(w, r, "C10.R1", false, false, true)
	a := getCmdAnchors(w, r, "C10.R2")
	if a == nil {
		return
	}
	f := a.sumWhisperFileLocal
	r.Rule("C10.R2", "guard-dominates: in sumWhisperFileLocal the layout loop (file 0 vs file i, i over 1..n-1) and the window/step loop, each with a failing edge, dominate sumTimeSeriesListList; all files are read with the same archive id/from/until/now", 7)
	ruleLayoutEquality(w, r, "C10.R2")
	ruleWindowEquality(w, r, "C10.R2")
	stll := fn(w.Cmd, "sumTimeSeriesListList")
	var sumCall *ssa.Call
	for _, c := range callsTo(f, stll) {
		sumCall = c
	}
	if sumCall == nil {
		r.Violate("C10.R2", "sumWhisperFileLocal:sum", w.pos(f.Pos()), "sumWhisperFileLocal does not call sumTimeSeriesListList")
	} else {
		for _, chk := range []struct {
			name string
			fnc  *ssa.Function
			get  *ssa.Function
		}{{"layout", a.ailEqual, a.hdrAIL}, {"window", a.allEqualTRS, nil}} {
			var call *ssa.Call
			for _, c := range callsTo(f, chk.fnc) {
				if c.Parent() == f {
					call = c
				}
			}
			key := "sumWhisperFileLocal:" + chk.name
			if call == nil {
				r.Violate("C10.R2", key, w.pos(f.Pos()), "no "+chk.name+" agreement check between the summed files")
				continue
			}
			ex := newExprCtx(w)
			x, y := ex.expr(call.Common().Args[0]), ex.expr(call.Common().Args[1])
			// one side indexes the per-file slice at 0, the other at the loop index starting at 1
			idxOf := func(s string) string {
				i := strings.LastIndex(s, "[")
				if i < 0 {
					return ""
				}
				return s[i:]
			}
			ix, iy := idxOf(strings.TrimSuffix(x, ")")), idxOf(strings.TrimSuffix(y, ")"))
			okIdx := (strings.HasPrefix(ix, "[0]") && strings.HasPrefix(iy, "[i")) || (strings.HasPrefix(iy, "[0]") && strings.HasPrefix(ix, "[i"))
			sameBase := strings.Replace(x, ix, "", 1) == strings.Replace(y, iy, "", 1)
			// ... or the other files are walked as the tail of the slice: B[0] against every element of B[1:]
			tail := false
			for _, xy := range [][2]string{{x, y}, {y, x}} {
				if m := reTailElem.FindStringSubmatch(xy[1]); m != nil && xy[0] == m[1]+"[0]"+m[2] {
					tail = true
				}
			}
			if tail {
				okIdx, sameBase = true, true
			}
			r.Check(okIdx && sameBase, "C10.R2", key+":pairs", w.instrPos(call), "compares file 0 with file i", "the "+chk.name+" check does not compare file 0 with every other file: "+x+" vs "+y)
			// loop index covers 1..len-1
			okLoop := false
			for _, arg := range call.Common().Args {
				for _, l := range indexPhis(arg) {
					if loopFromTo(l, 1) || (tail && loopFromTo(l, -1)) {
						okLoop = true
					}
				}
			}
			r.Check(okLoop, "C10.R2", key+":range", w.instrPos(call), "i runs from 1 to the number of files", "the "+chk.name+" loop does not run i from 1 over all files")
			if msg := guardDominates(w, call, true, sumCall, true); msg != "" {
				// inside a loop the passing edge leads back to the header; accept: failing edge fails, and the loop dominates the sum
				_, _ = msg, 0
				if !loopCheckDominates(w, call, sumCall) {
					r.Violate("C10.R2", key+":guards-sum", w.instrPos(call), msg)
					continue
				}
			}
			r.OK("C10.R2", key+":guards-sum", w.instrPos(call), "the summation is reached only after the "+chk.name+" loop completed; a mismatch fails")
		}
		// sum input is the per-file list slice; result returned with file 0's header
		r.Check(strings.Contains(newExprCtx(w).expr(sumCall.Common().Args[0]), "make("), "C10.R2", "sumWhisperFileLocal:sum-input", w.instrPos(sumCall), "sums the per-file series lists", "the summation input is not the per-file list")
	}
	// all files read with the same parameters: the goroutine's readWhisperFileLocal call takes the function's parameters
	for _, c := range callsTo(f, a.readWhisperFileLocal) {
		ex := newExprCtx(w)
		var es []string
		for _, x := range c.Common().Args[1:] {
			es = append(es, ex.expr(x))
		}
		r.Check(strings.Join(es, ",") == "p3,p4,p5,p6", "C10.R2", "sumWhisperFileLocal:one-clock", w.instrPos(c), "every file is read with the caller's archive id, from, until, now", "files are not all read with the caller's (archive, from, until, now): "+strings.Join(es, ","))
	}

	r.Rule("C10.R3", "return classification: where a glob matches nothing (sumWhisperFileLocal, globItemsLocal, globFilesLocal) the function returns an *os.PathError whose Err is os.ErrNotExist", 3)
	for _, name := range []string{"sumWhisperFileLocal", "globItemsLocal", "globFilesLocal"} {
		g := fn(w.Cmd, name)
		if g == nil {
			r.Undecided("C10.R3", name, "-", "function not found")
			continue
		}
		found := false
		for _, b := range g.Blocks {
			if len(b.Instrs) == 0 {
				continue
			}
			// len(matches) == 0, in any spelling
			lc, emptySucc, _, okE := lenEmptyEdge(b)
			if !okE {
				continue
			}
			iff := b.Instrs[len(b.Instrs)-1]
			if cc, idx, isRes := callResult(leavesOf(lc.Common().Args[0])[0]); !isRes || idx != 0 || !isCallToPkgFunc(cc, "path/filepath", "Glob") {
				continue
			}
			found = true
			okRet := true
			n := 0
			for _, ret := range returnsOf(g) {
				if !edgeDominates(b, emptySucc, ret.Block()) {
					continue
				}
				n++
				vals, _ := resultValues(ret, errResultIndex(g))
				for _, v := range vals {
					if ci := classifyErr(v); !ci.notExist {
						okRet = false
					}
				}
			}
			r.Check(okRet && n > 0, "C10.R3", name+":nothing-matched", w.instrPos(iff), "an empty match returns a not-exist *os.PathError", "a pattern that matches nothing is not reported as os.ErrNotExist")
		}
		if !found {
			r.Violate("C10.R3", name+":nothing-matched", w.pos(g.Pos()), "no `len(matches) == 0` test on the Glob result: an empty match is not reported as not-exist")
		}
	}

	r.Rule("C10.R4", "derives-from: every store into the accumulator sumValues[j] is file i's value at j (for i==0) or Value.Add(sumValues[j], file i's value at j); i ranges over all files, j over all slots; the result carries file 0's window and step", 3)
	sf := need(w, r, "C10.R4", w.Cmd, "sumTimeSeriesListForArchive")
	if sf != nil {
		var acc *ssa.MakeSlice
		eachInstr(sf, func(in ssa.Instruction) {
			if ms, ok := in.(*ssa.MakeSlice); ok {
				acc = ms
			}
		})
		if acc == nil {
			r.Undecided("C10.R4", "sumTimeSeriesListForArchive:acc", w.pos(sf.Pos()), "accumulator slice not found")
		} else {
			nSt := 0
			add := fn(w.Lib, "Value.Add")
			eachInstr(sf, func(in ssa.Instruction) {
				st, ok := in.(*ssa.Store)
				if !ok {
					return
				}
				ia, ok := st.Addr.(*ssa.IndexAddr)
				if !ok || ia.X != ssa.Value(acc) {
					return
				}
				nSt++
				ex := newExprCtx(w)
				dst := ex.expr(ia)
				val := ex.expr(st.Val)
				jIdx := dst[strings.LastIndex(dst, "["):]
				fileVal := func(s string) bool {
					return strings.HasPrefix(s, "p0[") && strings.HasSuffix(s, jIdx) && strings.Contains(s, "][p1].values")
				}
				// one store of a value chosen before it (v := file value; if i > 0 { v = acc.Add(v) }; acc[j] = v) counts
				// as one store per choice
				vals := []ssa.Value{st.Val}
				if ph, isPhi := st.Val.(*ssa.Phi); isPhi {
					vals = ph.Edges
				}
				okSt := true
				for _, v := range vals {
					if c, isCall := v.(*ssa.Call); isCall && c.Common().StaticCallee() == add {
						x, y := ex.expr(c.Common().Args[0]), ex.expr(c.Common().Args[1])
						if !((x == dst && fileVal(y)) || (y == dst && fileVal(x))) {
							okSt = false
						}
					} else if !fileVal(ex.expr(v)) {
						okSt = false
					}
				}
				r.Check(okSt, "C10.R4", "sumTimeSeriesListForArchive:store", w.instrPos(st), "accumulates with Value.Add or initialises from a file's value at the same slot", "the accumulator is updated with "+val+": not file i's value at slot j nor Value.Add(sumValues[j], that value) — NaN holes are no longer skipped symmetrically")
			})
			if nSt == 0 {
				r.Violate("C10.R4", "sumTimeSeriesListForArchive:store", w.pos(sf.Pos()), "nothing is stored into the accumulator")
			}
			// which file gets which store: file 0 initialises (or is copied in before the loop), every later file is added
			{
				peeled0 := false
				eachInstr(sf, func(in ssa.Instruction) {
					if c, ok := in.(*ssa.Call); ok && isBuiltin(c, "copy") && len(c.Common().Args) == 2 {
						ex := newExprCtx(w)
						if ex.expr(c.Common().Args[0]) == ex.expr(acc) && ex.expr(c.Common().Args[1]) == "p0[0][p1].values" {
							peeled0 = true
						}
					}
				})
				// signs of (file index - 0) under which the store runs, from the nearest test of the file index above it
				fileSigns := func(b *ssa.BasicBlock, via *ssa.BasicBlock) (map[int]bool, bool) {
					signs := map[int]bool{0: true, 1: true}
					for i := 0; i < 6 && (via != nil || len(b.Preds) == 1); i++ {
						var p *ssa.BasicBlock
						if via != nil {
							// the edge via -> b is given (a phi edge)
							p, via = via, nil
						} else {
							p = b.Preds[0]
						}
						if iff, ok := p.Instrs[len(p.Instrs)-1].(*ssa.If); ok {
							cond, neg := stripNot(iff.Cond)
							if bo, ok := cond.(*ssa.BinOp); ok && isCmp(bo.Op) {
								onTrue := (b == p.Succs[0]) != neg
								flip := 0
								isFileIdx := func(x ssa.Value) bool {
									if _, isConst := x.(*ssa.Const); isConst || x.Referrers() == nil {
										return false
									}
									// the index applied to the list of files
									used := false
									for _, ref := range *x.Referrers() {
										switch ia := ref.(type) {
										case *ssa.IndexAddr:
											used = used || stripChangeType(ia.X) == ssa.Value(sf.Params[0])
										case *ssa.Index:
											used = used || stripChangeType(ia.X) == ssa.Value(sf.Params[0])
										}
									}
									return used
								}
								isZero := func(x ssa.Value) bool { k, ok := constInt(x); return ok && k == 0 }
								switch {
								case isFileIdx(bo.X) && isZero(bo.Y):
									flip = 1
								case isFileIdx(bo.Y) && isZero(bo.X):
									flip = -1
								}
								if flip != 0 {
									for sg := 0; sg <= 1; sg++ {
										if signOK(bo.Op, sg*flip) != onTrue {
											delete(signs, sg)
										}
									}
									return signs, true
								}
							}
						}
						b = p
					}
					return signs, false
				}
				var initOK, addOK bool
				bad := ""
				eachInstr(sf, func(in ssa.Instruction) {
					st, ok := in.(*ssa.Store)
					if !ok {
						return
					}
					ia, ok := st.Addr.(*ssa.IndexAddr)
					if !ok || ia.X != ssa.Value(acc) {
						return
					}
					type choice struct {
						v        ssa.Value
						blk, via *ssa.BasicBlock
					}
					choices := []choice{{st.Val, st.Block(), nil}}
					if ph, isPhi := st.Val.(*ssa.Phi); isPhi {
						choices = nil
						for i, e := range ph.Edges {
							choices = append(choices, choice{e, ph.Block(), ph.Block().Preds[i]})
						}
					}
					for _, ch := range choices {
						signs, tested := fileSigns(ch.blk, ch.via)
						if c, isCall := ch.v.(*ssa.Call); isCall && c.Common().StaticCallee() == add {
							switch {
							case tested && !signs[0]:
								addOK = true
							case !tested && peeled0:
								addOK = true
							default:
								bad = "file 0 is added onto the zero-valued accumulator (an all-NaN slot sums to 0), or later files are not added"
							}
						} else {
							switch {
							case tested && !signs[1]:
								initOK = true
							default:
								bad = "the accumulator is overwritten by files other than the first"
							}
						}
					}
				})
				if bad == "" && !(addOK && (initOK || peeled0)) {
					bad = "the accumulator is not both initialised from the first file and added to for every later file"
				}
				r.Check(bad == "", "C10.R4", "sumTimeSeriesListForArchive:first-then-add", w.pos(sf.Pos()), "file 0 initialises the accumulator, files 1.. are added with Value.Add", "sumTimeSeriesListForArchive: "+bad)
			}
			// loops: range over all files and all slots
			full := 0
			// the first file may be peeled off: the accumulator is then initialised by copy(acc, file 0's values)
			peeled := false
			eachInstr(sf, func(in ssa.Instruction) {
				if c, ok := in.(*ssa.Call); ok && isBuiltin(c, "copy") && len(c.Common().Args) == 2 {
					ex := newExprCtx(w)
					if ex.expr(c.Common().Args[0]) == ex.expr(acc) && ex.expr(c.Common().Args[1]) == "p0[0][p1].values" {
						peeled = true
					}
				}
			})
			eachInstr(sf, func(in ssa.Instruction) {
				if ph, ok := in.(*ssa.Phi); ok && isIntType(ph.Type()) && isLoopHeaderPhi(ph) {
					if loopFromTo(ph, -1) || loopFromTo(ph, 0) || (peeled && loopFromTo(ph, 1)) {
						full++
					}
				}
			})
			r.Check(full >= 2, "C10.R4", "sumTimeSeriesListForArchive:loops", w.pos(sf.Pos()), "both loops start at the first element and step by one", "the file/slot loops do not cover every file and every slot from the first")
			// result: NewTimeSeries(ts0.FromTime(), ts0.UntilTime(), ts0.Step(), sumValues)
			for _, c := range callsTo(sf, fn(w.Lib, "NewTimeSeries")) {
				ex := newExprCtx(w)
				as := c.Common().Args
				okNT := ex.expr(as[0]) == "p0[0][p1].fromTime" && ex.expr(as[1]) == "p0[0][p1].untilTime" &&
					ex.expr(as[2]) == "p0[0][p1].step" && as[3] == ssa.Value(acc)
				r.Check(okNT, "C10.R4", "sumTimeSeriesListForArchive:result", w.instrPos(c), "the sum carries file 0's window/step and the accumulator", "the summed series does not carry file 0's (from, until, step) and the accumulated values")
			}
		}
	}
	// what is read is what the glob matched: readWhisperFileLocal is given an element of the match list, never the pattern
	if sl := fn(w.Cmd, "sumWhisperFileLocal"); sl != nil {
		rl := fn(w.Cmd, "readWhisperFileLocal")
		bad := ""
		n := 0
		check := func(g *ssa.Function) {
			for _, c := range callsTo(g, rl) {
				n++
				a := newExprCtx(w).expr(c.Common().Args[0])
				if !(strings.Contains(a, "path/filepath.Glob(") && strings.Contains(a, ")#0[")) && bad == "" {
					bad = "readWhisperFileLocal is given " + shortExpr(a) + " at " + w.instrPos(c) + ", not a name from the match list"
				}
			}
		}
		check(sl)
		for _, g := range sl.AnonFuncs {
			check(g)
		}
		if n > 0 {
			r.Check(bad == "", "C10.R2", "sumWhisperFileLocal:reads-matched-files", w.pos(sl.Pos()), "each file read is an element of filepath.Glob's result", "sumWhisperFileLocal: "+bad+": a pattern with glob characters that matches one file is opened as a file name and reported as not existing")
		}
	}
	// every matched file gets a worker and a slot of its own: the loop that starts the readers runs over the very list
	// whose length sizes the header and series lists (reading a sub-list with indexes of its own lets later batches
	// overwrite the slots of the first and leaves the rest empty)
	if sl := fn(w.Cmd, "sumWhisperFileLocal"); sl != nil {
		// (by canonical expression: a list captured by a closure is a variable loaded afresh at each use)
		sizedBy := map[string]bool{}
		eachInstr(sl, func(in ssa.Instruction) {
			if mk, ok := in.(*ssa.MakeSlice); ok {
				if lc, isC := mk.Len.(*ssa.Call); isC {
					if bi, isB := lc.Common().Value.(*ssa.Builtin); isB && bi.Name() == "len" {
						sizedBy[newExprCtx(w).expr(lc.Common().Args[0])] = true
					}
				}
			}
		})
		bad := ""
		n := 0
		for _, c := range callsIn(sl) {
			if !isMethodCall(c, "golang.org/x/sync/errgroup", "Group", "Go") || !inLoopWith(c.Block()) {
				continue
			}
			n++
			// the innermost loop around the Go call: its bound
			var header *ssa.BasicBlock
			for b := c.Block(); b != nil; b = b.Idom() {
				if isLoopHeader(b) {
					header = b
					break
				}
			}
			okB := false
			if header != nil && len(header.Instrs) > 0 {
				if iff, isIf := header.Instrs[len(header.Instrs)-1].(*ssa.If); isIf {
					if bo, isBo := iff.Cond.(*ssa.BinOp); isBo {
						for _, side := range []ssa.Value{bo.X, bo.Y} {
							if lc, isC := side.(*ssa.Call); isC {
								if bi, isB := lc.Common().Value.(*ssa.Builtin); isB && bi.Name() == "len" && sizedBy[newExprCtx(w).expr(lc.Common().Args[0])] {
									okB = true
								}
							}
						}
					}
				}
			}
			if !okB {
				bad = "the loop that starts the readers (" + w.instrPos(c) + ") does not run over the list of matched files itself"
			}
		}
		if n > 0 {
			r.Check(bad == "", "C10.R2", "sumWhisperFileLocal:workers-cover-all-files", w.pos(sl.Pos()), "one reader per matched file, indexed like the result lists", "sumWhisperFileLocal: "+bad+": slots of the header and series lists stay empty (a nil header is dereferenced) or are overwritten")
		}
	}
	// the list of sums is indexed by archive id, like the lists it is built from
	if sll := fn(w.Cmd, "sumTimeSeriesListList"); sll != nil && sf != nil {
		bad := ""
		n := 0
		for _, c := range callsTo(sll, sf) {
			cv := c
			if len(c.Common().Args) != 2 {
				continue
			}
			n++
			okSt := false
			for _, ref := range *cv.Referrers() {
				st, isSt := ref.(*ssa.Store)
				if !isSt || st.Val != ssa.Value(cv) {
					continue
				}
				ia, isIA := st.Addr.(*ssa.IndexAddr)
				if !isIA || ia.Index != c.Common().Args[1] {
					continue
				}
				if mk, isMk := ia.X.(*ssa.MakeSlice); isMk && newExprCtx(w).expr(mk.Len) == "len(p0[0])" {
					okSt = true
				}
			}
			if !okSt && bad == "" {
				bad = "the sum of archive k computed at " + w.instrPos(c) + " is not stored at index k of a list as long as the files' lists"
			}
		}
		r.Check(bad == "" && n > 0, "C10.R4", "sumTimeSeriesListList:indexed-by-archive", w.pos(sll.Pos()), "result[k] = sum over files of archive k, for a list of len(files[0]) entries", "sumTimeSeriesListList: "+bad+": every consumer reads the index as the archive id, so sums appear under another archive (or the handler indexes past the list)")
	}
	r.Rule("C10.R6", "derives-from: the sum command reads sumWhisperFile(SrcBase, item, SrcPattern, ArchiveID, From, until, now) for every item of globItems(SrcBase, ItemPattern), until being Until or (when 0) the clock reading, and prints the header and the PointsList of exactly what it read", 3)
	if se := need(w, r, "C10.R6", w.Cmd, "SumCommand.execute"); se != nil {
		ex := newExprCtx(w)
		gi := callsTo(se, fn(w.Cmd, "globItems"))
		okG := len(gi) == 1 && ex.expr(gi[0].Common().Args[0]) == "p0.SrcBase" && ex.expr(gi[0].Common().Args[1]) == "p0.ItemPattern"
		pos := w.pos(se.Pos())
		r.Check(okG, "C10.R6", "SumCommand.execute:items", pos, "items come from globItems(SrcBase, ItemPattern)", "the items summed are not globItems(c.SrcBase, c.ItemPattern)")
		sw := callsTo(se, a.sumWhisperFile)
		okS := len(sw) == 1
		got := ""
		if okS {
			as := sw[0].Common().Args
			var es []string
			for _, x := range as {
				es = append(es, ex.expr(x))
			}
			got = strings.Join(es, ", ")
			okS = len(as) == 7 && es[0] == "p0.SrcBase" && strings.HasPrefix(es[1], "cmd.globItems(p0.SrcBase, p0.ItemPattern)#0[") && es[2] == "p0.SrcPattern" && es[3] == "p0.ArchiveID" && es[4] == "p0.From" &&
				es[6] == "whispertool.TimestampFromStdTime(time.Now())"
		}
		r.Check(okS, "C10.R6", "SumCommand.execute:sum-args", pos, "sumWhisperFile(SrcBase, item, SrcPattern, ArchiveID, From, until, now) per item", "the sum is not computed from the command's base, item, pattern, archive selection and From: sumWhisperFile("+got+")")
		ruleLoopGoesOn(w, r, "C10.R6", "SumCommand.execute:every-item", firstLoopCall(se, a.sumWhisperFile), "every matched item is summed and printed")
		if okS {
			ruleUntilDefault(w, r, "C10.R6", se, []*ssa.Function{a.sumWhisperFile})
			ruleClockUnmodified(w, r, "C10.R6", regexp.MustCompile(`^cmd\.SumCommand\.`))
			ruleParseWindowCheck(w, r, "C10.R6", "SumCommand")
			pf := callsTo(se, fn(w.Cmd, "printFileData"))
			okP := len(pf) == 1
			if okP {
				as := pf[0].Common().Args
				h, isH := as[1].(*ssa.Extract)
				okP = isH && h.Tuple == ssa.Value(sw[0]) && h.Index == 0 && ex.expr(as[3]) == "p0.ShowHeader"
				if pl, isCall := as[2].(*ssa.Call); okP && isCall && calleeIs(pl, fn(w.Cmd, "TimeSeriesList.PointsList")) {
					t, isT := pl.Common().Args[0].(*ssa.Extract)
					okP = isT && t.Tuple == ssa.Value(sw[0]) && t.Index == 1
				} else {
					okP = false
				}
			}
			r.Check(okP, "C10.R6", "SumCommand.execute:prints-sum", pos, "prints (header, PointsList of the summed series) of the read", "sum does not print the header and the PointsList of exactly what sumWhisperFile returned")
		}
	}
	ruleGoroutines(w, r, "C17.R3")
	r.Rule("C10.R5", "a pattern that matches nothing stays not-existing through a server: the not-exist protocol ends are intact and remote functions pass errors on unwrapped", 9)
	ruleNotExistProtocolEnds(w, r, "C10.R5")
	ruleRemoteErrorsUnwrapped(w, r, "C10.R5")
}

// indexPhis returns integer phis used as slice indices inside v's expression.
// reTailElem: an element of the tail B[1:] of a slice, indexed by a loop counter.
var reTailElem = regexp.MustCompile(`^(.*)\[1:\]\[(?:\(i\d+ \+ 1\)|i\d+)\](.*)$`)

func indexPhis(v ssa.Value) []*ssa.Phi {
	var out []*ssa.Phi
	seen := map[ssa.Value]bool{}
	var rec func(v ssa.Value, d int)
	rec = func(v ssa.Value, d int) {
		if v == nil || seen[v] || d > 10 {
			return
		}
		seen[v] = true
		switch x := v.(type) {
		case *ssa.IndexAddr:
			if ph, ok := x.Index.(*ssa.Phi); ok {
				out = append(out, ph)
			}
			// the index of a range loop is counter+1
			if bo, ok := x.Index.(*ssa.BinOp); ok && bo.Op == token.ADD {
				if ph, ok := bo.X.(*ssa.Phi); ok {
					if k, isK := constInt(bo.Y); isK && k == 1 {
						out = append(out, ph)
					}
				}
			}
			rec(x.X, d+1)
		case *ssa.UnOp:
			rec(x.X, d+1)
		case *ssa.Call:
			for _, a := range x.Common().Args {
				rec(a, d+1)
			}
		case *ssa.FieldAddr:
			rec(x.X, d+1)
		}
	}
	rec(v, 0)
	return out
}

// loopFromTo: phi is a loop counter starting at `from` (or at 0 / -1+1 for
// range loops when from == -1) and incremented by one.
func loopFromTo(ph *ssa.Phi, from int64) bool {
	hasInit, hasInc := false, false
	for _, e := range ph.Edges {
		if k, ok := constInt(e); ok {
			if from >= 0 && k == from {
				hasInit = true
			}
			if from < 0 && (k == 0 || k == -1) {
				hasInit = true
			}
			continue
		}
		if bo, ok := e.(*ssa.BinOp); ok && bo.Op == token.ADD && bo.X == ssa.Value(ph) {
			if k, ok := constInt(bo.Y); ok && k == 1 {
				hasInc = true
			}
		}
	}
	return hasInit && hasInc && !loopCondInverted(ph)
}

// loopCondInverted: the header of ph's loop tests the counter (or counter+1, the form of range loops) against a
// bound, and the edge into the loop body is not the one on which the counter is below the bound (`i > n`, `i >= n`):
// the loop runs zero times or off the end instead of over the elements.
func loopCondInverted(ph *ssa.Phi) bool {
	h := ph.Block()
	if len(h.Instrs) == 0 || len(h.Succs) != 2 {
		return false
	}
	iff, ok := h.Instrs[len(h.Instrs)-1].(*ssa.If)
	if !ok {
		return false
	}
	cond, neg := stripNot(iff.Cond)
	bo, ok := cond.(*ssa.BinOp)
	if !ok || !isCmp(bo.Op) {
		return false
	}
	isCtr := func(v ssa.Value) bool {
		if v == ssa.Value(ph) {
			return true
		}
		if b2, ok := v.(*ssa.BinOp); ok && b2.Op == token.ADD && b2.X == ssa.Value(ph) {
			if k, ok := constInt(b2.Y); ok && k == 1 {
				return true
			}
		}
		return false
	}
	flip := 0
	switch {
	case isCtr(bo.X):
		flip = 1
	case isCtr(bo.Y):
		flip = -1
	default:
		return false
	}
	// which successor is the body: the one from which the header is reachable again
	body := -1
	for i, s := range h.Succs {
		// in the natural loop of h: a back edge's source is reachable from s without passing through h
		for _, p := range h.Preds {
			if h.Dominates(p) && (s == p || blockReachesAvoiding(s, p, h)) {
				body = i
			}
		}
	}
	if body < 0 {
		return false
	}
	onTrue := (body == 0) != neg
	for sg := 0; sg <= 1; sg++ { // counter == bound, counter > bound
		if signOK(bo.Op, sg*flip) == onTrue {
			// the body is entered with the counter at or above the bound; fine only for `i <= last` forms, which
			// compare with len-1 — not distinguished here: equality alone is tolerated, above is not
			if sg == 1 {
				return true
			}
		}
	}
	// the body must be entered when the counter is below the bound
	return signOK(bo.Op, -1*flip) != onTrue
}

func blockReaches(from, to *ssa.BasicBlock) bool {
	seen := map[*ssa.BasicBlock]bool{}
	var walk func(b *ssa.BasicBlock) bool
	walk = func(b *ssa.BasicBlock) bool {
		if b == to {
			return true
		}
		if seen[b] {
			return false
		}
		seen[b] = true
		for _, s := range b.Succs {
			if walk(s) {
				return true
			}
		}
		return false
	}
	return walk(from)
}

// loopCheckDominates: check is inside a loop whose exit dominates the action
// and whose failing edge (check false) reaches only failure returns.
func loopCheckDominates(w *World, check *ssa.Call, action ssa.Instruction) bool {
	f := check.Parent()
	for _, b := range f.Blocks {
		_, onF, ok := boolCallEdges(b, check)
		if !ok {
			continue
		}
		if p, _ := findBypass(pathQuery{fn: f, startBlock: onF, passes: func(ssa.Instruction) bool { return false }, exit: maySucceed}); p != nil {
			return false
		}
		// the loop header dominates the action, and the check's block is in a loop
		hdr := check.Block()
		for hdr != nil && !isLoopHeader(hdr) {
			hdr = hdr.Idom()
		}
		return hdr != nil && hdr.Dominates(action.Block()) && !check.Block().Dominates(action.Block())
	}
	return false
}

var _ = sort.Strings

// ruleWriterWritesAll: archiveUpdateMany's write loop has no extra guards (shared with C06.R6).
func ruleWriterWritesAll(w *World, r *Report, rule string) {
	if strings.HasPrefix(rule, "C08.") || strings.HasPrefix(rule, "C11.") {
		ruleWriteOrderFinestFirst(w, r, rule)
	}
	au := fn(w.Lib, "Whisper.archiveUpdateMany")
	put := fn(w.Lib, "Whisper.putPointAt")
	if au == nil || put == nil {
		r.Undecided(rule, "archiveUpdateMany", "-", "not found")
		return
	}
	n := 0
	for _, c := range callsTo(au, put) {
		n++
		gs := blockGuards(w, c.Block())
		r.Check(len(gs) == 0 && inLoopWith(c.Block()), rule, "archiveUpdateMany:writes-every-point", w.instrPos(c), "every aligned point is written", "archiveUpdateMany skips points unless "+strings.Join(gs, " && ")+": the command reports them as copied but the destination keeps its old value (e.g. NaN points of -copy-nan are never stored)")
	}
	if n == 0 {
		r.Violate(rule, "archiveUpdateMany:writes-every-point", w.pos(au.Pos()), "archiveUpdateMany writes nothing")
	}
	// the point handed to putPointAt is the aligned point itself, and putPointAt encodes the point it is handed:
	// no value-dependent replacement on the way (a NaN "stored as an empty slot" wipes the base interval when it
	// lands on the archive's first slot)
	for _, c := range callsTo(au, put) {
		bad := ""
		for _, l := range leavesOf(c.Common().Args[1]) {
			s := newExprCtx(w).expr(l)
			if !strings.Contains(s, "alignPoints(") {
				bad = s
			}
		}
		// a local copy of the element that is overwritten on some path (p = Point{}) — zero stores are not
		// origins for leavesOf, so they are looked for here
		if u, ok := c.Common().Args[1].(*ssa.UnOp); ok {
			if al, ok := u.X.(*ssa.Alloc); ok {
				for _, st := range storesTo(al) {
					if !strings.Contains(newExprCtx(w).expr(st.Val), "alignPoints(") {
						bad = newExprCtx(w).expr(st.Val)
					}
				}
			}
		}
		r.Check(bad == "", rule, "archiveUpdateMany:writes-aligned-point", w.instrPos(c), "the point written is an element of alignPoints(batch)", "archiveUpdateMany writes "+shortExpr(bad)+" in place of an aligned point of the batch: the value stored depends on something other than the point given")
	}
	// the coarser levels are recomputed for exactly the points that were written: propagateChain gets the aligned batch
	// itself, not a selection of it
	if pc := fn(w.Lib, "Whisper.propagateChain"); pc != nil {
		for _, c := range callsTo(au, pc) {
			if len(c.Common().Args) < 3 {
				continue
			}
			got := newExprCtx(w).expr(c.Common().Args[2])
			okP := regexp.MustCompile(`^whispertool\.ArchiveInfo\.alignPoints\([^()]*\)$`).MatchString(got)
			r.Check(okP, rule, "archiveUpdateMany:propagates-what-it-wrote", w.instrPos(c), "propagateChain receives alignPoints(batch), the points just written", "archiveUpdateMany hands "+shortExpr(got)+" to propagateChain instead of the aligned points it has just written: a point that was stored but is left out here never reaches the coarser archives")
		}
	}
	{
		bad := ""
		var enc *ssa.Call
		for _, c := range callsTo(put, fn(w.Lib, "Point.AppendTo")) {
			enc = c
		}
		if enc == nil {
			bad = "does not encode a point with Point.AppendTo"
		} else {
			recv := enc.Common().Args[0]
			if u, ok := recv.(*ssa.UnOp); ok {
				recv = u.X
			}
			switch x := recv.(type) {
			case *ssa.Alloc:
				nSt := 0
				for _, st := range storesTo(x) {
					nSt++
					if st.Val != ssa.Value(put.Params[1]) {
						bad = "encodes " + newExprCtx(w).expr(st.Val) + " instead of the point it was given"
					}
				}
				if nSt != 1 && bad == "" {
					bad = "replaces the point it was given on some path before encoding it"
				}
			case *ssa.Parameter:
				if x != put.Params[1] {
					bad = "encodes something other than the point it was given"
				}
			default:
				bad = "encodes " + newExprCtx(w).expr(recv) + " instead of the point it was given"
			}
		}
		r.Check(bad == "", rule, "putPointAt:writes-its-point", w.pos(put.Pos()), "putPointAt encodes exactly the point it is given", "putPointAt "+bad+": what reaches the file is not what the writer was asked to store (a NaN turned into an empty point clears the slot's time — on slot 0 that is the archive's base interval)")
	}
	// what is aligned and written is the batch it was handed, unfiltered
	for _, c := range callsTo(au, fn(w.Lib, "ArchiveInfo.alignPoints")) {
		e := newExprCtx(w).expr(c.Common().Args[1])
		r.Check(e == "p1", rule, "archiveUpdateMany:aligns-whole-batch", w.instrPos(c), "aligns the batch it was given", "archiveUpdateMany aligns "+e+" instead of the batch it was given: points are dropped silently before they are written (the partition by age already happened in extractPoints)")
	}
	// the batch entry point hands the whole batch on: what extractPoints partitions is the parameter itself (sorted in
	// place) or what the previous archive left, never a filtered copy
	if upm, ex := fn(w.Lib, "Whisper.UpdatePointsForArchive"), fn(w.Lib, "extractPoints"); upm != nil && ex != nil {
		for _, c := range callsTo(upm, ex) {
			bad := ""
			for _, l := range leavesOf(c.Common().Args[0]) {
				switch x := stripChangeType(l).(type) {
				case *ssa.Parameter:
					if x != upm.Params[1] {
						bad = newExprCtx(w).expr(l)
					}
				case *ssa.Extract:
					if cc, ok := x.Tuple.(*ssa.Call); !ok || cc.Common().StaticCallee() != ex || x.Index != 1 {
						bad = newExprCtx(w).expr(l)
					}
				case *ssa.Const:
				default:
					bad = newExprCtx(w).expr(l)
				}
			}
			r.Check(bad == "", rule, "UpdatePointsForArchive:whole-batch", w.instrPos(c), "the whole batch is partitioned", "UpdatePointsForArchive partitions "+shortExpr(bad)+" instead of the batch it was given: points are removed before they are routed to an archive (a NaN written by copy -copy-nan or sum-copy must clear the slot)")
		}
	}
}

// ruleWriteClock: the now reaching UpdatePointsForArchive below the item function is the reads' now.
func ruleWriteClock(w *World, r *Report, rule string, a *cmdAnchors, f *ssa.Function) {
	upa := fn(w.Lib, "Whisper.UpdatePointsForArchive")
	var srcRead *ssa.Call
	for _, c := range callsTo(f, a.readWhisperFile) {
		srcRead = c
	}
	for _, c := range callsTo(f, a.sumWhisperFile) {
		srcRead = c
	}
	if upa == nil || srcRead == nil {
		r.Undecided(rule, funcName(f)+":write-clock", "-", "anchors not found")
		return
	}
	found := w.findCallsBelow(f, func(c ssa.CallInstruction) bool { return c.Common().StaticCallee() == upa }, 2)
	if len(found) == 0 {
		r.Violate(rule, funcName(f)+":write-clock", w.pos(f.Pos()), "no UpdatePointsForArchive below the item function")
		return
	}
	sa := srcRead.Common().Args
	for _, fc := range found {
		now := originThroughChain(fc.call.Common().Args[3], fc.chain)
		r.Check(sameLeaves(now, sa[len(sa)-1]), rule, funcName(f)+":write-clock", w.instrPos(fc.call), "UpdatePointsForArchive runs at the clock value used for the reads", "UpdatePointsForArchive is called with now = "+newExprCtx(w).expr(now)+" instead of the clock value both files were read at: points near the retention edge are dropped at write time although they were diffed as in range")
	}
}

// ruleDestPathAgreement: C11.R4
func ruleDestPathAgreement(w *World, r *Report, rule string, a *cmdAnchors) {
	sc := fn(w.Cmd, "SumCopyCommand.sumCopyItem")
	sd := fn(w.Cmd, "SumDiffCommand.sumDiffItem")
	if sc == nil || sd == nil {
		r.Undecided(rule, "dest-path", "-", "not found")
		return
	}
	var cp, dp string
	for _, c := range callsTo(sc, a.openOrCreate) {
		cp = newExprCtx(w).expr(c.Common().Args[0])
	}
	for _, c := range callsTo(sd, a.readWhisperFile) {
		e := newExprCtx(w)
		if strings.Contains(e.expr(c.Common().Args[0]), ".DestBase") {
			dp = e.expr(c.Common().Args[0]) + " + " + e.expr(c.Common().Args[1])
		}
	}
	okC := strings.Contains(cp, "p0.DestBase") && strings.Contains(cp, "cmd.itemToRelDir(p1)") && strings.Contains(cp, "p0.DestRelPath")
	okD := strings.Contains(dp, "p0.DestBase") && strings.Contains(dp, "cmd.itemToRelDir(p1)") && strings.Contains(dp, "p0.DestRelPath")
	r.Check(okC && okD, rule, "dest-path", w.pos(sc.Pos()), "both use DestBase/itemToRelDir(item)/DestRelPath", "sum-copy writes "+cp+" but sum-diff reads "+dp+": for items more than one directory deep the two commands address different files")
}

func blockReachesAvoiding(from, to, avoid *ssa.BasicBlock) bool {
	seen := map[*ssa.BasicBlock]bool{avoid: true}
	var walk func(b *ssa.BasicBlock) bool
	walk = func(b *ssa.BasicBlock) bool {
		if b == to {
			return true
		}
		if seen[b] {
			return false
		}
		seen[b] = true
		for _, s := range b.Succs {
			if walk(s) {
				return true
			}
		}
		return false
	}
	return walk(from)
}
