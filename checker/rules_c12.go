package main

import (
	"fmt"
	"go/constant"
	"go/token"
	"go/types"
	"os"
	"regexp"
	"sort"
	"strings"

	"golang.org/x/tools/go/ssa"
)

func init() {
	register(&propertyDef{
		ID: "C12",
		Explanation: "Decides remote/local agreement structurally: each dispatcher's local branch and the server handler registered for the path its remote branch requests call the same ...Local function; the query keys the client writes are exactly the keys the handler reads, each key's value flows into the Local parameter that the dispatcher's local branch feeds from the same dispatcher argument; every query value is url.QueryEscape'd, timestamps travel as Timestamp.String()/ParseTimestamp; the handler's AppendTo sequence equals the client's TakeFrom sequence (header, then one element per archive of the decoded header); " +
			"both ends implement the not-exist protocol (handler: os.IsNotExist -> setRespForNotExistErr with an empty body; client: empty body -> convertRemoteErrNotExist, an os.ErrNotExist PathError) and the remote functions return the decoder's error unwrapped so os.IsNotExist classifies it like a local error. " +
			"Not decided: equality of results through real HTTP round trips (value clause), transport faults.",
		Run: rulesC12,
	})
}

var debugC12 = os.Getenv("WTDEBUG_C12") != ""

type dispatcher struct {
	name, local, remote, helper, route, handler string
}

var dispatchers = []dispatcher{
	{"readWhisperFile", "readWhisperFileLocal", "readWhisperFileRemote", "getFileDataFromRemote", "/view", "app.handleView"},
	{"readWhisperFileRaw", "readWhisperFileRawLocal", "readWhisperFileRawRemote", "getRawFileDataFromRemote", "/view-raw", "app.handleViewRaw"},
	{"sumWhisperFile", "sumWhisperFileLocal", "sumWhisperFileRemote", "getFileDataFromRemote", "/sum", "app.handleSum"},
	{"globItems", "globItemsLocal", "globItemsRemote", "", "/items", "app.handleItems"},
	{"globFiles", "globFilesLocal", "globFilesRemote", "", "/files", "app.handleFiles"},
}

// routesOf maps registered route paths to handler functions.
func routesOf(w *World) map[string]*ssa.Function {
	out := map[string]*ssa.Function{}
	for _, f := range cmdFuncs(w) {
		for _, c := range callsIn(f) {
			if !isCallToPkgFunc(c, "net/http", "HandleFunc") || len(c.Common().Args) != 2 {
				continue
			}
			path, ok := constString(c.Common().Args[0])
			if !ok {
				// registrations driven by a table of (pattern, handler) rows
				tbl, pats := tableColumn(c.Common().Args[0])
				var hv ssa.Value = c.Common().Args[1]
				if cc, isCall := hv.(*ssa.Call); isCall && len(cc.Common().Args) == 1 {
					hv = cc.Common().Args[0]
				}
				tbl2, hs := tableColumn(hv)
				if tbl != nil && tbl == tbl2 && len(pats) == len(hs) {
					for i := range pats {
						if ps, ok := constString(pats[i]); ok {
							if h := pickHandler(w, hs[i]); h != nil {
								out[ps] = h
							}
						}
					}
				}
				continue
			}
			// handler: look through adapter calls and bound-method closures
			var pick func(v ssa.Value) *ssa.Function
			pick = func(v ssa.Value) *ssa.Function {
				switch x := v.(type) {
				case *ssa.Function:
					return x
				case *ssa.MakeClosure:
					fnc := x.Fn.(*ssa.Function)
					if fnc.Synthetic != "" && fnc.Object() != nil {
						for _, m := range w.modFuncs {
							if m.Object() == fnc.Object() {
								return m
							}
						}
					}
					return fnc
				case *ssa.Call:
					for _, a := range x.Common().Args {
						if h := pick(a); h != nil {
							return h
						}
					}
				case *ssa.ChangeType:
					return pick(x.X)
				}
				return nil
			}
			if h := pick(c.Common().Args[1]); h != nil {
				out[path] = h
			}
		}
	}
	return out
}

var reKey = regexp.MustCompile(`(?:\(net/url\.Values\)\.Get\(p2\.Form, |cmd\.getFormInt\(p2, )"([A-Za-z_]+)"`)
var reParam = regexp.MustCompile(`\bp(\d+)\b`)

func rulesC12(w *World, r *Report) {
	r.Rule("C12.R1", "one implementation: for each dispatcher the local branch calls L, the remote branch requests a registered route whose handler calls the same L", 5)
	ruleIsBaseURL(w, r, "C12.R1")
	rulePathOrder(w, r, "C12.R1")
	r.Rule("C12.R2", "set agreement + derives-from: keys in the client's query format = keys the handler reads; for each key the Local parameter it reaches in the handler is the one the dispatcher's local branch feeds from the same dispatcher argument; every %s query value is url.QueryEscape(...)", 10)
	r.Rule("C12.R3", "timestamps cross as text: client sends QueryEscape(Timestamp.String(x)); handler parses with ParseTimestamp(Form.Get(key))", 6)
	r.Rule("C12.R4", "framing: handler encodes Header.AppendTo then one element AppendTo per archive of that header; client decodes Header.TakeFrom then one element TakeFrom per archive of the decoded header, same element type", 3)
	r.Rule("C12.R5", "not-exist protocol on both ends: every handler routes os.IsNotExist(err) of its Local call to setRespForNotExistErr (which writes no body); every client decoder maps an empty body to convertRemoteErrNotExist (a PathError with os.ErrNotExist); remote functions return the decoder's error unchanged", 12)
	ruleServerErrorsAnswered(w, r, "C12.R5")
	routes := routesOf(w)
	isBaseURL := fn(w.Cmd, "isBaseURL")
	for _, d := range dispatchers {
		D, L, R := fn(w.Cmd, d.name), fn(w.Cmd, d.local), fn(w.Cmd, d.remote)
		if D == nil || L == nil || R == nil {
			r.Undecided("C12.R1", d.name, "-", "dispatcher, local or remote function not found")
			continue
		}
		// dispatcher: isBaseURL(p0) true -> R(...), false -> L(...)
		var lc, rc *ssa.Call
		for _, c := range callsTo(D, L) {
			lc = c
		}
		for _, c := range callsTo(D, R) {
			rc = c
		}
		okDisp := lc != nil && rc != nil
		if okDisp {
			okDisp = false
			for _, b := range D.Blocks {
				if len(b.Instrs) == 0 {
					continue
				}
				iff, ok := b.Instrs[len(b.Instrs)-1].(*ssa.If)
				if !ok {
					continue
				}
				if c, ok := iff.Cond.(*ssa.Call); ok && c.Common().StaticCallee() == isBaseURL && newExprCtx(w).expr(c.Common().Args[0]) == "p0" {
					if edgeDominates(b, b.Succs[0], rc.Block()) && edgeDominates(b, b.Succs[1], lc.Block()) {
						okDisp = true
					}
				}
			}
		}
		r.Check(okDisp, "C12.R1", d.name+":dispatch", w.pos(D.Pos()), "URL base -> remote, directory -> local", d.name+" does not dispatch on isBaseURL(base) between "+d.remote+" and "+d.local)
		if lc == nil || rc == nil {
			continue
		}
		// the format string with the route
		var sp *ssa.Call
		for _, c := range callsIn(R) {
			if cv, ok := c.(*ssa.Call); ok && isCallToPkgFunc(c, "fmt", "Sprintf") {
				sp = cv
			}
		}
		if sp == nil {
			r.Undecided("C12.R2", d.name+":url", w.pos(R.Pos()), "request URL is not built with fmt.Sprintf")
			continue
		}
		format, _ := constString(sp.Common().Args[0])
		// a constant string argument (the route passed to a shared request helper) is part of the format
		format, vaFolded := foldConstArgs(format, variadicArgs(sp.Common().Args[1]))
		m := regexp.MustCompile(`^%s(/[a-z-]+)\?(.*)$`).FindStringSubmatch(format)
		if m == nil {
			r.Violate("C12.R2", d.name+":url", w.instrPos(sp), "request URL format not of the form %s/<route>?<query>: "+format)
			continue
		}
		route, query := m[1], m[2]
		H := routes[route]
		if H == nil {
			r.Violate("C12.R1", d.name+":route", w.instrPos(sp), "the client requests "+route+" but no handler is registered for it")
			continue
		}
		// handler calls L
		var hl *ssa.Call
		for _, c := range callsTo(H, L) {
			hl = c
		}
		r.Check(hl != nil, "C12.R1", d.name+":same-local", w.pos(H.Pos()), "handler of "+route+" ("+funcName(H)+") runs "+d.local, "the handler registered for "+route+" ("+funcName(H)+") does not call "+d.local+": remote and local reads use different implementations")
		if hl == nil {
			continue
		}
		// the handler refuses nothing the local path accepts: before the Local call a request is turned away only
		// for an empty parameter or a parameter that does not parse
		for _, b := range H.Blocks {
			if len(b.Instrs) == 0 || !(b == hl.Block() || b.Dominates(hl.Block())) {
				continue
			}
			iff, ok := b.Instrs[len(b.Instrs)-1].(*ssa.If)
			if !ok {
				continue
			}
			// one side leaves with an error, the other goes on to the Local call
			var fail *ssa.BasicBlock
			for i, s := range b.Succs {
				other := b.Succs[1-i]
				if (other == hl.Block() || other.Dominates(hl.Block())) && !(s == hl.Block() || s.Dominates(hl.Block())) {
					fail = s
				}
			}
			if fail == nil {
				continue
			}
			cond, _ := stripNot(iff.Cond)
			okCond := false
			if x, _, _, isNil := nilTest(b); isNil && (isErrorType(x.Type()) || isErrorLikePointer(x.Type())) {
				okCond = true
			}
			if bo, isBo := cond.(*ssa.BinOp); isBo && (bo.Op == token.EQL || bo.Op == token.NEQ) {
				if s, isS := constString(bo.X); isS && s == "" {
					okCond = true
				}
				if s, isS := constString(bo.Y); isS && s == "" {
					okCond = true
				}
			}
			if _, _, isLen := lenEmptyCond(cond); isLen {
				okCond = true
			}
			r.Check(okCond, "C12.R1", d.name+":handler-refuses:"+newExprCtx(w).expr(cond), w.blockPos(b), "requests are refused only for empty or unparsable parameters", "the handler "+funcName(H)+" turns a request away on `"+shortExpr(newExprCtx(w).expr(cond))+"` before running "+d.local+": the local path has no such restriction, so the same file, item or window works with a directory and fails with the server URL")
		}
		// ---- R2 keys
		type kv struct{ key, verb string }
		var kvs []kv
		for _, part := range strings.Split(query, "&") {
			eq := strings.SplitN(part, "=", 2)
			if len(eq) != 2 {
				continue
			}
			kvs = append(kvs, kv{eq[0], eq[1]})
		}
		va := vaFolded
		if len(va) != len(kvs)+1 {
			r.Violate("C12.R2", d.name+":url-args", w.instrPos(sp), fmt.Sprintf("query has %d keys but %d values are supplied", len(kvs), len(va)-1))
			continue
		}
		ex := newExprCtx(w)
		clientKeyParam := map[string]int{} // key -> R param index
		var clientKeys []string
		for i, p := range kvs {
			clientKeys = append(clientKeys, p.key)
			val := ex.expr(va[i+1])
			pm := reParam.FindStringSubmatch(val)
			if pm == nil {
				r.Violate("C12.R2", d.name+":key:"+p.key, w.instrPos(sp), "value of query key "+p.key+" does not derive from a parameter: "+val)
				continue
			}
			fmt.Sscanf(pm[1], "%d", new(int))
			var idx int
			fmt.Sscanf(pm[1], "%d", &idx)
			clientKeyParam[p.key] = idx
			if p.verb == "%s" {
				r.Check(strings.HasPrefix(val, "net/url.QueryEscape("), "C12.R2", d.name+":escape:"+p.key, w.instrPos(sp), "query value is QueryEscape'd", "the value of query key "+p.key+" is not url.QueryEscape'd ("+val+"): names containing + & # or spaces reach the server changed")
			}
			if val == "net/url.QueryEscape(whispertool.Timestamp.String(p"+pm[1]+"))" {
				r.OK("C12.R3", d.name+":client-time:"+p.key, w.instrPos(sp), "timestamp sent as Timestamp.String()")
			}
		}
		// handler keys: per Local argument position
		hex := newExprCtx(w)
		handlerKeys := map[string]int{} // key -> L arg position
		for pos, a := range hl.Common().Args {
			s := hex.expr(a)
			for _, km := range reKey.FindAllStringSubmatch(s, -1) {
				handlerKeys[km[1]] = pos
				if strings.Contains(s, "whispertool.ParseTimestamp((net/url.Values).Get(p2.Form, \""+km[1]+"\"))#0") {
					r.OK("C12.R3", d.name+":server-time:"+km[1], w.instrPos(hl), "timestamp parsed with ParseTimestamp")
				}
			}
		}
		var hk []string
		for k := range handlerKeys {
			hk = append(hk, k)
		}
		sort.Strings(hk)
		ck := append([]string{}, clientKeys...)
		sort.Strings(ck)
		r.Check(strings.Join(hk, ",") == strings.Join(ck, ","), "C12.R2", d.name+":keys", w.instrPos(sp), "client and handler agree on the query keys "+strings.Join(ck, ","), "the client sends keys ["+strings.Join(ck, ",")+"] but the handler feeds "+d.local+" from keys ["+strings.Join(hk, ",")+"]")
		// flows: dispatcher local call: L position -> D param; remote call: R param -> D param
		dex := newExprCtx(w)
		lPosToD := map[int]string{}
		for pos, a := range lc.Common().Args {
			lPosToD[pos] = strings.Join(reParam.FindAllString(dex.expr(a), -1), "+")
		}
		rParamToD := map[int]string{}
		for pos, a := range rc.Common().Args {
			rParamToD[pos] = strings.Join(reParam.FindAllString(dex.expr(a), -1), "+")
		}
		for _, k := range ck {
			hp, okh := handlerKeys[k]
			cp, okc := clientKeyParam[k]
			if !okh || !okc {
				continue
			}
			dFromClient := rParamToD[cp]
			dAtLocal := lPosToD[hp]
			// the base directory is prepended on both sides (Join(base, rel) locally, Join(baseDir, file) in the handler)
			okFlow := dFromClient != "" && (dAtLocal == dFromClient || strings.HasSuffix(dAtLocal, "+"+dFromClient))
			// the value reaches the Local function through the same transformation on both paths (a conversion done
			// by the dispatcher but not by the handler, or the reverse, feeds Local differently)
			if okFlow {
				shape := func(e string) string {
					e = regexp.MustCompile(`\(net/url\.Values\)\.Get\(p\d+\.Form, "[^"]*"\)`).ReplaceAllString(e, "□")
					e = regexp.MustCompile(`cmd\.getFormInt\(p\d+, "[^"]*"\)#0`).ReplaceAllString(e, "□")
					e = regexp.MustCompile(`whispertool\.ParseTimestamp\(□\)#0`).ReplaceAllString(e, "□")
					e = regexp.MustCompile(`p\d+(\.\w+)*`).ReplaceAllString(e, "□")
					return e
				}
				ls, hs := shape(dex.expr(lc.Common().Args[hp])), shape(hex.expr(hl.Common().Args[hp]))
				if ls != hs {
					r.Violate("C12.R2", d.name+":flow-shape:"+k, w.instrPos(hl), fmt.Sprintf("the dispatcher's local branch feeds %s parameter %d with %s, the handler feeds it with %s: the value of key %s is transformed on one path only", d.local, hp, shortExpr(ls), shortExpr(hs), k))
				} else {
					r.OK("C12.R2", d.name+":flow-shape:"+k, w.instrPos(hl), "same transformation on both paths: "+shortExpr(ls))
				}
			}
			r.Check(okFlow, "C12.R2", d.name+":flow:"+k, w.instrPos(hl), fmt.Sprintf("key %s carries dispatcher argument %s into %s parameter %d on both paths", k, dFromClient, d.local, hp),
				fmt.Sprintf("query key %s carries the dispatcher's argument %s, but the handler passes it as %s parameter %d, which the local path feeds from %s: remote and local calls disagree", k, dFromClient, d.local, hp, dAtLocal))
		}
		// ---- R5 handler side
		okNE := false
		for _, b := range H.Blocks {
			if len(b.Instrs) == 0 {
				continue
			}
			iff, ok := b.Instrs[len(b.Instrs)-1].(*ssa.If)
			if !ok {
				continue
			}
			c, ok := iff.Cond.(*ssa.Call)
			if !ok || !isCallToPkgFunc(c, "os", "IsNotExist") {
				continue
			}
			// argument = error of the Local call
			fromL := false
			for _, l := range leavesOf(c.Common().Args[0]) {
				if cc, _, ok := callResult(l); ok && cc == hl {
					fromL = true
				}
			}
			if !fromL {
				continue
			}
			allGood := true
			n := 0
			for _, ret := range returnsOf(H) {
				if !edgeDominates(b, b.Succs[0], ret.Block()) {
					continue
				}
				n++
				rc2, isCall := ret.Results[0].(*ssa.Call)
				if !isCall || rc2.Common().StaticCallee() != fn(w.Cmd, "setRespForNotExistErr") {
					allGood = false
				}
			}
			okNE = allGood && n > 0
		}
		r.Check(okNE, "C12.R5", d.name+":handler-not-exist", w.pos(H.Pos()), "os.IsNotExist(err) -> setRespForNotExistErr", "the handler "+funcName(H)+" does not answer a not-exist error of "+d.local+" with setRespForNotExistErr: a missing file/pattern is not reported as not-existing through the server")
		// ---- R5 client side: the decoder (helper or R itself)
		dec := R
		if d.helper != "" {
			dec = fn(w.Cmd, d.helper)
		}
		if dec == nil {
			r.Undecided("C12.R5", d.name+":client-not-exist", "-", "client decoder not found")
		} else {
			okC := clientEmptyBodyMapped(w, dec)
			r.Check(okC, "C12.R5", d.name+":client-not-exist", w.pos(dec.Pos()), "empty body -> convertRemoteErrNotExist before decoding", "the client decoder "+funcName(dec)+" does not map an empty response body to convertRemoteErrNotExist: a missing file read through a URL is not classified as not-existing")
		}
		// remote function returns the decoder's error unchanged
		if d.helper != "" {
			okProp := true
			for _, ret := range returnsOf(R) {
				vals, _ := resultValues(ret, errResultIndex(R))
				for _, v := range vals {
					ci := classifyErr(v)
					if ci.class == errFresh || ci.class == errUnknown {
						okProp = false
					}
				}
			}
			r.Check(okProp, "C12.R5", d.name+":remote-error-unwrapped", w.pos(R.Pos()), "the decoder's error is returned as is", d.remote+" wraps or replaces the error it received: os.IsNotExist (which does not unwrap) no longer recognises a remote not-exist, so commands classify remote and local misses differently")
		}
		// ---- R4 framing
		if d.helper != "" {
			hSeq := codecCallSeq(w, H, "AppendTo")
			cSeq := codecCallSeq(w, fn(w.Cmd, d.helper), "TakeFrom")
			okF := len(hSeq) == 2 && len(cSeq) == 2 && hSeq[0] == "Header" && cSeq[0] == "Header" && hSeq[1] == cSeq[1] && strings.HasSuffix(hSeq[1], "*")
			r.Check(okF, "C12.R4", d.name+":framing", w.pos(H.Pos()), "handler writes "+strings.Join(hSeq, ",")+"; client reads "+strings.Join(cSeq, ","), "the handler's encoding sequence ["+strings.Join(hSeq, ",")+"] differs from the client's decoding sequence ["+strings.Join(cSeq, ",")+"] (expected Header then one element per archive)")
			// each archive's series is decoded into an object of its own: what is stored into the result list inside the
			// decode loop is allocated inside that loop (one variable reused for all archives leaves every entry pointing
			// at the last one decoded)
			if dec := fn(w.Cmd, d.helper); dec != nil {
				bad := ""
				n := 0
				eachInstr(dec, func(in ssa.Instruction) {
					st, ok := in.(*ssa.Store)
					if !ok || !inLoopWith(st.Block()) {
						return
					}
					ia, ok := st.Addr.(*ssa.IndexAddr)
					if !ok {
						return
					}
					if _, isMk := ia.X.(*ssa.MakeSlice); !isMk {
						return
					}
					if _, isPtr := st.Val.Type().Underlying().(*types.Pointer); !isPtr {
						return
					}
					n++
					al, isAl := st.Val.(*ssa.Alloc)
					if !isAl || !inLoopWith(al.Block()) {
						bad = "the pointer stored at " + w.instrPos(st) + " is not to an object allocated in the loop (" + shortExpr(newExprCtx(w).expr(st.Val)) + ")"
					}
				})
				if n > 0 {
					r.Check(bad == "", "C12.R4", d.name+":fresh-element-per-archive", w.pos(dec.Pos()), "each entry of the decoded list points to its own object", funcName(dec)+": "+bad+": all archives of a remote read then show the series of the last archive")
				}
			}
			// one element per archive on both ends, whatever was selected: neither loop has a way round its codec call
			for _, side := range []struct {
				f    *ssa.Function
				meth string
				what string
			}{{H, "AppendTo", "handler-encodes-every-archive"}, {fn(w.Cmd, d.helper), "TakeFrom", "client-decodes-every-archive"}} {
				if side.f == nil {
					continue
				}
				var inLoop ssa.Instruction
				for _, c := range callsIn(side.f) {
					if sc := c.Common().StaticCallee(); sc != nil && sc.Name() == side.meth && inLoopWith(c.Block()) {
						inLoop = c.(ssa.Instruction)
					}
				}
				if inLoop != nil {
					ruleLoopBodyAlwaysCalls(w, r, "C12.R4", d.name+":"+side.what, inLoop, "the other end writes (reads) one element for every archive of the header, selected or not: skipping one shifts every following element")
				}
			}
		}
	}
	// the server takes requests as large as net/http takes by default: a request line carries the escaped file name
	// or pattern, and a budget set below the default turns long (legal) names into 431 answers the clients misread
	if se := fn(w.Cmd, "ServerCommand.Execute"); se != nil {
		def := int64(1 << 20)
		if p := w.All["net/http"]; p != nil && p.Types != nil {
			if c, ok := p.Types.Scope().Lookup("DefaultMaxHeaderBytes").(*types.Const); ok {
				def, _ = constant.Int64Val(c.Val())
			}
		}
		bad := ""
		eachInstr(se, func(in ssa.Instruction) {
			st, ok := in.(*ssa.Store)
			if !ok {
				return
			}
			if _, fld, isFld := fieldAddrOf(st.Addr); !isFld || fld != "MaxHeaderBytes" {
				return
			}
			k, isK := constInt(st.Val)
			if !isK || (k != 0 && k < def) {
				bad = fmt.Sprintf("MaxHeaderBytes is set to %s at %s, below net/http's default of %d", newExprCtx(w).expr(st.Val), w.instrPos(st), def)
			}
		})
		r.Check(bad == "", "C12.R1", "ServerCommand.Execute:header-budget", w.pos(se.Pos()), "the request-header budget is net/http's default or larger", "ServerCommand.Execute: "+bad+": a file name or pattern that is legal on the directory no longer fits a request")
	}
	r.Rule("C12.R6", "list framing: the items/files handlers write one name per line and the clients split on newlines only; every remote function passes errors on unwrapped", 11)
	ruleLineFraming(w, r, "C12.R6")
	ruleRemoteErrorsUnwrapped(w, r, "C12.R6")
	// server-side helpers of the protocol
	if s := need(w, r, "C12.R5", w.Cmd, "setRespForNotExistErr"); s != nil {
		writes := false
		for _, c := range callsIn(s) {
			if c.Common().IsInvoke() && c.Common().Method.Name() == "Write" {
				writes = true
			}
			if isCallToPkgFunc(c, "fmt", "Fprintf") || isCallToPkgFunc(c, "fmt", "Fprint") || isCallToPkgFunc(c, "net/http", "Error") {
				writes = true
			}
		}
		allNil := true
		for _, ret := range returnsOf(s) {
			if !isSuccessReturn(ret) {
				allNil = false
			}
		}
		r.Check(!writes && allNil, "C12.R5", "setRespForNotExistErr:empty-body", w.pos(s.Pos()), "answers with headers only (empty body)", "setRespForNotExistErr writes a body or returns an error: the client recognises not-exist by the empty body")
		ex := newExprCtx(w)
		var sets []string
		for _, c := range callsIn(s) {
			if isMethodCall(c, "net/http", "Header", "Set") {
				sets = append(sets, ex.expr(c.Common().Args[1]))
			}
		}
		r.Check(containsStr(sets, `"X-Op"`) && containsStr(sets, `"X-Path"`), "C12.R5", "setRespForNotExistErr:headers", w.pos(s.Pos()), "sends X-Op and X-Path", "setRespForNotExistErr does not send the X-Op/X-Path headers the client rebuilds the PathError from")
	}
	if c := need(w, r, "C12.R5", w.Cmd, "convertRemoteErrNotExist"); c != nil {
		ok := false
		for _, ret := range returnsOf(c) {
			if ci := classifyErr(ret.Results[0]); ci.notExist {
				ok = true
			}
		}
		r.Check(ok, "C12.R5", "convertRemoteErrNotExist", w.pos(c.Pos()), "an *os.PathError with os.ErrNotExist", "convertRemoteErrNotExist does not produce an *os.PathError wrapping os.ErrNotExist")
	}
}

func containsStr(ss []string, s string) bool {
	for _, x := range ss {
		if x == s {
			return true
		}
	}
	return false
}

// codecCallSeq lists, in dominance order, the receiver types of the
// AppendTo/TakeFrom calls of f; a call inside a loop over the header's
// archive list is marked with '*'.
func codecCallSeq(w *World, f *ssa.Function, method string) []string {
	if f == nil {
		return nil
	}
	type item struct {
		c    *ssa.Call
		name string
	}
	var items []item
	for _, c := range callsIn(f) {
		cv, ok := c.(*ssa.Call)
		if !ok {
			continue
		}
		sc := cv.Common().StaticCallee()
		if sc == nil || sc.Name() != method || sc.Signature.Recv() == nil || pkgOf(sc) != w.Lib {
			continue
		}
		name := namedTypeName(sc.Signature.Recv().Type())
		if inLoopWith(cv.Block()) {
			// loop bound must be the archive list of the (decoded) header
			hdr := loopHeaderOf(cv.Block())
			okBound := false
			if hdr != nil {
				for _, in := range hdr.Instrs {
					if bo, ok := in.(*ssa.BinOp); ok && isCmp(bo.Op) {
						e := newExprCtx(w).expr(bo)
						if strings.Contains(e, "len(") && strings.Contains(e, ".archiveInfoList)") {
							okBound = true
						}
					}
				}
			}
			if okBound {
				name += "*"
			} else {
				name += "?"
			}
		}
		items = append(items, item{cv, name})
	}
	sort.SliceStable(items, func(i, j int) bool { return dominatesInstr(items[i].c, items[j].c) })
	var out []string
	for _, it := range items {
		out = append(out, it.name)
	}
	return out
}

func loopHeaderOf(b *ssa.BasicBlock) *ssa.BasicBlock {
	for x := b; x != nil; x = x.Idom() {
		if isLoopHeader(x) {
			return x
		}
	}
	return nil
}

// foldConstArgs substitutes constant string arguments of a Sprintf into its format (%s and %v verbs only).
func foldConstArgs(format string, va []ssa.Value) (string, []ssa.Value) {
	var out strings.Builder
	var rest []ssa.Value
	ai := 0
	for i := 0; i < len(format); i++ {
		if format[i] != '%' || i+1 >= len(format) {
			out.WriteByte(format[i])
			continue
		}
		if format[i+1] == '%' {
			out.WriteString("%%")
			i++
			continue
		}
		verb := format[i+1]
		if ai < len(va) && (verb == 's' || verb == 'v') {
			if s, ok := constString(stripMakeInterface(va[ai])); ok && !strings.Contains(s, "%") {
				out.WriteString(s)
				ai++
				i++
				continue
			}
		}
		if ai < len(va) && verb == 'c' {
			if k, ok := constInt(stripConvert(stripMakeInterface(va[ai]))); ok && k > 0 && k < 128 && k != '%' {
				out.WriteByte(byte(k))
				ai++
				i++
				continue
			}
		}
		if ai < len(va) {
			rest = append(rest, va[ai])
			ai++
		}
		out.WriteByte('%')
		out.WriteByte(verb)
		i++
	}
	for ; ai < len(va); ai++ {
		rest = append(rest, va[ai])
	}
	return out.String(), rest
}

// pickHandler: the module function a handler value denotes (a function, or a bound method closure).
func pickHandler(w *World, v ssa.Value) *ssa.Function {
	switch x := v.(type) {
	case *ssa.Function:
		return x
	case *ssa.MakeClosure:
		fnc := x.Fn.(*ssa.Function)
		if fnc.Synthetic != "" && fnc.Object() != nil {
			for _, m := range w.modFuncs {
				if m.Object() == fnc.Object() {
					return m
				}
			}
		}
		return fnc
	case *ssa.ChangeType:
		return pickHandler(w, x.X)
	}
	return nil
}

// clientEmptyBodyMapped: every value the decoder hands to its first TakeFrom has been tested for emptiness, the empty
// outcome returning convertRemoteErrNotExist, before any decoding. The body is identified by its use (the bytes that
// are decoded), not by how it was read from the response; a helper expanded into the decoder tests each of its results.
func clientEmptyBodyMapped(w *World, dec *ssa.Function) bool {
	isTake := func(c ssa.CallInstruction) bool {
		sc := c.Common().StaticCallee()
		return sc != nil && sc.Name() == "TakeFrom"
	}
	type leaf struct {
		v   ssa.Value
		blk *ssa.BasicBlock
	}
	var leaves func(v ssa.Value, blk *ssa.BasicBlock, seen map[ssa.Value]bool) []leaf
	leaves = func(v ssa.Value, blk *ssa.BasicBlock, seen map[ssa.Value]bool) []leaf {
		if ph, ok := v.(*ssa.Phi); ok {
			if seen[ph] {
				return nil
			}
			seen[ph] = true
			var out []leaf
			for i, e := range ph.Edges {
				out = append(out, leaves(e, ph.Block().Preds[i], seen)...)
			}
			return out
		}
		return []leaf{{v, blk}}
	}
	var first ssa.CallInstruction
	var body []leaf
	for _, c := range callsIn(dec) {
		if !isTake(c) {
			continue
		}
		for _, a := range c.Common().Args {
			sl, isSl := a.Type().Underlying().(*types.Slice)
			if !isSl || !types.Identical(sl.Elem(), types.Typ[types.Byte]) {
				continue
			}
			ls := leaves(a, c.Block(), map[ssa.Value]bool{})
			fromTake := false
			for _, l := range ls {
				if ex, isEx := l.v.(*ssa.Extract); isEx {
					if tc, isC := ex.Tuple.(*ssa.Call); isC && isTake(tc) {
						fromTake = true
					}
				}
			}
			if !fromTake && (first == nil || c.Block().Dominates(first.Block())) {
				first, body = c, ls
			}
		}
	}
	if first == nil {
		// a text decoder: the body is what is converted to a string and split
		for _, b := range dec.Blocks {
			for _, in := range b.Instrs {
				var xs []ssa.Value
				switch t := in.(type) {
				case *ssa.Convert:
					xs = []ssa.Value{t.X}
				case *ssa.Call:
					if sc := t.Common().StaticCallee(); sc != nil && sc.Pkg != nil && sc.Pkg.Pkg.Path() != "io" && sc.Pkg.Pkg.Path() != "io/ioutil" {
						xs = t.Common().Args
					}
				}
				for _, x := range xs {
					sl, isSl := x.Type().Underlying().(*types.Slice)
					if !isSl || !types.Identical(sl.Elem(), types.Typ[types.Byte]) {
						continue
					}
					body = append(body, leaves(x, b, map[ssa.Value]bool{})...)
				}
			}
		}
		if len(body) == 0 {
			return false
		}
	} else if len(body) == 0 {
		return false
	}
	// the first decoding step precedes all others
	for _, c := range callsIn(dec) {
		if first != nil && isTake(c) && !first.Block().Dominates(c.Block()) {
			return false
		}
	}
	for _, l := range body {
		if c, isC := l.v.(*ssa.Const); isC && c.IsNil() {
			continue // a nil body only travels with an error, which is returned first
		}
		tested := false
		for _, b := range dec.Blocks {
			if len(b.Instrs) == 0 {
				continue
			}
			iff, ok := b.Instrs[len(b.Instrs)-1].(*ssa.If)
			if !ok {
				continue
			}
			lc, emptyWhenTrue, isLen := lenEmptyCond(iff.Cond)
			if !isLen || len(lc.Common().Args) != 1 || lc.Common().Args[0] != l.v {
				continue
			}
			if !b.Dominates(l.blk) {
				continue
			}
			emptyEdge := 1
			if emptyWhenTrue {
				emptyEdge = 0
			}
			n, all := 0, true
			for _, ret := range returnsOf(dec) {
				if !edgeDominates(b, b.Succs[emptyEdge], ret.Block()) {
					continue
				}
				n++
				vals, complete := resultValues(ret, len(ret.Results)-1)
				if !complete || len(vals) == 0 {
					all = false
				}
				for _, last := range vals {
					if c, ok := last.(*ssa.Call); !ok || c.Common().StaticCallee() != fn(w.Cmd, "convertRemoteErrNotExist") {
						all = false
					}
				}
			}
			if n > 0 && all {
				tested = true
			}
		}
		if !tested {
			return false
		}
	}
	return true
}
