package main

import (
	"fmt"
	"go/constant"
	"go/token"
	"go/types"
	"strings"

	"golang.org/x/tools/go/ssa"
)

func init() {
	register(&propertyDef{
		ID: "C16",
		Explanation: "Decides error discipline structurally over the whole module: no function returns the nil error from a region entered only when an error value was non-nil (swallowed error); no call's error result is discarded except at enumerated, reasoned sites (formatted output to the text-out writer, ExitOnError flag parsing, Close of read-only/already-synced handles, never-failing builders); every command's Execute returns exactly what withTextOutWriter(c.TextOut, c.execute) returns and withTextOutWriter returns f's error and surfaces finish's; " +
			"possibly-nil *TimeSeries values (unselected archives, out-of-window fetches, empty sums) never reach a position that dereferences them (nil-contract fixpoint over the call graph); the only explicit panic of the module is unreachable for validated headers. " +
			"Not decided: that a command 'performs its effect' in full; environment faults below the os package.",
		Run: func(w *World, r *Report) {
			ruleC16R1(w, r)
			ruleC16R3(w, r)
			ruleC16R4(w, r)
			ruleC16R2(w, r)
			ruleC15R6(w, r, "C15.R6")
			ruleC05R7(w, r, "C05.R7", 4, nil)
			r.Rule("C16.R5", "no silent success over several inputs or outputs: the difference verdict of diff and sum-diff is latched across files/items; finish() of the text-out writer runs whatever the command body returned", 3)
			for _, n := range []string{"DiffCommand.execute", "SumDiffCommand.execute"} {
				if ex := fn(w.Cmd, n); ex != nil {
					ruleLatchedVerdict(w, r, "C16.R5", ex)
				}
			}
			ruleFinishAlways(w, r, "C16.R5")
			ruleLoopFailureStops(w, r, "C16.R5", cmdFuncs(w))
			r.Rule("C16.R6", "archive selection (decision diagram): fetchTimeSeriesList and fetchRawPointsLists, evaluated for a 2-archive file and every selection in -3..3, call the per-archive reader only with ids 0 and 1, read both for 'all', and fail for every other selection", 2)
			ruleArchiveIDDispatch(w, r, "C16.R6")
		},
	})
}

// ---------- R1: swallowed errors ----------

func ruleC16R1(w *World, r *Report) {
	r.Rule("C16.R1", "return classification: in every module function with an error result, a return of the nil error constant inside a region dominated by the non-nil edge of a nil test on an error value is a swallowed error", 20)
	for _, f := range w.modFuncs {
		idx := errResultIndex(f)
		if idx < 0 || len(f.Blocks) == 0 {
			continue
		}
		// regions: non-nil edges of nil tests on error-typed values
		type region struct {
			test, head *ssa.BasicBlock
			x          ssa.Value
		}
		var regions []region
		for _, b := range f.Blocks {
			x, nonNil, _, ok := nilTest(b)
			if !ok {
				continue
			}
			if !isErrorType(x.Type()) && !isErrorLikePointer(x.Type()) {
				continue
			}
			regions = append(regions, region{b, nonNil, x})
		}
		examined := 0
		for _, ret := range returnsOf(f) {
			vals, complete := resultValues(ret, idx)
			nilRet := complete && len(vals) > 0
			for _, v := range vals {
				if classifyErr(v).class != errNil {
					nilRet = false
				}
			}
			// every failure region the return lies in: the error of each must have been recognised (classified on
			// the recognising side) for a nil return to be a recovery; one unrecognised failure makes it a swallowed error
			inRegion, swallowed := false, ""
			for _, rg := range regions {
				if !edgeDominates(rg.test, rg.head, ret.Block()) {
					continue
				}
				inRegion = true
				if nilRet && !errorClassifiedBefore(rg.x, rg.test, rg.head, ret) {
					swallowed = w.blockPos(rg.test)
				}
			}
			if inRegion {
				examined++
				key := fmt.Sprintf("%s:ret-in-err-region", funcName(f))
				switch {
				case nilRet && swallowed == "":
					r.OK("C16.R1", key, w.instrPos(ret), "the error is classified (errors.As / errors.Is / type test) on every way to this return: a recognised condition is recovered from, not swallowed")
				case nilRet:
					r.Violate("C16.R1", key, w.instrPos(ret),
						fmt.Sprintf("returns nil although it is only reached when the error tested at %s is non-nil: the failure is reported as success", swallowed))
				default:
					r.OK("C16.R1", key, w.instrPos(ret), "failure region returns a non-nil/propagated error")
				}
			}
		}
		_ = examined
		// inverted test: a return inside the region entered when the error was found nil that returns that very
		// error value reports success from the middle of the function (`if err == nil { return err }`)
		for _, b := range f.Blocks {
			x, _, nilHead, ok := nilTest(b)
			if !ok || !isErrorType(x.Type()) || !isCallError(x) {
				continue
			}
			for _, ret := range returnsOf(f) {
				if idx >= len(ret.Results) || ret.Results[idx] != x || !edgeDominates(b, nilHead, ret.Block()) {
					continue
				}
				// harmless when nothing else would have happened: the function's remaining ways from the test all end here
				r.Violate("C16.R1", fmt.Sprintf("%s:returns-nil-error:%s", funcName(f), errSourceName(x)), w.instrPos(ret),
					fmt.Sprintf("returns the error of %s on the branch where it was just found nil: success is reported from here and the rest of %s is skipped (the test reads inverted)", errSourceName(x), funcName(f)))
			}
		}
		// path form: from the non-nil edge of a nil test on a call's error, a way to a return of the nil constant that
		// never touches the error again (not returned, wrapped, classified, logged or stored) reports the failure as
		// success. Returns inside the edge's dominated region were classified above; this covers shared returns.
		for _, rg := range regions {
			if !isErrorType(rg.x.Type()) || !isCallError(rg.x) {
				continue
			}
			key := fmt.Sprintf("%s:err-edge:%s", funcName(f), errSourceName(rg.x))
			bad := unhandledErrorPath(rg.x, rg.test, rg.head, idx)
			if bad != nil && edgeDominates(rg.test, rg.head, bad.Block()) {
				continue // already reported by the region form
			}
			r.Check(bad == nil, "C16.R1", key, w.blockPos(rg.test), "every way on from the failure edge returns an error or handles it",
				fmt.Sprintf("when %s fails the function can still reach the success return at %s without touching the error: the failure is reported as success", errSourceName(rg.x), posOr(w, bad)))
		}
	}
}

func posOr(w *World, in *ssa.Return) string {
	if in == nil {
		return "-"
	}
	return w.instrPos(in)
}

// isCallError: x is the error result of a call (directly or as the last component of its tuple).
func isCallError(x ssa.Value) bool {
	switch v := x.(type) {
	case *ssa.Call:
		return true
	case *ssa.Extract:
		_, ok := v.Tuple.(*ssa.Call)
		return ok
	}
	return false
}

func errSourceName(x ssa.Value) string {
	var c *ssa.Call
	switch v := x.(type) {
	case *ssa.Call:
		c = v
	case *ssa.Extract:
		c, _ = v.Tuple.(*ssa.Call)
	}
	if c == nil {
		return x.Name()
	}
	if sc := c.Common().StaticCallee(); sc != nil {
		return funcName(sc)
	}
	if c.Common().IsInvoke() {
		return c.Common().Method.Name()
	}
	return "call"
}

// unhandledErrorPath walks from head (entered from test) and returns a Return of the nil error constant reachable
// without any instruction using x in between; nil when there is none.
func unhandledErrorPath(x ssa.Value, test, head *ssa.BasicBlock, idx int) *ssa.Return {
	type st struct{ b, prev *ssa.BasicBlock }
	seen := map[st]bool{}
	var walk func(b, prev *ssa.BasicBlock) *ssa.Return
	walk = func(b, prev *ssa.BasicBlock) *ssa.Return {
		if seen[st{b, prev}] {
			return nil
		}
		seen[st{b, prev}] = true
		for _, in := range b.Instrs {
			if _, isDbg := in.(*ssa.DebugRef); isDbg {
				continue
			}
			uses := false
			for _, op := range in.Operands(nil) {
				if op != nil && *op == x {
					uses = true
				}
			}
			if ph, ok := in.(*ssa.Phi); ok {
				// only the edge taken counts
				uses = false
				for i, p := range b.Preds {
					if p == prev && ph.Edges[i] == x {
						uses = true
					}
				}
			}
			if uses {
				if bo, ok := in.(*ssa.BinOp); ok && (isNilConst(bo.X) || isNilConst(bo.Y)) {
					continue // another nil test of the same value handles nothing
				}
				return nil
			}
			if ret, ok := in.(*ssa.Return); ok {
				if idx >= len(ret.Results) {
					return nil
				}
				v := ret.Results[idx]
				if ph, ok := v.(*ssa.Phi); ok && ph.Block() == b {
					for i, p := range b.Preds {
						if p == prev {
							v = ph.Edges[i]
						}
					}
				}
				if isNilConst(v) {
					return ret
				}
				return nil
			}
			if _, ok := in.(*ssa.Panic); ok {
				return nil
			}
		}
		for _, s := range b.Succs {
			if r := walk(s, b); r != nil {
				return r
			}
		}
		return nil
	}
	return walk(head, test)
}

func isErrorLikePointer(t types.Type) bool {
	// *fileNotExistError, *httpError, ...: pointer to a named type that implements error
	p, ok := t.Underlying().(*types.Pointer)
	if !ok {
		return false
	}
	ms := types.NewMethodSet(p)
	for i := 0; i < ms.Len(); i++ {
		if ms.At(i).Obj().Name() == "Error" {
			return true
		}
	}
	return false
}

func (w *World) blockPos(b *ssa.BasicBlock) string {
	for i := len(b.Instrs) - 1; i >= 0; i-- {
		if b.Instrs[i].Pos().IsValid() {
			return w.pos(b.Instrs[i].Pos())
		}
	}
	return "-"
}

// ---------- R3: discarded errors ----------

// whitelistDiscard: callee -> reason. Matched on the static callee.
func discardAllowed(w *World, c ssa.CallInstruction, sc *ssa.Function) (string, bool) {
	_, isDefer := c.(*ssa.Defer)
	switch {
	case isPkgFunc(sc, "fmt", "Fprintf") || isPkgFunc(sc, "fmt", "Fprint") || isPkgFunc(sc, "fmt", "Fprintln") ||
		isPkgFunc(sc, "fmt", "Printf") || isPkgFunc(sc, "fmt", "Println") || isPkgFunc(sc, "fmt", "Print"):
		return "formatted progress/diagnostic output; the text-out writer is a bufio.Writer whose sticky error surfaces in finish()", true
	case isMethodFunc(sc, "flag", "FlagSet", "Parse"):
		// true only while it is: with another error handling Parse returns its error, and a command whose Parse drops it
		// runs with whatever was parsed before the bad option
		if !flagSetsExitOnError(w) {
			return "", false
		}
		return "every flag set of the module is created with flag.ExitOnError (checked)", true
	case isMethodFunc(sc, "strings", "Builder", sc.Name()) || isMethodFunc(sc, "bytes", "Buffer", sc.Name()):
		return "in-memory builder: documented never to fail", true
	case isMethodFunc(sc, libPath, "Whisper", "Close") && isDefer:
		return "deferred Close of a handle that was only read, or whose Sync already succeeded (C05.R7)", true
	case isMethodFunc(sc, "os", "File", "Close"):
		if isDefer || pkgOf(c.Parent()) == w.Lib {
			return "Close on a failure path (library) or deferred Close of a file whose content was already flushed and synced", true
		}
	case sc.Name() == "Close" && isDefer:
		return "deferred Close of a response body", true
	}
	return "", false
}

func ruleC16R3(w *World, r *Report) {
	r.Rule("C16.R3", "no discarded error: every call in the module whose error result is unused is one of the enumerated callees with a stated reason", 30)
	for _, f := range w.modFuncs {
		for _, c := range callsIn(f) {
			cc := c.Common()
			sig := cc.Signature()
			n := sig.Results().Len()
			if n == 0 || !isErrorType(sig.Results().At(n-1).Type()) {
				continue
			}
			if _, isGo := c.(*ssa.Go); isGo {
				continue
			}
			used := false
			if cv, ok := c.(*ssa.Call); ok {
				if refs := cv.Referrers(); refs != nil {
					for _, ref := range *refs {
						switch x := ref.(type) {
						case *ssa.DebugRef:
						case *ssa.Extract:
							if x.Index == n-1 {
								if rr := x.Referrers(); rr != nil {
									for _, u := range *rr {
										if _, dbg := u.(*ssa.DebugRef); !dbg {
											used = true
										}
									}
								}
							}
						default:
							if n == 1 {
								used = true
							}
						}
					}
				}
			}
			if used {
				continue
			}
			var name string
			var sc *ssa.Function
			if cc.IsInvoke() {
				name = cc.Method.FullName()
			} else if sc = cc.StaticCallee(); sc != nil {
				name = funcName(sc)
			} else {
				name = "dynamic call"
			}
			key := fmt.Sprintf("%s:discards:%s", funcName(f), name)
			if sc == nil && cc.IsInvoke() && cc.Method.Name() == "Close" {
				if _, isDefer := c.(*ssa.Defer); isDefer {
					r.OK("C16.R3", key, w.instrPos(c), "deferred Close of a response body")
					continue
				}
				// explicit Close of an HTTP response body that was read (the data is already in memory)
				if base, fname, ok := fieldAddrOf(stripLoad(cc.Value)); ok && fname == "Body" {
					if strings.HasSuffix(base.Type().String(), "net/http.Response") {
						r.OK("C16.R3", key, w.instrPos(c), "Close of an HTTP response body")
						continue
					}
				}
			}
			if sc != nil {
				if reason, ok := discardAllowed(w, c, sc); ok {
					r.OK("C16.R3", key, w.instrPos(c), "allowed: "+reason)
					continue
				}
			}
			r.Violate("C16.R3", key, w.instrPos(c), "the error result of "+name+" is discarded: a failure here is reported as success")
		}
		// an error put into a variable (named result, captured local) and overwritten or dropped before anything reads it
		eachInstr(f, func(in ssa.Instruction) {
			st, ok := in.(*ssa.Store)
			if !ok || !isErrorType(st.Val.Type()) || !isCallError(st.Val) {
				return
			}
			al, ok := st.Addr.(*ssa.Alloc)
			if !ok || allocCaptured(al) {
				return
			}
			if storeIsRead(st, al) {
				return
			}
			r.Violate("C16.R3", fmt.Sprintf("%s:dead-error-store:%s", funcName(f), errSourceName(st.Val)), w.instrPos(st),
				"the error of "+errSourceName(st.Val)+" is stored and then overwritten or dropped before anything tests it: a failure here is reported as success")
		})
	}
}

// allocCaptured: the variable is captured by a closure or its address escapes into a call (reads cannot be tracked).
func allocCaptured(al *ssa.Alloc) bool {
	for _, ref := range *al.Referrers() {
		switch x := ref.(type) {
		case *ssa.Store:
			if x.Val == ssa.Value(al) {
				return true
			}
		case *ssa.UnOp, *ssa.DebugRef:
		default:
			return true
		}
	}
	return false
}

// storeIsRead: some path from st reaches a load of al before another store to it.
func storeIsRead(st *ssa.Store, al *ssa.Alloc) bool {
	seen := map[*ssa.BasicBlock]bool{}
	var scan func(b *ssa.BasicBlock, from int) bool
	scan = func(b *ssa.BasicBlock, from int) bool {
		for i := from; i < len(b.Instrs); i++ {
			switch x := b.Instrs[i].(type) {
			case *ssa.UnOp:
				if x.Op == token.MUL && x.X == ssa.Value(al) {
					return true
				}
			case *ssa.Store:
				if x.Addr == ssa.Value(al) {
					return false
				}
			}
		}
		for _, s := range b.Succs {
			if seen[s] {
				continue
			}
			seen[s] = true
			if scan(s, 0) {
				return true
			}
		}
		return false
	}
	b := st.Block()
	for i, in := range b.Instrs {
		if in == ssa.Instruction(st) {
			return scan(b, i+1)
		}
	}
	return true
}

// ---------- R4: Execute plumbing ----------

func commandTypes(w *World) []*types.Named {
	var out []*types.Named
	scope := w.CmdP.Types.Scope()
	for _, n := range scope.Names() {
		tn, ok := scope.Lookup(n).(*types.TypeName)
		if !ok {
			continue
		}
		nt, ok := tn.Type().(*types.Named)
		if !ok {
			continue
		}
		if _, isStruct := nt.Underlying().(*types.Struct); !isStruct {
			continue
		}
		ms := types.NewMethodSet(types.NewPointer(nt))
		hasP, hasE := false, false
		for i := 0; i < ms.Len(); i++ {
			switch ms.At(i).Obj().Name() {
			case "Parse":
				hasP = true
			case "Execute":
				hasE = true
			}
		}
		if hasP && hasE {
			out = append(out, nt)
		}
	}
	return out
}

func ruleC16R4(w *World, r *Report) {
	r.Rule("C16.R4", "derives-from: every data command's Execute returns the result of withTextOutWriter(c.TextOut, c.execute) on its own receiver; withTextOutWriter's result is f's error, with finish's error stored into the named result by the deferred closure; main.runSubcommand returns Parse's error and Execute's result", 12)
	wtow := need(w, r, "C16.R4", w.Cmd, "withTextOutWriter")
	if wtow == nil {
		return
	}
	for _, nt := range commandTypes(w) {
		name := nt.Obj().Name()
		ex := fn(w.Cmd, name+".Execute")
		if ex == nil {
			continue
		}
		if name == "ServerCommand" {
			continue // long-running: returns ListenAndServe's error (checked by R3/R1)
		}
		key := name + ".Execute"
		rets := returnsOf(ex)
		ok := len(rets) == 1
		var why string
		if ok {
			cv, isCall := rets[0].Results[0].(*ssa.Call)
			if !isCall || cv.Common().StaticCallee() != wtow {
				ok, why = false, "Execute does not return the result of withTextOutWriter"
			} else {
				a0, a1 := cv.Common().Args[0], cv.Common().Args[1]
				if !isLoadOfField(a0, name, "TextOut") {
					ok, why = false, "first argument is not the command's TextOut"
				}
				mc, isMC := a1.(*ssa.MakeClosure)
				if !isMC {
					ok, why = false, "second argument is not the bound method c.execute"
				} else {
					bf := mc.Fn.(*ssa.Function)
					target := fn(w.Cmd, name+".execute")
					if target == nil || bf.Object() != target.Object() || len(mc.Bindings) != 1 || mc.Bindings[0] != ssa.Value(ex.Params[0]) {
						ok, why = false, "second argument is not the receiver's own execute method"
					}
				}
			}
		} else {
			why = fmt.Sprintf("Execute has %d returns; expected the single `return withTextOutWriter(c.TextOut, c.execute)`", len(rets))
		}
		if ok {
			r.OK("C16.R4", key, w.pos(ex.Pos()), "returns withTextOutWriter(c.TextOut, c.execute)")
		} else {
			r.Violate("C16.R4", key, w.pos(ex.Pos()), why+": the command's error or its output plumbing is lost")
		}
	}
	// withTextOutWriter: result derives from the call of parameter f; the deferred closure stores finish's error
	{
		var fCall *ssa.Call
		for _, c := range callsIn(wtow) {
			if cv, ok := c.(*ssa.Call); ok && cv.Common().Value == ssa.Value(wtow.Params[1]) {
				fCall = cv
			}
		}
		if fCall == nil {
			r.Violate("C16.R4", "withTextOutWriter:calls-f", w.pos(wtow.Pos()), "withTextOutWriter does not call the command body f")
		} else {
			// f receives the writer from newTextOutWriter
			okArg := false
			if ex, isEx := fCall.Common().Args[0].(*ssa.Extract); isEx {
				if cv, ok := ex.Tuple.(*ssa.Call); ok && cv.Common().StaticCallee() == fn(w.Cmd, "newTextOutWriter") && ex.Index == 0 {
					okArg = true
				}
			}
			r.Check(okArg, "C16.R4", "withTextOutWriter:writer", w.instrPos(fCall), "f receives newTextOutWriter's writer", "f does not receive the writer created by newTextOutWriter")
			// every return after the call carries f's error
			good := true
			for _, ret := range returnsOf(wtow) {
				if !dominatesInstr(fCall, ret) {
					continue
				}
				vals, complete := resultValues(ret, 0)
				has := false
				for _, v := range vals {
					if v == ssa.Value(fCall) {
						has = true
					}
				}
				if !complete || !has {
					good = false
				}
			}
			r.Check(good, "C16.R4", "withTextOutWriter:returns-f", w.instrPos(fCall), "the result is f's error", "withTextOutWriter does not return f's error")
			// finish is deferred and its error stored to the variable the function returns
			// (the named result: after RunDefers the Return loads that very alloc)
			surf := false
			retAllocs := map[ssa.Value]bool{}
			for _, ret := range returnsOf(wtow) {
				if u, ok := ret.Results[0].(*ssa.UnOp); ok {
					if al, ok := u.X.(*ssa.Alloc); ok {
						retAllocs[al] = true
					}
				}
			}
			eachInstr(wtow, func(in ssa.Instruction) {
				d, ok := in.(*ssa.Defer)
				if !ok {
					return
				}
				mc, ok := d.Call.Value.(*ssa.MakeClosure)
				if !ok {
					return
				}
				df := mc.Fn.(*ssa.Function)
				callsFinish := false
				eachInstr(df, func(in2 ssa.Instruction) {
					if x, ok := in2.(*ssa.Call); ok && x.Common().StaticCallee() == nil && !x.Common().IsInvoke() {
						callsFinish = true
					}
				})
				storesResult := false
				eachInstr(df, func(in2 ssa.Instruction) {
					st, ok := in2.(*ssa.Store)
					if !ok {
						return
					}
					fv, ok := st.Addr.(*ssa.FreeVar)
					if !ok {
						return
					}
					for i, fvv := range df.FreeVars {
						if fvv == fv && i < len(mc.Bindings) && retAllocs[mc.Bindings[i]] {
							storesResult = true
						}
					}
				})
				if callsFinish && storesResult {
					surf = true
				}
			})
			r.Check(surf, "C16.R4", "withTextOutWriter:finish", w.pos(wtow.Pos()), "finish runs deferred and its error reaches the named result", "the error of finish() (flush/sync/close of the text-out file) is not surfaced")
			// the body runs only after newTextOutWriter's error was tested and found nil
			{
				var openErr ssa.Value
				if ex, isEx := fCall.Common().Args[0].(*ssa.Extract); isEx {
					if cv, ok := ex.Tuple.(*ssa.Call); ok {
						for _, e := range errorOfCall(cv) {
							openErr = e
						}
					}
				}
				tested := false
				if openErr != nil {
					for _, b := range wtow.Blocks {
						x, _, nilHead, ok := nilTest(b)
						if !ok || !edgeDominates(b, nilHead, fCall.Block()) {
							continue
						}
						vals, _ := resolveValue(x, b.Instrs[len(b.Instrs)-1], map[ssa.Value]bool{})
						for _, v := range vals {
							if v == openErr {
								tested = true
							}
						}
						if x == openErr {
							tested = true
						}
					}
				}
				r.Check(tested, "C16.R4", "withTextOutWriter:open-error-tested", w.instrPos(fCall), "f runs only where newTextOutWriter's error was found nil", "withTextOutWriter runs the command body without having tested the error of newTextOutWriter: when the -text-out file cannot be opened the body writes to a nil writer (panic) or the failure is lost")
			}
			// the body always runs: a return that does not come after f(tow) carries an error known to be non-nil
			skips := returnSkipping(w, wtow, fCall, 0)
			r.Check(skips == "", "C16.R4", "withTextOutWriter:f-always-runs", w.pos(wtow.Pos()), "every return that skips the command body reports a non-nil error", "withTextOutWriter can return at "+skips+" without running the command body and without an error known to be non-nil: the command reports success without doing its work")
			// the deferred closure overwrites the result only with a non-nil finish error, or when the result was nil
			eachInstr(wtow, func(in ssa.Instruction) {
				d, ok := in.(*ssa.Defer)
				if !ok {
					return
				}
				mc, ok := d.Call.Value.(*ssa.MakeClosure)
				if !ok {
					return
				}
				df := mc.Fn.(*ssa.Function)
				var stores []*ssa.Store
				eachInstr(df, func(in2 ssa.Instruction) {
					if st, ok := in2.(*ssa.Store); ok {
						if fv, ok := st.Addr.(*ssa.FreeVar); ok {
							for i, fvv := range df.FreeVars {
								if fvv == fv && i < len(mc.Bindings) && retAllocs[mc.Bindings[i]] {
									stores = append(stores, st)
								}
							}
						}
					}
				})
				if len(stores) == 0 {
					return
				}
				e := &ddEngine{w: w, env: map[ssa.Value]aval{}, maxLeafs: 32}
				e.run(df)
				bad := ""
				if e.err != nil {
					bad = "cannot evaluate the deferred closure: " + e.err.Error()
				}
				for _, l := range e.leaves {
					for _, st := range stores {
						on := false
						for _, b := range l.path {
							if b == st.Block() {
								on = true
							}
						}
						if !on {
							continue
						}
						if isFreshOrSentinel(st.Val) {
							continue
						}
						justified := false
						for k, chosen := range l.atoms {
							bo, ok := l.atomVal[k].(*ssa.BinOp)
							if !ok || (bo.Op != token.NEQ && bo.Op != token.EQL) {
								continue
							}
							x := bo.X
							if isNilConst(bo.X) {
								x = bo.Y
							} else if !isNilConst(bo.Y) {
								continue
							}
							isNil := chosen == (bo.Op == token.EQL)
							if x == st.Val && !isNil {
								justified = true // the stored error is non-nil
							}
							if u, ok := x.(*ssa.UnOp); ok && u.Op == token.MUL && u.X == st.Addr && isNil {
								justified = true // the result held no error
							}
						}
						if !justified {
							bad = "the deferred closure can overwrite the result with finish's error when that error is nil and the body's error is not"
						}
					}
				}
				// the converse: when finish fails and the body did not, the result becomes finish's error
				for _, l := range e.leaves {
					finNonNil, resNil, resNonNil := false, false, false
					for k, chosen := range l.atoms {
						bo, ok := l.atomVal[k].(*ssa.BinOp)
						if !ok || (bo.Op != token.NEQ && bo.Op != token.EQL) {
							continue
						}
						x := bo.X
						if isNilConst(bo.X) {
							x = bo.Y
						} else if !isNilConst(bo.Y) {
							continue
						}
						isNil := chosen == (bo.Op == token.EQL)
						if c, isCall := x.(*ssa.Call); isCall && c.Common().StaticCallee() == nil && !c.Common().IsInvoke() && !isNil {
							finNonNil = true
						}
						if u, ok := x.(*ssa.UnOp); ok && u.Op == token.MUL {
							for _, st := range stores {
								if u.X == st.Addr {
									resNil, resNonNil = isNil, !isNil
								}
							}
						}
					}
					_ = resNil
					if !finNonNil || resNonNil {
						continue
					}
					stored := false
					for _, st := range stores {
						for _, b := range l.path {
							if b == st.Block() {
								if c, isCall := st.Val.(*ssa.Call); isCall && c.Common().StaticCallee() == nil {
									stored = true
								}
							}
						}
					}
					if !stored && bad == "" {
						bad = "when finish() fails and the body succeeded the failure is not stored into the result"
					}
				}
				r.Check(bad == "", "C16.R4", "withTextOutWriter:finish-keeps-error", w.pos(df.Pos()), "the result is overwritten only by a non-nil finish error or when it held no error", bad+": the command's failure is replaced by success")
			})
		}
	}
	ruleTextOutFinish(w, r, "C16.R4")
	// main.runSubcommand
	if rs := need(w, r, "C16.R4", w.Main, "runSubcommand"); rs != nil {
		var parseCall, execCall *ssa.Call
		for _, c := range callsIn(rs) {
			if cv, ok := c.(*ssa.Call); ok && cv.Common().IsInvoke() {
				switch cv.Common().Method.Name() {
				case "Parse":
					parseCall = cv
				case "Execute":
					execCall = cv
				}
			}
		}
		if parseCall == nil || execCall == nil {
			r.Violate("C16.R4", "runSubcommand:calls", w.pos(rs.Pos()), "runSubcommand must call Parse and Execute of the command")
		} else {
			if msg := checkErrorHandled(w, parseCall); msg != "" {
				r.Violate("C16.R4", "runSubcommand:parse", w.instrPos(parseCall), msg)
			} else {
				r.OK("C16.R4", "runSubcommand:parse", w.instrPos(parseCall), "Parse's error is returned")
			}
			if msg := checkErrorHandled(w, execCall); msg != "" {
				r.Violate("C16.R4", "runSubcommand:execute", w.instrPos(execCall), msg)
			} else {
				r.OK("C16.R4", "runSubcommand:execute", w.instrPos(execCall), "Execute's error is returned")
			}
			skips := returnSkipping(w, rs, execCall, 0)
			r.Check(skips == "", "C16.R4", "runSubcommand:execute-always-runs", w.pos(rs.Pos()), "every return that skips Execute reports a non-nil error", "runSubcommand can return at "+skips+" without calling Execute and without an error known to be non-nil: the command reports success without doing its work")
		}
	}
	// main.run: every runSubcommand result reaches the exit-code mapping
	if run := need(w, r, "C16.R4", w.Main, "run"); run != nil {
		rs := fn(w.Main, "runSubcommand")
		n := 0
		for _, c := range callsIn(run) {
			cv, ok := c.(*ssa.Call)
			if !ok || cv.Common().StaticCallee() != rs {
				continue
			}
			n++
			usedInPhi := false
			for _, ref := range *cv.Referrers() {
				switch ref.(type) {
				case *ssa.Phi, *ssa.If, *ssa.BinOp, *ssa.Store:
					usedInPhi = true
				}
			}
			r.Check(usedInPhi, "C16.R4", "run:subcommand-result", w.instrPos(c), "result flows to the exit-code mapping", "the error of a subcommand is dropped in main.run")
		}
		// one dispatch per command (a switch) or one dispatch through a table of commands: what matters is that no
		// dispatch drops its result
		if n < 1 {
			r.Undecided("C16.R4", "run:subcommands", w.pos(run.Pos()), "no runSubcommand dispatch found in main.run")
		}
	}
	_ = strings.Join
}

// errorClassifiedBefore: on the non-nil edge test->head, a block dominating ret's block hands the tested
// error x to errors.As, errors.Is, os.IsNotExist (or a module As...Error helper) or type-asserts it, and ret
// lies on the edge of that test that recognised the condition.
func errorClassifiedBefore(x ssa.Value, test, head *ssa.BasicBlock, ret *ssa.Return) bool {
	f := ret.Parent()
	for _, b := range f.Blocks {
		if !(b == head || head.Dominates(b)) || !(b == ret.Block() || b.Dominates(ret.Block())) {
			continue
		}
		for _, in := range b.Instrs {
			switch c := in.(type) {
			case *ssa.Call:
				sc := c.Common().StaticCallee()
				if sc == nil {
					continue
				}
				isCls := isPkgFunc(sc, "errors", "As") || isPkgFunc(sc, "errors", "Is") || isPkgFunc(sc, "os", "IsNotExist") ||
					(strings.HasPrefix(sc.Name(), "As") && strings.HasSuffix(sc.Name(), "Error"))
				if !isCls {
					continue
				}
				for _, a := range c.Common().Args {
					if a == x || flowsTo(x, a) {
						if onRecognisedEdge(c, ret) {
							return true
						}
					}
				}
			case *ssa.TypeAssert:
				if c.X == x || flowsTo(x, c.X) {
					return true
				}
			}
		}
	}
	return false
}

// stripLoad: the address a value was loaded from (v itself when it is not a load).
func stripLoad(v ssa.Value) ssa.Value {
	if u, ok := v.(*ssa.UnOp); ok && u.Op == token.MUL {
		return u.X
	}
	return v
}

func isFreshOrSentinel(v ssa.Value) bool {
	c := classifyErr(v).class
	return c == errFresh || c == errSentinel
}

// returnSkipping: a return of f that does not come after call and whose error result (index idx) is not known to be
// non-nil there; "" when there is none.
func returnSkipping(w *World, f *ssa.Function, call ssa.Instruction, idx int) string {
	skips := ""
	for _, ret := range returnsOf(f) {
		if (instrReaches(call, ret) && dominatesInstr(call, ret)) || ret.Block() == f.Recover {
			continue
		}
		vals, complete := resultValues(ret, idx)
		okRet := complete && len(vals) > 0
		for _, v := range vals {
			if !(isFreshOrSentinel(v) || knownNonNilAt(v, ret.Block())) {
				okRet = false
			}
		}
		if !okRet {
			skips = w.instrPos(ret)
		}
	}
	return skips
}

// onRecognisedEdge: ret lies on the side of the test of classifier c (a bool: errors.Is/As, os.IsNotExist; or a
// pointer: As…Error) on which the condition was recognised. When the classifier's result is not tested by an If of
// its own (part of a compound condition) the question is not decided and the classification counts.
func onRecognisedEdge(c *ssa.Call, ret *ssa.Return) bool {
	refs := c.Referrers()
	if refs == nil {
		return true
	}
	decided := false
	okEdge := false
	var visit func(v ssa.Value, neg bool, d int)
	visit = func(v ssa.Value, neg bool, d int) {
		if d > 3 || v.Referrers() == nil {
			return
		}
		for _, ref := range *v.Referrers() {
			switch x := ref.(type) {
			case *ssa.UnOp:
				if x.Op == token.NOT {
					visit(x, !neg, d+1)
				}
			case *ssa.BinOp:
				if (x.Op == token.NEQ || x.Op == token.EQL) && (isNilConst(x.X) || isNilConst(x.Y)) {
					// pointer result: non-nil = recognised
					visit(x, neg != (x.Op == token.EQL), d+1)
				}
			case *ssa.If:
				b := x.Block()
				rec := b.Succs[0]
				if neg {
					rec = b.Succs[1]
				}
				decided = true
				if edgeDominates(b, rec, ret.Block()) {
					okEdge = true
				}
			}
		}
	}
	visit(c, false, 0)
	if !decided {
		return true
	}
	return okEdge
}

// flagSetsExitOnError: every flag.NewFlagSet call in the module passes the constant flag.ExitOnError.
func flagSetsExitOnError(w *World) bool {
	want := int64(1)
	if p := w.All["flag"]; p != nil && p.Types != nil {
		if c, ok := p.Types.Scope().Lookup("ExitOnError").(*types.Const); ok {
			want, _ = constant.Int64Val(c.Val())
		}
	}
	n := 0
	for _, f := range w.modFuncs {
		for _, c := range callsIn(f) {
			if !isCallToPkgFunc(c, "flag", "NewFlagSet") || len(c.Common().Args) != 2 {
				continue
			}
			n++
			k, ok := constInt(c.Common().Args[1])
			if !ok || k != want {
				return false
			}
		}
	}
	return n > 0
}
