package main

// Helper-extraction normalisation.
//
// The rules are anchored on the functions of the reference tree (inventory.txt:
// every function and method of the module at the commit the rules were
// confirmed against). A behaviour-preserving refactoring that moves part of an
// anchored function into a NEW helper would hide that part from rules that
// look at the anchored function's own body. Before the program is built,
// every call to a module function that is not in the inventory is therefore
// expanded in place at the syntax level (source-to-source, the result is
// type-checked again and only then turned into SSA), so that the anchored
// function is analysed with the helper's statements where the call was.
//
// The expansion is semantics-preserving by construction: arguments are bound
// to fresh variables of the parameter types in order, the callee's locals are
// renamed apart, `return v...` becomes an assignment to the call's targets
// followed by a `break` out of a labelled one-case switch. When the caller
// tests the helper's error result immediately (`if err != nil { ...; return }`)
// that test is copied to each return of the helper (and resolved where the
// returned error is syntactically nil / freshly constructed), which is the
// same program with the jump threaded. A helper that cannot be expanded
// (defer, recover, recursion, generics, variadic, name capture) is left as a
// call; the rules then see what they saw before this pass existed.
//
// On a tree whose functions are all in the inventory the pass changes nothing.

import (
	"bytes"
	_ "embed"
	"fmt"
	"go/ast"
	"go/format"
	"go/token"
	"go/types"
	"golang.org/x/tools/go/ast/astutil"
	"os"
	"reflect"
	"regexp"
	"sort"
	"strings"

	"golang.org/x/tools/go/packages"
)

//go:embed inventory.txt
var inventoryText string

// loadInventory: key -> signature (parameter and result types, names dropped).
func loadInventory() map[string]string {
	m := map[string]string{}
	for _, l := range strings.Split(inventoryText, "\n") {
		l = strings.TrimSpace(l)
		if l != "" && !strings.HasPrefix(l, "#") && !strings.HasPrefix(l, "field:") && !strings.HasPrefix(l, "const:") {
			k, sig, _ := strings.Cut(l, "\t")
			m[k] = sig
		}
	}
	return m
}

func sigString(sig *types.Signature) string {
	q := func(p *types.Package) string { return p.Path() }
	var ps, rs []string
	for i := 0; i < sig.Params().Len(); i++ {
		t := types.TypeString(sig.Params().At(i).Type(), q)
		if sig.Variadic() && i == sig.Params().Len()-1 {
			t = "..." + t
		}
		ps = append(ps, t)
	}
	for i := 0; i < sig.Results().Len(); i++ {
		rs = append(rs, types.TypeString(sig.Results().At(i).Type(), q))
	}
	return "(" + strings.Join(ps, ",") + ")(" + strings.Join(rs, ",") + ")"
}

// resolveRenames: a function of the tree that is not in the inventory takes the place of an inventory function
// that is gone when both are in the same package, have the same receiver type and the same signature, and the
// match is unique in both directions. Returns new key -> inventory key.
func resolveRenames(roots []*packages.Package, inv map[string]string) map[string]string {
	out := map[string]string{}
	for _, p := range roots {
		if !strings.HasPrefix(p.PkgPath, libPath) || p.TypesInfo == nil {
			continue
		}
		present := map[string]string{} // key -> sig
		for _, f := range p.Syntax {
			for _, d := range f.Decls {
				fd, ok := d.(*ast.FuncDecl)
				if !ok {
					continue
				}
				if fo, ok := p.TypesInfo.Defs[fd.Name].(*types.Func); ok {
					present[declKey(p.PkgPath, fd)] = sigString(fo.Type().(*types.Signature))
				}
			}
		}
		group := func(key, sig string) string {
			// package + receiver type + signature
			i := strings.LastIndex(key, ".")
			return key[:i] + "|" + sig
		}
		missing := map[string][]string{}
		for k, sig := range inv {
			if _, ok := present[k]; ok || sig == "" {
				continue
			}
			// same package only
			if pkgOfKey(k) != p.PkgPath {
				continue
			}
			missing[group(k, sig)] = append(missing[group(k, sig)], k)
		}
		added := map[string][]string{}
		for k, sig := range present {
			if _, ok := inv[k]; !ok {
				added[group(k, sig)] = append(added[group(k, sig)], k)
			}
		}
		for g, ms := range missing {
			as := added[g]
			if len(ms) == 1 && len(as) == 1 {
				out[as[0]] = ms[0]
				continue
			}
			// several functions of one signature renamed together: pair them by name similarity when every
			// inventory name has one clearly best partner and the pairing is one-to-one
			if len(ms) == len(as) && len(ms) > 1 {
				pair := map[string]string{}
				used := map[string]bool{}
				ok := true
				for _, m := range ms {
					best, second, bestA := -1.0, -1.0, ""
					for _, a := range as {
						mn, an := m[strings.LastIndex(m, ".")+1:], a[strings.LastIndex(a, ".")+1:]
						// letters in common, and (as a tie-break between siblings like …Local / …Remote whose words
						// were only reordered) the words in common
						sc := nameSimilarity(mn, an) + 0.5*wordSimilarity(mn, an)
						if sc > best {
							best, second, bestA = sc, best, a
						} else if sc > second {
							second = sc
						}
					}
					if bestA == "" || best < 0.6 || best-second < 0.02 || used[bestA] {
						ok = false
						break
					}
					used[bestA] = true
					pair[bestA] = m
				}
				if ok {
					for a, m := range pair {
						out[a] = m
					}
				}
			}
		}
	}
	return out
}

// nameSimilarity: 2*LCS/(len a + len b), in [0,1].
func nameSimilarity(a, b string) float64 {
	if len(a) == 0 || len(b) == 0 {
		return 0
	}
	prev := make([]int, len(b)+1)
	for i := 1; i <= len(a); i++ {
		cur := make([]int, len(b)+1)
		for j := 1; j <= len(b); j++ {
			if a[i-1] == b[j-1] {
				cur[j] = prev[j-1] + 1
			} else if prev[j] >= cur[j-1] {
				cur[j] = prev[j]
			} else {
				cur[j] = cur[j-1]
			}
		}
		prev = cur
	}
	return 2 * float64(prev[len(b)]) / float64(len(a)+len(b))
}

// camelWords splits an identifier into its lower-cased words.
func camelWords(s string) []string {
	var out []string
	cur := ""
	for i, c := range s {
		if i > 0 && c >= 'A' && c <= 'Z' && cur != "" {
			out = append(out, strings.ToLower(cur))
			cur = ""
		}
		cur += string(c)
	}
	if cur != "" {
		out = append(out, strings.ToLower(cur))
	}
	return out
}

// wordSimilarity: the share of words the two identifiers have in common (a word matches itself and its plural), in [0,1].
func wordSimilarity(a, b string) float64 {
	wa, wb := camelWords(a), camelWords(b)
	if len(wa) == 0 || len(wb) == 0 {
		return 0
	}
	used := make([]bool, len(wb))
	n := 0
	for _, x := range wa {
		for j, y := range wb {
			if !used[j] && (x == y || x+"s" == y || y+"s" == x) {
				used[j] = true
				n++
				break
			}
		}
	}
	d := len(wa)
	if len(wb) > d {
		d = len(wb)
	}
	return float64(n) / float64(d)
}

// pkgOfKey: the package path of an inventory key (pkg.F or pkg.T.M; package paths contain no dot after the last slash... they may: split by known prefixes).
func pkgOfKey(k string) string {
	best := ""
	for _, p := range []string{libPath + "/cmd/whispertool", libPath + "/cmd", libPath + "/internal/compattest", libPath} {
		if strings.HasPrefix(k, p+".") && len(p) > len(best) {
			best = p
		}
	}
	return best
}

// declKey: position-free name of a declared function: pkgpath.F or pkgpath.T.M.
func declKey(pkgPath string, fd *ast.FuncDecl) string {
	if fd.Recv == nil || len(fd.Recv.List) == 0 {
		return pkgPath + "." + fd.Name.Name
	}
	t := fd.Recv.List[0].Type
	for {
		switch x := t.(type) {
		case *ast.StarExpr:
			t = x.X
			continue
		case *ast.ParenExpr:
			t = x.X
			continue
		case *ast.IndexExpr:
			t = x.X
			continue
		case *ast.IndexListExpr:
			t = x.X
			continue
		}
		break
	}
	tn := "?"
	if id, ok := t.(*ast.Ident); ok {
		tn = id.Name
	}
	return pkgPath + "." + tn + "." + fd.Name.Name
}

func moduleFuncDecls(roots []*packages.Package) []string {
	var keys []string
	for _, p := range roots {
		if !strings.HasPrefix(p.PkgPath, libPath) {
			continue
		}
		for _, f := range p.Syntax {
			for _, d := range f.Decls {
				if fd, ok := d.(*ast.FuncDecl); ok {
					sig := ""
					if fo, ok := p.TypesInfo.Defs[fd.Name].(*types.Func); ok {
						sig = sigString(fo.Type().(*types.Signature))
					}
					keys = append(keys, declKey(p.PkgPath, fd)+"\t"+sig)
				}
			}
		}
	}
	sort.Strings(keys)
	return keys
}

// ---- cloning ----

type cloner struct{ orig map[ast.Node]ast.Node }

var posType = reflect.TypeOf(token.NoPos)

// position fields whose validity carries meaning for the printer
var keepPos = map[string]bool{"Ellipsis": true, "Lparen": true, "Rparen": true, "Assign": true, "Arrow": true}

func (c *cloner) node(n ast.Node) ast.Node {
	if n == nil {
		return nil
	}
	v := reflect.ValueOf(n)
	if v.Kind() == reflect.Ptr && v.IsNil() {
		return n
	}
	return c.val(v).Interface().(ast.Node)
}

func (c *cloner) expr(e ast.Expr) ast.Expr {
	if e == nil {
		return nil
	}
	return c.node(e).(ast.Expr)
}

func (c *cloner) stmts(l []ast.Stmt) []ast.Stmt {
	out := make([]ast.Stmt, len(l))
	for i, s := range l {
		out[i] = c.node(s).(ast.Stmt)
	}
	return out
}

func (c *cloner) exprs(l []ast.Expr) []ast.Expr {
	out := make([]ast.Expr, len(l))
	for i, s := range l {
		out[i] = c.expr(s)
	}
	return out
}

func (c *cloner) val(v reflect.Value) reflect.Value {
	switch v.Kind() {
	case reflect.Ptr:
		if v.IsNil() {
			return v
		}
		switch v.Interface().(type) {
		case *ast.Object, *ast.Scope, *ast.CommentGroup:
			return reflect.Zero(v.Type())
		}
		nv := reflect.New(v.Type().Elem())
		c.structInto(v.Elem(), nv.Elem())
		if on, ok := v.Interface().(ast.Node); ok {
			root := on
			if r, ok := c.orig[on]; ok {
				root = r
			}
			c.orig[nv.Interface().(ast.Node)] = root
		}
		return nv
	case reflect.Interface:
		if v.IsNil() {
			return v
		}
		e := c.val(v.Elem())
		nv := reflect.New(v.Type()).Elem()
		nv.Set(e)
		return nv
	case reflect.Slice:
		if v.IsNil() {
			return v
		}
		nv := reflect.MakeSlice(v.Type(), v.Len(), v.Len())
		for i := 0; i < v.Len(); i++ {
			nv.Index(i).Set(c.val(v.Index(i)))
		}
		return nv
	case reflect.Struct:
		nv := reflect.New(v.Type()).Elem()
		c.structInto(v, nv)
		return nv
	default:
		return v
	}
}

func (c *cloner) structInto(src, dst reflect.Value) {
	for i := 0; i < src.NumField(); i++ {
		f := src.Field(i)
		if f.Type() == posType {
			if keepPos[src.Type().Field(i).Name] && f.Int() != 0 {
				dst.Field(i).SetInt(1)
			}
			continue
		}
		dst.Field(i).Set(c.val(f))
	}
}

// ---- the pass ----

type normReport struct {
	Inlined map[string]int    // helper -> number of expanded call sites
	Refused map[string]string // helper -> reason it is left as a call
	Into    map[string]bool   // functions rewritten
	Dead    map[string]bool   // helpers with no remaining reference after expansion: excluded from the analysis
	Err     string
}

func (r *normReport) notes() []string {
	if r == nil || (len(r.Inlined) == 0 && len(r.Refused) == 0 && r.Err == "") {
		return nil
	}
	var out []string
	var ks []string
	for k := range r.Inlined {
		ks = append(ks, k)
	}
	sort.Strings(ks)
	for _, k := range ks {
		out = append(out, fmt.Sprintf("normalisation: %d call(s) to the non-inventory helper %s were expanded in place before analysis", r.Inlined[k], k))
	}
	ks = ks[:0]
	for k := range r.Refused {
		ks = append(ks, k)
	}
	sort.Strings(ks)
	for _, k := range ks {
		out = append(out, fmt.Sprintf("normalisation: non-inventory function %s is analysed as a call (%s)", k, r.Refused[k]))
	}
	if r.Err != "" {
		out = append(out, "normalisation abandoned, the tree is analysed as written: "+r.Err)
	}
	return out
}

type fileEdit struct {
	start, end int
	text       string
}

type pkgInliner struct {
	p       *packages.Package
	info    *types.Info
	rep     *normReport
	decls   map[*types.Func]*ast.FuncDecl
	fileOf  map[*ast.FuncDecl]*ast.File
	H       map[*types.Func]bool
	cl      *cloner
	counter int

	H0        map[*types.Func]bool             // helpers at the start (before refusals)
	finalBody map[*ast.FuncDecl]*ast.BlockStmt // rewritten bodies

	softRefused  map[string]string
	expanded     map[*types.Func]*ast.BlockStmt  // helper -> its body with nested helper calls expanded
	expandedDeps map[*types.Func][]*ast.FuncDecl // helpers whose code is part of an expanded body
	curHelper    *types.Func                     // the helper whose own body is being expanded (bottom-up phase), or nil
	tailReturn   bool                            // the call being expanded is the operand of a return statement

	curDecl    *ast.FuncDecl
	curFile    *ast.File
	curLocals  map[string]bool
	addImports map[*ast.File]map[string]string
	compatMemo map[[2]*ast.FuncDecl]string
}

// normalise returns an overlay (file name -> new content) or nil.
func normalise(roots []*packages.Package, inv map[string]string, base map[string][]byte) (map[string][]byte, *normReport) {
	rep := &normReport{Inlined: map[string]int{}, Refused: map[string]string{}, Into: map[string]bool{}}
	overlay := map[string][]byte{}
	collectSentinelVars(roots)
	counter := 0
	var inliners []*pkgInliner
	defer func() {
		// only helpers that were expanded somewhere can be dead; a new function nobody calls (new API) stays analysed
		rep.Dead = map[string]bool{}
		for k := range deadHelpers(inliners) {
			if rep.Inlined[k] > 0 {
				rep.Dead[k] = true
			}
		}
	}()
	for _, p := range roots {
		if !strings.HasPrefix(p.PkgPath, libPath) || p.TypesInfo == nil {
			continue
		}
		in := &pkgInliner{p: p, info: p.TypesInfo, rep: rep, decls: map[*types.Func]*ast.FuncDecl{}, fileOf: map[*ast.FuncDecl]*ast.File{},
			H: map[*types.Func]bool{}, expanded: map[*types.Func]*ast.BlockStmt{}, expandedDeps: map[*types.Func][]*ast.FuncDecl{}, softRefused: map[string]string{}, cl: &cloner{orig: map[ast.Node]ast.Node{}}, addImports: map[*ast.File]map[string]string{}, compatMemo: map[[2]*ast.FuncDecl]string{}, counter: counter}
		edits := in.run(inv)
		for k, v := range in.softRefused {
			if _, ok := rep.Refused[k]; !ok {
				rep.Refused[k] = v
			}
		}
		inliners = append(inliners, in)
		counter = in.counter
		for f, es := range edits {
			name := p.Fset.Position(f.Pos()).Filename
			src, ok := base[name]
			if !ok {
				var err error
				src, err = os.ReadFile(name)
				if err != nil {
					rep.Err = err.Error()
					return nil, rep
				}
			}
			if imps := in.addImports[f]; len(imps) > 0 {
				var names []string
				for n := range imps {
					names = append(names, n)
				}
				sort.Strings(names)
				var sb strings.Builder
				for _, n := range names {
					fmt.Fprintf(&sb, "\nimport %s %q\n", n, imps[n])
				}
				off := p.Fset.Position(f.Name.End()).Offset
				es = append(es, fileEdit{start: off, end: off, text: sb.String()})
			}
			sort.Slice(es, func(i, j int) bool { return es[i].start > es[j].start })
			for _, e := range es {
				src = append(append(append([]byte{}, src[:e.start]...), e.text...), src[e.end:]...)
			}
			overlay[name] = src
		}
	}
	if len(overlay) == 0 {
		return nil, rep
	}
	return overlay, rep
}

func (in *pkgInliner) run(inv map[string]string) map[*ast.File][]fileEdit {
	var order []*ast.FuncDecl
	for _, f := range in.p.Syntax {
		for _, d := range f.Decls {
			fd, ok := d.(*ast.FuncDecl)
			if !ok || fd.Body == nil {
				continue
			}
			obj, _ := in.info.Defs[fd.Name].(*types.Func)
			if obj == nil {
				continue
			}
			in.decls[obj] = fd
			in.fileOf[fd] = f
			order = append(order, fd)
			if _, known := inv[declKey(in.p.PkgPath, fd)]; !known {
				if why := in.inlinable(fd); why != "" {
					in.rep.Refused[declKey(in.p.PkgPath, fd)] = why
				} else {
					in.H[obj] = true
				}
			}
		}
	}
	if len(in.H) == 0 {
		return nil
	}
	// helpers on a call cycle among helpers are left alone
	callsOf := func(fd *ast.FuncDecl) []*types.Func {
		var out []*types.Func
		ast.Inspect(fd.Body, func(n ast.Node) bool {
			if c, ok := n.(*ast.CallExpr); ok {
				if fo := in.calleeObj(c); fo != nil && in.H[fo] {
					out = append(out, fo)
				}
			}
			return true
		})
		return out
	}
	for h := range in.H {
		seen := map[*types.Func]bool{}
		var stack []*types.Func
		stack = append(stack, callsOf(in.decls[h])...)
		cyc := false
		for len(stack) > 0 {
			x := stack[len(stack)-1]
			stack = stack[:len(stack)-1]
			if x == h {
				cyc = true
				break
			}
			if seen[x] {
				continue
			}
			seen[x] = true
			stack = append(stack, callsOf(in.decls[x])...)
		}
		if cyc {
			in.rep.Refused[declKey(in.p.PkgPath, in.decls[h])] = "recursive"
			delete(in.H, h)
		}
	}
	if len(in.H) == 0 {
		return nil
	}
	in.H0 = map[*types.Func]bool{}
	for h := range in.H {
		in.H0[h] = true
	}
	in.finalBody = map[*ast.FuncDecl]*ast.BlockStmt{}
	// helpers first, callees before callers: a helper's body is expanded before it is itself expanded elsewhere,
	// so that guards inside it still see plain return statements
	var topo []*types.Func
	state := map[*types.Func]int{}
	var visit func(h *types.Func)
	visit = func(h *types.Func) {
		if state[h] != 0 {
			return
		}
		state[h] = 1
		cs := callsOf(in.decls[h])
		sort.Slice(cs, func(i, j int) bool { return cs[i].Name() < cs[j].Name() })
		for _, g := range cs {
			visit(g)
		}
		state[h] = 2
		topo = append(topo, h)
	}
	var hs []*types.Func
	for h := range in.H {
		hs = append(hs, h)
	}
	sort.Slice(hs, func(i, j int) bool { return hs[i].FullName() < hs[j].FullName() })
	for _, h := range hs {
		visit(h)
	}
	for _, h := range topo {
		fd := in.decls[h]
		if len(callsOf(fd)) == 0 {
			continue
		}
		in.curDecl, in.curFile = fd, in.fileOf[fd]
		in.curLocals = in.localNames(fd)
		in.curHelper = h
		body := in.cl.node(fd.Body).(*ast.BlockStmt)
		for round := 0; round < 40; round++ {
			if !in.round(body) {
				break
			}
		}
		in.expanded[h] = body
	}
	in.curHelper = nil
	edits := map[*ast.File][]fileEdit{}
	for _, fd := range order {
		obj := in.info.Defs[fd.Name].(*types.Func)
		if in.H[obj] {
			continue
		}
		has := false
		ast.Inspect(fd.Body, func(n ast.Node) bool {
			if c, ok := n.(*ast.CallExpr); ok {
				if fo := in.calleeObj(c); fo != nil && in.H[fo] {
					has = true
				}
			}
			return !has
		})
		if !has {
			continue
		}
		in.curDecl, in.curFile = fd, in.fileOf[fd]
		in.curLocals = in.localNames(fd)
		body := in.cl.node(fd.Body).(*ast.BlockStmt)
		changedAny := false
		for round := 0; round < 40; round++ {
			if !in.round(body) {
				break
			}
			changedAny = true
		}
		if !changedAny {
			continue
		}
		in.finalBody[fd] = body
		nd := &ast.FuncDecl{Name: ast.NewIdent(fd.Name.Name), Type: in.cl.node(fd.Type).(*ast.FuncType), Body: body}
		if fd.Recv != nil {
			nd.Recv = in.cl.node(fd.Recv).(*ast.FieldList)
		}
		var buf bytes.Buffer
		if err := format.Node(&buf, token.NewFileSet(), nd); err != nil {
			in.rep.Err = fmt.Sprintf("printing %s: %v", fd.Name.Name, err)
			return nil
		}
		f := in.fileOf[fd]
		edits[f] = append(edits[f], fileEdit{start: in.p.Fset.Position(fd.Pos()).Offset, end: in.p.Fset.Position(fd.End()).Offset, text: buf.String()})
		in.rep.Into[declKey(in.p.PkgPath, fd)] = true
	}
	return edits
}

func (in *pkgInliner) inlinable(fd *ast.FuncDecl) string {
	if fd.Type.TypeParams != nil && len(fd.Type.TypeParams.List) > 0 {
		return "generic"
	}
	if fd.Recv != nil && len(fd.Recv.List) == 1 {
		t := fd.Recv.List[0].Type
		if s, ok := t.(*ast.StarExpr); ok {
			t = s.X
		}
		if _, ok := t.(*ast.Ident); !ok {
			return "receiver type is not a plain named type"
		}
	}
	if fd.Type.Params != nil {
		for _, f := range fd.Type.Params.List {
			if _, ok := f.Type.(*ast.Ellipsis); ok {
				return "variadic"
			}
		}
	}
	why := ""
	ast.Inspect(fd.Body, func(n ast.Node) bool {
		switch x := n.(type) {
		case *ast.BranchStmt:
			if x.Tok == token.GOTO {
				why = "contains goto"
			}
		case *ast.CallExpr:
			if id, ok := x.Fun.(*ast.Ident); ok && id.Name == "recover" {
				why = "calls recover"
			}
		}
		return why == ""
	})
	return why
}

// hasDefer: a helper that defers can only be expanded where its call is the operand of a return statement
// (its deferred calls then still run when that return executes, before the caller's own).
func hasDefer(body *ast.BlockStmt) bool {
	found := false
	ast.Inspect(body, func(n ast.Node) bool {
		switch n.(type) {
		case *ast.FuncLit:
			return false
		case *ast.DeferStmt:
			found = true
		}
		return !found
	})
	return found
}

var reSynthLabel = regexp.MustCompile(`^ret(_i\d+)+$`)

// bodyOf: the body of helper fo with the helper calls inside it already expanded (helpers are processed callees first).
func (in *pkgInliner) bodyOf(fo *types.Func) *ast.BlockStmt {
	if b := in.expanded[fo]; b != nil {
		return b
	}
	return in.decls[fo].Body
}

func (in *pkgInliner) o(n ast.Node) ast.Node {
	if r, ok := in.cl.orig[n]; ok {
		return r
	}
	return n
}

func (in *pkgInliner) objOf(id *ast.Ident) types.Object {
	oid, ok := in.o(id).(*ast.Ident)
	if !ok {
		return nil
	}
	return in.info.ObjectOf(oid)
}

func unparen(e ast.Expr) ast.Expr {
	for {
		p, ok := e.(*ast.ParenExpr)
		if !ok {
			return e
		}
		e = p.X
	}
}

// calleeObj resolves the statically called same-package function or method of a call (clone or original).
func (in *pkgInliner) calleeObj(c *ast.CallExpr) *types.Func {
	switch f := unparen(c.Fun).(type) {
	case *ast.Ident:
		fo, _ := in.objOf(f).(*types.Func)
		return fo
	case *ast.SelectorExpr:
		os, ok := in.o(f).(*ast.SelectorExpr)
		if !ok {
			return nil
		}
		if sel := in.info.Selections[os]; sel != nil && sel.Kind() == types.MethodVal {
			fo, _ := sel.Obj().(*types.Func)
			return fo
		}
	}
	return nil
}

// hcall: e is (a parenthesised) call of a helper to be expanded.
func (in *pkgInliner) hcall(e ast.Expr) (*ast.CallExpr, *types.Func) {
	c, ok := unparen(e).(*ast.CallExpr)
	if !ok {
		return nil, nil
	}
	fo := in.calleeObj(c)
	if fo == nil || !in.H[fo] {
		return nil, nil
	}
	return c, fo
}

func (in *pkgInliner) hasH(n ast.Node) bool {
	if n == nil || reflect.ValueOf(n).IsNil() {
		return false
	}
	has := false
	ast.Inspect(n, func(x ast.Node) bool {
		if _, ok := x.(*ast.FuncLit); ok {
			return false
		}
		if c, ok := x.(*ast.CallExpr); ok {
			if fo := in.calleeObj(c); fo != nil && in.H[fo] {
				has = true
			}
		}
		return !has
	})
	return has
}

func (in *pkgInliner) localNames(fd *ast.FuncDecl) map[string]bool {
	m := map[string]bool{}
	for id, obj := range in.info.Defs {
		if obj == nil || id.Pos() < fd.Pos() || id.Pos() >= fd.End() {
			continue
		}
		if v, ok := obj.(*types.Var); ok && v.IsField() {
			continue
		}
		m[id.Name] = true
	}
	ast.Inspect(fd, func(n ast.Node) bool {
		if ts, ok := n.(*ast.TypeSwitchStmt); ok {
			if as, ok := ts.Assign.(*ast.AssignStmt); ok && len(as.Lhs) == 1 {
				if id, ok := as.Lhs[0].(*ast.Ident); ok {
					m[id.Name] = true
				}
			}
		}
		return true
	})
	return m
}

// compat: can callee be expanded inside the function being rewritten? "" = yes.
func (in *pkgInliner) compat(callee *ast.FuncDecl) string {
	key := [2]*ast.FuncDecl{callee, in.curDecl}
	if s, ok := in.compatMemo[key]; ok {
		return s
	}
	res := ""
	pkgScope := in.p.Types.Scope()
	need := map[string]string{}
	visit := func(n ast.Node) bool {
		id, ok := n.(*ast.Ident)
		if !ok {
			return true
		}
		obj := in.info.ObjectOf(id)
		if obj == nil {
			return true
		}
		if pn, ok := obj.(*types.PkgName); ok {
			need[pn.Name()] = pn.Imported().Path()
			if in.curLocals[pn.Name()] {
				res = "the caller declares a local named like the import " + pn.Name()
			}
			return true
		}
		if obj.Parent() == pkgScope || obj.Parent() == types.Universe {
			if in.curLocals[id.Name] {
				res = "the caller declares a local that would capture " + id.Name
			}
		}
		return true
	}
	if callee.Recv != nil {
		ast.Inspect(callee.Recv, visit)
	}
	ast.Inspect(callee.Type, visit)
	ast.Inspect(callee.Body, visit)
	if fo, ok := in.info.Defs[callee.Name].(*types.Func); ok {
		for _, dep := range in.expandedDeps[fo] {
			ast.Inspect(dep.Type, visit)
			ast.Inspect(dep.Body, visit)
		}
	}
	if res == "" && in.fileOf[callee] != in.curFile {
		have := map[string]string{}
		for _, spec := range in.curFile.Imports {
			var pn *types.PkgName
			if spec.Name != nil {
				pn, _ = in.info.Defs[spec.Name].(*types.PkgName)
			} else {
				pn, _ = in.info.Implicits[spec].(*types.PkgName)
			}
			if pn != nil {
				have[pn.Name()] = pn.Imported().Path()
			}
		}
		for n, p := range in.addImports[in.curFile] {
			have[n] = p
		}
		for n, p := range need {
			if hp, ok := have[n]; ok {
				if hp != p {
					res = "import name " + n + " means a different package in the caller's file"
				}
				continue
			}
			if in.addImports[in.curFile] == nil {
				in.addImports[in.curFile] = map[string]string{}
			}
			in.addImports[in.curFile][n] = p
		}
	}
	in.compatMemo[key] = res
	return res
}

// round rewrites every statement list of body once; reports whether anything changed.
func (in *pkgInliner) round(body *ast.BlockStmt) bool {
	if in.substituteExprHelpers(body) {
		return true
	}
	var holders []ast.Node
	ast.Inspect(body, func(n ast.Node) bool {
		switch n.(type) {
		case *ast.BlockStmt, *ast.CaseClause, *ast.CommClause:
			holders = append(holders, n)
		}
		return true
	})
	changed := false
	for _, h := range holders {
		var list []ast.Stmt
		switch x := h.(type) {
		case *ast.BlockStmt:
			list = x.List
		case *ast.CaseClause:
			list = x.Body
		case *ast.CommClause:
			list = x.Body
		}
		nl, ch := in.rewriteList(list)
		if !ch {
			continue
		}
		changed = true
		switch x := h.(type) {
		case *ast.BlockStmt:
			x.List = nl
		case *ast.CaseClause:
			x.Body = nl
		case *ast.CommClause:
			x.Body = nl
		}
	}
	return changed
}

func (in *pkgInliner) rewriteList(list []ast.Stmt) ([]ast.Stmt, bool) {
	var out []ast.Stmt
	changed := false
	for i := 0; i < len(list); i++ {
		if repl, used, ok := in.expandStmt(list[i], list[i+1:]); ok {
			out = append(out, repl...)
			i += used
			changed = true
			continue
		}
		out = append(out, list[i])
	}
	return out, changed
}

// ---- signature helpers ----

type param struct {
	name string // "" or "_" = unnamed
	typ  ast.Expr
	id   *ast.Ident // the declaring identifier (nil when unnamed)
}

func flatten(fl *ast.FieldList) []param {
	var out []param
	if fl == nil {
		return nil
	}
	for _, f := range fl.List {
		if len(f.Names) == 0 {
			out = append(out, param{"", f.Type, nil})
			continue
		}
		for _, n := range f.Names {
			out = append(out, param{n.Name, f.Type, n})
		}
	}
	return out
}

func ident(name string) *ast.Ident { return ast.NewIdent(name) }

// identLike: a new identifier that stands for the same variable as tmpl (it is renamed together with it when the
// code is expanded again elsewhere).
func (in *pkgInliner) identLike(tmpl *ast.Ident, name string) *ast.Ident {
	n := ast.NewIdent(name)
	if tmpl != nil {
		if o, ok := in.cl.orig[tmpl]; ok {
			in.cl.orig[n] = o
		} else {
			in.cl.orig[n] = tmpl
		}
	}
	return n
}

func varDeclID(id *ast.Ident, typ ast.Expr, val ast.Expr) ast.Stmt {
	vs := &ast.ValueSpec{Names: []*ast.Ident{id}, Type: typ}
	if val != nil {
		vs.Values = []ast.Expr{val}
	}
	return &ast.DeclStmt{Decl: &ast.GenDecl{Tok: token.VAR, Specs: []ast.Spec{vs}}}
}

func useStmtID(id *ast.Ident) ast.Stmt {
	return &ast.AssignStmt{Lhs: []ast.Expr{ident("_")}, Tok: token.ASSIGN, Rhs: []ast.Expr{id}}
}

func varDecl(name string, typ ast.Expr, val ast.Expr) ast.Stmt {
	vs := &ast.ValueSpec{Names: []*ast.Ident{ident(name)}, Type: typ}
	if val != nil {
		vs.Values = []ast.Expr{val}
	}
	return &ast.DeclStmt{Decl: &ast.GenDecl{Tok: token.VAR, Specs: []ast.Spec{vs}}}
}

func useStmt(name string) ast.Stmt {
	return &ast.AssignStmt{Lhs: []ast.Expr{ident("_")}, Tok: token.ASSIGN, Rhs: []ast.Expr{ident(name)}}
}

func assign(lhs, rhs []ast.Expr) ast.Stmt {
	return &ast.AssignStmt{Lhs: lhs, Tok: token.ASSIGN, Rhs: rhs}
}

func isBlank(e ast.Expr) bool {
	id, ok := e.(*ast.Ident)
	return ok && id.Name == "_"
}

// ---- statement expansion ----

func (in *pkgInliner) expandStmt(s ast.Stmt, rest []ast.Stmt) (repl []ast.Stmt, usedNext int, ok bool) {
	switch st := s.(type) {
	case *ast.ExprStmt:
		if call, fo := in.hcall(st.X); call != nil {
			if blk := in.inlineCall(call, fo, nil, nil); blk != nil {
				return []ast.Stmt{blk}, 0, true
			}
			return nil, 0, false
		}
	case *ast.AssignStmt:
		if len(st.Rhs) == 1 && (st.Tok == token.DEFINE || st.Tok == token.ASSIGN) {
			if call, fo := in.hcall(st.Rhs[0]); call != nil {
				fd := in.decls[fo]
				res := flatten(fd.Type.Results)
				if len(res) != len(st.Lhs) {
					return nil, 0, false
				}
				var pre, post []ast.Stmt
				if st.Tok == token.DEFINE {
					for i, l := range st.Lhs {
						id, isId := l.(*ast.Ident)
						if !isId {
							return nil, 0, false
						}
						if id.Name == "_" {
							continue
						}
						oid, _ := in.o(id).(*ast.Ident)
						if oid != nil && in.info.Defs[oid] != nil {
							// the new variable must not be read by the arguments (they would see the outer one)
							used := false
							ast.Inspect(call, func(n ast.Node) bool {
								if x, ok := n.(*ast.Ident); ok && x.Name == id.Name {
									used = true
								}
								return true
							})
							if used {
								return nil, 0, false
							}
							pre = append(pre, varDeclID(in.identLike(id, id.Name), in.cl.expr(res[i].typ), nil))
							post = append(post, useStmtID(in.identLike(id, id.Name)))
						}
					}
				}
				guards := in.threadable(st, fo, rest)
				if returnInLoop(in.bodyOf(fo)) {
					// a guard ending in `continue` cannot be copied to a return that sits inside a loop of the helper
					for i, g := range guards {
						if g.hasCont {
							guards = guards[:i]
							break
						}
					}
				}
				blk := in.inlineCall(call, fo, st.Lhs, guards)
				if blk == nil {
					return nil, 0, false
				}
				out := append(pre, blk)
				out = append(out, post...)
				return out, len(guards), true
			}
		}
	case *ast.ReturnStmt:
		// `return h(...)`: the helper's returns become returns of the caller
		if len(st.Results) == 1 {
			if call, fo := in.hcall(st.Results[0]); call != nil {
				in.tailReturn = true
				blk := in.inlineCall(call, fo, nil, nil)
				in.tailReturn = false
				if blk == nil {
					return nil, 0, false
				}
				return []ast.Stmt{blk}, 0, true
			}
		}
	case *ast.IfStmt:
		// else-if links whose header needs expansion become else { if ... }
		for e := st; ; {
			nx, isIf := e.Else.(*ast.IfStmt)
			if !isIf {
				break
			}
			if in.hasH(nx.Init) || in.hasH(nx.Cond) {
				e.Else = &ast.BlockStmt{List: []ast.Stmt{nx}}
				return []ast.Stmt{st}, 0, true
			}
			e = nx
		}
		if st.Init != nil && (in.hasH(st.Init) || in.hasH(st.Cond)) {
			init := st.Init
			st.Init = nil
			return []ast.Stmt{&ast.BlockStmt{List: []ast.Stmt{init, st}}}, 0, true
		}
	case *ast.SwitchStmt:
		if st.Init != nil && (in.hasH(st.Init) || in.hasH(st.Tag)) {
			init := st.Init
			st.Init = nil
			return []ast.Stmt{&ast.BlockStmt{List: []ast.Stmt{init, st}}}, 0, true
		}
	case *ast.TypeSwitchStmt:
		if st.Init != nil && in.hasH(st.Init) {
			init := st.Init
			st.Init = nil
			return []ast.Stmt{&ast.BlockStmt{List: []ast.Stmt{init, st}}}, 0, true
		}
	}
	// generic: hoist the first helper call in an unconditionally evaluated position
	var slots []*ast.Expr
	switch st := s.(type) {
	case *ast.ExprStmt:
		slots = append(slots, &st.X)
	case *ast.AssignStmt:
		for i := range st.Lhs {
			slots = append(slots, &st.Lhs[i])
		}
		for i := range st.Rhs {
			slots = append(slots, &st.Rhs[i])
		}
	case *ast.ReturnStmt:
		for i := range st.Results {
			slots = append(slots, &st.Results[i])
		}
	case *ast.IfStmt:
		if st.Init == nil {
			slots = append(slots, &st.Cond)
		}
	case *ast.SwitchStmt:
		if st.Init == nil && st.Tag != nil {
			slots = append(slots, &st.Tag)
		}
	case *ast.RangeStmt:
		slots = append(slots, &st.X)
	case *ast.SendStmt:
		slots = append(slots, &st.Chan, &st.Value)
	case *ast.IncDecStmt:
		slots = append(slots, &st.X)
	case *ast.DeclStmt:
		if gd, ok := st.Decl.(*ast.GenDecl); ok && gd.Tok == token.VAR {
			for _, sp := range gd.Specs {
				if vs, ok := sp.(*ast.ValueSpec); ok {
					for i := range vs.Values {
						slots = append(slots, &vs.Values[i])
					}
				}
			}
		}
	case *ast.GoStmt:
		for i := range st.Call.Args {
			slots = append(slots, &st.Call.Args[i])
		}
	case *ast.DeferStmt:
		for i := range st.Call.Args {
			slots = append(slots, &st.Call.Args[i])
		}
	}
	for _, sl := range slots {
		if pe := in.findHoist(sl); pe != nil {
			call, fo := in.hcall(*pe)
			fd := in.decls[fo]
			res := flatten(fd.Type.Results)
			k := in.counter
			tn := fmt.Sprintf("tmp_r%d", k)
			blk := in.inlineCall(call, fo, []ast.Expr{ident(tn)}, nil)
			if blk == nil {
				return nil, 0, false
			}
			*pe = ident(tn)
			return []ast.Stmt{varDecl(tn, in.cl.expr(res[0].typ), nil), blk, s}, 0, true
		}
	}
	return nil, 0, false
}

// findHoist returns the slot of the first (evaluation order) single-result helper call inside *pe that is evaluated unconditionally.
func (in *pkgInliner) findHoist(pe *ast.Expr) *ast.Expr {
	if pe == nil || *pe == nil {
		return nil
	}
	switch e := (*pe).(type) {
	case *ast.ParenExpr:
		return in.findHoist(&e.X)
	case *ast.CallExpr:
		if sel, ok := e.Fun.(*ast.SelectorExpr); ok {
			if r := in.findHoist(&sel.X); r != nil {
				return r
			}
		}
		for i := range e.Args {
			if r := in.findHoist(&e.Args[i]); r != nil {
				return r
			}
		}
		if _, fo := in.hcall(e); fo != nil {
			if len(flatten(in.decls[fo].Type.Results)) == 1 {
				return pe
			}
		}
	case *ast.UnaryExpr:
		return in.findHoist(&e.X)
	case *ast.BinaryExpr:
		if r := in.findHoist(&e.X); r != nil {
			return r
		}
		if e.Op != token.LAND && e.Op != token.LOR {
			return in.findHoist(&e.Y)
		}
	case *ast.IndexExpr:
		if r := in.findHoist(&e.X); r != nil {
			return r
		}
		return in.findHoist(&e.Index)
	case *ast.SliceExpr:
		for _, x := range []*ast.Expr{&e.X, &e.Low, &e.High, &e.Max} {
			if r := in.findHoist(x); r != nil {
				return r
			}
		}
	case *ast.StarExpr:
		return in.findHoist(&e.X)
	case *ast.SelectorExpr:
		return in.findHoist(&e.X)
	case *ast.TypeAssertExpr:
		return in.findHoist(&e.X)
	case *ast.CompositeLit:
		for i := range e.Elts {
			if kv, ok := e.Elts[i].(*ast.KeyValueExpr); ok {
				if r := in.findHoist(&kv.Value); r != nil {
					return r
				}
				continue
			}
			if r := in.findHoist(&e.Elts[i]); r != nil {
				return r
			}
		}
	}
	return nil
}

// guard: one `if <test of a single result> { ...; return/panic/continue }` (no else, no init) that directly
// follows the call; the chain of such statements is copied to every return of the helper, where the test is
// decided when the returned value is a literal (nil, true, false) or a freshly built error.
type guard struct {
	ifs     *ast.IfStmt
	idx     int
	kind    int // gErr: body runs when the value is non-nil; gTrue / gFalse: when the boolean is true / false
	hasCont bool
}

const (
	gErr = iota
	gTrue
	gFalse
)

func (in *pkgInliner) threadable(as *ast.AssignStmt, fo *types.Func, rest []ast.Stmt) []guard {
	sig := fo.Type().(*types.Signature)
	n := sig.Results().Len()
	if n == 0 || n != len(as.Lhs) {
		return nil
	}
	// the guards are evaluated after the call's targets were assigned, so any condition is fine; they are worth
	// copying when they test at least one of the targets
	names := map[string]bool{}
	for _, l := range as.Lhs {
		if id, ok := l.(*ast.Ident); ok && id.Name != "_" {
			names[id.Name] = true
		} else if !isBlank(l) {
			return nil // a target that is not a plain variable: keep the call's continuation as it is
		}
	}
	var out []guard
	for _, st := range rest {
		ifs, ok := st.(*ast.IfStmt)
		if !ok || ifs.Init != nil || ifs.Else != nil || len(ifs.Body.List) == 0 {
			break
		}
		mentions := false
		pure := true
		ast.Inspect(ifs.Cond, func(n ast.Node) bool {
			switch x := n.(type) {
			case *ast.Ident:
				if names[x.Name] {
					mentions = true
				}
			case *ast.FuncLit:
				pure = false
			}
			return true
		})
		if !mentions || !pure {
			break
		}
		g := guard{ifs: ifs, idx: 0}
		switch last := ifs.Body.List[len(ifs.Body.List)-1].(type) {
		case *ast.ReturnStmt:
		case *ast.BranchStmt:
			if last.Tok != token.CONTINUE || last.Label != nil {
				g.idx = -1
			}
		case *ast.ExprStmt:
			c, ok := last.X.(*ast.CallExpr)
			if !ok {
				g.idx = -1
			} else if id, ok := c.Fun.(*ast.Ident); !ok || id.Name != "panic" {
				g.idx = -1
			}
		default:
			g.idx = -1
		}
		if g.idx < 0 {
			break
		}
		bad := false
		for i, bs := range ifs.Body.List {
			isLast := i == len(ifs.Body.List)-1
			ast.Inspect(bs, func(n ast.Node) bool {
				switch x := n.(type) {
				case *ast.FuncLit:
					return false
				case *ast.LabeledStmt:
					bad = true
				case *ast.BranchStmt:
					if isLast && n == ast.Node(bs) && x.Tok == token.CONTINUE {
						g.hasCont = true
					} else {
						bad = true
					}
				}
				return !bad
			})
		}
		if bad {
			break
		}
		out = append(out, g)
	}
	return out
}

// partialCond evaluates condition c knowing the literal class of some variables (synNil, synNonNil, synTrue,
// synFalse by name). Returns (decided, value, residual): residual is the simplified condition when not decided.
func partialCond(c ast.Expr, known map[string]int) (bool, bool, ast.Expr) {
	switch x := c.(type) {
	case *ast.ParenExpr:
		d, v, r := partialCond(x.X, known)
		if d {
			return true, v, nil
		}
		return false, false, &ast.ParenExpr{X: r}
	case *ast.Ident:
		switch known[x.Name] {
		case synTrue:
			return true, true, nil
		case synFalse:
			return true, false, nil
		}
	case *ast.UnaryExpr:
		if x.Op == token.NOT {
			d, v, r := partialCond(x.X, known)
			if d {
				return true, !v, nil
			}
			return false, false, &ast.UnaryExpr{Op: token.NOT, X: r}
		}
	case *ast.BinaryExpr:
		switch x.Op {
		case token.LAND, token.LOR:
			dl, vl, rl := partialCond(x.X, known)
			dr, vr, rr := partialCond(x.Y, known)
			isAnd := x.Op == token.LAND
			if dl {
				if vl != isAnd { // false && _  /  true || _
					return true, vl, nil
				}
				// true && y  /  false || y  ==  y
				if dr {
					return true, vr, nil
				}
				return false, false, rr
			}
			if dr && vr == isAnd { // x && true / x || false == x
				return false, false, rl
			}
			if dr {
				// x && false / x || true: x is still evaluated; keep the literal on the right
				lit := "false"
				if vr {
					lit = "true"
				}
				return false, false, &ast.BinaryExpr{X: rl, Op: x.Op, Y: ast.NewIdent(lit)}
			}
			return false, false, &ast.BinaryExpr{X: rl, Op: x.Op, Y: rr}
		case token.EQL, token.NEQ:
			xi, xok := unparen(x.X).(*ast.Ident)
			yi, yok := unparen(x.Y).(*ast.Ident)
			if xok && yok {
				var v *ast.Ident
				if yi.Name == "nil" {
					v = xi
				} else if xi.Name == "nil" {
					v = yi
				}
				if v != nil {
					switch known[v.Name] {
					case synNil:
						return true, x.Op == token.EQL, nil
					case synNonNil:
						return true, x.Op == token.NEQ, nil
					}
				}
			}
		}
	}
	return false, false, c
}

// boolTestIdent: c is `x`, `!x`, `x == true/false`, `x != true/false`; pol = the value of x for which c holds.
func boolTestIdent(c ast.Expr) (string, bool) {
	pol := true
	e := unparen(c)
	for i := 0; i < 4; i++ {
		switch x := e.(type) {
		case *ast.UnaryExpr:
			if x.Op == token.NOT {
				pol = !pol
				e = unparen(x.X)
				continue
			}
		case *ast.BinaryExpr:
			if x.Op == token.EQL || x.Op == token.NEQ {
				var other ast.Expr
				lit := ""
				if id, ok := unparen(x.Y).(*ast.Ident); ok && (id.Name == "true" || id.Name == "false") {
					lit, other = id.Name, x.X
				} else if id, ok := unparen(x.X).(*ast.Ident); ok && (id.Name == "true" || id.Name == "false") {
					lit, other = id.Name, x.Y
				}
				if lit != "" {
					if (lit == "true") != (x.Op == token.EQL) {
						pol = !pol
					}
					e = unparen(other)
					continue
				}
			}
		}
		break
	}
	if id, ok := e.(*ast.Ident); ok && id.Name != "true" && id.Name != "false" && id.Name != "nil" {
		return id.Name, pol
	}
	return "", false
}

func nonNilTestIdent(c ast.Expr) string {
	b, ok := unparen(c).(*ast.BinaryExpr)
	if !ok || b.Op != token.NEQ {
		return ""
	}
	x, xok := unparen(b.X).(*ast.Ident)
	y, yok := unparen(b.Y).(*ast.Ident)
	if !xok || !yok {
		return ""
	}
	if y.Name == "nil" && x.Name != "nil" {
		return x.Name
	}
	if x.Name == "nil" && y.Name != "nil" {
		return y.Name
	}
	return ""
}

// inlineCall expands one call; lhs (may be nil) receive the results. nil = refused.
func (in *pkgInliner) inlineCall(call *ast.CallExpr, fo *types.Func, lhs []ast.Expr, guards []guard) *ast.BlockStmt {
	fd := in.decls[fo]
	key := declKey(in.p.PkgPath, fd)
	refuse := func(why string) *ast.BlockStmt {
		if _, ok := in.rep.Refused[key]; !ok {
			in.rep.Refused[key] = why
		}
		// stop trying: treat as an ordinary function from now on
		delete(in.H, fo)
		return nil
	}
	if hasDefer(in.bodyOf(fo)) && !(onlyBodyCloseDefers(in.bodyOf(fo)) && !in.tailReturn) {
		if !in.tailReturn {
			in.softRefused[key] = "defers, and is called outside a return statement"
			return nil
		}
		if fd.Type.Results != nil && len(fd.Type.Results.List) > 0 && len(fd.Type.Results.List[0].Names) > 0 {
			in.softRefused[key] = "defers and has named results"
			return nil
		}
	}
	if call.Ellipsis.IsValid() {
		return refuse("called with ...")
	}
	params := flatten(fd.Type.Params)
	if len(call.Args) != len(params) {
		return refuse("argument count differs from parameter count")
	}
	if why := in.compat(fd); why != "" {
		return refuse(why)
	}
	// receiver
	var recvArg ast.Expr
	if fd.Recv != nil {
		sel, ok := unparen(call.Fun).(*ast.SelectorExpr)
		if !ok {
			return refuse("method called through a value")
		}
		osel, _ := in.o(sel).(*ast.SelectorExpr)
		if osel == nil {
			return refuse("receiver not resolved")
		}
		s := in.info.Selections[osel]
		if s == nil || len(s.Index()) != 1 {
			return refuse("method reached through an embedded field")
		}
		ox, ok := in.o(sel.X).(ast.Expr)
		if !ok {
			return refuse("receiver not resolved")
		}
		xt := in.info.TypeOf(ox)
		rt := fo.Type().(*types.Signature).Recv().Type()
		if xt == nil {
			return refuse("receiver not typed")
		}
		switch {
		case types.Identical(xt, rt):
			recvArg = sel.X
		case func() bool { p, ok := rt.(*types.Pointer); return ok && types.Identical(p.Elem(), xt) }():
			recvArg = &ast.UnaryExpr{Op: token.AND, X: &ast.ParenExpr{X: sel.X}}
			if _, ok := sel.X.(*ast.Ident); ok {
				recvArg = &ast.UnaryExpr{Op: token.AND, X: sel.X}
			}
		case func() bool { p, ok := xt.(*types.Pointer); return ok && types.Identical(p.Elem(), rt) }():
			recvArg = &ast.StarExpr{X: &ast.ParenExpr{X: sel.X}}
		default:
			return refuse("receiver type not matched")
		}
	}

	in.counter++
	suf := fmt.Sprintf("_i%d", in.counter)
	body := in.cl.node(in.bodyOf(fo)).(*ast.BlockStmt)
	typ := in.cl.node(fd.Type).(*ast.FuncType)
	var recv *ast.FieldList
	if fd.Recv != nil {
		recv = in.cl.node(fd.Recv).(*ast.FieldList)
	}
	// type-switch symbolic variables have no Defs entry
	tsw := map[*ast.Ident]bool{}
	ast.Inspect(fd.Body, func(n ast.Node) bool {
		if ts, ok := n.(*ast.TypeSwitchStmt); ok {
			if as, ok := ts.Assign.(*ast.AssignStmt); ok && len(as.Lhs) == 1 {
				if id, ok := as.Lhs[0].(*ast.Ident); ok {
					tsw[id] = true
				}
			}
		}
		return true
	})
	rename := func(n ast.Node) bool {
		id, ok := n.(*ast.Ident)
		if !ok || id.Name == "_" {
			return true
		}
		oid, _ := in.o(id).(*ast.Ident)
		if oid == nil {
			return true
		}
		if reSynthLabel.MatchString(id.Name) {
			// synthesised by an earlier expansion (nested helper): labels must stay unique per function
			id.Name += suf
			return true
		}
		if tsw[oid] {
			id.Name += suf
			return true
		}
		obj := in.info.ObjectOf(oid)
		if obj == nil || obj.Pos() < fd.Pos() || obj.Pos() >= fd.End() {
			return true
		}
		if v, ok := obj.(*types.Var); ok && v.IsField() {
			return true
		}
		id.Name += suf
		return true
	}
	ast.Inspect(body, rename)
	ast.Inspect(typ, rename)
	if recv != nil {
		ast.Inspect(recv, rename)
	}

	var stmts []ast.Stmt
	bind := func(p param, arg ast.Expr) {
		if p.name == "" || p.name == "_" {
			stmts = append(stmts, varDecl("_", p.typ, arg))
			return
		}
		// a function-typed parameter bound to a function constant (f, pkg.F, (*T).M) and never reassigned:
		// substitute it, so that the calls through it are static calls again
		if in.isFuncTyped(p.typ) && in.isFuncConst(arg) && !assignedIn(body, p.name) {
			body = astutil.Apply(body, nil, func(c *astutil.Cursor) bool {
				if id, ok := c.Node().(*ast.Ident); ok && id.Name == p.name {
					if _, isField := c.Parent().(*ast.SelectorExpr); isField && c.Name() == "Sel" {
						return true
					}
					c.Replace(in.cl.node(arg).(ast.Expr))
				}
				return true
			}).(*ast.BlockStmt)
			return
		}
		stmts = append(stmts, varDeclID(in.identLike(p.id, p.name), p.typ, arg), useStmtID(in.identLike(p.id, p.name)))
	}
	if recv != nil {
		bind(flatten(recv)[0], recvArg)
	}
	cparams := flatten(typ.Params)
	for i, p := range cparams {
		bind(p, call.Args[i])
	}
	cres := flatten(typ.Results)
	named := len(cres) > 0 && cres[0].name != ""
	var namedIdents []string
	var namedTmpl []*ast.Ident
	if named {
		for _, r := range cres {
			n := r.name
			tmpl := r.id
			if n == "_" {
				in.counter++
				n = fmt.Sprintf("blank_r%d", in.counter)
				tmpl = nil
			}
			namedIdents = append(namedIdents, n)
			namedTmpl = append(namedTmpl, tmpl)
			stmts = append(stmts, varDeclID(in.identLike(tmpl, n), r.typ, nil), useStmtID(in.identLike(tmpl, n)))
		}
	}

	// shape: is the only return the last top-level statement?
	nret := 0
	ast.Inspect(body, func(n ast.Node) bool {
		switch n.(type) {
		case *ast.FuncLit:
			return false
		case *ast.ReturnStmt:
			nret++
		}
		return true
	})
	tail := false
	if nret == 0 {
		tail = true
	} else if nret == 1 {
		if _, ok := body.List[len(body.List)-1].(*ast.ReturnStmt); ok {
			tail = true
		}
	}
	if in.tailReturn {
		tail = true
	}
	rc := &retCtx{tailReturn: in.tailReturn, in: in, lhs: lhs, named: namedIdents, namedTmpl: namedTmpl, nres: len(cres), guards: guards, label: "ret" + suf, noBreak: tail}
	body.List = rc.stmts(body.List, map[string]bool{}, true)
	if tail {
		stmts = append(stmts, body.List...)
	} else {
		var sw ast.Stmt = &ast.SwitchStmt{Body: &ast.BlockStmt{List: []ast.Stmt{&ast.CaseClause{Body: body.List}}}}
		if rc.usedLabel {
			sw = &ast.LabeledStmt{Label: ident(rc.label), Stmt: sw}
		}
		stmts = append(stmts, sw)
	}
	in.rep.Inlined[key]++
	if in.curHelper != nil {
		// the code of fo (and of what was expanded inside it) is now part of the helper being prepared
		in.expandedDeps[in.curHelper] = append(in.expandedDeps[in.curHelper], fd)
		in.expandedDeps[in.curHelper] = append(in.expandedDeps[in.curHelper], in.expandedDeps[fo]...)
	}
	return &ast.BlockStmt{List: stmts}
}

type retCtx struct {
	in         *pkgInliner
	lhs        []ast.Expr
	named      []string
	nres       int
	guards     []guard
	namedTmpl  []*ast.Ident
	tailReturn bool
	label      string
	noBreak    bool
	usedLabel  bool
}

func copySet(m map[string]bool) map[string]bool {
	n := map[string]bool{}
	for k, v := range m {
		n[k] = v
	}
	return n
}

func (rc *retCtx) stmts(list []ast.Stmt, nn map[string]bool, top bool) []ast.Stmt {
	nn = copySet(nn)
	out := make([]ast.Stmt, 0, len(list))
	for _, s := range list {
		// `x, err = v, <freshly built error>` makes err known non-nil for the statements that follow
		learned := map[string]bool{}
		if as, ok := s.(*ast.AssignStmt); ok && len(as.Lhs) == len(as.Rhs) {
			for i, l := range as.Lhs {
				if id, ok := l.(*ast.Ident); ok && id.Name != "_" && rc.classify(as.Rhs[i], nn) == synNonNil {
					learned[id.Name] = true
				}
			}
		}
		out = append(out, rc.stmt(s, nn))
		// assignments invalidate what is known about the assigned names
		ast.Inspect(s, func(n ast.Node) bool {
			switch x := n.(type) {
			case *ast.AssignStmt:
				for _, l := range x.Lhs {
					if id, ok := l.(*ast.Ident); ok {
						delete(nn, id.Name)
					}
				}
			case *ast.UnaryExpr:
				if id, ok := x.X.(*ast.Ident); ok && x.Op == token.AND {
					delete(nn, id.Name)
				}
			case *ast.FuncLit:
				ast.Inspect(x.Body, func(m ast.Node) bool {
					if id, ok := m.(*ast.Ident); ok {
						delete(nn, id.Name)
					}
					return true
				})
				return false
			}
			return true
		})
		for n := range learned {
			nn[n] = true
		}
	}
	return out
}

func (rc *retCtx) stmt(s ast.Stmt, nn map[string]bool) ast.Stmt {
	switch st := s.(type) {
	case *ast.ReturnStmt:
		return rc.ret(st, nn)
	case *ast.BlockStmt:
		st.List = rc.stmts(st.List, nn, false)
	case *ast.IfStmt:
		nn2 := nn
		if id := nonNilTestIdent(st.Cond); id != "" {
			nn2 = copySet(nn)
			nn2[id] = true
		}
		st.Body.List = rc.stmts(st.Body.List, nn2, false)
		if st.Else != nil {
			st.Else = rc.stmt(st.Else, nn)
		}
	case *ast.ForStmt:
		st.Body.List = rc.stmts(st.Body.List, map[string]bool{}, false)
	case *ast.RangeStmt:
		st.Body.List = rc.stmts(st.Body.List, map[string]bool{}, false)
	case *ast.SwitchStmt:
		for _, c := range st.Body.List {
			cc := c.(*ast.CaseClause)
			cc.Body = rc.stmts(cc.Body, nn, false)
		}
	case *ast.TypeSwitchStmt:
		for _, c := range st.Body.List {
			cc := c.(*ast.CaseClause)
			cc.Body = rc.stmts(cc.Body, nn, false)
		}
	case *ast.SelectStmt:
		for _, c := range st.Body.List {
			cc := c.(*ast.CommClause)
			cc.Body = rc.stmts(cc.Body, map[string]bool{}, false)
		}
	case *ast.LabeledStmt:
		st.Stmt = rc.stmt(st.Stmt, nn)
	}
	return s
}

const (
	synUnknown = iota
	synNil
	synNonNil
	synTrue
	synFalse
)

func (rc *retCtx) classify(e ast.Expr, nn map[string]bool) int {
	// a value of a concrete (non-interface) type stored into an error is a non-nil interface value
	if oe, ok := rc.in.o(e).(ast.Expr); ok {
		if tv, ok := rc.in.info.Types[oe]; ok && tv.Type != nil && !tv.IsNil() {
			if _, isIface := tv.Type.Underlying().(*types.Interface); !isIface {
				if _, isBasic := tv.Type.Underlying().(*types.Basic); !isBasic {
					return synNonNil
				}
			}
		}
	}
	switch x := unparen(e).(type) {
	case *ast.Ident:
		if x.Name == "nil" {
			return synNil
		}
		if x.Name == "true" {
			return synTrue
		}
		if x.Name == "false" {
			return synFalse
		}
		if nn[x.Name] {
			return synNonNil
		}
		if rc.in.isSentinelVar(x) {
			return synNonNil
		}
	case *ast.SelectorExpr:
		if rc.in.isSentinelVar(x.Sel) {
			return synNonNil
		}
	case *ast.CallExpr:
		if sel, ok := x.Fun.(*ast.SelectorExpr); ok {
			if fo, ok := rc.in.objOf(sel.Sel).(*types.Func); ok {
				switch fo.FullName() {
				case "fmt.Errorf", "errors.New":
					return synNonNil
				}
			}
		}
	case *ast.UnaryExpr:
		if _, ok := x.X.(*ast.CompositeLit); ok && x.Op == token.AND {
			return synNonNil
		}
	case *ast.CompositeLit:
		return synNonNil
	}
	return synUnknown
}

func (rc *retCtx) ret(st *ast.ReturnStmt, nn map[string]bool) ast.Stmt {
	in := rc.in
	var out []ast.Stmt
	vals := st.Results
	nid := func(i int) *ast.Ident {
		var t *ast.Ident
		if i < len(rc.namedTmpl) {
			t = rc.namedTmpl[i]
		}
		return in.identLike(t, rc.named[i])
	}
	if rc.tailReturn {
		if rc.named == nil {
			return st
		}
		var l, v []ast.Expr
		for i := range rc.named {
			l = append(l, nid(i))
			v = append(v, nid(i))
		}
		if len(vals) > 0 {
			out = append(out, assign(l, vals))
		}
		out = append(out, &ast.ReturnStmt{Results: v})
		return &ast.BlockStmt{List: out}
	}
	var cur []ast.Expr
	if rc.named != nil {
		// `return a, b` where a, b are the named results themselves assigns nothing
		same := len(vals) == len(rc.named)
		for i := range vals {
			if id, ok := vals[i].(*ast.Ident); !same || !ok || id.Name != rc.named[i] {
				same = false
			}
		}
		if len(vals) > 0 && !same {
			var l []ast.Expr
			for i := range rc.named {
				l = append(l, nid(i))
			}
			out = append(out, assign(l, vals))
		}
		for i := range rc.named {
			cur = append(cur, nid(i))
		}
	} else {
		cur = vals
	}
	if rc.lhs != nil {
		if len(cur) > 0 {
			out = append(out, assign(in.cl.exprs(rc.lhs), cur))
		}
	} else if rc.named == nil && len(vals) > 0 {
		var l []ast.Expr
		for i := 0; i < rc.nres; i++ {
			l = append(l, ident("_"))
		}
		out = append(out, assign(l, vals))
	}
	if len(rc.guards) > 0 {
		// what is known about the call's targets at this return
		known := map[string]int{}
		for i, l := range rc.lhs {
			id, ok := l.(*ast.Ident)
			if !ok || id.Name == "_" {
				continue
			}
			cls := synUnknown
			if len(vals) == rc.nres && len(vals) > 0 {
				cls = rc.classify(vals[i], nn)
			} else if len(vals) == 0 && rc.named != nil && i < len(rc.named) && nn[rc.named[i]] {
				cls = synNonNil
			}
			if cls != synUnknown {
				known[id.Name] = cls
			}
		}
		for _, g := range rc.guards {
			decided, runs, residual := partialCond(in.cl.expr(g.ifs.Cond), known)
			if decided && runs {
				out = append(out, in.cl.stmts(g.ifs.Body.List)...)
				break
			}
			if decided {
				continue
			}
			out = append(out, &ast.IfStmt{Cond: residual, Body: in.cl.node(g.ifs.Body).(*ast.BlockStmt)})
		}
	}
	if !rc.noBreak {
		out = append(out, &ast.BranchStmt{Tok: token.BREAK, Label: ident(rc.label)})
		rc.usedLabel = true
	}
	return &ast.BlockStmt{List: out}
}

func returnInLoop(body *ast.BlockStmt) bool {
	found := false
	var scan func(n ast.Node, inLoop bool)
	scan = func(n ast.Node, inLoop bool) {
		ast.Inspect(n, func(x ast.Node) bool {
			switch y := x.(type) {
			case *ast.FuncLit:
				return false
			case *ast.ForStmt:
				if x != n {
					scan(y.Body, true)
					return false
				}
			case *ast.RangeStmt:
				if x != n {
					scan(y.Body, true)
					return false
				}
			case *ast.ReturnStmt:
				if inLoop {
					found = true
				}
			}
			return true
		})
	}
	scan(body, false)
	return found
}

// deadHelpers: expanded helpers that nothing refers to any more (transitively, from the code that is not a helper).
func deadHelpers(ins []*pkgInliner) map[string]bool {
	all := map[*types.Func]*pkgInliner{}
	ifaceMethods := map[string]bool{}
	for _, in := range ins {
		for h := range in.H0 {
			all[h] = in
		}
		for _, f := range in.p.Syntax {
			ast.Inspect(f, func(n ast.Node) bool {
				if it, ok := n.(*ast.InterfaceType); ok && it.Methods != nil {
					for _, m := range it.Methods.List {
						for _, nm := range m.Names {
							ifaceMethods[nm.Name] = true
						}
					}
				}
				return true
			})
		}
	}
	if len(all) == 0 {
		return nil
	}
	live := map[*types.Func]bool{}
	var queue []*types.Func
	refs := func(in *pkgInliner, n ast.Node) {
		ast.Inspect(n, func(x ast.Node) bool {
			if id, ok := x.(*ast.Ident); ok {
				if fo, ok := in.objOf(id).(*types.Func); ok && all[fo] != nil && !live[fo] {
					live[fo] = true
					queue = append(queue, fo)
				}
			}
			return true
		})
	}
	for _, in := range ins {
		for _, f := range in.p.Syntax {
			for _, d := range f.Decls {
				switch x := d.(type) {
				case *ast.FuncDecl:
					obj, _ := in.info.Defs[x.Name].(*types.Func)
					if obj != nil && in.H0[obj] {
						continue
					}
					if b := in.finalBody[x]; b != nil {
						refs(in, b)
					} else if x.Body != nil {
						refs(in, x.Body)
					}
				default:
					refs(in, d)
				}
			}
		}
	}
	for len(queue) > 0 {
		h := queue[0]
		queue = queue[1:]
		in := all[h]
		refs(in, in.decls[h].Body)
	}
	dead := map[string]bool{}
	for h, in := range all {
		if live[h] {
			continue
		}
		fd := in.decls[h]
		if fd.Recv != nil && ifaceMethods[fd.Name.Name] {
			continue
		}
		dead[declKey(in.p.PkgPath, fd)] = true
	}
	return dead
}

type invField struct{ name, typ string }

// loadFieldInventory: "pkgpath.Type" -> fields in declaration order.
func loadFieldInventory() map[string][]invField {
	m := map[string][]invField{}
	for _, l := range strings.Split(inventoryText, "\n") {
		l = strings.TrimSpace(l)
		if !strings.HasPrefix(l, "field:") {
			continue
		}
		parts := strings.Split(strings.TrimPrefix(l, "field:"), "\t")
		if len(parts) != 4 {
			continue
		}
		m[parts[0]] = append(m[parts[0]], invField{parts[2], parts[3]})
	}
	return m
}

func moduleStructFields(roots []*packages.Package) []string {
	var out []string
	q := func(p *types.Package) string { return p.Path() }
	for _, p := range roots {
		if !strings.HasPrefix(p.PkgPath, libPath) || p.Types == nil {
			continue
		}
		sc := p.Types.Scope()
		for _, n := range sc.Names() {
			tn, ok := sc.Lookup(n).(*types.TypeName)
			if !ok {
				continue
			}
			st, ok := tn.Type().Underlying().(*types.Struct)
			if !ok {
				continue
			}
			for i := 0; i < st.NumFields(); i++ {
				out = append(out, fmt.Sprintf("field:%s.%s\t%d\t%s\t%s", p.PkgPath, n, i, st.Field(i).Name(), types.TypeString(st.Field(i).Type(), q)))
			}
		}
	}
	return out
}

// resolveFieldRenames: a struct of the inventory that still has the same number of fields with the same types in
// the same order may have had fields renamed; such a field answers to its inventory name.
func resolveFieldRenames(roots []*packages.Package) (map[*types.Var]string, []string) {
	inv := loadFieldInventory()
	out := map[*types.Var]string{}
	var notes []string
	q := func(p *types.Package) string { return p.Path() }
	for _, p := range roots {
		if !strings.HasPrefix(p.PkgPath, libPath) || p.Types == nil {
			continue
		}
		sc := p.Types.Scope()
		for _, n := range sc.Names() {
			tn, ok := sc.Lookup(n).(*types.TypeName)
			if !ok {
				continue
			}
			st, ok := tn.Type().Underlying().(*types.Struct)
			fs := inv[p.PkgPath+"."+n]
			if !ok || len(fs) != st.NumFields() {
				continue
			}
			same := true
			for i, f := range fs {
				if types.TypeString(st.Field(i).Type(), q) != f.typ {
					same = false
				}
			}
			if !same {
				continue
			}
			// names present on both sides keep their meaning; only a name that is gone can be an alias
			cur := map[string]bool{}
			for i := 0; i < st.NumFields(); i++ {
				cur[st.Field(i).Name()] = true
			}
			for i, f := range fs {
				if st.Field(i).Name() != f.name && !cur[f.name] {
					out[st.Field(i)] = f.name
					notes = append(notes, fmt.Sprintf("renamed: field %s.%s.%s is analysed under its inventory name %s (same struct, position and type)", p.PkgPath, n, st.Field(i).Name(), f.name))
				}
			}
		}
	}
	sort.Strings(notes)
	return out, notes
}

// constAlias: inventory constant (pkgpath.name) -> its current name, when it was renamed.
var constAlias = map[string]string{}

func moduleConsts(roots []*packages.Package) []string {
	var out []string
	for _, p := range roots {
		if !strings.HasPrefix(p.PkgPath, libPath) || p.Types == nil {
			continue
		}
		sc := p.Types.Scope()
		for _, n := range sc.Names() {
			if c, ok := sc.Lookup(n).(*types.Const); ok {
				out = append(out, fmt.Sprintf("const:%s.%s\t%s\t%s", p.PkgPath, n, c.Val().ExactString(), types.TypeString(c.Type(), func(p *types.Package) string { return p.Path() })))
			}
		}
	}
	return out
}

// resolveConstRenames: an inventory constant that is gone is matched to a new constant of the same package,
// value and type when that match is unique in both directions.
func resolveConstRenames(roots []*packages.Package) (map[string]string, []string) {
	type ent struct{ name, val, typ string }
	inv := map[string][]ent{} // pkg -> consts
	for _, l := range strings.Split(inventoryText, "\n") {
		l = strings.TrimSpace(l)
		if !strings.HasPrefix(l, "const:") {
			continue
		}
		parts := strings.Split(strings.TrimPrefix(l, "const:"), "\t")
		if len(parts) != 3 {
			continue
		}
		i := strings.LastIndex(parts[0], ".")
		inv[parts[0][:i]] = append(inv[parts[0][:i]], ent{parts[0][i+1:], parts[1], parts[2]})
	}
	out := map[string]string{}
	var notes []string
	q := func(p *types.Package) string { return p.Path() }
	for _, p := range roots {
		if p.Types == nil || inv[p.PkgPath] == nil {
			continue
		}
		sc := p.Types.Scope()
		known := map[string]bool{}
		for _, e := range inv[p.PkgPath] {
			known[e.name] = true
		}
		missing := map[string][]string{}
		for _, e := range inv[p.PkgPath] {
			if _, ok := sc.Lookup(e.name).(*types.Const); !ok {
				missing[e.val+"|"+e.typ] = append(missing[e.val+"|"+e.typ], e.name)
			}
		}
		added := map[string][]string{}
		for _, n := range sc.Names() {
			if c, ok := sc.Lookup(n).(*types.Const); ok && !known[n] {
				k := c.Val().ExactString() + "|" + types.TypeString(c.Type(), q)
				added[k] = append(added[k], n)
			}
		}
		for k, ms := range missing {
			if as := added[k]; len(ms) == 1 && len(as) == 1 {
				out[p.PkgPath+"."+ms[0]] = as[0]
				notes = append(notes, fmt.Sprintf("renamed: constant %s.%s is analysed under its inventory name %s (same package, value and type)", p.PkgPath, as[0], ms[0]))
			}
		}
	}
	sort.Strings(notes)
	return out, notes
}

// onlyBodyCloseDefers: every defer of the helper is `x.Body.Close()` (release of an HTTP response body). Such a
// helper is expanded anywhere: the only difference is that the body is closed when the caller returns instead of
// when the helper returned, which none of the properties observes.
func onlyBodyCloseDefers(body *ast.BlockStmt) bool {
	ok := true
	n := 0
	ast.Inspect(body, func(x ast.Node) bool {
		switch d := x.(type) {
		case *ast.FuncLit:
			return false
		case *ast.DeferStmt:
			n++
			sel, isSel := d.Call.Fun.(*ast.SelectorExpr)
			if !isSel || sel.Sel.Name != "Close" || len(d.Call.Args) != 0 {
				ok = false
				return false
			}
			inner, isSel2 := sel.X.(*ast.SelectorExpr)
			if !isSel2 || inner.Sel.Name != "Body" {
				ok = false
			}
		}
		return ok
	})
	return ok && n > 0
}

// sentinelVars: package-level error variables of the module initialised with errors.New / fmt.Errorf.
var sentinelVars = map[*types.Var]bool{}

func collectSentinelVars(roots []*packages.Package) {
	sentinelVars = map[*types.Var]bool{}
	for _, p := range roots {
		if !strings.HasPrefix(p.PkgPath, libPath) || p.TypesInfo == nil {
			continue
		}
		for _, f := range p.Syntax {
			for _, d := range f.Decls {
				gd, ok := d.(*ast.GenDecl)
				if !ok || gd.Tok != token.VAR {
					continue
				}
				for _, sp := range gd.Specs {
					vs, ok := sp.(*ast.ValueSpec)
					if !ok {
						continue
					}
					for i, n := range vs.Names {
						v, ok := p.TypesInfo.Defs[n].(*types.Var)
						if !ok || i >= len(vs.Values) {
							continue
						}
						if c, ok := vs.Values[i].(*ast.CallExpr); ok {
							if sel, ok := c.Fun.(*ast.SelectorExpr); ok {
								if fo, ok := p.TypesInfo.Uses[sel.Sel].(*types.Func); ok {
									switch fo.FullName() {
									case "errors.New", "fmt.Errorf":
										sentinelVars[v] = true
									}
								}
							}
						}
					}
				}
			}
		}
	}
}

// isSentinelVar: id names a sentinel error variable of the module (never reassigned by convention): a non-nil error.
func (in *pkgInliner) isSentinelVar(id *ast.Ident) bool {
	v, ok := in.objOf(id).(*types.Var)
	if !ok {
		return false
	}
	if sentinelVars[v] {
		return true
	}
	// exported error variables of other packages (io.EOF, io.ErrUnexpectedEOF, os.ErrNotExist, ...)
	if v.Pkg() != nil && v.Parent() == v.Pkg().Scope() && !strings.HasPrefix(v.Pkg().Path(), libPath) &&
		types.Identical(v.Type(), types.Universe.Lookup("error").Type()) && (strings.HasPrefix(v.Name(), "Err") || v.Name() == "EOF") {
		return true
	}
	return false
}

// substituteExprHelpers: a helper whose body is a single `return <expr>` is an expression with a name. A call of it
// whose arguments (and receiver) are simple and free of effects is replaced, wherever it stands (conditions
// included), by that expression with the arguments substituted — exactly what the caller would have written.
func (in *pkgInliner) substituteExprHelpers(body *ast.BlockStmt) bool {
	changed := false
	astutil.Apply(body, nil, func(c *astutil.Cursor) bool {
		call, ok := c.Node().(*ast.CallExpr)
		if !ok {
			return true
		}
		fo := in.calleeObj(call)
		if fo == nil || !in.H[fo] {
			return true
		}
		fd := in.decls[fo]
		src := in.bodyOf(fo)
		if len(src.List) != 1 || call.Ellipsis.IsValid() {
			return true
		}
		ret, ok := src.List[0].(*ast.ReturnStmt)
		if !ok || len(ret.Results) != 1 {
			return true
		}
		if fd.Type.Results == nil || len(fd.Type.Results.List) != 1 || len(fd.Type.Results.List[0].Names) != 0 {
			return true
		}
		params := flatten(fd.Type.Params)
		if len(params) != len(call.Args) {
			return true
		}
		if why := in.compat(fd); why != "" {
			return true
		}
		// argument -> parameter object
		simple := func(e ast.Expr) bool {
			ok := true
			ast.Inspect(e, func(n ast.Node) bool {
				switch x := n.(type) {
				case nil, *ast.Ident, *ast.SelectorExpr, *ast.BasicLit, *ast.ParenExpr, *ast.StarExpr:
				case *ast.UnaryExpr:
					if x.Op != token.AND && x.Op != token.SUB && x.Op != token.NOT {
						ok = false
					}
				default:
					ok = false
				}
				return ok
			})
			return ok
		}
		subst := map[types.Object]ast.Expr{}
		sig := fo.Type().(*types.Signature)
		for i, p := range params {
			if !simple(call.Args[i]) {
				return true
			}
			if p.id == nil || p.name == "_" {
				continue
			}
			obj := in.info.Defs[p.id]
			if obj == nil {
				return true
			}
			arg := call.Args[i]
			var at types.Type
			if oa, ok := in.o(arg).(ast.Expr); ok {
				at = in.info.TypeOf(oa)
			}
			pt := sig.Params().At(i).Type()
			if at == nil || !types.Identical(at, pt) {
				// keep the conversion the call performed (untyped constants, concrete values passed as interfaces)
				arg = &ast.CallExpr{Fun: &ast.ParenExpr{X: in.cl.expr(p.typ)}, Args: []ast.Expr{arg}}
			}
			subst[obj] = arg
		}
		if fd.Recv != nil {
			sel, ok := unparen(call.Fun).(*ast.SelectorExpr)
			if !ok || !simple(sel.X) {
				return true
			}
			osel, _ := in.o(sel).(*ast.SelectorExpr)
			if osel == nil {
				return true
			}
			if s := in.info.Selections[osel]; s == nil || len(s.Index()) != 1 {
				return true
			}
			ox, ok := in.o(sel.X).(ast.Expr)
			if !ok {
				return true
			}
			xt := in.info.TypeOf(ox)
			rt := sig.Recv().Type()
			var recvArg ast.Expr
			switch {
			case xt == nil:
				return true
			case types.Identical(xt, rt):
				recvArg = sel.X
			case func() bool { p, ok := rt.(*types.Pointer); return ok && types.Identical(p.Elem(), xt) }():
				recvArg = &ast.UnaryExpr{Op: token.AND, X: sel.X}
			case func() bool { p, ok := xt.(*types.Pointer); return ok && types.Identical(p.Elem(), rt) }():
				recvArg = &ast.StarExpr{X: sel.X}
			default:
				return true
			}
			rp := flatten(fd.Recv)
			if len(rp) == 1 && rp[0].id != nil && rp[0].name != "_" {
				if obj := in.info.Defs[rp[0].id]; obj != nil {
					subst[obj] = recvArg
				}
			}
		}
		// the expression must not contain function literals or further declarations
		okExpr := true
		ast.Inspect(ret.Results[0], func(n ast.Node) bool {
			if _, isLit := n.(*ast.FuncLit); isLit {
				okExpr = false
			}
			return okExpr
		})
		if !okExpr {
			return true
		}
		expr := in.cl.expr(ret.Results[0])
		expr = astutil.Apply(expr, nil, func(c2 *astutil.Cursor) bool {
			id, ok := c2.Node().(*ast.Ident)
			if !ok {
				return true
			}
			// not the selector part of x.f, not a key of a struct literal
			if p, ok := c2.Parent().(*ast.SelectorExpr); ok && p.Sel == id {
				return true
			}
			if obj := in.objOf(id); obj != nil {
				if a, ok := subst[obj]; ok {
					c2.Replace(&ast.ParenExpr{X: in.cl.expr(a)})
				}
			}
			return true
		}).(ast.Expr)
		// result conversion: the helper's declared result type
		var et types.Type
		if oe, ok := in.o(ret.Results[0]).(ast.Expr); ok {
			et = in.info.TypeOf(oe)
		}
		var repl ast.Expr = &ast.ParenExpr{X: expr}
		if et == nil || !types.Identical(et, sig.Results().At(0).Type()) {
			repl = &ast.CallExpr{Fun: &ast.ParenExpr{X: in.cl.expr(fd.Type.Results.List[0].Type)}, Args: []ast.Expr{expr}}
		}
		c.Replace(repl)
		in.rep.Inlined[declKey(in.p.PkgPath, fd)]++
		if in.curHelper != nil {
			in.expandedDeps[in.curHelper] = append(in.expandedDeps[in.curHelper], fd)
			in.expandedDeps[in.curHelper] = append(in.expandedDeps[in.curHelper], in.expandedDeps[fo]...)
		}
		changed = true
		return true
	})
	return changed
}

// isFuncConst: e denotes a declared function or a method expression (a constant of function type).
func (in *pkgInliner) isFuncConst(e ast.Expr) bool {
	for {
		p, ok := e.(*ast.ParenExpr)
		if !ok {
			break
		}
		e = p.X
	}
	switch x := in.o(e).(type) {
	case *ast.Ident:
		_, ok := in.info.Uses[x].(*types.Func)
		return ok
	case *ast.SelectorExpr:
		if sel, ok := in.info.Selections[x]; ok {
			return sel.Kind() == types.MethodExpr
		}
		_, ok := in.info.Uses[x.Sel].(*types.Func)
		return ok
	}
	return false
}

// assignedIn: the identifier name is assigned, incremented or has its address taken in n.
func assignedIn(n ast.Node, name string) bool {
	found := false
	isName := func(e ast.Expr) bool {
		id, ok := e.(*ast.Ident)
		return ok && id.Name == name
	}
	ast.Inspect(n, func(m ast.Node) bool {
		switch x := m.(type) {
		case *ast.AssignStmt:
			for _, l := range x.Lhs {
				if isName(l) {
					found = true
				}
			}
		case *ast.IncDecStmt:
			if isName(x.X) {
				found = true
			}
		case *ast.UnaryExpr:
			if x.Op == token.AND && isName(x.X) {
				found = true
			}
		case *ast.RangeStmt:
			if (x.Key != nil && isName(x.Key)) || (x.Value != nil && isName(x.Value)) {
				found = true
			}
		}
		return true
	})
	return found
}

// isFuncTyped: the type expression denotes a function type (literally or through a named type).
func (in *pkgInliner) isFuncTyped(t ast.Expr) bool {
	if _, ok := t.(*ast.FuncType); ok {
		return true
	}
	if oe, ok := in.o(t).(ast.Expr); ok {
		if tt := in.info.TypeOf(oe); tt != nil {
			_, isSig := tt.Underlying().(*types.Signature)
			return isSig
		}
	}
	return false
}

// renameTypesBack: an unexported named type of the inventory that is gone, and a new unexported type of the same
// package that carries every inventory method of it (same names) and that no inventory type accounts for, are the
// same type under a new name. The new name is replaced by the inventory name in the source (overlay), so that every
// later stage — function keys, canonical expressions, owner types — sees the reference name. Returns nil when there
// is nothing to do or the match is not unique.
func renameTypesBack(roots []*packages.Package, inv map[string]string) (map[string][]byte, []string) {
	refMethods := map[string]map[string]bool{} // pkg.T -> method names
	for k := range inv {
		pk := pkgOfKey(k)
		rest := strings.TrimPrefix(k, pk+".")
		if t, m, ok := strings.Cut(rest, "."); ok {
			key := pk + "." + t
			if refMethods[key] == nil {
				refMethods[key] = map[string]bool{}
			}
			refMethods[key][m] = true
		}
	}
	for _, l := range strings.Split(inventoryText, "\n") {
		if strings.HasPrefix(l, "field:") {
			key := strings.TrimPrefix(strings.SplitN(l, "\t", 2)[0], "field:")
			if refMethods[key] == nil {
				refMethods[key] = map[string]bool{}
			}
		}
	}
	overlay := map[string][]byte{}
	var notes []string
	for _, p := range roots {
		if !strings.HasPrefix(p.PkgPath, libPath) || p.TypesInfo == nil || p.Types == nil {
			continue
		}
		cur := map[string]*types.TypeName{}
		for _, n := range p.Types.Scope().Names() {
			if tn, ok := p.Types.Scope().Lookup(n).(*types.TypeName); ok && !tn.IsAlias() {
				cur[n] = tn
			}
		}
		rename := map[*types.TypeName]string{}
		for key, ms := range refMethods {
			if pkgOfKey(key+".x") != p.PkgPath {
				continue
			}
			old := key[len(p.PkgPath)+1:]
			if _, ok := cur[old]; ok || ast.IsExported(old) || p.Types.Scope().Lookup(old) != nil {
				continue
			}
			var cands []*types.TypeName
			for n, tn := range cur {
				if _, isRef := refMethods[p.PkgPath+"."+n]; isRef || ast.IsExported(n) {
					continue
				}
				have := map[string]bool{}
				for _, t := range []types.Type{tn.Type(), types.NewPointer(tn.Type())} {
					mset := types.NewMethodSet(t)
					for i := 0; i < mset.Len(); i++ {
						have[mset.At(i).Obj().Name()] = true
					}
				}
				all := len(ms) > 0
				for m := range ms {
					if !have[m] {
						all = false
					}
				}
				if all {
					cands = append(cands, tn)
				}
			}
			if len(cands) == 1 {
				rename[cands[0]] = old
			}
		}
		if len(rename) == 0 {
			continue
		}
		for _, f := range p.Syntax {
			changed := false
			ast.Inspect(f, func(n ast.Node) bool {
				id, ok := n.(*ast.Ident)
				if !ok {
					return true
				}
				obj := p.TypesInfo.ObjectOf(id)
				if tn, ok := obj.(*types.TypeName); ok {
					if old, ok := rename[tn]; ok {
						id.Name = old
						changed = true
					}
				}
				return true
			})
			if changed {
				var buf bytes.Buffer
				if err := format.Node(&buf, p.Fset, f); err != nil {
					return nil, nil
				}
				overlay[p.Fset.File(f.Pos()).Name()] = buf.Bytes()
			}
		}
		for tn, old := range rename {
			notes = append(notes, fmt.Sprintf("renamed type: %s.%s is analysed under its inventory name %s (it carries every inventory method of %s, which is gone)", p.PkgPath, tn.Name(), old, old))
		}
	}
	if len(overlay) == 0 {
		return nil, nil
	}
	sort.Strings(notes)
	return overlay, notes
}
