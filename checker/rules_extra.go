package main

import (
	"fmt"
	"go/token"
	"go/types"
	"regexp"
	"sort"
	"strings"

	"golang.org/x/tools/go/ssa"
)

// Rules added after the second round of independently seeded changes
// (shared between the properties they are necessary conditions of).

// ruleFinishAlways: the text-out writer is finished (flush/sync/close) on
// every path after the command body ran, whatever the body returned.
func ruleFinishAlways(w *World, r *Report, rule string) {
	wtow := fn(w.Cmd, "withTextOutWriter")
	if wtow == nil {
		r.Undecided(rule, "withTextOutWriter", "-", "not found")
		return
	}
	var fCall *ssa.Call
	for _, c := range callsIn(wtow) {
		if cv, ok := c.(*ssa.Call); ok && cv.Common().Value == ssa.Value(wtow.Params[1]) {
			fCall = cv
		}
	}
	if fCall == nil {
		r.Violate(rule, "withTextOutWriter:finish-always", w.pos(wtow.Pos()), "the command body is never run")
		return
	}
	// finish = result #1 of newTextOutWriter; it must be called via a defer registered before f runs, or directly on every path after f
	mp := newMustPerfRaw(w, func(in ssa.Instruction) bool {
		d, ok := in.(*ssa.Defer)
		if !ok {
			return false
		}
		mc, ok := d.Call.Value.(*ssa.MakeClosure)
		if !ok {
			// defer finish()
			return strings.Contains(newExprCtx(w).expr(d.Call.Value), "newTextOutWriter(") && strings.HasSuffix(newExprCtx(w).expr(d.Call.Value), "#1")
		}
		calls := false
		eachInstr(mc.Fn.(*ssa.Function), func(in2 ssa.Instruction) {
			if x, ok := in2.(*ssa.Call); ok && x.Common().StaticCallee() == nil && !x.Common().IsInvoke() {
				calls = true
			}
		})
		return calls
	})
	deferredBefore := false
	for _, b := range wtow.Blocks {
		for _, in := range b.Instrs {
			if mp(in) && dominatesInstr(in, fCall) {
				deferredBefore = true
			}
		}
	}
	if deferredBefore {
		r.OK(rule, "withTextOutWriter:finish-always", w.instrPos(fCall), "finish is deferred before the body runs: the output is flushed whatever the body returns")
		return
	}
	// direct calls: every return after f must pass a call of finish
	isFinishCall := func(in ssa.Instruction) bool {
		c, ok := in.(*ssa.Call)
		if !ok || c.Common().StaticCallee() != nil || c.Common().IsInvoke() {
			return false
		}
		e := newExprCtx(w).expr(c.Common().Value)
		return strings.Contains(e, "newTextOutWriter(") && strings.HasSuffix(e, "#1")
	}
	p, ret := findBypass(pathQuery{fn: wtow, startAfter: fCall, passes: isFinishCall, exit: func(*ssa.Return) bool { return true }})
	if p != nil {
		r.Violate(rule, "withTextOutWriter:finish-always", w.instrPos(ret), "after the command body ran, a return is reachable without finish(): when the body returns an error (e.g. the ErrDiffFound verdict of diff) the buffered text output is never flushed and the listing is lost", w.blockPathString(p))
	} else {
		r.OK(rule, "withTextOutWriter:finish-always", w.instrPos(fCall), "finish is called on every path after the body")
	}
}

func newMustPerfRaw(w *World, f func(ssa.Instruction) bool) func(ssa.Instruction) bool { return f }

// ruleNotExistProtocolEnds: server helper answers with an empty body; client helper builds an os.ErrNotExist PathError.
func ruleNotExistProtocolEnds(w *World, r *Report, rule string) {
	if s := fn(w.Cmd, "setRespForNotExistErr"); s != nil {
		writes := false
		for _, c := range callsIn(s) {
			if c.Common().IsInvoke() && c.Common().Method.Name() == "Write" {
				writes = true
			}
			if isCallToPkgFunc(c, "fmt", "Fprintf") || isCallToPkgFunc(c, "fmt", "Fprint") || isCallToPkgFunc(c, "net/http", "Error") {
				writes = true
			}
		}
		allNil := true
		for _, ret := range returnsOf(s) {
			if !isSuccessReturn(ret) {
				allNil = false
			}
		}
		r.Check(!writes && allNil, rule, "setRespForNotExistErr:empty-body", w.pos(s.Pos()), "answers with headers only (empty body, nil error)", "setRespForNotExistErr writes a body or returns an error (which wrapHandler turns into an error body): the client recognises not-exist only by an empty body, so a missing file/pattern is no longer reported as not-existing through the server")
	} else {
		r.Undecided(rule, "setRespForNotExistErr", "-", "not found")
	}
	if c := fn(w.Cmd, "convertRemoteErrNotExist"); c != nil {
		ok := false
		for _, ret := range returnsOf(c) {
			if ci := classifyErr(ret.Results[0]); ci.notExist {
				ok = true
			}
		}
		r.Check(ok, rule, "convertRemoteErrNotExist", w.pos(c.Pos()), "an *os.PathError with os.ErrNotExist, unwrapped", "convertRemoteErrNotExist does not return a bare *os.PathError{Err: os.ErrNotExist}: os.IsNotExist (which does not unwrap %w chains) no longer classifies a remote miss, so diff/sum-diff fail instead of reporting a difference")
	} else {
		r.Undecided(rule, "convertRemoteErrNotExist", "-", "not found")
	}
	// WrapFileNotExistError classifies with os.IsNotExist on the error it is given
	if wf := fn(w.Cmd, "WrapFileNotExistError"); wf != nil {
		ok := false
		for _, c := range callsIn(wf) {
			if isCallToPkgFunc(c, "os", "IsNotExist") && newExprCtx(w).expr(c.Common().Args[0]) == "p1" {
				ok = true
			}
		}
		r.Check(ok, rule, "WrapFileNotExistError", w.pos(wf.Pos()), "classifies with os.IsNotExist(err)", "WrapFileNotExistError does not classify its argument with os.IsNotExist")
	}
}

// ruleRemoteErrorsUnwrapped: every *Remote function returns the decoder's / helper's error as is.
func ruleRemoteErrorsUnwrapped(w *World, r *Report, rule string) {
	for _, name := range []string{"readWhisperFileRemote", "readWhisperFileRawRemote", "sumWhisperFileRemote", "globItemsRemote", "globFilesRemote", "getFileDataFromRemote", "getRawFileDataFromRemote"} {
		f := fn(w.Cmd, name)
		if f == nil {
			r.Undecided(rule, name+":error-unwrapped", "-", "not found")
			continue
		}
		bad := ""
		for _, ret := range returnsOf(f) {
			vals, _ := resultValues(ret, errResultIndex(f))
			for _, v := range vals {
				c, ok := stripChangeType(v).(*ssa.Call)
				if ok && (isCallToPkgFunc(c, "fmt", "Errorf") || isCallToPkgFunc(c, "errors", "New")) {
					// wrapping a received error?
					for _, a := range variadicArgs(c.Common().Args[len(c.Common().Args)-1]) {
						if a != nil && isErrorType(stripMakeInterface(a).Type()) {
							bad = w.instrPos(ret)
						}
					}
				}
			}
		}
		r.Check(bad == "", rule, name+":error-unwrapped", posOf(w, f), "errors are passed on unwrapped", name+" wraps a received error with fmt.Errorf at "+bad+": os.IsNotExist does not unwrap, so a remote not-exist is classified differently from a local one")
	}
}

func stripMakeInterface(v ssa.Value) ssa.Value {
	if mi, ok := v.(*ssa.MakeInterface); ok {
		return mi.X
	}
	return v
}

// ruleLineFraming: handlers write one name per line, clients split on lines only.
func ruleLineFraming(w *World, r *Report, rule string) {
	for _, h := range []string{"app.handleItems", "app.handleFiles"} {
		f := fn(w.Cmd, h)
		if f == nil {
			continue
		}
		ok := false
		for _, c := range callsIn(f) {
			if isCallToPkgFunc(c, "fmt", "Fprintf") {
				if fs, isC := constString(c.Common().Args[1]); isC && fs == "%s\n" {
					ok = true
				}
			}
		}
		r.Check(ok, rule, h+":one-name-per-line", posOf(w, f), "writes one name per line", h+" does not write one name per line (\"%s\\n\")")
	}
	// the names travel in the order the local implementation produced them: neither end reorders the list
	for _, pr := range [][2]string{{"app.handleItems", "globItemsLocal"}, {"app.handleFiles", "globFilesLocal"}, {"globItemsRemote", ""}, {"globFilesRemote", ""}} {
		f := fn(w.Cmd, pr[0])
		if f == nil {
			continue
		}
		below := map[*ssa.Function]bool{}
		if pr[1] != "" {
			if l := fn(w.Cmd, pr[1]); l != nil {
				below = moduleReachable(w, []*ssa.Function{l}, nil)
			}
		}
		var scope []*ssa.Function
		for g := range moduleReachable(w, []*ssa.Function{f}, nil) {
			if !below[g] {
				scope = append(scope, g)
			}
		}
		sort.Slice(scope, func(i, j int) bool { return funcName(scope[i]) < funcName(scope[j]) })
		bad := ""
		for _, g := range scope {
			for _, c := range callsIn(g) {
				sc := c.Common().StaticCallee()
				if sc == nil || sc.Pkg == nil {
					continue
				}
				switch pth := sc.Pkg.Pkg.Path(); {
				case pth == "sort" && sc.Signature.Recv() == nil,
					pth == "slices" && (strings.HasPrefix(sc.Name(), "Sort") || sc.Name() == "Reverse"),
					(pth == "math/rand" || pth == "math/rand/v2") && sc.Name() == "Shuffle":
					if bad == "" {
						bad = pth + "." + sc.Name() + " at " + w.instrPos(c)
					}
				}
			}
		}
		r.Check(bad == "", rule, pr[0]+":order-kept", posOf(w, f), fmt.Sprintf("%d functions on this end of the protocol, none reorders the list", len(scope)), pr[0]+" reorders the names ("+bad+"): the list read through the server comes in another order than the one filepath.Glob gives for the directory, so commands visit and print the files in a different order")
	}
	// the clients read the response to its end: what is decoded is ReadAll of the response body itself
	for _, cl := range []string{"globItemsRemote", "globFilesRemote", "getFileDataFromRemote", "getRawFileDataFromRemote"} {
		f := fn(w.Cmd, cl)
		if f == nil {
			continue
		}
		bad := ""
		n := 0
		for g := range moduleReachable(w, []*ssa.Function{f}, nil) {
			if g.Pkg != w.Cmd {
				continue
			}
			for _, c := range callsIn(g) {
				switch {
				case isCallToPkgFunc(c, "io", "LimitReader"), isCallToPkgFunc(c, "net/http", "MaxBytesReader"), isCallToPkgFunc(c, "io", "CopyN"):
					bad = "the response is read through a size limit (" + w.instrPos(c) + ")"
				case isCallToPkgFunc(c, "io", "ReadAll"), isCallToPkgFunc(c, "io/ioutil", "ReadAll"):
					n++
					if a := newExprCtx(w).expr(c.Common().Args[0]); !strings.HasSuffix(a, ".Body") && bad == "" {
						bad = "ReadAll at " + w.instrPos(c) + " reads " + shortExpr(a) + ", not the response body itself"
					}
				}
			}
		}
		r.Check(bad == "" && n > 0, rule, cl+":reads-whole-body", posOf(w, f), "decodes ReadAll(resp.Body)", cl+": "+bad+": a long listing or series is cut without an error and the command works on a part of it (the last name a fragment)")
	}
	for _, cl := range []string{"globItemsRemote", "globFilesRemote"} {
		f := fn(w.Cmd, cl)
		if f == nil {
			continue
		}
		// a bufio.Scanner with the default split function (lines), looking through helpers
		scans := w.findCallsBelow(f, func(c ssa.CallInstruction) bool { return isMethodCall(c, "bufio", "Scanner", "Text") }, 2)
		split := w.findCallsBelow(f, func(c ssa.CallInstruction) bool { return isMethodCall(c, "bufio", "Scanner", "Split") }, 2)
		fields := w.findCallsBelow(f, func(c ssa.CallInstruction) bool {
			return isCallToPkgFunc(c, "strings", "Fields") || isCallToPkgFunc(c, "strings", "FieldsFunc")
		}, 2)
		splitNL := w.findCallsBelow(f, func(c ssa.CallInstruction) bool {
			if !isCallToPkgFunc(c, "strings", "Split") {
				return false
			}
			s, ok := constString(c.Common().Args[1])
			return ok && s == "\n"
		}, 2)
		ok := (len(scans) > 0 && len(split) == 0 || len(splitNL) > 0) && len(fields) == 0
		r.Check(ok, rule, cl+":splits-on-lines", posOf(w, f), "names are separated by newlines only", cl+" does not split the response on newlines only (names containing spaces or tabs are torn apart): client and server framing disagree")
	}
}

// ruleParseOverflowGuards: C19.R5 shared with C07 (32-bit representability of parsed retentions).
func ruleParseOverflowGuards(w *World, r *Report, rule string) {
	if pd := fn(w.Lib, "ParseDuration"); pd != nil {
		ok1 := false
		for _, fc := range failConditions(w, pd) {
			c := fc.Core()
			if strings.HasPrefix(c, "(2147483647 /:int32 ") && strings.HasSuffix(c, "< whispertool.leadingInt(p0)#0") && len(fc.Guards) == 0 {
				ok1 = true
			}
		}
		r.Check(ok1, rule, "ParseDuration:overflow-guard", w.pos(pd.Pos()), "rejects x > MaxInt32/unit before multiplying", "ParseDuration does not reject x > MaxInt32/unit before computing x*unit: a product of 2^32 or more wraps to a small positive value and a retention string far beyond 32 bits is accepted")
		ruleParsedNumberNotNarrowed(w, r, rule)
	} else {
		r.Undecided(rule, "ParseDuration", "-", "not found")
	}
}

// ruleAllArchivesValidated: every element of the list passes ArchiveInfo.validate unguarded (C07.R3 element) — C15 relies on it for divisors.
func ruleAllArchivesValidated(w *World, r *Report, rule string) {
	val := fn(w.Lib, "ArchiveInfoList.validate")
	if val == nil {
		r.Undecided(rule, "validate", "-", "not found")
		return
	}
	checkFailConds(w, r, rule, val, []wantCond{{"element", "nil != whispertool.ArchiveInfo.validate(CUR)", "", "every archive — including the last and only one — is validated on its own"}})
	// the loop must range over the whole list
	ok := false
	eachInstr(val, func(in ssa.Instruction) {
		if bo, isBo := in.(*ssa.BinOp); isBo && isCmp(bo.Op) {
			if newExprCtx(w).expr(bo.Y) == "len(p0)" {
				if b, isAdd := bo.X.(*ssa.BinOp); isAdd {
					if ph, isPhi := b.X.(*ssa.Phi); isPhi && loopFromTo(ph, -1) {
						ok = true
					}
				}
				if ph, isPhi := bo.X.(*ssa.Phi); isPhi && loopFromTo(ph, 0) {
					ok = true
				}
			}
		}
	})
	r.Check(ok, rule, funcName(val)+":whole-list", w.pos(val.Pos()), "the validation loop ranges over the whole list", "the validation loop does not range over the whole archive list (e.g. stops before the last archive): the last or only archive is accepted with a zero step or point count, and later divisions panic")
}

// ruleTruncateEpoch: Timestamp.Truncate aligns relative to the Unix epoch.
func ruleTruncateEpoch(w *World, r *Report, rule string) {
	f := fn(w.Lib, "Timestamp.Truncate")
	if f == nil {
		r.Undecided(rule, "Timestamp.Truncate", "-", "not found")
		return
	}
	ok := false
	var rs []string
	for _, rt := range returnsOf(f) {
		e := newExprCtx(w).expr(rt.Results[0])
		rs = append(rs, e)
		if e == "whispertool.Timestamp.Add(p0, -(p0 %:int64 p1))" {
			ok = true
		}
	}
	r.Check(ok, rule, "Timestamp.Truncate", w.pos(f.Pos()), "t - t mod d on the epoch grid (64-bit)", "Timestamp.Truncate is not t.Add(-(int64(t) % int64(d))): generated slot times are aligned to a grid other than the Unix-epoch grid the archives use ("+strings.Join(rs, " / ")+")")
}

// ruleFilterVisitsAll: the view-raw time filter examines every slot (no early exit from its loop).
func ruleFilterVisitsAll(w *World, r *Report, rule string) {
	f := fn(w.Cmd, "filterPointsByTimeRange")
	if f == nil {
		r.Undecided(rule, "filterPointsByTimeRange", "-", "not found")
		return
	}
	var hdr *ssa.BasicBlock
	for _, b := range f.Blocks {
		if isLoopHeader(b) {
			hdr = b
		}
	}
	if hdr == nil {
		r.Violate(rule, "filterPointsByTimeRange:visits-all", w.pos(f.Pos()), "no loop over the slots")
		return
	}
	lb := loopBlocks(hdr)
	exits := 0
	for b := range lb {
		for _, s := range b.Succs {
			if !lb[s] && b != hdr {
				exits++
			}
		}
	}
	okRange := false
	for _, in := range hdr.Instrs {
		if bo, ok := in.(*ssa.BinOp); ok && isCmp(bo.Op) && newExprCtx(w).expr(bo.Y) == "len(p1)" {
			okRange = true
		}
	}
	r.Check(exits == 0 && okRange, rule, "filterPointsByTimeRange:visits-all", w.pos(f.Pos()), "every physical slot is examined", fmt.Sprintf("the time filter leaves its loop early (%d exits besides the end of the slice): physical slots are not in time order after the ring has wrapped, so later slots inside the range are dropped", exits))
}

// ruleFetchRawReturnsWhole: fetchRawPoints returns the slice it made with (until-from)/step elements, unsliced.
func ruleFetchRawReturnsWhole(w *World, r *Report, rule string) {
	f := fn(w.Lib, "Whisper.fetchRawPoints")
	if f == nil {
		r.Undecided(rule, "fetchRawPoints", "-", "not found")
		return
	}
	var mk *ssa.MakeSlice
	eachInstr(f, func(in ssa.Instruction) {
		if ms, ok := in.(*ssa.MakeSlice); ok {
			mk = ms
		}
	})
	ok := mk != nil && regexp.MustCompile(`^\(whispertool\.Timestamp\.Sub\(p3, p2\) /:int32 .*secondsPerPoint\)$`).MatchString(newExprCtx(w).expr(mk.Len))
	bad := ""
	for _, rt := range returnsOf(f) {
		if isFailureReturn(rt) {
			continue
		}
		// the returned slice is the one allocated (directly, or through a local variable that only ever holds it)
		for _, l := range leavesOf(rt.Results[0]) {
			if stripChangeType(l) != ssa.Value(mk) {
				bad = newExprCtx(w).expr(rt.Results[0])
			}
		}
	}
	r.Check(ok && bad == "", rule, "fetchRawPoints:whole-result", posOf(w, f), "returns exactly (until-from)/step slots", "fetchRawPoints does not return the whole slice of (until-from)/step slots ("+bad+"): the value count of a written archive then depends on stored content")
}

// ruleTimestampFromStdTime: plain conversion of the UTC Unix time, zero only for the zero time.
func ruleTimestampFromStdTime(w *World, r *Report, rule string) {
	f := fn(w.Lib, "TimestampFromStdTime")
	if f == nil {
		r.Undecided(rule, "TimestampFromStdTime", "-", "not found")
		return
	}
	var rs []string
	ok := true
	for _, rt := range returnsOf(f) {
		e := newExprCtx(w).expr(rt.Results[0])
		rs = append(rs, e)
		if e == "(time.Time).Unix((time.Time).UTC(p0))" || e == "(time.Time).Unix(p0)" {
			continue
		}
		if e == "0" {
			gs := blockGuards(w, rt.Block())
			if len(gs) == 1 && gs[0] == "(time.Time).IsZero(p0)" {
				continue
			}
		}
		ok = false
	}
	r.Check(ok, rule, "TimestampFromStdTime", w.pos(f.Pos()), "Timestamp(t.UTC().Unix()), 0 only for the zero time", "TimestampFromStdTime is not the plain 32-bit conversion of the Unix time ("+strings.Join(rs, " / ")+"): printed timestamps of the upper half of the 32-bit range do not parse back to themselves")
}

// ruleLoopFailureStops: inside a loop, when a call with an error result fails, the loop must not simply go on:
// every way from the failure edge back to the same call passes a classification of that error (errors.Is/As,
// os.IsNotExist, As...Error — the recognised "difference found / not exist" idioms, checked by the latch rules).
// Otherwise the next iteration overwrites the error and the function can report success although one input failed.
func ruleLoopFailureStops(w *World, r *Report, rule string, funcs []*ssa.Function) {
	n := 0
	for _, f := range funcs {
		if f == nil || errResultIndex(f) < 0 {
			continue
		}
		for _, c := range callsIn(f) {
			cv, ok := c.(*ssa.Call)
			if !ok || len(errorOfCall(cv)) == 0 {
				continue
			}
			sig := cv.Common().Signature()
			if k := sig.Results().Len(); k == 0 || !isErrorType(sig.Results().At(k-1).Type()) {
				continue
			}
			if !inLoopWith(cv.Block()) {
				continue
			}
			_, fail, ok := successEdge(cv)
			if !ok {
				continue
			}
			errs := errorOfCall(cv)
			classifies := func(in ssa.Instruction) bool {
				cc, ok := in.(*ssa.Call)
				if !ok {
					return false
				}
				sc := cc.Common().StaticCallee()
				if sc == nil {
					return false
				}
				if !(isPkgFunc(sc, "errors", "As") || isPkgFunc(sc, "errors", "Is") || isPkgFunc(sc, "os", "IsNotExist") || (strings.HasPrefix(sc.Name(), "As") && strings.HasSuffix(sc.Name(), "Error"))) {
					return false
				}
				for _, a := range cc.Common().Args {
					for _, e := range errs {
						if a == e || flowsTo(e, a) {
							return true
						}
					}
				}
				return false
			}
			// breadth-first from the failure edge; stop at returns and classifications
			seen := map[*ssa.BasicBlock]bool{}
			q := []*ssa.BasicBlock{fail}
			again := false
			for len(q) > 0 && !again {
				b := q[0]
				q = q[1:]
				if seen[b] {
					continue
				}
				seen[b] = true
				stop := false
				for _, in := range b.Instrs {
					if in == ssa.Instruction(cv) {
						again = true
						break
					}
					if classifies(in) {
						stop = true
						break
					}
					if _, isRet := in.(*ssa.Return); isRet {
						stop = true
					}
				}
				if !stop && !again {
					q = append(q, b.Succs...)
				}
			}
			n++
			key := funcName(f) + ":loop-failure:" + newExprCtx(w).callExpr(cv)
			if len(key) > 150 {
				key = key[:150]
			}
			if again {
				r.Violate(rule, key, w.instrPos(cv), "when this call fails inside the loop the loop goes on and the call runs again: its error is overwritten by the next iteration and "+f.Name()+" can report success although one input failed")
			} else {
				r.OK(rule, key, w.instrPos(cv), "a failure leaves the loop (or is classified) before the call can run again")
			}
		}
	}
	if n == 0 {
		r.OKTrivial(rule, "loop-failure", "-", "no error-returning call inside a loop in the functions examined")
	}
}

// ruleArchiveIDDispatch (decision diagram): the functions that fan a command's archive selection out over a handle
// (fetchTimeSeriesList, fetchRawPointsLists) are evaluated for a file of 2 archives and every selection in -3..3:
// the per-archive reader must only ever be called with ids 0 and 1, "all" (-1) must call it for both, and every
// other selection must end in a failure return without calling it. GetAllRawUnsortedPoints indexes the archive list
// unchecked, so an id of 2 there is an index-out-of-range panic of view-raw (and of the /view-raw handler).
func ruleArchiveIDDispatch(w *World, r *Report, rule string) {
	const nArch = 2
	ail := fn(w.Lib, "Whisper.ArchiveInfoList")
	for _, spec := range []struct{ name, reader string }{{"fetchRawPointsLists", "Whisper.GetAllRawUnsortedPoints"}, {"fetchTimeSeriesList", "Whisper.FetchFromArchive"}} {
		f := fn(w.Cmd, spec.name)
		reader := fn(w.Lib, spec.reader)
		key := spec.name + ":archive-id-dispatch"
		if f == nil || reader == nil || len(f.Params) < 2 {
			r.Undecided(rule, key, "-", spec.name+" or "+spec.reader+" not found")
			continue
		}
		lenBind := map[ssa.Value]aval{}
		eachInstr(f, func(in ssa.Instruction) {
			c, ok := in.(*ssa.Call)
			if !ok {
				return
			}
			if b, ok := c.Call.Value.(*ssa.Builtin); ok && b.Name() == "len" {
				for _, l := range leavesOf(c.Call.Args[0]) {
					if ac, ok := stripChangeType(l).(*ssa.Call); ok && ail != nil && ac.Common().StaticCallee() == ail {
						lenBind[c] = aval{k: kInt, i: nArch}
					}
				}
			}
		})
		var bad []string
		undec := ""
		for id := int64(-3); id <= 3 && undec == ""; id++ {
			e := &ddEngine{w: w, env: map[ssa.Value]aval{f.Params[1]: {k: kInt, i: id}}, maxLeafs: 64}
			for k, v := range lenBind {
				e.env[k] = v
			}
			called := map[int64]bool{}
			badArg := ""
			e.onCall = func(s *ddState, c *ssa.Call) {
				if c.Common().StaticCallee() != reader {
					return
				}
				a := e.value(s, c.Common().Args[1])
				if a.k != kInt {
					badArg = "a selection whose archive id is not determined by (selection, archive count)"
					return
				}
				called[a.i] = true
				s.log = append(s.log, fmt.Sprint(a.i))
				if a.i < 0 || a.i >= nArch {
					badArg = fmt.Sprintf("archive id %d on a file with %d archives", a.i, nArch)
				}
			}
			e.run(f)
			if e.err != nil {
				undec = e.err.Error()
				break
			}
			nOK := 0
			shortPath := false
			for _, l := range e.leaves {
				if l.ret != nil && !isFailureReturn(l.ret) {
					nOK++
					// every successful path has read what the selection names (a `break` on an absent series
					// leaves the coarser archives unread)
					has := map[string]bool{}
					if l.st != nil {
						for _, x := range l.st.log {
							has[x] = true
						}
					}
					if id == -1 && !(has["0"] && has["1"]) {
						shortPath = true
					}
					if id >= 0 && id < nArch && !has[fmt.Sprint(id)] {
						shortPath = true
					}
				}
			}
			if shortPath && badArg == "" {
				bad = append(bad, fmt.Sprintf("selection %d: a path returns success without having read every selected archive (the loop is left early)", id))
			}
			switch {
			case badArg != "":
				bad = append(bad, fmt.Sprintf("selection %d makes %s call %s with %s", id, spec.name, reader.Name(), badArg))
			case id == -1 && !(called[0] && called[1]):
				bad = append(bad, "the selection 'all' does not read every archive")
			case id >= 0 && id < nArch && !called[id]:
				bad = append(bad, fmt.Sprintf("selection %d does not read archive %d", id, id))
			case (id < -1 || id >= nArch) && (nOK > 0 || len(called) > 0):
				bad = append(bad, fmt.Sprintf("selection %d on a file with %d archives is not rejected", id, nArch))
			}
		}
		if undec != "" {
			r.Undecided(rule, key, w.pos(f.Pos()), "the decision diagram of "+spec.name+" could not be evaluated: "+undec)
			continue
		}
		sort.Strings(bad)
		first := ""
		if len(bad) > 0 {
			first = bad[0]
		}
		r.Check(len(bad) == 0, rule, key, w.pos(f.Pos()), "selections -3..3 on a 2-archive file: only ids 0 and 1 reach "+reader.Name()+", 'all' reads both, everything else fails", first+": an out-of-range archive id reaches code that indexes the archive list (panic) or a valid one is refused")
	}
}

// ruleLayoutEquality (decision diagrams): ArchiveInfo.Equal is true exactly when step and point count are both
// equal; ArchiveInfoList.Equal is true exactly when the lengths are equal and every pair of elements is Equal.
// The commands' "unequal layouts are an error" rests on these two predicates.
func ruleLayoutEquality(w *World, r *Report, rule string) {
	// --- element predicate
	if f := fn(w.Lib, "ArchiveInfo.Equal"); f == nil || len(f.Params) != 2 {
		r.Undecided(rule, "ArchiveInfo.Equal", "-", "ArchiveInfo.Equal not found")
	} else {
		e := &ddEngine{w: w, env: map[ssa.Value]aval{}, maxLeafs: 32}
		e.run(f)
		bad := ""
		if e.err != nil {
			bad = "cannot evaluate: " + e.err.Error()
		}
		sawTrue := false
		fieldOf := func(v ssa.Value) (string, bool) { // (field compared for equality, is ==)
			bo, ok := v.(*ssa.BinOp)
			if !ok || (bo.Op != token.EQL && bo.Op != token.NEQ) {
				return "", false
			}
			ex := newExprCtx(w)
			xs, ys := ex.expr(bo.X), ex.expr(bo.Y)
			for _, fn := range []string{"secondsPerPoint", "numberOfPoints"} {
				if (xs == "p0."+fn && ys == "p1."+fn) || (xs == "p1."+fn && ys == "p0."+fn) {
					return fn, bo.Op == token.EQL
				}
			}
			return "", false
		}
		for _, l := range e.leaves {
			if l.ret == nil || len(l.results) != 1 {
				bad = "a path does not return a boolean"
				continue
			}
			// field equalities known on this path
			eq := map[string]bool{}
			for key, chosen := range l.atoms {
				fld, isEq := fieldOf(l.atomVal[key])
				if fld == "" {
					bad = "a condition other than the two field comparisons decides the result (" + key + ")"
					continue
				}
				eq[fld] = chosen == isEq
			}
			res := l.results[0]
			canBeTrue := false
			switch {
			case res.k == kBool:
				canBeTrue = res.b
			default:
				// the result is itself a comparison: true exactly when that field is equal as well
				rv := res.sym
				if rv == nil {
					rv = l.ret.Results[0]
				}
				fld, isEq := fieldOf(rv)
				if fld == "" || !isEq {
					bad = "the result is " + newExprCtx(w).expr(rv) + ", not an equality of the remaining field"
					continue
				}
				eq[fld] = true
				canBeTrue = true
			}
			if !canBeTrue {
				continue
			}
			if !(eq["secondsPerPoint"] && eq["numberOfPoints"]) {
				bad = "two archives are reported equal although step or point count differs (or was not compared)"
			} else {
				sawTrue = true
			}
		}
		if bad == "" && !sawTrue {
			bad = "no path reports equality"
		}
		r.Check(bad == "", rule, "ArchiveInfo.Equal", w.pos(f.Pos()), "equal iff step and point count are both equal", "ArchiveInfo.Equal is not `same step and same point count`: "+bad+" — files of different layouts pass the commands' layout check")
	}
	// --- list predicate
	lf := fn(w.Lib, "ArchiveInfoList.Equal")
	el := fn(w.Lib, "ArchiveInfo.Equal")
	if lf == nil || el == nil || len(lf.Params) != 2 {
		r.Undecided(rule, "ArchiveInfoList.Equal", "-", "ArchiveInfoList.Equal not found")
		return
	}
	var bads []string
	for _, lens := range [][2]int64{{2, 2}, {2, 3}, {3, 2}} {
		e := &ddEngine{w: w, env: map[ssa.Value]aval{}, maxLeafs: 64, concreteAtoms: true}
		eachInstr(lf, func(in ssa.Instruction) {
			if c, ok := in.(*ssa.Call); ok {
				if b, ok := c.Call.Value.(*ssa.Builtin); ok && b.Name() == "len" {
					switch stripChangeType(c.Call.Args[0]) {
					case ssa.Value(lf.Params[0]):
						e.env[c] = aval{k: kInt, i: lens[0]}
					case ssa.Value(lf.Params[1]):
						e.env[c] = aval{k: kInt, i: lens[1]}
					}
				}
			}
		})
		e.run(lf)
		if e.err != nil {
			bads = append(bads, "cannot evaluate: "+e.err.Error())
			continue
		}
		for _, l := range e.leaves {
			if l.ret == nil || len(l.results) != 1 || l.results[0].k != kBool {
				bads = append(bads, "a path does not return a decided boolean")
				continue
			}
			if !l.results[0].b {
				continue
			}
			if lens[0] != lens[1] {
				bads = append(bads, fmt.Sprintf("lists of %d and %d archives are reported equal", lens[0], lens[1]))
				continue
			}
			// every index compared, each found equal
			n := 0
			for key, chosen := range l.atoms {
				c, ok := l.atomVal[key].(*ssa.Call)
				if !ok || c.Common().StaticCallee() != el {
					continue
				}
				if !chosen {
					bads = append(bads, "lists are reported equal although a pair of elements is not Equal")
				}
				n++
			}
			if int64(n) != lens[0] {
				bads = append(bads, fmt.Sprintf("lists of %d archives are reported equal after comparing %d pairs", lens[0], n))
			}
		}
	}
	// each pair compared is (element i of one list, element i of the other)
	listOf := func(v ssa.Value) int {
		for i := 0; i < 6; i++ {
			switch t := v.(type) {
			case *ssa.UnOp:
				v = t.X
				continue
			case *ssa.IndexAddr:
				v = t.X
				continue
			case *ssa.Index:
				v = t.X
				continue
			case *ssa.ChangeType:
				v = t.X
				continue
			case *ssa.Parameter:
				for k, q := range lf.Params {
					if q == t {
						return k
					}
				}
			}
			break
		}
		return -1
	}
	for _, c := range callsIn(lf) {
		if c.Common().StaticCallee() != el || len(c.Common().Args) != 2 {
			continue
		}
		x, y := c.Common().Args[0], c.Common().Args[1]
		lx, ly := listOf(x), listOf(y)
		ix, iy := elemIndexOf(x), elemIndexOf(y)
		if !((lx == 0 && ly == 1) || (lx == 1 && ly == 0)) {
			bads = append(bads, "the pair compared at "+w.instrPos(c)+" is not one element of each list")
		} else if ix == nil || ix != iy {
			bads = append(bads, "the pair compared at "+w.instrPos(c)+" is not taken at the same index of both lists")
		}
	}
	sort.Strings(bads)
	first := ""
	if len(bads) > 0 {
		first = bads[0]
	}
	r.Check(len(bads) == 0, rule, "ArchiveInfoList.Equal", w.pos(lf.Pos()), "equal iff same length and every pair of elements Equal (decided for lengths 2/2, 2/3, 3/2)", "ArchiveInfoList.Equal: "+first+" — files of different layouts pass the commands' layout check")
}

// ruleListStringJoin (decision diagram): ArchiveInfoList.String, evaluated for a list of three archives, writes
// element 0, ",", element 1, ",", element 2 — the syntax ParseArchiveInfoList splits on.
func ruleListStringJoin(w *World, r *Report, rule string) {
	f := fn(w.Lib, "ArchiveInfoList.String")
	if f == nil || len(f.Params) != 1 {
		r.Undecided(rule, "ArchiveInfoList.String:join", "-", "ArchiveInfoList.String not found")
		return
	}
	e := &ddEngine{w: w, env: map[ssa.Value]aval{}, maxLeafs: 16, concreteAtoms: true}
	eachInstr(f, func(in ssa.Instruction) {
		if c, ok := in.(*ssa.Call); ok {
			if b, ok := c.Call.Value.(*ssa.Builtin); ok && b.Name() == "len" && stripChangeType(c.Call.Args[0]) == ssa.Value(f.Params[0]) {
				e.env[c] = aval{k: kInt, i: 3}
			}
		}
	})
	var seq []string
	reIdx := regexp.MustCompile(`\[(\d+)\]`)
	e.onCall = func(s *ddState, c *ssa.Call) {
		sc := c.Common().StaticCallee()
		if sc == nil {
			return
		}
		isWrite := isMethodFunc(sc, "strings", "Builder", "WriteString") || isMethodFunc(sc, "bytes", "Buffer", "WriteString")
		if !isWrite || len(c.Common().Args) < 2 {
			return
		}
		arg := c.Common().Args[1]
		if k, ok := constString(arg); ok {
			seq = append(seq, fmt.Sprintf("%q", k))
			return
		}
		if cc, ok := arg.(*ssa.Call); ok && cc.Common().StaticCallee() == fn(w.Lib, "ArchiveInfo.String") {
			if m := reIdx.FindStringSubmatch(e.keyOf(s, cc.Common().Args[0])); m != nil {
				seq = append(seq, "E"+m[1])
				return
			}
		}
		seq = append(seq, "?")
	}
	e.run(f)
	got := strings.Join(seq, " ")
	want := `E0 "," E1 "," E2`
	ok := e.err == nil && len(e.leaves) == 1 && got == want
	detail := got
	if e.err != nil {
		detail = e.err.Error()
	}
	r.Check(ok, rule, "ArchiveInfoList.String:join", w.pos(f.Pos()), "a list of three prints as e0,e1,e2", "ArchiveInfoList.String of a three-archive list writes ["+detail+"] instead of e0 \",\" e1 \",\" e2: the printed retention list is not what ParseArchiveInfoList accepts (or parses to another list)")
}

// intWidth: bits of a basic integer type on the analysed 64-bit configurations (int/uint/uintptr = 64; the 32-bit
// configuration of the thorough tier only makes them narrower, which cannot hide a narrowing to a fixed-width type).
func intWidth(b *types.Basic) int {
	switch b.Kind() {
	case types.Int8, types.Uint8:
		return 8
	case types.Int16, types.Uint16:
		return 16
	case types.Int32, types.Uint32, types.UntypedRune:
		return 32
	case types.Int64, types.Uint64, types.Int, types.Uint, types.Uintptr, types.UntypedInt:
		return 64
	}
	return 0
}

// ruleParsedNumberNotNarrowed: the number leadingInt returns reaches ParseDuration's overflow guards in its own width.
func ruleParsedNumberNotNarrowed(w *World, r *Report, rule string) {
	pd := fn(w.Lib, "ParseDuration")
	if pd == nil {
		return
	}
	// the guards judge the number itself: it is not narrowed on its way from leadingInt to them
	bad := ""
	for _, f := range []*ssa.Function{pd, fn(w.Lib, "ParseArchiveInfo")} {
		if f == nil {
			continue
		}
		eachInstr(f, func(in ssa.Instruction) {
			cv, ok := in.(*ssa.Convert)
			if !ok {
				return
			}
			from, ok1 := cv.X.Type().Underlying().(*types.Basic)
			to, ok2 := cv.Type().Underlying().(*types.Basic)
			if !ok1 || !ok2 || from.Info()&types.IsInteger == 0 || to.Info()&types.IsInteger == 0 {
				return
			}
			if intWidth(from) > intWidth(to) && strings.Contains(newExprCtx(w).expr(cv.X), "leadingInt(") && bad == "" {
				bad = "the parsed number is narrowed from " + from.Name() + " to " + to.Name() + " at " + w.instrPos(cv) + " before it is range-checked"
			}
		})
	}
	r.Check(bad == "", rule, "ParseDuration:no-narrowing", w.pos(pd.Pos()), "the number leadingInt returns reaches the overflow guards in its own width", "ParseDuration: "+bad+": a number of 2^32 or more keeps only its low bits, passes the guards and a retention far beyond 32 bits is accepted as a small one")
}
