package main

import (
	"fmt"
	"go/token"
	"go/types"
	"os"
	"regexp"
	"sort"
	"strconv"
	"strings"

	"golang.org/x/tools/go/ssa"
)

// Small predicates the command skeletons rely on, decided by enumerating their decision diagrams.
// The skeleton rules check *that* a verdict or a dispatch is guarded by one of these calls; the rules here check what
// the callee answers. Each rule reads the function body on every run; none matches text or positions.

// lenEnv binds len(param i) to n for the evaluation of f.
func lenEnv(f *ssa.Function, lens map[int]int64) map[ssa.Value]aval {
	env := map[ssa.Value]aval{}
	eachInstr(f, func(in ssa.Instruction) {
		c, ok := in.(*ssa.Call)
		if !ok {
			return
		}
		b, ok := c.Call.Value.(*ssa.Builtin)
		if !ok || b.Name() != "len" {
			return
		}
		for i, n := range lens {
			if i < len(f.Params) && stripChangeType(c.Call.Args[0]) == ssa.Value(f.Params[i]) {
				env[c] = aval{k: kInt, i: n}
			}
		}
	})
	return env
}

var reFirstIndex = regexp.MustCompile(`\[(\d+)\]`)

// rulePointsListAllEmpty: PointsList.AllEmpty, evaluated for a list of two archives, answers true exactly when both
// elements have length zero.
func rulePointsListAllEmpty(w *World, r *Report, rule string) {
	const key = "cmd.PointsList.AllEmpty"
	f := fn(w.Cmd, "PointsList.AllEmpty")
	if f == nil || len(f.Params) != 1 {
		r.Undecided(rule, key, "-", "PointsList.AllEmpty not found")
		return
	}
	const n = 2
	e := &ddEngine{w: w, env: lenEnv(f, map[int]int64{0: n}), maxLeafs: 32, concreteAtoms: true}
	e.run(f)
	var bads []string
	if e.err != nil {
		bads = append(bads, "cannot evaluate: "+e.err.Error())
	}
	sawTrue, sawFalse := false, false
	for _, l := range e.leaves {
		if l.ret == nil || len(l.results) != 1 || l.results[0].k != kBool {
			bads = append(bads, "a path does not return a decided boolean")
			continue
		}
		empty := map[int]bool{} // element index -> known empty (true) / known non-empty (false)
		okAtoms := true
		for k, chosen := range l.atoms {
			_, emptyWhenTrue, ok := lenEmptyCond(l.atomVal[k])
			m := reFirstIndex.FindStringSubmatch(k)
			if !ok || m == nil {
				bads = append(bads, "a condition other than the emptiness of an element decides the result ("+k+")")
				okAtoms = false
				continue
			}
			idx, _ := strconv.Atoi(m[1])
			empty[idx] = chosen == emptyWhenTrue
		}
		if !okAtoms {
			continue
		}
		if l.results[0].b {
			sawTrue = true
			for i := 0; i < n; i++ {
				if isEmpty, known := empty[i]; !known {
					bads = append(bads, fmt.Sprintf("answers true without looking at element %d", i))
				} else if !isEmpty {
					bads = append(bads, fmt.Sprintf("answers true although element %d is not empty", i))
				}
			}
		} else {
			sawFalse = true
			some := false
			for _, isEmpty := range empty {
				if !isEmpty {
					some = true
				}
			}
			if !some {
				bads = append(bads, "answers false although every element examined is empty")
			}
		}
	}
	if len(bads) == 0 && !(sawTrue && sawFalse) {
		bads = append(bads, "the answer does not depend on the elements")
	}
	sort.Strings(bads)
	first := ""
	if len(bads) > 0 {
		first = bads[0]
	}
	r.Check(len(bads) == 0, rule, key, w.pos(f.Pos()), "true iff every element is empty (decided for two archives)", "PointsList.AllEmpty "+first+" — the `nothing differs` verdict of diff/sum-diff and the `nothing to write` shortcut of copy/sum-copy rest on it")
}

// hasPrefixAtom: v is strings.HasPrefix(<param 0 of f>, "<const>") -> the constant.
func hasPrefixAtom(f *ssa.Function, v ssa.Value) (string, bool) {
	neg := false
	for {
		u, ok := v.(*ssa.UnOp)
		if !ok || u.Op != token.NOT {
			break
		}
		v, neg = u.X, !neg
	}
	c, ok := v.(*ssa.Call)
	if !ok || neg {
		return "", false
	}
	sc := c.Common().StaticCallee()
	if sc == nil || sc.Pkg == nil || sc.Pkg.Pkg.Path() != "strings" || sc.Name() != "HasPrefix" || len(c.Common().Args) != 2 {
		return "", false
	}
	if stripChangeType(c.Common().Args[0]) != ssa.Value(f.Params[0]) {
		return "", false
	}
	s, ok := constString(c.Common().Args[1])
	return s, ok
}

// ruleIsBaseURL: isBaseURL(s) is true exactly when s starts with http:// or https://.
func ruleIsBaseURL(w *World, r *Report, rule string) {
	const key = "cmd.isBaseURL"
	f := fn(w.Cmd, "isBaseURL")
	if f == nil || len(f.Params) != 1 {
		r.Undecided(rule, key, "-", "isBaseURL not found")
		return
	}
	e := &ddEngine{w: w, env: map[ssa.Value]aval{}, maxLeafs: 16, concreteAtoms: true}
	e.run(f)
	var bads []string
	if e.err != nil {
		bads = append(bads, "cannot evaluate: "+e.err.Error())
	}
	schemes := map[string]bool{"http://": true, "https://": true}
	reKeyPrefix := regexp.MustCompile(`^strings\.HasPrefix\(\$` + regexp.QuoteMeta(f.Params[0].Name()) + `,("(?:[^"\\]|\\.)*")\)$`)
	trueFor := map[string]bool{}
	for _, l := range e.leaves {
		if l.ret == nil || len(l.results) != 1 {
			bads = append(bads, "a path does not return a boolean")
			continue
		}
		known := map[string]bool{}
		okAtoms := true
		for k, chosen := range l.atoms {
			p, ok := hasPrefixAtom(f, l.atomVal[k])
			if !ok {
				// the prefix comes from a table walked by a loop: the key carries the element's value on this path
				if m := reKeyPrefix.FindStringSubmatch(k); m != nil {
					if u, err := strconv.Unquote(m[1]); err == nil {
						p, ok = u, true
					}
				}
			}
			if !ok || !schemes[p] {
				bads = append(bads, "a condition other than a scheme-prefix test of the argument decides the result ("+k+")")
				okAtoms = false
				continue
			}
			known[p] = chosen
		}
		if !okAtoms {
			continue
		}
		anyTrue := false
		for _, v := range known {
			anyTrue = anyTrue || v
		}
		res := l.results[0]
		if res.k == kBool {
			switch {
			case res.b && !anyTrue:
				bads = append(bads, "answers true although no scheme prefix matched")
			case !res.b && anyTrue:
				bads = append(bads, "answers false although a scheme prefix matched")
			case !res.b && len(known) < len(schemes):
				bads = append(bads, "answers false without testing both http:// and https://")
			}
			if res.b {
				for p, v := range known {
					if v {
						trueFor[p] = true
					}
				}
			}
			continue
		}
		// the result is itself the last prefix test
		rv := res.sym
		if rv == nil {
			rv = l.ret.Results[0]
		}
		p, ok := hasPrefixAtom(f, rv)
		switch {
		case !ok || !schemes[p]:
			bads = append(bads, "the result is "+newExprCtx(w).expr(rv)+", not a scheme-prefix test of the argument")
		case anyTrue:
			bads = append(bads, "a matched scheme prefix is overridden by the test for "+p)
		default:
			if _, dup := known[p]; !dup && len(known)+1 < len(schemes) {
				bads = append(bads, "answers without testing both http:// and https://")
			}
			trueFor[p] = true
		}
	}
	if len(bads) == 0 && len(trueFor) != len(schemes) {
		bads = append(bads, "does not answer true for both http:// and https://")
	}
	sort.Strings(bads)
	first := ""
	if len(bads) > 0 {
		first = bads[0]
	}
	r.Check(len(bads) == 0, rule, key, w.pos(f.Pos()), "true iff the base starts with http:// or https://", "isBaseURL "+first+" — every dispatcher chooses between the local and the remote implementation by it")
}

// isNotExistAtom: v is os.IsNotExist(x) / errors.Is(x, os.ErrNotExist | fs.ErrNotExist) (not negated).
func isNotExistAtom(v ssa.Value) bool {
	c, ok := v.(*ssa.Call)
	if !ok {
		return false
	}
	sc := c.Common().StaticCallee()
	if sc == nil || sc.Pkg == nil {
		return false
	}
	switch sc.Pkg.Pkg.Path() + "." + sc.Name() {
	case "os.IsNotExist":
		return true
	case "errors.Is":
		if len(c.Common().Args) == 2 {
			if u, ok := c.Common().Args[1].(*ssa.UnOp); ok && u.Op == token.MUL {
				if g, ok := u.X.(*ssa.Global); ok && g.Name() == "ErrNotExist" {
					return true
				}
			}
		}
	}
	return false
}

// ruleNotExistWrap: WrapFileNotExistError(side, err) returns a *fileNotExistError only when os.IsNotExist(err), and
// err itself otherwise; AsFileNotExistError(err) returns what errors.As found, and nil when it found nothing.
func ruleNotExistWrap(w *World, r *Report, rule string) {
	{
		const key = "cmd.WrapFileNotExistError"
		f := fn(w.Cmd, "WrapFileNotExistError")
		if f == nil || len(f.Params) != 2 {
			r.Undecided(rule, key, "-", "WrapFileNotExistError not found")
		} else {
			e := &ddEngine{w: w, env: map[ssa.Value]aval{}, maxLeafs: 16}
			e.run(f)
			var bads []string
			if e.err != nil {
				bads = append(bads, "cannot evaluate: "+e.err.Error())
			}
			wraps := false
			for _, l := range e.leaves {
				if l.ret == nil || len(l.ret.Results) != 1 {
					bads = append(bads, "a path does not return")
					continue
				}
				notExist, known := false, false
				errIsNil := false
				for k, chosen := range l.atoms {
					if isNotExistAtom(l.atomVal[k]) {
						notExist, known = chosen, true
					}
					if bo, ok := l.atomVal[k].(*ssa.BinOp); ok && (bo.Op == token.NEQ || bo.Op == token.EQL) {
						if (bo.X == ssa.Value(f.Params[1]) && isNilConst(bo.Y)) || (bo.Y == ssa.Value(f.Params[1]) && isNilConst(bo.X)) {
							errIsNil = chosen == (bo.Op == token.EQL)
						}
					}
				}
				if errIsNil {
					// os.IsNotExist(nil) is false: a classification reached only for a nil error never happens
					notExist, known = false, true
				}
				rv := stripMakeInterface(l.ret.Results[0])
				isWrap := false
				if al, ok := rv.(*ssa.Alloc); ok && strings.HasSuffix(al.Type().String(), "fileNotExistError") {
					isWrap = true
				}
				switch {
				case isWrap && !(known && notExist):
					bads = append(bads, "classifies an error as `file does not exist` without os.IsNotExist(err) holding")
				case isWrap:
					wraps = true
				case l.ret.Results[0] == ssa.Value(f.Params[1]):
					if known && notExist {
						bads = append(bads, "returns a not-exist error unclassified")
					}
				default:
					if k, isK := l.ret.Results[0].(*ssa.Const); isK && k.IsNil() {
						// `return nil` is right only where err is known nil
						nilKnown := false
						for k2, chosen := range l.atoms {
							if bo, ok := l.atomVal[k2].(*ssa.BinOp); ok && (bo.Op == token.NEQ || bo.Op == token.EQL) {
								if (bo.X == ssa.Value(f.Params[1]) && isNilConst(bo.Y)) || (bo.Y == ssa.Value(f.Params[1]) && isNilConst(bo.X)) {
									nilKnown = chosen == (bo.Op == token.EQL)
								}
							}
						}
						if !nilKnown {
							bads = append(bads, "drops the error (returns nil for a non-nil error)")
						}
					} else {
						bads = append(bads, "returns something other than err or a fileNotExistError ("+newExprCtx(w).expr(l.ret.Results[0])+")")
					}
				}
			}
			if len(bads) == 0 && !wraps {
				bads = append(bads, "never classifies an error as `file does not exist`")
			}
			sort.Strings(bads)
			first := ""
			if len(bads) > 0 {
				first = bads[0]
			}
			r.Check(len(bads) == 0, rule, key, w.pos(f.Pos()), "wraps exactly the errors for which os.IsNotExist holds; passes every other error on", "WrapFileNotExistError "+first+" — diff/sum-diff report a missing side as a difference and any other read failure as an error")
		}
	}
	{
		const key = "cmd.AsFileNotExistError"
		f := fn(w.Cmd, "AsFileNotExistError")
		if f == nil || len(f.Params) != 1 {
			r.Undecided(rule, key, "-", "AsFileNotExistError not found")
			return
		}
		e := &ddEngine{w: w, env: map[ssa.Value]aval{}, maxLeafs: 16}
		e.run(f)
		var bads []string
		if e.err != nil {
			bads = append(bads, "cannot evaluate: "+e.err.Error())
		}
		found := false
		for _, l := range e.leaves {
			if l.ret == nil || len(l.ret.Results) != 1 {
				bads = append(bads, "a path does not return")
				continue
			}
			as, known := false, false
			var target ssa.Value
			for k, chosen := range l.atoms {
				if c, ok := l.atomVal[k].(*ssa.Call); ok {
					if sc := c.Common().StaticCallee(); sc != nil && sc.Pkg != nil && sc.Pkg.Pkg.Path() == "errors" && sc.Name() == "As" && len(c.Common().Args) == 2 {
						as, known = chosen, true
						target = stripMakeInterface(c.Common().Args[1])
					}
				}
			}
			rv := l.ret.Results[0]
			k, isK := rv.(*ssa.Const)
			switch {
			case isK && k.IsNil():
				if known && as {
					bads = append(bads, "answers nil although errors.As found a fileNotExistError")
				}
			default:
				u, isLoad := rv.(*ssa.UnOp)
				if !isLoad || u.Op != token.MUL || target == nil || u.X != target {
					bads = append(bads, "returns something other than the errors.As target ("+newExprCtx(w).expr(rv)+")")
				} else if !(known && as) {
					bads = append(bads, "returns the target although errors.As found nothing (always nil)")
				} else {
					found = true
				}
			}
		}
		if len(bads) == 0 && !found {
			bads = append(bads, "never returns the error errors.As found")
		}
		sort.Strings(bads)
		first := ""
		if len(bads) > 0 {
			first = bads[0]
		}
		r.Check(len(bads) == 0, rule, key, w.pos(f.Pos()), "non-nil exactly when errors.As finds a *fileNotExistError", "AsFileNotExistError "+first+" — a missing side is then an error instead of a reported difference (or the reverse)")
	}
}

var reParamElem = regexp.MustCompile(`^\*?\$(\w+)\[(\d+)\]$`)

// ruleListDiffElementwise: TimeSeriesList.Diff (resp. DiffExcludeSrcNaN), evaluated for two lists of two archives,
// calls TimeSeries.DiffPoints (resp. DiffPointsExcludeSrcNaN) on (tl[i], ul[i]) for i = 0 and 1 and returns two
// lists whose i-th elements are results #0 and #1 of that call.
func ruleListDiffElementwise(w *World, r *Report, rule string) {
	for _, sp := range []struct{ list, elem string }{
		{"TimeSeriesList.Diff", "TimeSeries.DiffPoints"},
		{"TimeSeriesList.DiffExcludeSrcNaN", "TimeSeries.DiffPointsExcludeSrcNaN"},
	} {
		key := "cmd." + sp.list + ":elementwise"
		f, el := fn(w.Cmd, sp.list), fn(w.Lib, sp.elem)
		if f == nil || el == nil || len(f.Params) != 2 {
			r.Undecided(rule, key, "-", sp.list+" or "+sp.elem+" not found")
			continue
		}
		const n = 2
		type ecall struct {
			c          *ssa.Call
			idx        int
			okOperands bool
		}
		var calls []ecall
		e := &ddEngine{w: w, env: lenEnv(f, map[int]int64{0: n, 1: n}), maxLeafs: 16, concreteAtoms: true}
		e.onCall = func(s *ddState, c *ssa.Call) {
			sc := c.Common().StaticCallee()
			if debugPred {
				fmt.Printf("DEBUG %s call %v static=%v key0=%s\n", key, c, sc, e.keyOf(s, c.Common().Args[0]))
			}
			if sc == nil || sc.Pkg == nil || sc.Pkg.Pkg.Path() != w.Lib.Pkg.Path() || !strings.Contains(sc.Name(), "DiffPoints") {
				return
			}
			ec := ecall{c: c, idx: -1}
			if sc == el && len(c.Common().Args) == 2 {
				m0 := reParamElem.FindStringSubmatch(e.keyOf(s, c.Common().Args[0]))
				m1 := reParamElem.FindStringSubmatch(e.keyOf(s, c.Common().Args[1]))
				if m0 != nil && m1 != nil && m0[1] == f.Params[0].Name() && m1[1] == f.Params[1].Name() && m0[2] == m1[2] {
					ec.idx, _ = strconv.Atoi(m0[2])
					ec.okOperands = true
				}
			}
			calls = append(calls, ec)
		}
		e.run(f)
		var bads []string
		if e.err != nil {
			bads = append(bads, "cannot evaluate: "+e.err.Error())
		}
		if len(e.leaves) != 1 || e.leaves[0].ret == nil || len(e.leaves[0].ret.Results) != 2 {
			bads = append(bads, fmt.Sprintf("for two lists of %d archives the result depends on something other than the lengths (%d paths)", n, len(e.leaves)))
		} else {
			seen := map[int]*ssa.Call{}
			for _, c := range calls {
				switch {
				case !c.okOperands:
					bads = append(bads, "calls "+funcName(c.c.Common().StaticCallee())+" on operands other than (receiver[i], argument[i]) — expected "+sp.elem)
				case seen[c.idx] != nil && seen[c.idx] != c.c:
					bads = append(bads, fmt.Sprintf("archive %d is compared twice", c.idx))
				default:
					seen[c.idx] = c.c
				}
			}
			for i := 0; i < n; i++ {
				if seen[i] == nil {
					bads = append(bads, fmt.Sprintf("archive %d of equally long lists is not compared with %s", i, sp.elem))
				}
			}
			// result #k is a made list whose element [i] receives result #k of the call on index i
			if len(bads) == 0 {
				for k, rv := range e.leaves[0].ret.Results {
					mk, ok := stripChangeType(rv).(*ssa.MakeSlice)
					if !ok {
						bads = append(bads, fmt.Sprintf("result #%d is not a freshly made list (%s)", k, newExprCtx(w).expr(rv)))
						continue
					}
					okStore := false
					nStores := 0
					for _, ref := range *mk.Referrers() {
						ia, ok := ref.(*ssa.IndexAddr)
						if !ok {
							continue
						}
						for _, ref2 := range *ia.Referrers() {
							st, ok := ref2.(*ssa.Store)
							if !ok || st.Addr != ssa.Value(ia) {
								continue
							}
							nStores++
							ex, ok := st.Val.(*ssa.Extract)
							if !ok || ex.Index != k {
								continue
							}
							c, ok := ex.Tuple.(*ssa.Call)
							if !ok || c.Common().StaticCallee() != el {
								continue
							}
							// same index value as the receiver's element
							if rcv := elemIndexOf(c.Common().Args[0]); rcv != nil && rcv == ia.Index {
								okStore = true
							}
						}
					}
					if !okStore || nStores != 1 {
						bads = append(bads, fmt.Sprintf("element i of result #%d is not result #%d of %s(receiver[i], argument[i])", k, k, sp.elem))
					}
				}
			}
		}
		sort.Strings(bads)
		first := ""
		if len(bads) > 0 {
			first = bads[0]
		}
		r.Check(len(bads) == 0, rule, key, w.pos(f.Pos()), "for equally long lists, element i of each result is the matching result of "+sp.elem+"(tl[i], ul[i])", sp.list+": "+first+" — copy writes and diff lists what this returns")
	}
}

// elemIndexOf: v is X[i] (loaded) -> i.
func elemIndexOf(v ssa.Value) ssa.Value {
	if u, ok := v.(*ssa.UnOp); ok && u.Op == token.MUL {
		v = u.X
	}
	switch x := v.(type) {
	case *ssa.IndexAddr:
		return x.Index
	case *ssa.Index:
		return x.Index
	}
	return nil
}

// pathAvoiding: is there a way from block `from` (entered from prev) to a Return that passes no instruction for which
// hit is true? Returns that Return, or nil.
func pathAvoiding(from *ssa.BasicBlock, hit func(ssa.Instruction) bool) *ssa.Return {
	return pathAvoidingTo(from, hit, nil)
}

// pathAvoidingTo: like pathAvoiding, counting only returns that accept approves (nil = all).
func pathAvoidingTo(from *ssa.BasicBlock, hit func(ssa.Instruction) bool, accept func(*ssa.Return) bool) *ssa.Return {
	seen := map[*ssa.BasicBlock]bool{}
	var walk func(b *ssa.BasicBlock) *ssa.Return
	walk = func(b *ssa.BasicBlock) *ssa.Return {
		if seen[b] {
			return nil
		}
		seen[b] = true
		for _, in := range b.Instrs {
			if hit(in) {
				return nil
			}
			if ret, ok := in.(*ssa.Return); ok {
				if accept != nil && !accept(ret) {
					return nil
				}
				return ret
			}
			if _, ok := in.(*ssa.Panic); ok {
				return nil
			}
		}
		for _, s := range b.Succs {
			if r := walk(s); r != nil {
				return r
			}
		}
		return nil
	}
	return walk(from)
}

// reachesInstr: some instruction with hit true is reachable from block `from`.
func reachesInstr(from *ssa.BasicBlock, hit func(ssa.Instruction) bool) ssa.Instruction {
	seen := map[*ssa.BasicBlock]bool{}
	var walk func(b *ssa.BasicBlock) ssa.Instruction
	walk = func(b *ssa.BasicBlock) ssa.Instruction {
		if seen[b] {
			return nil
		}
		seen[b] = true
		for _, in := range b.Instrs {
			if hit(in) {
				return in
			}
		}
		for _, s := range b.Succs {
			if r := walk(s); r != nil {
				return r
			}
		}
		return nil
	}
	return walk(from)
}

// ruleServerErrorsAnswered: the closure wrapHandler returns answers a handler failure with an error status on every
// path and appends nothing to a successful response; httpError.WriteTo sends its own status code.
// (An unanswered failure is a 200 with an empty body, which every client decoder takes for `does not exist`.)
func ruleServerErrorsAnswered(w *World, r *Report, rule string) {
	wt := fn(w.Cmd, "httpError.WriteTo")
	isErrAnswer := func(in ssa.Instruction) bool {
		c, ok := in.(*ssa.Call)
		if !ok {
			return false
		}
		if sc := c.Common().StaticCallee(); sc != nil {
			return (wt != nil && sc == wt) || isCallToPkgFunc(c, "net/http", "Error")
		}
		return c.Common().IsInvoke() && c.Common().Method.Name() == "WriteHeader"
	}
	wh := fn(w.Cmd, "wrapHandler")
	if wh == nil || wt == nil || len(wh.AnonFuncs) != 1 || len(wh.Params) != 1 {
		r.Undecided(rule, "cmd.wrapHandler", "-", "wrapHandler (with its one closure) or httpError.WriteTo not found")
	} else {
		cl := wh.AnonFuncs[0]
		var hCall *ssa.Call
		for _, c := range callsIn(cl) {
			if cv, ok := c.(*ssa.Call); ok {
				v := cv.Common().Value
				if u, ok := v.(*ssa.UnOp); ok && u.Op == token.MUL {
					v = u.X
				}
				if fv, ok := v.(*ssa.FreeVar); ok && len(cl.FreeVars) > 0 && fv == cl.FreeVars[0] {
					hCall = cv
				}
			}
		}
		bad := ""
		pos := w.pos(cl.Pos())
		if hCall == nil {
			bad = "the closure does not call the handler"
		} else {
			var test, nonNil, isNil *ssa.BasicBlock
			for _, b := range cl.Blocks {
				if x, nn, n, ok := nilTest(b); ok && x == ssa.Value(hCall) {
					test, nonNil, isNil = b, nn, n
				}
			}
			switch {
			case test == nil:
				bad = "the handler's error is not tested"
			default:
				if ret := pathAvoiding(nonNil, isErrAnswer); ret != nil {
					bad = "a handler failure can reach the end of the closure (" + w.instrPos(ret) + ") without an error response being written"
				} else if in := reachesInstr(isNil, isErrAnswer); in != nil && !blockReachableOnlyVia(in.Block(), nonNil, test) {
					bad = "an error response is written (" + w.instrPos(in) + ") after the handler succeeded"
				}
			}
		}
		r.Check(bad == "", rule, "cmd.wrapHandler:answers-failure", pos, "handler failure -> error response on every path; success -> nothing appended", "wrapHandler: "+bad+" — a failure answered with 200 and an empty body is read by the client as `does not exist`; text appended to a good response corrupts it")
	}
	if wt != nil {
		bad := ""
		if ret := pathAvoiding(wt.Blocks[0], func(in ssa.Instruction) bool {
			c, ok := in.(*ssa.Call)
			if !ok {
				return false
			}
			ex := newExprCtx(w)
			// the error's own status: the field statusCode, or — when fields were renamed and reordered — the only
			// int field of the receiver
			isStatus := func(v ssa.Value) bool {
				if ex.expr(v) == "p0.statusCode" {
					return true
				}
				u, ok := v.(*ssa.UnOp)
				if !ok || u.Op != token.MUL {
					return false
				}
				fa, ok := u.X.(*ssa.FieldAddr)
				if !ok || fa.X != ssa.Value(wt.Params[0]) {
					return false
				}
				st, ok := fa.X.Type().Underlying().(*types.Pointer).Elem().Underlying().(*types.Struct)
				if !ok {
					return false
				}
				ints := 0
				for i := 0; i < st.NumFields(); i++ {
					if bt, isB := st.Field(i).Type().Underlying().(*types.Basic); isB && bt.Kind() == types.Int {
						ints++
					}
				}
				bt, isB := st.Field(fa.Field).Type().Underlying().(*types.Basic)
				return isB && bt.Kind() == types.Int && ints == 1
			}
			if isCallToPkgFunc(c, "net/http", "Error") && len(c.Common().Args) == 3 {
				return isStatus(c.Common().Args[2])
			}
			if c.Common().IsInvoke() && c.Common().Method.Name() == "WriteHeader" && len(c.Common().Args) == 1 {
				return isStatus(c.Common().Args[0])
			}
			return false
		}); ret != nil {
			bad = "can return without sending the error's status code (http.Error / WriteHeader with e.statusCode)"
		}
		r.Check(bad == "", rule, "cmd.httpError.WriteTo:status", w.pos(wt.Pos()), "sends e.statusCode on every path", "httpError.WriteTo "+bad)
		// ... and a body: the clients do not look at the status, an empty body is their not-exist signal
		bad = ""
		if ret := pathAvoiding(wt.Blocks[0], func(in ssa.Instruction) bool {
			c, ok := in.(*ssa.Call)
			if !ok {
				return false
			}
			if isCallToPkgFunc(c, "net/http", "Error") || isCallToPkgFunc(c, "fmt", "Fprint") || isCallToPkgFunc(c, "fmt", "Fprintf") || isCallToPkgFunc(c, "fmt", "Fprintln") || isCallToPkgFunc(c, "io", "WriteString") {
				return true
			}
			return c.Common().IsInvoke() && c.Common().Method.Name() == "Write"
		}); ret != nil {
			bad = "can return (" + w.instrPos(ret) + ") without writing a body"
		}
		r.Check(bad == "", rule, "cmd.httpError.WriteTo:body", w.pos(wt.Pos()), "writes a body on every path", "httpError.WriteTo "+bad+": the clients take an empty body for `does not exist`, so a failure of the server is classified as a missing file")
	}
}

// blockReachableOnlyVia: b is dominated by the edge test->head.
func blockReachableOnlyVia(b, head, test *ssa.BasicBlock) bool {
	return edgeDominates(test, head, b)
}

var debugPred = os.Getenv("WTDEBUG_PRED") != ""

// ---- comparisons as sign constraints ----

// signOK: does `a op b` hold when sign(a-b) = sg?
func signOK(op token.Token, sg int) bool {
	switch op {
	case token.LSS:
		return sg < 0
	case token.LEQ:
		return sg <= 0
	case token.GTR:
		return sg > 0
	case token.GEQ:
		return sg >= 0
	case token.EQL:
		return sg == 0
	case token.NEQ:
		return sg != 0
	}
	return false
}

// stripNot peels logical negations; neg tells whether an odd number was removed.
func stripNot(v ssa.Value) (ssa.Value, bool) {
	neg := false
	for {
		u, ok := v.(*ssa.UnOp)
		if !ok || u.Op != token.NOT {
			return v, neg
		}
		v, neg = u.X, !neg
	}
}

// ruleFilterByTimeRange (decision diagram): filterPointsByTimeRange, evaluated for one point, keeps it exactly when
// (from == 0 or t > from) and t <= U, where U is until, or until + step when until == from.
func ruleFilterByTimeRange(w *World, r *Report, rule string) {
	const key = "cmd.filterPointsByTimeRange:predicate"
	f := fn(w.Cmd, "filterPointsByTimeRange")
	if f == nil || len(f.Params) != 4 {
		r.Undecided(rule, key, "-", "filterPointsByTimeRange not found")
		return
	}
	e := &ddEngine{w: w, env: lenEnv(f, map[int]int64{1: 1}), maxLeafs: 64, concreteAtoms: true}
	e.run(f)
	var bads []string
	if e.err != nil {
		bads = append(bads, "cannot evaluate: "+e.err.Error())
	}
	var appendBlock *ssa.BasicBlock
	eachInstr(f, func(in ssa.Instruction) {
		if c, ok := in.(*ssa.Call); ok {
			if b, ok := c.Common().Value.(*ssa.Builtin); ok && b.Name() == "append" {
				appendBlock = c.Block()
			}
		}
	})
	if appendBlock == nil {
		bads = append(bads, "no point is ever kept (no append)")
	}
	class := func(st *ddState, v ssa.Value) string {
		for i := 0; i < 6; i++ {
			switch x := v.(type) {
			case *ssa.Convert:
				v = x.X
				continue
			case *ssa.ChangeType:
				v = x.X
				continue
			case *ssa.Phi:
				if a := e.value(st, v); a.k == kSym && a.sym != nil && a.sym != v {
					v = a.sym
					continue
				}
			}
			break
		}
		if a := e.value(st, v); a.k == kInt && a.i == 0 {
			return "0"
		}
		if k, ok := constInt(v); ok && k == 0 {
			return "0"
		}
		switch x := v.(type) {
		case *ssa.Parameter:
			switch x {
			case f.Params[2]:
				return "from"
			case f.Params[3]:
				return "until"
			}
		case *ssa.Call:
			if sc := x.Common().StaticCallee(); sc != nil && funcName(sc) == "whispertool.Timestamp.Add" && len(x.Common().Args) == 2 {
				if x.Common().Args[0] == ssa.Value(f.Params[3]) {
					if c2, ok := stripChangeType(x.Common().Args[1]).(*ssa.Call); ok {
						if sc2 := c2.Common().StaticCallee(); sc2 != nil && funcName(sc2) == "whispertool.ArchiveInfo.SecondsPerPoint" {
							return "until+step"
						}
					}
					if strings.HasSuffix(newExprCtx(w).expr(x.Common().Args[1]), ".secondsPerPoint") {
						return "until+step"
					}
				}
			}
		}
		if strings.HasSuffix(newExprCtx(w).expr(v), ".Time") && elemOfParam(v, f.Params[1]) {
			return "t"
		}
		return "?"
	}
	for _, l := range e.leaves {
		if l.ret == nil {
			bads = append(bads, "a path does not return")
			continue
		}
		included := false
		for _, b := range l.path {
			if b == appendBlock {
				included = true
			}
		}
		type con struct {
			a, b   string
			op     token.Token
			chosen bool
		}
		var cons []con
		okAtoms := true
		for k, chosen := range l.atoms {
			v, neg := stripNot(l.atomVal[k])
			bo, ok := v.(*ssa.BinOp)
			if !ok || !isCmp(bo.Op) {
				bads = append(bads, "a condition that is not a comparison of the point's time, from, until or 0 decides the result ("+k+")")
				okAtoms = false
				continue
			}
			a, b := class(l.st, bo.X), class(l.st, bo.Y)
			if a == "?" || b == "?" {
				bads = append(bads, "a condition that is not a comparison of the point's time, from, until or 0 decides the result ("+k+")")
				okAtoms = false
				continue
			}
			cons = append(cons, con{a, b, bo.Op, chosen != neg})
		}
		if !okAtoms {
			continue
		}
		// enumerate: from vs 0, until vs from, t vs from, t vs until, t vs until+step
		sign := map[[2]string]int{}
		get := func(a, b string) (int, bool) {
			if sg, ok := sign[[2]string{a, b}]; ok {
				return sg, true
			}
			if sg, ok := sign[[2]string{b, a}]; ok {
				return -sg, true
			}
			return 0, false
		}
		pairs := [][2]string{{"from", "0"}, {"until", "from"}, {"t", "from"}, {"t", "until"}, {"t", "until+step"}}
		var enum func(i int)
		enum = func(i int) {
			if i == len(pairs) {
				for _, c := range cons {
					sg, ok := get(c.a, c.b)
					if !ok {
						bads = append(bads, "compares "+c.a+" with "+c.b)
						return
					}
					if signOK(c.op, sg) != c.chosen {
						return // this valuation does not take this path
					}
				}
				f0, _ := get("from", "0")
				deg, _ := get("until", "from")
				tf, _ := get("t", "from")
				tu, _ := get("t", "until")
				tus, _ := get("t", "until+step")
				// valuations no timestamps realise: from = 0 is the least value; until = from makes both comparisons
				// of t agree; until+step lies above until
				if (f0 == 0 && (deg < 0 || tf < 0)) || (deg == 0 && tf != tu) || (tu <= 0 && tus >= 0) || (deg > 0 && tf <= 0 && tu >= 0) || (deg < 0 && tf >= 0 && tu <= 0) {
					return
				}
				upper := tu <= 0
				if deg == 0 {
					upper = tus <= 0
				}
				want := (f0 == 0 || tf > 0) && upper
				if want != included {
					verb := map[bool]string{true: "kept", false: "dropped"}
					bads = append(bads, fmt.Sprintf("a point is %s where (from==0 or t>from) and t<=until%s says %s [from%s0, until%sfrom, t%sfrom, t%suntil, t%suntil+step]",
						verb[included], map[bool]string{true: "+step", false: ""}[deg == 0], verb[want], sgs(f0), sgs(deg), sgs(tf), sgs(tu), sgs(tus)))
				}
				return
			}
			lo := -1
			if pairs[i][0] == "from" && pairs[i][1] == "0" {
				lo = 0 // timestamps are unsigned
			}
			for sg := lo; sg <= 1; sg++ {
				sign[pairs[i]] = sg
				enum(i + 1)
			}
		}
		enum(0)
	}
	sort.Strings(bads)
	first := ""
	if len(bads) > 0 {
		first = bads[0]
	}
	r.Check(len(bads) == 0, rule, key, w.pos(f.Pos()), "keeps a point iff (from == 0 or t > from) and t <= until (until + step when until == from)", "filterPointsByTimeRange: "+first+" — view-raw no longer shows exactly the slots of the requested time range")
}

func sgs(sg int) string {
	switch {
	case sg < 0:
		return "<"
	case sg > 0:
		return ">"
	}
	return "="
}

// elemOfParam: v is (a field of) an element of slice parameter p.
func elemOfParam(v ssa.Value, p *ssa.Parameter) bool {
	for i := 0; i < 8; i++ {
		switch x := v.(type) {
		case *ssa.UnOp:
			v = x.X
		case *ssa.Field:
			v = x.X
		case *ssa.FieldAddr:
			v = x.X
		case *ssa.IndexAddr:
			return stripChangeType(x.X) == ssa.Value(p)
		case *ssa.Index:
			return stripChangeType(x.X) == ssa.Value(p)
		case *ssa.Alloc:
			// a local copy of the element
			var st *ssa.Store
			n := 0
			for _, ref := range *x.Referrers() {
				if s2, ok := ref.(*ssa.Store); ok && s2.Addr == ssa.Value(x) {
					st, n = s2, n+1
				}
			}
			if n != 1 {
				return false
			}
			v = st.Val
		default:
			return false
		}
	}
	return false
}

// ruleWindowEquality (decision diagram): TimeSeries.EqualTimeRangeAndStep answers true exactly when FromTime,
// UntilTime and Step of the two series are pairwise equal.
func ruleWindowEquality(w *World, r *Report, rule string) {
	const key = "whispertool.TimeSeries.EqualTimeRangeAndStep"
	f := fn(w.Lib, "TimeSeries.EqualTimeRangeAndStep")
	if f == nil || len(f.Params) != 2 {
		r.Undecided(rule, key, "-", "TimeSeries.EqualTimeRangeAndStep not found")
		return
	}
	parts := []string{"FromTime", "UntilTime", "Step"}
	// partOf: v compares the same accessor (or field) of both series for equality
	partOf := func(v ssa.Value) (string, bool) {
		v, neg := stripNot(v)
		bo, ok := v.(*ssa.BinOp)
		if !ok || (bo.Op != token.EQL && bo.Op != token.NEQ) {
			return "", false
		}
		side := func(x ssa.Value) (string, int) {
			if c, ok := x.(*ssa.Call); ok {
				if sc := c.Common().StaticCallee(); sc != nil && len(c.Common().Args) == 1 {
					for i, p := range f.Params {
						if c.Common().Args[0] == ssa.Value(p) {
							return strings.TrimPrefix(funcName(sc), "whispertool.TimeSeries."), i
						}
					}
				}
				return "", -1
			}
			s := newExprCtx(w).expr(x)
			for i := range f.Params {
				for fld, acc := range map[string]string{"fromTime": "FromTime", "untilTime": "UntilTime", "step": "Step"} {
					if s == fmt.Sprintf("p%d.%s", i, fld) {
						return acc, i
					}
				}
			}
			return "", -1
		}
		a, ai := side(bo.X)
		b, bi := side(bo.Y)
		if a == "" || a != b || ai == bi || ai < 0 || bi < 0 {
			return "", false
		}
		return a, (bo.Op == token.EQL) != neg
	}
	e := &ddEngine{w: w, env: map[ssa.Value]aval{}, maxLeafs: 32}
	e.run(f)
	var bads []string
	if e.err != nil {
		bads = append(bads, "cannot evaluate: "+e.err.Error())
	}
	sawTrue := false
	for _, l := range e.leaves {
		if l.ret == nil || len(l.results) != 1 {
			bads = append(bads, "a path does not return a boolean")
			continue
		}
		eq := map[string]bool{}
		okAtoms := true
		for k, chosen := range l.atoms {
			part, isEq := partOf(l.atomVal[k])
			if part == "" {
				bads = append(bads, "a condition other than the three accessor comparisons decides the result ("+k+")")
				okAtoms = false
				continue
			}
			eq[part] = chosen == isEq
		}
		if !okAtoms {
			continue
		}
		res := l.results[0]
		canBeTrue := false
		if res.k == kBool {
			canBeTrue = res.b
		} else {
			rv := res.sym
			if rv == nil {
				rv = l.ret.Results[0]
			}
			part, isEq := partOf(rv)
			if part == "" || !isEq {
				bads = append(bads, "the result is "+newExprCtx(w).expr(rv)+", not an equality of the remaining accessor")
				continue
			}
			eq[part] = true
			canBeTrue = true
		}
		if !canBeTrue {
			// a false answer needs a difference
			diff := false
			for _, v := range eq {
				if !v {
					diff = true
				}
			}
			if !diff && res.k == kBool {
				bads = append(bads, "answers false although nothing compared differs")
			}
			continue
		}
		for _, p := range parts {
			if !eq[p] {
				bads = append(bads, "two series are reported to cover the same window although "+p+" differs (or was not compared)")
			}
		}
		sawTrue = true
	}
	if len(bads) == 0 && !sawTrue {
		bads = append(bads, "no path answers true")
	}
	sort.Strings(bads)
	first := ""
	if len(bads) > 0 {
		first = bads[0]
	}
	r.Check(len(bads) == 0, rule, key, w.pos(f.Pos()), "true iff FromTime, UntilTime and Step are pairwise equal", "TimeSeries.EqualTimeRangeAndStep: "+first+" — the commands' window-agreement check (AllEqualTimeRangeAndStep) rests on it")
}

// ruleDiffLengthGuard (decision diagram): DiffPoints / DiffPointsExcludeSrcNaN compare slot by slot when both series
// have the same number of values (no call of Points), and give up with all points of both only when they differ.
func ruleDiffLengthGuard(w *World, r *Report, rule string) {
	values, points, equal := fn(w.Lib, "TimeSeries.Values"), fn(w.Lib, "TimeSeries.Points"), fn(w.Lib, "Value.Equal")
	for _, name := range []string{"TimeSeries.DiffPoints", "TimeSeries.DiffPointsExcludeSrcNaN"} {
		key := "whispertool." + name + ":length-guard"
		f := fn(w.Lib, name)
		if f == nil || values == nil || points == nil || equal == nil || len(f.Params) != 2 {
			r.Undecided(rule, key, "-", name+" (or Values/Points/Value.Equal) not found")
			continue
		}
		var bads []string
		for _, lens := range [][2]int64{{1, 1}, {1, 2}} {
			env := map[ssa.Value]aval{}
			eachInstr(f, func(in ssa.Instruction) {
				c, ok := in.(*ssa.Call)
				if !ok {
					return
				}
				b, ok := c.Call.Value.(*ssa.Builtin)
				if !ok || b.Name() != "len" {
					return
				}
				// len(ts.Values()) or len(ts.values)
				arg := stripChangeType(c.Call.Args[0])
				if vc, ok := arg.(*ssa.Call); ok && vc.Common().StaticCallee() == values && len(vc.Common().Args) == 1 {
					for i, p := range f.Params {
						if vc.Common().Args[0] == ssa.Value(p) {
							env[c] = aval{k: kInt, i: lens[i]}
						}
					}
					return
				}
				s := newExprCtx(w).expr(arg)
				for i := range f.Params {
					if s == fmt.Sprintf("p%d.values", i) {
						env[c] = aval{k: kInt, i: lens[i]}
					}
				}
			})
			nPoints, nEqual := 0, 0
			e := &ddEngine{w: w, env: env, maxLeafs: 64, concreteAtoms: true}
			e.onCall = func(s *ddState, c *ssa.Call) {
				switch c.Common().StaticCallee() {
				case points:
					nPoints++
				case equal:
					nEqual++
				}
			}
			e.run(f)
			if e.err != nil {
				bads = append(bads, "cannot evaluate: "+e.err.Error())
				continue
			}
			if lens[0] == lens[1] {
				if nPoints > 0 {
					bads = append(bads, "series of equal length are answered with all their points instead of the differing ones")
				}
				if nEqual == 0 {
					bads = append(bads, "series of equal length are not compared value by value")
				}
			} else {
				if nEqual > 0 {
					bads = append(bads, "series of different lengths are compared slot by slot (index out of range)")
				}
				if nPoints < 2 {
					bads = append(bads, "series of different lengths are not answered with all points of both")
				}
			}
		}
		sort.Strings(bads)
		first := ""
		if len(bads) > 0 {
			first = bads[0]
		}
		r.Check(len(bads) == 0, rule, key, w.pos(f.Pos()), "equal lengths -> slot-by-slot comparison; different lengths -> all points of both", name+": "+first+" — copy then writes, and diff lists, every slot (NaN included)")
	}
}

// rejectEntry: a comparison of a with b may send the decoder to a failure return only for the listed signs of a-b.
type rejectEntry struct {
	a, b    string
	allowed []int
	what    string
}

// ruleRejectsOnlyMalformed: every failure return of f that is directly controlled by a comparison listed in the table
// fails only for the malformed side of that comparison. Guards not in the table are not judged.
func ruleRejectsOnlyMalformed(w *World, r *Report, rule string, f *ssa.Function, table []rejectEntry) {
	key := funcName(f) + ":rejects-only-malformed"
	idx := errResultIndex(f)
	if idx < 0 {
		r.Undecided(rule, key, w.pos(f.Pos()), "no error result")
		return
	}
	var bads []string
	judged := 0
	for _, ret := range returnsOf(f) {
		if !isFreshOrSentinel(ret.Results[idx]) {
			continue
		}
		// the controlling test: the nearest If above the return through single-predecessor blocks
		b := ret.Block()
		var test *ssa.BasicBlock
		var taken *ssa.BasicBlock
		for i := 0; i < 4 && len(b.Preds) == 1; i++ {
			p := b.Preds[0]
			if _, ok := p.Instrs[len(p.Instrs)-1].(*ssa.If); ok {
				test, taken = p, b
				break
			}
			b = p
		}
		if test == nil {
			continue
		}
		cond, neg := stripNot(test.Instrs[len(test.Instrs)-1].(*ssa.If).Cond)
		bo, ok := cond.(*ssa.BinOp)
		if !ok || !isCmp(bo.Op) {
			continue
		}
		onTrue := (taken == test.Succs[0]) != neg
		ex := newExprCtx(w)
		xs, ys := ex.expr(bo.X), ex.expr(bo.Y)
		for _, en := range table {
			flip := 0
			switch {
			case xs == en.a && ys == en.b:
				flip = 1
			case xs == en.b && ys == en.a:
				flip = -1
			default:
				continue
			}
			judged++
			for sg := -1; sg <= 1; sg++ {
				if signOK(bo.Op, sg*flip) != onTrue {
					continue // this sign does not reach the failure
				}
				okSign := false
				for _, a := range en.allowed {
					if a == sg {
						okSign = true
					}
				}
				if !okSign {
					bads = append(bads, fmt.Sprintf("fails at %s when %s %s %s: %s", w.instrPos(ret), en.a, sgs(sg), en.b, en.what))
				}
			}
		}
	}
	sort.Strings(bads)
	first := ""
	if len(bads) > 0 {
		first = bads[0]
	}
	r.Check(len(bads) == 0, rule, key, w.pos(f.Pos()), fmt.Sprintf("%d failure guards judged: each fails only for malformed input", judged), funcName(f)+" "+first)
}

// ruleGenerateSumOfFiner (decision diagrams): randomValWithHighSum, evaluated for two finer points, adds exactly the
// finer values whose truncated time equals t and leaves the loop early only past t; when t is not older than the first
// finer point the result is that sum alone (no random remainder). In randomPoints the first covered slot is taken
// from the finer points only when there are some and they start before this archive's until.
func ruleGenerateSumOfFiner(w *World, r *Report, rule string) {
	// ---- A: the sum
	if f := fn(w.Cmd, "randomValWithHighSum"); f == nil || len(f.Params) != 6 {
		r.Undecided(rule, "cmd.randomValWithHighSum:sum", "-", "randomValWithHighSum not found")
	} else {
		const key = "cmd.randomValWithHighSum:sum"
		tParam, hp := f.Params[0], f.Params[5]
		const n = 2
		var addBlock, header, body *ssa.BasicBlock
		eachInstr(f, func(in ssa.Instruction) {
			bo, ok := in.(*ssa.BinOp)
			if !ok || bo.Op != token.ADD {
				return
			}
			for _, o := range []ssa.Value{bo.X, bo.Y} {
				if strings.HasSuffix(newExprCtx(w).expr(o), ".Value") && elemOfParam(o, hp) {
					addBlock = bo.Block()
				}
			}
		})
		var bads []string
		if addBlock == nil {
			bads = append(bads, "no finer value is ever added")
		} else {
			for b := addBlock; b != nil; b = b.Idom() {
				if isLoopHeader(b) {
					header = b
					break
				}
			}
			if header == nil {
				bads = append(bads, "the finer values are not added in a loop")
			} else {
				for _, s := range header.Succs {
					if s.Dominates(addBlock) || s == addBlock {
						body = s
					}
				}
			}
		}
		if len(bads) == 0 {
			e := &ddEngine{w: w, env: lenEnv(f, map[int]int64{5: n}), maxLeafs: 256, concreteAtoms: true}
			e.run(f)
			if e.err != nil {
				bads = append(bads, "cannot evaluate: "+e.err.Error())
			}
			usesRand := func(v ssa.Value) bool {
				found := false
				var rec func(v ssa.Value, d int)
				rec = func(v ssa.Value, d int) {
					if d > 12 || found {
						return
					}
					if c, ok := v.(*ssa.Call); ok && isMethodCall(c, "math/rand", "Rand", "Intn") {
						found = true
						return
					}
					if _, ok := v.(*ssa.Phi); ok {
						return
					}
					if in, ok := v.(ssa.Instruction); ok {
						for _, o := range in.Operands(nil) {
							if *o != nil {
								rec(*o, d+1)
							}
						}
					}
				}
				rec(v, 0)
				return found
			}
			for _, l := range e.leaves {
				if l.ret == nil || len(l.ret.Results) != 1 {
					continue
				}
				added := map[int]bool{}
				it, entered := -1, 0
				for _, b := range l.path {
					switch b {
					case header:
						it++
					case body:
						entered++
					}
					if b == addBlock && it >= 0 {
						added[it] = true
					}
				}
				allowed := map[int]map[int]bool{}
				for i := 0; i < n; i++ {
					allowed[i] = map[int]bool{-1: true, 0: true, 1: true}
				}
				cover := map[int]bool{-1: true, 0: true, 1: true} // sign of t - first finer time
				okAtoms := true
				for k, chosen := range l.atoms {
					v, neg := stripNot(l.atomVal[k])
					bo, ok := v.(*ssa.BinOp)
					if !ok || !isCmp(bo.Op) {
						okAtoms = false
						bads = append(bads, "a condition other than a comparison with t decides the result ("+k+")")
						continue
					}
					want := chosen != neg
					isT := func(x ssa.Value) bool { return stripConvert(x) == ssa.Value(tParam) }
					isTrunc := func(x ssa.Value) bool {
						c, ok := x.(*ssa.Call)
						return ok && c.Common().StaticCallee() != nil && funcName(c.Common().StaticCallee()) == "whispertool.Timestamp.Truncate" && elemOfParam(c.Common().Args[0], hp)
					}
					isFirst := func(x ssa.Value) bool {
						s := newExprCtx(w).expr(x)
						return strings.HasSuffix(s, "[0].Time") && elemOfParam(x, hp)
					}
					flip := 0
					kind := ""
					switch {
					case isTrunc(bo.X) && isT(bo.Y):
						flip, kind = 1, "elem"
					case isTrunc(bo.Y) && isT(bo.X):
						flip, kind = -1, "elem"
					case isT(bo.X) && isFirst(bo.Y):
						flip, kind = 1, "cover"
					case isT(bo.Y) && isFirst(bo.X):
						flip, kind = -1, "cover"
					default:
						okAtoms = false
						bads = append(bads, "a condition other than a comparison with t decides the result ("+k+")")
						continue
					}
					set := cover
					if kind == "elem" {
						m := reFirstIndex.FindStringSubmatch(k)
						if m == nil {
							okAtoms = false
							continue
						}
						i, _ := strconv.Atoi(m[1])
						set = allowed[i]
					}
					for sg := -1; sg <= 1; sg++ {
						if signOK(bo.Op, sg*flip) != want {
							delete(set, sg)
						}
					}
				}
				if !okAtoms {
					continue
				}
				for i := 0; i < n && i < entered; i++ {
					if added[i] && !(len(allowed[i]) == 1 && allowed[i][0]) {
						bads = append(bads, fmt.Sprintf("finer point %d is added although its truncated time may differ from t", i))
					}
					if !added[i] && allowed[i][0] {
						// skipped although it may belong to t — unless an earlier point already lies past t (sorted input)
						past := false
						for j := 0; j < i; j++ {
							if len(allowed[j]) == 1 && allowed[j][1] {
								past = true
							}
						}
						if !past {
							bads = append(bads, fmt.Sprintf("finer point %d is not added although its truncated time may equal t", i))
						}
					}
				}
				if entered < n && entered > 0 {
					last := entered - 1
					if !(len(allowed[last]) == 1 && allowed[last][1]) {
						bads = append(bads, fmt.Sprintf("the loop stops at finer point %d although later points may still belong to t", last))
					}
				}
				if cover[1] && usesRand(l.ret.Results[0]) {
					bads = append(bads, "a random remainder is added although t may be later than the first finer point (the slot is fully covered, and the number of missing finer slots is negative)")
				}
				if usesRand(l.ret.Results[0]) {
					// the remainder is V + N*Intn(highRndMax+1), N the number of finer slots missing before the first finer point
					var intn *ssa.Call
					names := func(x ssa.Value) (string, bool) {
						if c, ok := x.(*ssa.Call); ok && isMethodCall(c, "math/rand", "Rand", "Intn") {
							intn = c
							return "R", true
						}
						if _, ok := x.(*ssa.Phi); ok {
							return "V", true
						}
						if bo, ok := x.(*ssa.BinOp); ok && bo.Op == token.QUO {
							s := strings.ReplaceAll(newExprCtx(w).expr(x), " /:int32 1)", ")")
							s = strings.ReplaceAll(s, "((", "(")
							if strings.Contains(s, "whispertool.Timestamp.Sub(p5[0].Time, p0)") && strings.HasSuffix(s, "/:int32 p4.secondsPerPoint)") && strings.Count(s, "/") == 1 {
								return "N", true
							}
							return "?(" + s + ")", true
						}
						if bo, ok := x.(*ssa.BinOp); ok && bo.Op == token.ADD && x.Type().String() != "int" {
							// the accumulated sum itself (v += hp.Value) is one quantity
							for _, o := range []ssa.Value{bo.X, bo.Y} {
								if strings.HasSuffix(newExprCtx(w).expr(o), ".Value") && elemOfParam(o, hp) {
									return "V", true
								}
							}
						}
						return "", false
					}
					got := polyOf(w, l.ret.Results[0], names)
					want := poly{"V": 1, "N*R": 1}
					if !got.equal(want) {
						bads = append(bads, "the value of a partly covered slot is "+got.String()+"; expected V + N*R (V the finer sum, N the finer slots missing before the first finer point, R = Intn(highRndMax+1))")
					} else if intn != nil {
						arg := polyOf(w, intn.Common().Args[1], func(x ssa.Value) (string, bool) {
							if x == ssa.Value(f.Params[2]) {
								return "H", true
							}
							return "", false
						})
						if !arg.equal(poly{"H": 1, "": 1}) {
							bads = append(bads, "the random remainder is drawn from Intn("+arg.String()+"), not Intn(highRndMax+1)")
						}
					}
				}
			}
		}
		sort.Strings(bads)
		first := ""
		if len(bads) > 0 {
			first = bads[0]
		}
		r.Check(len(bads) == 0, rule, key, w.pos(f.Pos()), "adds exactly the finer values truncating to t; no remainder for covered slots (decided for two finer points)", "randomValWithHighSum: "+first+" — a coarser slot covered by finer slots no longer equals their sum")
	}
	// ---- B: where the covered slots start
	if f := fn(w.Cmd, "randomPoints"); f == nil || len(f.Params) != 8 {
		r.Undecided(rule, "cmd.randomPoints:covered-start", "-", "randomPoints not found")
	} else {
		const key = "cmd.randomPoints:covered-start"
		hp := f.Params[2]
		// the value compared with 0 next to the plain-random choice
		var start ssa.Value
		var header *ssa.BasicBlock
		eachInstr(f, func(in ssa.Instruction) {
			bo, ok := in.(*ssa.BinOp)
			if !ok || (bo.Op != token.EQL && bo.Op != token.NEQ) || !inLoopWith(bo.Block()) {
				return
			}
			for _, pr := range [][2]ssa.Value{{bo.X, bo.Y}, {bo.Y, bo.X}} {
				if k, ok := constInt(pr[1]); ok && k == 0 {
					if _, isPhi := pr[0].(*ssa.Phi); isPhi {
						start = pr[0]
					}
				}
			}
		})
		for _, b := range f.Blocks {
			if isLoopHeader(b) && header == nil {
				header = b
			}
		}
		var bads []string
		if start == nil || header == nil {
			bads = append(bads, "the start of the covered slots (a value tested against 0 inside the loop) was not found")
		} else {
			e := &ddEngine{w: w, env: map[ssa.Value]aval{}, maxLeafs: 32, stop: func(b *ssa.BasicBlock) bool { return b == header }}
			e.run(f)
			if e.err != nil {
				bads = append(bads, "cannot evaluate: "+e.err.Error())
			}
			sawTrunc := false
			for _, l := range e.leaves {
				if l.stop == nil || l.st == nil {
					continue
				}
				a := e.value(l.st, start)
				isTrunc := false
				if a.k == kSym && a.sym != nil {
					if c, ok := a.sym.(*ssa.Call); ok && c.Common().StaticCallee() != nil && funcName(c.Common().StaticCallee()) == "whispertool.Timestamp.Truncate" && elemOfParam(c.Common().Args[0], hp) {
						isTrunc = true
					}
				}
				isZero := a.k == kInt && a.i == 0
				if !isTrunc && !isZero {
					bads = append(bads, "the start of the covered slots is neither 0 nor the truncated time of the first finer point")
					continue
				}
				haveFiner, knownFiner := false, false
				rel := map[int]bool{-1: true, 0: true, 1: true} // sign of first finer time - this archive's until
				for k, chosen := range l.atoms {
					v, neg := stripNot(l.atomVal[k])
					bo, ok := v.(*ssa.BinOp)
					if !ok {
						continue
					}
					want := chosen != neg
					if (bo.Op == token.NEQ || bo.Op == token.EQL) && (isNilConst(bo.X) || isNilConst(bo.Y)) {
						haveFiner, knownFiner = want == (bo.Op == token.NEQ), true
						continue
					}
					if l2, emptyWhenTrue, ok := lenEmptyCond(v); ok && stripChangeType(l2.Common().Args[0]) == ssa.Value(hp) {
						haveFiner, knownFiner = want != emptyWhenTrue, true
						continue
					}
					if !isCmp(bo.Op) {
						continue
					}
					isFirst := func(x ssa.Value) bool {
						return strings.HasSuffix(newExprCtx(w).expr(x), "[0].Time") && elemOfParam(x, hp)
					}
					isUntil := func(x ssa.Value) bool {
						return newExprCtx(w).expr(x) == "whispertool.Timestamp.Truncate(p6, p0.secondsPerPoint)"
					}
					flip := 0
					switch {
					case isFirst(bo.X) && isUntil(bo.Y):
						flip = 1
					case isFirst(bo.Y) && isUntil(bo.X):
						flip = -1
					default:
						continue
					}
					for sg := -1; sg <= 1; sg++ {
						if signOK(bo.Op, sg*flip) != want {
							delete(rel, sg)
						}
					}
				}
				if isTrunc {
					sawTrunc = true
					if !(knownFiner && haveFiner) {
						bads = append(bads, "the first finer point is used without knowing there is one")
					}
					if rel[1] {
						bads = append(bads, "slots are treated as covered although the finer points may start after this archive's until")
					}
				} else if knownFiner && haveFiner && !rel[0] && !rel[1] {
					bads = append(bads, "no slot is treated as covered although finer points exist and start before this archive's until: every coarser value is plain random")
				} else if knownFiner && haveFiner && rel[0] {
					bads = append(bads, "no slot is treated as covered when the finer points start exactly at this archive's until (finer retention = this step, generation instant in the last finer slot): the newest coarser slot is fully covered and still plain random")
				}
			}
			if len(bads) == 0 && !sawTrunc {
				bads = append(bads, "no path takes the start of the covered slots from the finer points")
			}
		}
		sort.Strings(bads)
		first := ""
		if len(bads) > 0 {
			first = bads[0]
		}
		r.Check(len(bads) == 0, rule, key, w.pos(f.Pos()), "covered slots start at the truncated time of the first finer point iff finer points exist and start before until", "randomPoints: "+first+" — a coarser slot covered by finer slots no longer equals their sum")
	}
}

// ruleUntilDefault (decision diagram): in a command body the `until` handed to the reader is the command's Until
// when that is set, and the clock reading when it is 0 — decided on every path from the entry to the first use.
func ruleUntilDefault(w *World, r *Report, rule string, f *ssa.Function, readers []*ssa.Function) {
	key := funcName(f) + ":until-default"
	isReader := func(sc *ssa.Function) bool {
		for _, rd := range readers {
			if rd != nil && sc == rd {
				return true
			}
		}
		return false
	}
	// the variable: the argument bound to the reader's parameter named until, traced into f
	var uAlloc *ssa.Alloc
	var uPhi *ssa.Phi
	var nReads int
	for _, g := range withLiterals(f) {
		for _, c := range callsIn(g) {
			sc := c.Common().StaticCallee()
			if sc == nil || !isReader(sc) {
				continue
			}
			ps := sc.Signature.Params()
			for i := 0; i < ps.Len() && i < len(c.Common().Args); i++ {
				if ps.At(i).Name() != "until" {
					continue
				}
				nReads++
				v := c.Common().Args[i]
				if u, ok := v.(*ssa.UnOp); ok && u.Op == token.MUL {
					v = u.X
				}
				switch x := v.(type) {
				case *ssa.Alloc:
					uAlloc = x
				case *ssa.Phi:
					uPhi = x
				case *ssa.FreeVar:
					// the parent's variable bound to this free variable
					for p := g; p != nil && uAlloc == nil; p = p.Parent() {
						for _, mc := range makeClosuresOf(p.Parent(), p) {
							for j, fv := range p.FreeVars {
								if fv == x && j < len(mc.Bindings) {
									if al, ok := mc.Bindings[j].(*ssa.Alloc); ok {
										uAlloc = al
									}
								}
							}
						}
						break
					}
				}
			}
		}
	}
	if nReads == 0 {
		r.Undecided(rule, key, w.pos(f.Pos()), "no read with an until argument found")
		return
	}
	if uAlloc == nil && uPhi == nil {
		r.Undecided(rule, key, w.pos(f.Pos()), "the until argument is not a local variable of the command body")
		return
	}
	if (uAlloc != nil && uAlloc.Parent() != f) || (uPhi != nil && uPhi.Parent() != f) {
		r.Undecided(rule, key, w.pos(f.Pos()), "the until variable does not belong to the command body")
		return
	}
	// first use: the first instruction of f that reads the variable other than a comparison
	var useBlock *ssa.BasicBlock
	var useInstr ssa.Instruction
	for _, b := range f.DomPreorder() {
		for _, in := range b.Instrs {
			uses := false
			switch x := in.(type) {
			case *ssa.MakeClosure:
				for _, bd := range x.Bindings {
					if uAlloc != nil && bd == ssa.Value(uAlloc) {
						uses = true
					}
				}
			case *ssa.Call:
				for _, a := range x.Common().Args {
					if u, ok := a.(*ssa.UnOp); ok && u.Op == token.MUL && uAlloc != nil && u.X == ssa.Value(uAlloc) {
						uses = true
					}
					if uPhi != nil && a == ssa.Value(uPhi) {
						uses = true
					}
				}
			}
			if uses && useBlock == nil {
				useBlock, useInstr = b, in
			}
		}
	}
	if useBlock == nil {
		r.Undecided(rule, key, w.pos(f.Pos()), "no use of the until variable found")
		return
	}
	if uPhi != nil && uPhi.Block() == useBlock {
		// stop after the phi has been evaluated: use the block's first successor-free point — evaluate to the block and read the phi by edge
	}
	e := &ddEngine{w: w, env: map[ssa.Value]aval{}, maxLeafs: 64}
	e.stopInstr = func(in ssa.Instruction) bool { return in == useInstr }
	e.run(f)
	var bads []string
	if e.err != nil {
		bads = append(bads, "cannot evaluate: "+e.err.Error())
	}
	isUntilField := func(v ssa.Value) bool {
		return newExprCtx(w).expr(v) == "p0.Until"
	}
	isClock := func(v ssa.Value) bool {
		c, ok := v.(*ssa.Call)
		return ok && c.Common().StaticCallee() != nil && funcName(c.Common().StaticCallee()) == "whispertool.TimestampFromStdTime"
	}
	for _, l := range e.leaves {
		if l.stop == nil || l.st == nil {
			continue // returned before reading
		}
		var a aval
		if uAlloc != nil {
			var ok bool
			if a, ok = l.st.mem[uAlloc]; !ok {
				bads = append(bads, "until is read before it is assigned")
				continue
			}
		} else {
			a = e.value(l.st, uPhi)
		}
		zero := map[int]bool{0: true, 1: true} // sign of c.Until - 0 (unsigned)
		for k, chosen := range l.atoms {
			v, neg := stripNot(l.atomVal[k])
			bo, ok := v.(*ssa.BinOp)
			if !ok || !isCmp(bo.Op) {
				continue
			}
			flip := 0
			isZero := func(x ssa.Value) bool { k, ok := constInt(x); return ok && k == 0 }
			untilLike := func(x ssa.Value) bool {
				if isUntilField(x) {
					return true
				}
				// a copy of the field held in the variable itself
				if xa := e.value(l.st, x); xa.k == kSym && xa.sym != nil && isUntilField(xa.sym) {
					return true
				}
				return false
			}
			switch {
			case untilLike(bo.X) && isZero(bo.Y):
				flip = 1
			case untilLike(bo.Y) && isZero(bo.X):
				flip = -1
			default:
				continue
			}
			for sg := 0; sg <= 1; sg++ {
				if signOK(bo.Op, sg*flip) != (chosen != neg) {
					delete(zero, sg)
				}
			}
		}
		switch {
		case a.k == kSym && a.sym != nil && isClock(a.sym):
			if zero[1] {
				bads = append(bads, "the clock reading replaces a requested Until (Until may be non-zero on this path)")
			}
		case a.k == kSym && a.sym != nil && isUntilField(a.sym):
			if zero[0] {
				bads = append(bads, "Until is used although it may be 0 (no default to the clock reading on this path): the window ends at the epoch")
			}
		default:
			bads = append(bads, "until is neither the command's Until nor the clock reading ("+a.String()+")")
		}
	}
	// inside a loop over files or items the choice is made afresh in every iteration: evaluated again from the loop
	// header with the variable holding "whatever the previous iteration left", that content must not reach the use
	var header *ssa.BasicBlock
	for b := useBlock; b != nil; b = b.Idom() {
		if isLoopHeader(b) {
			for _, p := range b.Preds {
				if b.Dominates(p) && (useBlock == p || blockReachesAvoiding(useBlock, p, b)) {
					header = b
				}
			}
			if header != nil {
				break
			}
		}
	}
	if header != nil {
		var latch *ssa.BasicBlock
		for _, p := range header.Preds {
			if header.Dominates(p) {
				latch = p
			}
		}
		e2 := &ddEngine{w: w, env: map[ssa.Value]aval{}, maxLeafs: 64}
		e2.stopInstr = func(in ssa.Instruction) bool { return in == useInstr }
		if uAlloc != nil {
			e2.initMem = map[*ssa.Alloc]aval{uAlloc: {k: kSym, sym: uAlloc}}
		}
		e2.runFrom(header, latch)
		if e2.err == nil {
			for _, l := range e2.leaves {
				if l.stop == nil || l.st == nil {
					continue
				}
				var a aval
				if uAlloc != nil {
					a = l.st.mem[uAlloc]
				} else {
					a = e2.value(l.st, uPhi)
				}
				carried := a.k == kSym && a.sym != nil && (a.sym == ssa.Value(uAlloc) && uAlloc != nil)
				if _, isPhi := a.sym.(*ssa.Phi); a.k == kSym && isPhi {
					carried = true
				}
				if carried {
					bads = append(bads, "in a later iteration until still holds what the previous file or item chose (the default to the clock is taken once, not per item)")
				}
			}
		}
	}
	sort.Strings(bads)
	first := ""
	if len(bads) > 0 {
		first = bads[0]
	}
	r.Check(len(bads) == 0, rule, key, w.pos(f.Pos()), "until = Until if set, else the clock reading", funcName(f)+": "+first+" — the command does not work on the requested window")
}

// makeClosuresOf: the MakeClosure instructions in parent that create g.
func makeClosuresOf(parent, g *ssa.Function) []*ssa.MakeClosure {
	var out []*ssa.MakeClosure
	if parent == nil {
		return nil
	}
	eachInstr(parent, func(in ssa.Instruction) {
		if mc, ok := in.(*ssa.MakeClosure); ok && mc.Fn == ssa.Value(g) {
			out = append(out, mc)
		}
	})
	return out
}

// ruleDestPathDefault (decision diagram): the single-file call oneFile(c.SrcRelPath, dest, …) of a copy/diff command
// passes DestRelPath as dest when it is set and SrcRelPath when it is empty.
func ruleDestPathDefault(w *World, r *Report, rule string, f, oneFile *ssa.Function) {
	key := funcName(f) + ":dest-path-default"
	if f == nil || oneFile == nil {
		r.Undecided(rule, key, "-", "command body or per-file function not found")
		return
	}
	ex := newExprCtx(w)
	var call *ssa.Call
	for _, c := range callsTo(f, oneFile) {
		if c.Parent() == f && len(c.Common().Args) >= 3 && ex.expr(c.Common().Args[1]) == "p0.SrcRelPath" {
			call = c
		}
	}
	if call == nil {
		r.Undecided(rule, key, w.pos(f.Pos()), "no single-file call "+funcName(oneFile)+"(c.SrcRelPath, …) found")
		return
	}
	dest := call.Common().Args[2]
	var al *ssa.Alloc
	if u, ok := dest.(*ssa.UnOp); ok && u.Op == token.MUL {
		al, _ = u.X.(*ssa.Alloc)
	}
	e := &ddEngine{w: w, env: map[ssa.Value]aval{}, maxLeafs: 64}
	e.stop = func(b *ssa.BasicBlock) bool { return b == call.Block() || isLoopHeader(b) } // the glob loop is another mode
	e.run(f)
	var bads []string
	if e.err != nil {
		bads = append(bads, "cannot evaluate: "+e.err.Error())
	}
	reached := false
	for _, l := range e.leaves {
		if l.stop != call.Block() || l.st == nil || len(l.path) < 2 {
			continue
		}
		reached = true
		var a aval
		switch {
		case al != nil:
			a = l.st.mem[al]
		default:
			a = aval{k: kSym, sym: dest}
			if ph, ok := dest.(*ssa.Phi); ok {
				if ph.Block() == call.Block() {
					prev := l.path[len(l.path)-2]
					for i, p := range ph.Block().Preds {
						if p == prev {
							a = e.value(l.st, ph.Edges[i])
						}
					}
				} else {
					a = e.value(l.st, ph)
				}
			}
		}
		// is DestRelPath known empty / non-empty on this path?
		empty, known := false, false
		for k, chosen := range l.atoms {
			v, neg := stripNot(l.atomVal[k])
			bo, ok := v.(*ssa.BinOp)
			if !ok || (bo.Op != token.EQL && bo.Op != token.NEQ) {
				if lc, emptyWhenTrue, ok2 := lenEmptyCond(v); ok2 && ex.expr(lc.Common().Args[0]) == "p0.DestRelPath" {
					empty, known = (chosen != neg) == emptyWhenTrue, true
				}
				continue
			}
			x, y := bo.X, bo.Y
			if s, ok := constString(x); ok && s == "" {
				x, y = y, x
			}
			if s, ok := constString(y); !ok || s != "" || ex.expr(x) != "p0.DestRelPath" {
				continue
			}
			empty, known = (chosen != neg) == (bo.Op == token.EQL), true
		}
		got := "?"
		if a.k == kSym && a.sym != nil {
			got = ex.expr(a.sym)
		} else if a.k == kStr {
			got = fmt.Sprintf("%q", a.s)
		}
		switch {
		case !known:
			bads = append(bads, "the destination path is chosen without testing whether DestRelPath is empty")
		case empty && got != "p0.SrcRelPath":
			bads = append(bads, "with an empty DestRelPath the destination path is "+got+", not SrcRelPath")
		case !empty && got != "p0.DestRelPath":
			bads = append(bads, "with DestRelPath set the destination path is "+got+", not DestRelPath")
		}
	}
	if !reached && len(bads) == 0 {
		bads = append(bads, "the single-file call is not reached")
	}
	sort.Strings(bads)
	first := ""
	if len(bads) > 0 {
		first = bads[0]
	}
	r.Check(len(bads) == 0, rule, key, w.instrPos(call), "dest = DestRelPath if set, else SrcRelPath; source = SrcRelPath", funcName(f)+": "+first+" — the command works on another file than the one named")
}

// ruleLoopGoesOn: the loop around `anchor` (a call made once per element) is left only when the elements are
// exhausted (from the loop header) or through a block that cannot get to the code after the loop (a failing return).
// A `break` — an edge from the body to where the header's exit leads — skips the remaining elements.
func ruleLoopGoesOn(w *World, r *Report, rule, key string, anchor ssa.Instruction, why string) {
	if anchor == nil {
		r.Undecided(rule, key, "-", "per-element call not found")
		return
	}
	b0 := anchor.Block()
	var header *ssa.BasicBlock
	for b := b0; b != nil; b = b.Idom() {
		if isLoopHeader(b) {
			header = b
			break
		}
	}
	if header == nil {
		r.Violate(rule, key, w.instrPos(anchor), "the per-element call is not inside a loop: "+why)
		return
	}
	// natural loop of header: blocks dominated by it from which it is reachable
	reach := func(from, to *ssa.BasicBlock) bool {
		seen := map[*ssa.BasicBlock]bool{}
		var walk func(b *ssa.BasicBlock) bool
		walk = func(b *ssa.BasicBlock) bool {
			if b == to {
				return true
			}
			if seen[b] {
				return false
			}
			seen[b] = true
			for _, s := range b.Succs {
				if walk(s) {
					return true
				}
			}
			return false
		}
		for _, s := range from.Succs {
			if walk(s) {
				return true
			}
		}
		return false
	}
	inLoop := map[*ssa.BasicBlock]bool{header: true}
	for _, b := range header.Parent().Blocks {
		if !header.Dominates(b) {
			continue
		}
		for _, p := range header.Preds {
			if header.Dominates(p) && (b == p || blockReachesAvoiding(b, p, header)) {
				inLoop[b] = true
			}
		}
	}
	var exits []*ssa.BasicBlock // where the header itself leaves the loop
	for _, s := range header.Succs {
		if !inLoop[s] {
			exits = append(exits, s)
		}
	}
	bad := ""
	for b := range inLoop {
		if b == header {
			continue
		}
		for _, s := range b.Succs {
			if inLoop[s] {
				continue
			}
			for _, e := range exits {
				if s == e || reach(s, e) {
					bad = "leaves the loop early at " + w.blockPos(b) + " and carries on after it"
				}
			}
			if idx := errResultIndex(header.Parent()); len(exits) > 0 && idx >= 0 && bad == "" {
				// a return from inside the loop that reports success stops the loop early just as a break does
				stop := map[*ssa.BasicBlock]bool{}
				for _, e := range exits {
					stop[e] = true
				}
				if ret := pathAvoidingTo(s, func(in ssa.Instruction) bool { return stop[in.Block()] }, func(ret *ssa.Return) bool { return isNilConst(ret.Results[idx]) }); ret != nil {
					bad = "is left from " + w.blockPos(b) + " by a return that reports success (" + w.instrPos(ret) + ")"
				}
			}
			if len(exits) == 0 {
				// the header never exits by itself (for { … }): any exit not ending in a failure is an early stop
				idx := errResultIndex(header.Parent())
				if ret := pathAvoidingTo(s, func(ssa.Instruction) bool { return false }, func(ret *ssa.Return) bool { return idx >= 0 && isNilConst(ret.Results[idx]) }); ret != nil {
					bad = "leaves the loop at " + w.blockPos(b) + " with success"
				}
			}
		}
	}
	r.Check(bad == "", rule, key, w.instrPos(anchor), "the loop is left only when its elements are exhausted or by a failing return", "the loop around this call "+bad+": "+why)
}

func firstCallTo(f *ssa.Function, callee *ssa.Function) ssa.Instruction {
	if f == nil || callee == nil {
		return nil
	}
	for _, c := range callsTo(f, callee) {
		if c.Parent() == f {
			return c
		}
	}
	return nil
}

// firstLoopCall: the call of callee in f that sits inside a loop.
func firstLoopCall(f, callee *ssa.Function) ssa.Instruction {
	if f == nil || callee == nil {
		return nil
	}
	for _, c := range callsTo(f, callee) {
		if c.Parent() == f && inLoopWith(c.Block()) {
			return c
		}
	}
	return nil
}

// ruleTextOutFinish: every success return of newTextOutWriter hands back a finish function (never nil: it is called
// unconditionally), and the finish of the file case flushes the buffered writer on every path to its success return
// and passes a flush failure on.
func ruleTextOutFinish(w *World, r *Report, rule string) {
	f := fn(w.Cmd, "newTextOutWriter")
	if f == nil {
		r.Undecided(rule, "newTextOutWriter:finish", "-", "newTextOutWriter not found")
		return
	}
	idx := errResultIndex(f)
	bad := ""
	var fileFinish *ssa.Function
	for _, ret := range returnsOf(f) {
		if idx < 0 || len(ret.Results) != 3 {
			bad = "unexpected result shape"
			continue
		}
		vals, complete := resultValues(ret, 1)
		if !complete || len(vals) == 0 {
			bad = "the finish result at " + w.instrPos(ret) + " cannot be determined"
			continue
		}
		for _, v := range vals {
			switch x := stripChangeType(v).(type) {
			case *ssa.Function:
			case *ssa.MakeClosure:
				fileFinish, _ = x.Fn.(*ssa.Function)
			default:
				evs, _ := resultValues(ret, idx)
				success := false
				for _, ev := range evs {
					if classifyErr(ev).class == errNil {
						success = true
					}
				}
				if success {
					bad = "a success return (" + w.instrPos(ret) + ") hands back no finish function (" + newExprCtx(w).expr(v) + "): withTextOutWriter calls it unconditionally and panics"
				}
			}
		}
	}
	r.Check(bad == "", rule, "newTextOutWriter:finish-non-nil", w.pos(f.Pos()), "every success return carries a finish function", "newTextOutWriter: "+bad)
	if fileFinish == nil {
		r.Undecided(rule, "newTextOutWriter:finish-flushes", w.pos(f.Pos()), "the finish closure of the file case was not found")
		return
	}
	isFlush := func(in ssa.Instruction) bool {
		c, ok := in.(*ssa.Call)
		return ok && isMethodCall(c, "bufio", "Writer", "Flush")
	}
	bad = ""
	fidx := errResultIndex(fileFinish)
	if ret := pathAvoidingTo(fileFinish.Blocks[0], isFlush, func(ret *ssa.Return) bool { return fidx >= 0 && isNilConst(ret.Results[fidx]) }); ret != nil {
		bad = "can report success without flushing the buffered writer: the text output never reaches the file"
	}
	if bad == "" {
		for _, b := range fileFinish.Blocks {
			for _, in := range b.Instrs {
				if c, ok := in.(*ssa.Call); ok && isFlush(in) {
					if msg := checkErrorHandled(w, c); msg != "" {
						bad = "does not pass a flush failure on (" + msg + ")"
					}
				}
			}
		}
	}
	r.Check(bad == "", rule, "newTextOutWriter:finish-flushes", w.pos(fileFinish.Pos()), "finish flushes before reporting success and passes a flush failure on", "the finish function of a -text-out file "+bad)
}

// ruleFlagSetStores: each flag.Value of the command line (timestamp, file mode, aggregation method, xFilesFactor,
// retention list) stores what it parsed into the option it was registered for on every path to its success return.
func ruleFlagSetStores(w *World, r *Report, rule string) {
	for _, tn := range []string{"timestampValue", "fileModeValue", "aggregationMethodValue", "xFilesFactorValue", "archiveInfoListValue"} {
		key := "cmd." + tn + ".Set:stores"
		f := fn(w.Cmd, tn+".Set")
		if f == nil || len(f.Params) != 2 {
			r.Undecided(rule, key, "-", tn+".Set not found")
			continue
		}
		// the parsed value: result #0 of a call that takes the string parameter
		derives := func(v ssa.Value) bool {
			found := false
			var rec func(v ssa.Value, d int)
			rec = func(v ssa.Value, d int) {
				if d > 6 || found {
					return
				}
				switch x := v.(type) {
				case *ssa.Extract:
					if c, ok := x.Tuple.(*ssa.Call); ok && x.Index == 0 {
						for _, a := range c.Common().Args {
							if a == ssa.Value(f.Params[1]) {
								found = true
							}
						}
					}
				case *ssa.Convert:
					rec(x.X, d+1)
				case *ssa.ChangeType:
					rec(x.X, d+1)
				case *ssa.Call:
					// the parsed value, possibly converted by a call — but not joined onto what the option held before
					if bi, isBi := x.Common().Value.(*ssa.Builtin); isBi && bi.Name() == "append" {
						return
					}
					for _, a := range x.Common().Args {
						rec(a, d+1)
					}
				}
			}
			rec(v, 0)
			return found
		}
		isStore := func(in ssa.Instruction) bool {
			st, ok := in.(*ssa.Store)
			if !ok {
				return false
			}
			// *v.<field> = parsed
			u, ok := st.Addr.(*ssa.UnOp)
			if !ok || u.Op != token.MUL {
				if fld, ok2 := st.Addr.(*ssa.Field); !ok2 || fld.X != ssa.Value(f.Params[0]) {
					return false
				}
			} else if !strings.HasPrefix(newExprCtx(w).expr(u.X), "&p0.") && !strings.HasPrefix(newExprCtx(w).expr(u), "p0.") {
				return false
			}
			return derives(st.Val)
		}
		idx := errResultIndex(f)
		ret := pathAvoidingTo(f.Blocks[0], isStore, func(ret *ssa.Return) bool { return idx >= 0 && isNilConst(ret.Results[idx]) })
		r.Check(ret == nil, rule, key, w.pos(f.Pos()), "every success return is preceded by the store of the parsed value into the option", tn+".Set can report success without storing the parsed value into the option it belongs to: the option given on the command line is ignored")
	}
}

// ruleGenerateChain (decision diagram): randomPointsList, evaluated for two archives, calls randomPoints for archive 0
// with no finer data, and for archive 1 with archive 0 as the finer archive, the points just generated for it and its
// value bound; each archive's value bound is the requested maximum scaled by step_k / step_0.
func ruleGenerateChain(w *World, r *Report, rule string) {
	const key = "cmd.randomPointsList:chain"
	f, rp := fn(w.Cmd, "randomPointsList"), fn(w.Cmd, "randomPoints")
	if f == nil || rp == nil || len(f.Params) != 5 {
		r.Undecided(rule, key, "-", "randomPointsList or randomPoints not found")
		return
	}
	type rec struct {
		rIdx                     string
		highRet, highPts, highMx aval
		rndMax                   ssa.Value
		c                        *ssa.Call
	}
	var calls []rec
	e := &ddEngine{w: w, env: lenEnv(f, map[int]int64{0: 2}), maxLeafs: 8, concreteAtoms: true}
	e.onCall = func(s *ddState, c *ssa.Call) {
		if c.Common().StaticCallee() != rp || len(c.Common().Args) != 8 {
			return
		}
		as := c.Common().Args
		calls = append(calls, rec{rIdx: e.keyOf(s, as[0]), highRet: e.value(s, as[1]), highPts: e.value(s, as[2]), highMx: e.value(s, as[5]), rndMax: as[4], c: c})
	}
	e.run(f)
	var bads []string
	if e.err != nil {
		bads = append(bads, "cannot evaluate: "+e.err.Error())
	}
	if len(e.leaves) != 1 || len(calls) != 2 {
		bads = append(bads, fmt.Sprintf("for two archives randomPoints is called %d times on %d paths (expected once per archive)", len(calls), len(e.leaves)))
	} else {
		for k, c := range calls {
			m := reFirstIndex.FindStringSubmatch(c.rIdx)
			if m == nil || m[1] != strconv.Itoa(k) || !strings.Contains(c.rIdx, "$"+f.Params[0].Name()) {
				bads = append(bads, fmt.Sprintf("call %d generates for %s, not for archive %d", k, c.rIdx, k))
			}
			// the value bound: requested maximum * step_k / step_0 — one division, by archive 0's step
			ex := newExprCtx(w)
			nQuo, nOther, byStep0, hasMax, hasStepK := 0, 0, false, false, false
			var walk func(v ssa.Value, d int)
			walk = func(v ssa.Value, d int) {
				if d > 8 {
					return
				}
				switch x := v.(type) {
				case *ssa.BinOp:
					switch x.Op {
					case token.QUO:
						nQuo++
						if s := ex.expr(x.Y); s == "p0[0].secondsPerPoint" {
							byStep0 = true
						}
					case token.MUL:
					default:
						nOther++
					}
					walk(x.X, d+1)
					walk(x.Y, d+1)
				case *ssa.Convert:
					walk(x.X, d+1)
				case *ssa.ChangeType:
					walk(x.X, d+1)
				default:
					s := ex.expr(v)
					if v == ssa.Value(f.Params[2]) {
						hasMax = true
					}
					if strings.HasPrefix(s, "p0[") && strings.HasSuffix(s, ".secondsPerPoint") && s != "p0[0].secondsPerPoint" {
						hasStepK = true
					}
				}
			}
			walk(c.rndMax, 0)
			if k == 0 && !(nQuo == 1 && nOther == 0 && byStep0 && hasMax && hasStepK) {
				bads = append(bads, "the value bound of an archive is "+ex.expr(c.rndMax)+", not the requested maximum * step / (archive 0's step)")
			}
			isNone := func(a aval) bool { return a.k == kNil || (a.k == kInt && a.i == 0) }
			if k == 0 {
				if !isNone(c.highRet) || !isNone(c.highPts) || !isNone(c.highMx) {
					bads = append(bads, "archive 0 is generated as if it had a finer archive")
				}
				continue
			}
			if !(c.highRet.k == kSym && c.highRet.sym != nil && elemOfParam(c.highRet.sym, f.Params[0])) {
				bads = append(bads, "archive 1 is generated without archive 0 as its finer archive")
			}
			okPts := false
			if c.highPts.k == kSym && c.highPts.sym != nil {
				if c.highPts.sym == ssa.Value(c.c) {
					okPts = true
				}
				if u, ok := c.highPts.sym.(*ssa.UnOp); ok {
					if ia, ok := u.X.(*ssa.IndexAddr); ok {
						if _, ok := stripChangeType(ia.X).(*ssa.MakeSlice); ok {
							okPts = true
						}
					}
				}
			}
			if !okPts {
				bads = append(bads, "archive 1 is generated without the points just generated for archive 0: its values are plain random numbers, not sums")
			}
			if !(c.highMx.k == kSym && c.highMx.sym == c.rndMax) {
				bads = append(bads, "archive 1 is generated without archive 0's value bound")
			}
		}
	}
	sort.Strings(bads)
	first := ""
	if len(bads) > 0 {
		first = bads[0]
	}
	r.Check(len(bads) == 0, rule, key, w.pos(f.Pos()), "each archive is generated from the one before it; value bound = max * step / step_0", "randomPointsList: "+first)
}

var reLabelVerb = regexp.MustCompile(`(\w+):%[a-zA-Z]`)

// ruleHeaderStringFields: every `label:%verb` of the two lines Header.String prints is fed from the header field the
// label names (the archive line: index, step, point count, offset of the same archive).
func ruleHeaderStringFields(w *World, r *Report, rule string) {
	const key = "whispertool.Header.String:fields"
	f := fn(w.Lib, "Header.String")
	if f == nil {
		r.Undecided(rule, key, "-", "Header.String not found")
		return
	}
	want := map[string]string{"aggMethod": "aggregationMethod", "aggMethodNum": "aggregationMethod", "maxRetention": "maxRetention", "xFileFactor": "xFilesFactor",
		"archiveCount": "archiveCount", "archiveInfo": "#index", "durationPerPoint": "secondsPerPoint", "numberOfPoints": "numberOfPoints", "offset": "offset"}
	seen := map[string]bool{}
	var bads []string
	for _, c := range callsIn(f) {
		if !isCallToPkgFunc(c, "fmt", "Fprintf") && !isCallToPkgFunc(c, "fmt", "Sprintf") {
			continue
		}
		as := c.Common().Args
		fi := 0
		if isCallToPkgFunc(c, "fmt", "Fprintf") {
			fi = 1
		}
		format, ok := constString(as[fi])
		if !ok {
			continue
		}
		labels := reLabelVerb.FindAllStringSubmatch(format, -1)
		args := varargElems(as[fi+1])
		if len(labels) != len(args) {
			bads = append(bads, fmt.Sprintf("the line %q has %d labelled verbs but %d arguments", format, len(labels), len(args)))
			continue
		}
		idxOf := ""
		for i, l := range labels {
			exp, known := want[l[1]]
			if !known {
				continue
			}
			seen[l[1]] = true
			s := newExprCtx(w).expr(args[i])
			if exp == "#index" {
				idxOf = s
				continue
			}
			if !strings.Contains(s, "."+exp) {
				bads = append(bads, fmt.Sprintf("%s: is printed from %s, not from the header's %s", l[1], s, exp))
			}
			if idxOf != "" && strings.Contains(s, "archiveInfoList[") && !strings.Contains(s, "archiveInfoList["+idxOf+"]") {
				bads = append(bads, fmt.Sprintf("%s: is taken from another archive than the one numbered on the line (%s vs index %s)", l[1], s, idxOf))
			}
		}
	}
	for l := range want {
		if !seen[l] {
			bads = append(bads, "the header line no longer carries "+l+":")
		}
	}
	sort.Strings(bads)
	first := ""
	if len(bads) > 0 {
		first = bads[0]
	}
	r.Check(len(bads) == 0, rule, key, w.pos(f.Pos()), "each labelled value of the header lines comes from the field its label names", "Header.String: "+first+" — view and view-raw show a header that is not the stored one")
}

// varargElems: the values stored into the slice literal passed as a variadic argument, in order.
func varargElems(v ssa.Value) []ssa.Value {
	sl, ok := v.(*ssa.Slice)
	if !ok {
		return nil
	}
	al, ok := sl.X.(*ssa.Alloc)
	if !ok {
		return nil
	}
	m := map[int64]ssa.Value{}
	for _, ref := range *al.Referrers() {
		ia, ok := ref.(*ssa.IndexAddr)
		if !ok {
			continue
		}
		k, ok := constInt(ia.Index)
		if !ok {
			continue
		}
		for _, r2 := range *ia.Referrers() {
			if st, ok := r2.(*ssa.Store); ok && st.Addr == ssa.Value(ia) {
				m[k] = stripMakeInterface(st.Val)
			}
		}
	}
	var out []ssa.Value
	for i := int64(0); i < int64(len(m)); i++ {
		out = append(out, m[i])
	}
	return out
}

var reBaseName = regexp.MustCompile(`(?i)base`)

// rulePathOrder: wherever package cmd composes a file path with filepath.Join, the base directory (a parameter or
// field whose name says base) is the first element — on the server as on the local side, so that both resolve a
// relative path against the same directory.
func rulePathOrder(w *World, r *Report, rule string) {
	n := 0
	for _, f := range w.modFuncs {
		if pkgOf(f) != w.Cmd {
			continue
		}
		for _, c := range callsIn(f) {
			if !isCallToPkgFunc(c, "path/filepath", "Join") {
				continue
			}
			elems := varargElems(c.Common().Args[0])
			if len(elems) < 2 {
				continue
			}
			isBase := func(v ssa.Value) bool {
				switch x := v.(type) {
				case *ssa.Parameter:
					return reBaseName.MatchString(x.Name())
				case *ssa.UnOp:
					if fa, ok := x.X.(*ssa.FieldAddr); ok {
						if st, ok := deref(fa.X.Type()).Underlying().(*types.Struct); ok {
							return reBaseName.MatchString(st.Field(fa.Field).Name())
						}
					}
					if fv, ok := x.X.(*ssa.FreeVar); ok {
						return reBaseName.MatchString(fv.Name())
					}
				case *ssa.FreeVar:
					return reBaseName.MatchString(x.Name())
				}
				return false
			}
			pos := -1
			for i, e := range elems {
				if isBase(e) {
					pos = i
				}
			}
			if pos < 0 {
				continue
			}
			n++
			r.Check(pos == 0 && isBase(elems[0]), rule, funcName(f)+":path-order", w.instrPos(c), "the base directory comes first in filepath.Join", funcName(f)+" joins a path with the base directory in position "+strconv.Itoa(pos)+": the file is looked up relative to the wrong directory ("+newExprCtx(w).expr(c.Common().Args[0])+")")
		}
	}
	if n < 6 {
		r.Undecided(rule, "path-order:floor", "-", fmt.Sprintf("only %d path compositions with a base directory found (8 confirmed by hand)", n))
	}
}

func deref(t types.Type) types.Type {
	if p, ok := t.Underlying().(*types.Pointer); ok {
		return p.Elem()
	}
	return t
}

// ruleGlobArgs: a command body expands its pattern on the source side: glob(c.SrcBase, c.<pattern field>).
func ruleGlobArgs(w *World, r *Report, rule string, f, glob *ssa.Function, patternField string) {
	if f == nil || glob == nil {
		r.Undecided(rule, "glob-args", "-", "command body or glob function not found")
		return
	}
	key := funcName(f) + ":glob-args"
	cs := callsTo(f, glob)
	if len(cs) == 0 {
		r.Undecided(rule, key, w.pos(f.Pos()), "no call of "+funcName(glob)+" found")
		return
	}
	for _, c := range cs {
		ex := newExprCtx(w)
		a0, a1 := ex.expr(c.Common().Args[0]), ex.expr(c.Common().Args[1])
		r.Check(a0 == "p0.SrcBase" && a1 == "p0."+patternField, rule, key, w.instrPos(c), "matches "+patternField+" under SrcBase",
			funcName(f)+" expands "+funcName(glob)+"("+a0+", "+a1+") instead of (c.SrcBase, c."+patternField+"): the files/items worked on are not the ones matched on the source side")
	}
}

// ruleGlobRel: the local glob functions hand back each match as filepath.Rel(baseDir, match) (items: mapped through
// relDirToItem), so that the name joined onto the other base again denotes the same file whatever the spelling of
// the base directory (trailing slash, ./, //): every store into the returned slice derives from such a Rel call.
func ruleGlobRel(w *World, r *Report, rule string) {
	for _, name := range []string{"globFilesLocal", "globItemsLocal"} {
		key := "cmd." + name + ":relative-to-base"
		f := fn(w.Cmd, name)
		if f == nil || len(f.Params) != 2 {
			r.Undecided(rule, key, "-", name+" not found")
			continue
		}
		var rels []*ssa.Call
		for _, c := range callsIn(f) {
			if cv, ok := c.(*ssa.Call); ok && isCallToPkgFunc(c, "path/filepath", "Rel") && len(cv.Common().Args) == 2 {
				a1 := newExprCtx(w).expr(cv.Common().Args[1])
				if cv.Common().Args[0] == ssa.Value(f.Params[0]) && strings.HasPrefix(a1, "path/filepath.Glob(") {
					rels = append(rels, cv)
				}
			}
		}
		bad := ""
		if len(rels) == 0 {
			bad = "no match is made relative with filepath.Rel(baseDir, match)"
		}
		nStores, nRel, inPlace := 0, 0, 0
		eachInstr(f, func(in ssa.Instruction) {
			st, ok := in.(*ssa.Store)
			if !ok {
				return
			}
			ia, ok := st.Addr.(*ssa.IndexAddr)
			if !ok || !isStringType(st.Val.Type()) {
				return
			}
			if _, isArr := ia.X.(*ssa.Alloc); isArr {
				return // the argument array of a variadic call (filepath.Join)
			}
			nStores++
			okSt := false
			for _, l := range leavesOf(st.Val) {
				if ex, ok := l.(*ssa.Extract); ok && ex.Index == 0 {
					for _, rc := range rels {
						if ex.Tuple == ssa.Value(rc) {
							okSt = true
						}
					}
				}
				if c, ok := l.(*ssa.Call); ok {
					// relDirToItem(rel) and similar pure mappings: look through one call
					for _, a := range c.Common().Args {
						for _, l2 := range leavesOf(a) {
							if ex, ok := l2.(*ssa.Extract); ok && ex.Index == 0 {
								for _, rc := range rels {
									if ex.Tuple == ssa.Value(rc) {
										okSt = true
									}
								}
							}
						}
					}
				}
			}
			if !okSt {
				// an in-place mapping of names that are already relative: x[i] = f(x[i])
				vs := newExprCtx(w).expr(st.Val)
				as := newExprCtx(w).expr(ia)
				if strings.Contains(vs, as) && vs != as {
					inPlace++
					return
				}
			} else {
				nRel++
			}
			if !okSt && bad == "" {
				bad = "a returned name is " + shortExpr(newExprCtx(w).expr(st.Val)) + ", not filepath.Rel(baseDir, match)"
			}
		})
		if nStores == 0 && bad == "" {
			bad = "the matches are returned as they are (absolute)"
		}
		if bad == "" && inPlace > 0 && nRel == 0 {
			bad = "names are mapped in place but never made relative with filepath.Rel"
		}
		r.Check(bad == "", rule, key, w.pos(f.Pos()), "every returned name is filepath.Rel(baseDir, match)", name+": "+bad+" — with a base directory not spelled in clean form the names no longer denote the matched files on the other side")
	}
}

func isStringType(t types.Type) bool {
	b, ok := t.Underlying().(*types.Basic)
	return ok && b.Info()&types.IsString != 0
}

// ruleWriteOrderFinestFirst: updateFileDataWithPointsList writes archive 0 first and goes up: a write to archive k
// also recomputes the archives coarser than k from it, so what is written last to a coarser archive must be its own
// list, not the aggregate of a finer one.
func ruleWriteOrderFinestFirst(w *World, r *Report, rule string) {
	const key = "cmd.updateFileDataWithPointsList:finest-first"
	f := fn(w.Cmd, "updateFileDataWithPointsList")
	upa := fn(w.Lib, "Whisper.UpdatePointsForArchive")
	if f == nil || upa == nil {
		r.Undecided(rule, key, "-", "updateFileDataWithPointsList not found")
		return
	}
	cs := callsTo(f, upa)
	if len(cs) != 1 {
		r.Undecided(rule, key, w.pos(f.Pos()), fmt.Sprintf("%d calls of UpdatePointsForArchive", len(cs)))
		return
	}
	id := stripConvert(cs[0].Common().Args[2])
	var ctr *ssa.Phi
	switch x := id.(type) {
	case *ssa.Phi:
		ctr = x
	case *ssa.BinOp:
		if k, ok := constInt(x.Y); ok && k == 1 && x.Op == token.ADD {
			ctr, _ = x.X.(*ssa.Phi)
		}
	}
	okOrder := ctr != nil && (loopFromTo(ctr, 0) || loopFromTo(ctr, -1))
	// the list written is the one with the archive's own index
	ex := newExprCtx(w)
	okList := strings.HasSuffix(ex.expr(cs[0].Common().Args[1]), "p1["+ex.expr(id)+"]")
	ruleLoopGoesOn(w, r, rule, "cmd.updateFileDataWithPointsList:every-archive", cs[0], "an archive with nothing to write is skipped, not the coarser archives after it")
	r.Check(okOrder && okList, rule, key, w.instrPos(cs[0]), "archives are written in ascending order, each with its own list", "updateFileDataWithPointsList does not write archive 0 first and upward with pointsList[archiveID]: a later write to a finer archive recomputes the coarser ones by the file's aggregation method and replaces what was written there (for any method other than sum the coarser slots no longer hold their own list)")
}

// ruleHeaderFirstRead: the first read of readHeader asks for no more bytes than the smallest valid file has
// (16-byte meta + one 12-byte archive info + one 12-byte point), or for a length derived from the file size: the
// page buffer refuses a read beyond the end of the file, so a larger fixed prefetch makes the smallest accepted
// layouts impossible to reopen.
func ruleHeaderFirstRead(w *World, r *Report, rule string) {
	const key = "whispertool.Whisper.readHeader:first-read"
	f := fn(w.Lib, "Whisper.readHeader")
	if f == nil {
		r.Undecided(rule, key, "-", "readHeader not found")
		return
	}
	meta, _ := constValue(w, "metaSize")
	ail, _ := constValue(w, "archiveInfoListSize")
	ps, _ := constValue(w, "pointSize")
	smallest := meta + ail + ps
	var first *ssa.Call
	for _, b := range f.DomPreorder() {
		for _, in := range b.Instrs {
			if c, ok := in.(*ssa.Call); ok && first == nil && c.Common().StaticCallee() != nil && c.Common().StaticCallee().Name() == "ReadAt" {
				first = c
			}
		}
	}
	if first == nil || len(first.Common().Args) < 2 {
		r.Undecided(rule, key, w.pos(f.Pos()), "no ReadAt call found")
		return
	}
	bad := ""
	buf := first.Common().Args[1]
	if sl, ok := buf.(*ssa.Slice); ok && sl.High != nil {
		if k, isK := constInt(sl.High); isK {
			if k > smallest {
				bad = fmt.Sprintf("reads %d bytes although the smallest valid file has %d", k, smallest)
			}
		} else if !strings.Contains(newExprCtx(w).expr(sl.High), "p1") {
			bad = "reads " + newExprCtx(w).expr(sl.High) + " bytes, a length that is neither a constant within the smallest valid file nor derived from the file size"
		}
	} else if mk, ok := stripChangeType(buf).(*ssa.MakeSlice); ok {
		if k, isK := constInt(mk.Len); !isK || k > smallest {
			bad = "reads a whole buffer of " + newExprCtx(w).expr(mk.Len) + " bytes"
		}
	} else {
		bad = "reads into " + newExprCtx(w).expr(buf) + " (length not recognised)"
	}
	r.Check(bad == "", rule, key, w.instrPos(first), fmt.Sprintf("the first read stays within the smallest valid file (%d bytes)", smallest), "readHeader "+bad+": layouts that Create accepts (one archive of one or two points) can no longer be reopened")
}

// ruleKnownValueFilter (decision diagram, one slot): filterValidValues keeps a raw slot exactly when its stored time
// equals the expected interval — nothing about the value takes part (a NaN that was written is a known value).
func ruleKnownValueFilter(w *World, r *Report, rule string) {
	const key = "whispertool.filterValidValues:predicate"
	f := fn(w.Lib, "filterValidValues")
	if f == nil || len(f.Params) != 3 {
		r.Undecided(rule, key, "-", "filterValidValues not found")
		return
	}
	var appendBlock *ssa.BasicBlock
	eachInstr(f, func(in ssa.Instruction) {
		if c, ok := in.(*ssa.Call); ok && isBuiltin(c, "append") {
			appendBlock = c.Block()
		}
	})
	e := &ddEngine{w: w, env: lenEnv(f, map[int]int64{0: 1}), maxLeafs: 16, concreteAtoms: true}
	e.run(f)
	var bads []string
	if e.err != nil {
		bads = append(bads, "cannot evaluate: "+e.err.Error())
	}
	if appendBlock == nil {
		bads = append(bads, "no value is ever kept")
	}
	kept, dropped := false, false
	for _, l := range e.leaves {
		if l.ret == nil {
			continue
		}
		included := false
		for _, b := range l.path {
			if b == appendBlock {
				included = true
			}
		}
		timeEq, known := false, false
		for k, chosen := range l.atoms {
			v, neg := stripNot(l.atomVal[k])
			bo, ok := v.(*ssa.BinOp)
			ex := newExprCtx(w)
			isTimeCmp := false
			if ok && (bo.Op == token.EQL || bo.Op == token.NEQ) {
				xs, ys := ex.expr(bo.X), ex.expr(bo.Y)
				if (strings.HasSuffix(xs, ".Time") && elemOfParam(bo.X, f.Params[0])) || (strings.HasSuffix(ys, ".Time") && elemOfParam(bo.Y, f.Params[0])) {
					isTimeCmp = true
				}
			}
			if !isTimeCmp {
				bads = append(bads, "a condition other than `stored time == expected interval` decides whether a slot is known ("+k+")")
				continue
			}
			timeEq, known = (chosen != neg) == (bo.Op == token.EQL), true
		}
		if !known {
			bads = append(bads, "a slot is kept or dropped without comparing its stored time with the expected interval")
			continue
		}
		if timeEq != included {
			bads = append(bads, fmt.Sprintf("a slot whose stored time %s the expected interval is %s", map[bool]string{true: "equals", false: "differs from"}[timeEq], map[bool]string{true: "kept", false: "dropped"}[included]))
		}
		kept, dropped = kept || included, dropped || !included
	}
	if len(bads) == 0 && !(kept && dropped) {
		bads = append(bads, "the filter does not distinguish slots")
	}
	sort.Strings(bads)
	first := ""
	if len(bads) > 0 {
		first = bads[0]
	}
	r.Check(len(bads) == 0, rule, key, w.pos(f.Pos()), "known iff stored time == expected interval", "filterValidValues: "+first+" — the known fraction and the aggregate are no longer taken over exactly the values currently stored for the interval")
}

// ruleCreatePassesLayout: Create hands the caller's archive list to NewHeader as it is (no sorting, no rewriting):
// Create accepts exactly what NewHeader accepts, and the caller's slice is not reordered.
func ruleCreatePassesLayout(w *World, r *Report, rule string) {
	const key = "whispertool.Create:layout-unchanged"
	f, nh := fn(w.Lib, "Create"), fn(w.Lib, "NewHeader")
	if f == nil || nh == nil {
		r.Undecided(rule, key, "-", "Create or NewHeader not found")
		return
	}
	bad := ""
	cs := callsTo(f, nh)
	if len(cs) != 1 {
		bad = fmt.Sprintf("calls NewHeader %d times", len(cs))
	} else {
		ex := newExprCtx(w)
		as := cs[0].Common().Args
		if got := ex.expr(as[0]) + ", " + ex.expr(as[1]) + ", " + ex.expr(as[2]); got != "p2, p3, p1" {
			bad = "calls NewHeader(" + got + ") instead of (aggregationMethod, xFilesFactor, archiveInfoList) as given"
		}
		// nothing touches the list before
		for _, c := range callsIn(f) {
			cv, ok := c.(*ssa.Call)
			if !ok || cv == cs[0] || !dominatesInstr(cv, cs[0]) {
				continue
			}
			for _, a := range cv.Common().Args {
				for _, l := range leavesOf(a) {
					if l == ssa.Value(f.Params[1]) {
						name := "a call"
						if sc := cv.Common().StaticCallee(); sc != nil {
							name = funcName(sc)
						}
						bad = "hands the archive list to " + name + " before validating it (sorted or rewritten lists are accepted by Create and refused by every other entry point)"
					}
				}
			}
		}
		eachInstr(f, func(in ssa.Instruction) {
			if st, ok := in.(*ssa.Store); ok {
				if ia, ok := st.Addr.(*ssa.IndexAddr); ok && stripChangeType(ia.X) == ssa.Value(f.Params[1]) {
					bad = "writes into the caller's archive list"
				}
			}
		})
	}
	r.Check(bad == "", rule, key, w.pos(f.Pos()), "NewHeader gets the method, xFilesFactor and archive list exactly as given", "Create "+bad)
}

// ruleSingleStoreOf: in f exactly one store goes to *param0, and its value renders as want.
func ruleSingleStoreOf(w *World, r *Report, rule, key string, f *ssa.Function, want *regexp.Regexp, what, consequence string) {
	if f == nil {
		r.Undecided(rule, key, "-", "function not found")
		return
	}
	n, bad := 0, ""
	eachInstr(f, func(in ssa.Instruction) {
		st, ok := in.(*ssa.Store)
		if !ok || st.Addr != ssa.Value(f.Params[0]) {
			return
		}
		n++
		if s := newExprCtx(w).expr(st.Val); !want.MatchString(s) {
			bad = "stores " + shortExpr(s)
		}
	})
	if bad == "" && n != 1 {
		bad = fmt.Sprintf("stores to the decoded object %d times (a second, conditional store replaces what was decoded)", n)
	}
	r.Check(bad == "", rule, key, w.pos(f.Pos()), what, funcName(f)+" "+bad+": "+consequence)
}

// rulePrintFileDataHeader (decision diagram): printFileData prints the header exactly when showHeader is set —
// nothing about the points takes part — and the point list on every non-failing path.
func rulePrintFileDataHeader(w *World, r *Report, rule string) {
	const key = "cmd.printFileData:header-iff-flag"
	f := fn(w.Cmd, "printFileData")
	if f == nil || len(f.Params) != 4 {
		r.Undecided(rule, key, "-", "printFileData not found")
		return
	}
	hs := fn(w.Lib, "Header.String")
	pr := fn(w.Cmd, "PointsList.Print")
	e := &ddEngine{w: w, env: map[ssa.Value]aval{}, maxLeafs: 32}
	e.onCall = func(s *ddState, c *ssa.Call) {
		switch c.Common().StaticCallee() {
		case hs:
			s.log = append(s.log, "header")
		case pr:
			s.log = append(s.log, "points")
		}
	}
	var bads []string
	for _, flag := range []bool{true, false} {
		e.leaves = nil
		e.env = map[ssa.Value]aval{f.Params[3]: {k: kBool, b: flag}}
		e.run(f)
		if e.err != nil {
			bads = append(bads, "cannot evaluate: "+e.err.Error())
			continue
		}
		for _, l := range e.leaves {
			if l.ret == nil || isFailureReturn(l.ret) || l.st == nil {
				continue
			}
			has := map[string]bool{}
			for _, x := range l.st.log {
				has[x] = true
			}
			if has["header"] != flag {
				bads = append(bads, fmt.Sprintf("with showHeader=%v the header is %s on some path (the decision depends on something else)", flag, map[bool]string{true: "printed", false: "not printed"}[has["header"]]))
			}
			if !has["points"] {
				bads = append(bads, "a successful path does not print the point list")
			}
		}
	}
	sort.Strings(bads)
	first := ""
	if len(bads) > 0 {
		first = bads[0]
	}
	r.Check(len(bads) == 0, rule, key, w.pos(f.Pos()), "header iff showHeader; points always", "printFileData: "+first+" — view and view-raw no longer show the header followed by the slots for every selection")
}

// ruleLastIndexGuarded: x[len(x)-k] in the library is reached only where x is known to hold at least k elements: a
// dominating emptiness test of x, or a validate() of x whose failure leaves first (validate rejects the empty list).
// A decoded header with zero archives reaches every function that takes "the last archive".
func ruleLastIndexGuarded(w *World, r *Report, rule string) {
	validate := fn(w.Lib, "ArchiveInfoList.validate")
	n := 0
	for _, f := range w.modFuncs {
		if pkgOf(f) != w.Lib {
			continue
		}
		eachInstr(f, func(in ssa.Instruction) {
			var idx, base ssa.Value
			switch x := in.(type) {
			case *ssa.IndexAddr:
				idx, base = x.Index, x.X
			case *ssa.Index:
				idx, base = x.Index, x.X
			default:
				return
			}
			bo, ok := stripConvert(idx).(*ssa.BinOp)
			if !ok || bo.Op != token.SUB {
				return
			}
			lc, ok := bo.X.(*ssa.Call)
			if !ok || !isBuiltin(lc, "len") {
				return
			}
			if _, isK := constInt(bo.Y); !isK {
				return
			}
			ex := newExprCtx(w)
			bs := ex.expr(base)
			if ex.expr(lc.Common().Args[0]) != bs {
				return
			}
			// archive lists only: their length comes from a decoded count (aggregate's value slice has its own
			// non-empty contract, C02.R1)
			if !strings.Contains(base.Type().String(), "ArchiveInfo") {
				return
			}
			n++
			key := funcName(f) + ":last-index:" + bs
			guarded := false
			for _, b := range f.Blocks {
				if c, _, nonEmpty, ok := lenEmptyEdge(b); ok && ex.expr(c.Common().Args[0]) == bs && edgeDominates(b, nonEmpty, in.Block()) {
					guarded = true
				}
			}
			// a loop over the same slice (the body runs only for a non-empty one), or an earlier successful validate
			if inLoopWith(in.Block()) {
				guarded = true
			}
			if validate != nil {
				for _, c := range callsTo(f, validate) {
					if ex.expr(c.Common().Args[0]) == bs && dominatesInstr(c, in) && checkErrorHandled(w, c) == "" {
						guarded = true
					}
				}
			}
			// the receiver's own invariant: methods of Header on a validated header, and callers that validated
			if !guarded && (strings.HasPrefix(funcName(f), "whispertool.Header.") || strings.HasPrefix(funcName(f), "whispertool.Whisper.") || f == fn(w.Lib, "NewHeader")) && f != fn(w.Lib, "Header.TakeFrom") {
				r.OK(rule, key, w.instrPos(in), "the receiver holds a validated (non-empty) list: only NewHeader and TakeFrom build headers, and both validate first")
				return
			}
			r.Check(guarded, rule, key, w.instrPos(in), "the last element is taken only from a list known to be non-empty", funcName(f)+" takes the last element of "+bs+" where the list may be empty: a decoded header with zero archives panics here instead of being rejected")
		})
	}
	if n == 0 {
		r.OK(rule, "last-index:none", "-", "no x[len(x)-k] in the library")
	}
}

// ruleProductWidth: the number of missing finer slots times the random draw is multiplied in int (64 bits): with a
// large -max and a large step ratio the product does not fit 32 bits.
func ruleProductWidth(w *World, r *Report, rule string) {
	const key = "cmd.randomValWithHighSum:product-width"
	f := fn(w.Cmd, "randomValWithHighSum")
	if f == nil {
		return
	}
	bad := ""
	found := false
	eachInstr(f, func(in ssa.Instruction) {
		bo, ok := in.(*ssa.BinOp)
		if !ok || bo.Op != token.MUL {
			return
		}
		hasIntn := false
		for _, o := range []ssa.Value{bo.X, bo.Y} {
			if c, ok := stripConvert(o).(*ssa.Call); ok && isMethodCall(c, "math/rand", "Rand", "Intn") {
				hasIntn = true
			}
		}
		if !hasIntn {
			return
		}
		found = true
		if b, ok := bo.Type().Underlying().(*types.Basic); !ok || !(b.Kind() == types.Int || b.Kind() == types.Int64 || b.Kind() == types.Float64) {
			bad = "multiplies the missing-slot count with the random draw in " + bo.Type().String() + " (32 bits)"
		}
	})
	if !found {
		return // the formula rule (C20.R5 sum) reports a missing product
	}
	r.Check(bad == "", rule, key, w.pos(f.Pos()), "the remainder's product is computed in int", "randomValWithHighSum "+bad+": with a large -max and step ratio it wraps and the slot gets a negative value")
}

// ruleLeadingIntRepresentatives (abstract evaluation over class representatives): leadingInt, evaluated on one
// representative per class of numeral — none, a lone non-digit, 0, 00, a digit, two digits, each followed by a unit
// letter — accepts exactly the numerals with at least one digit and no redundant leading zero, with their value.
func ruleLeadingIntRepresentatives(w *World, r *Report, rule string) {
	const key = "whispertool.leadingInt:representatives"
	f := fn(w.Lib, "leadingInt")
	if f == nil || len(f.Params) != 1 {
		r.Undecided(rule, key, "-", "leadingInt not found")
		return
	}
	type rep struct {
		in   string
		ok   bool
		want int64
	}
	var bads []string
	for _, c := range []rep{{"", false, 0}, {"s", false, 0}, {"0s", true, 0}, {"00s", false, 0}, {"7s", true, 7}, {"12s", true, 12}, {"120m", true, 120}} {
		// small predicates of the package (an isDigit helper in the loop condition) are evaluated on their known arguments
		e := &ddEngine{w: w, env: map[ssa.Value]aval{f.Params[0]: {k: kStr, s: c.in}}, maxLeafs: 8, inline: func(sc *ssa.Function) bool {
			return pkgOf(sc) == w.Lib && len(sc.Blocks) <= 6 && len(callsIn(sc)) == 0
		}}
		e.run(f)
		if e.err != nil || len(e.leaves) != 1 || e.leaves[0].ret == nil || len(e.leaves[0].results) != 3 {
			msg := "more than one path"
			if e.err != nil {
				msg = e.err.Error()
			}
			bads = append(bads, fmt.Sprintf("cannot evaluate on %q: %s", c.in, msg))
			continue
		}
		res := e.leaves[0].results
		accepted := res[2].k == kNil
		switch {
		case accepted != c.ok && c.ok:
			bads = append(bads, fmt.Sprintf("rejects %q", c.in))
		case accepted != c.ok:
			bads = append(bads, fmt.Sprintf("accepts %q (a numeral without digits or with a redundant leading zero) as %s", c.in, res[0]))
		case accepted && !(res[0].k == kInt && res[0].i == c.want):
			bads = append(bads, fmt.Sprintf("reads %q as %s instead of %d", c.in, res[0], c.want))
		}
	}
	sort.Strings(bads)
	first := ""
	if len(bads) > 0 {
		first = bads[0]
	}
	r.Check(len(bads) == 0, rule, key, w.pos(f.Pos()), `"" and "s" rejected; 0s, 7s, 12s, 120m read as 0, 7, 12, 120; 00s rejected`, "leadingInt "+first+": a duration string is accepted with a value that is not its arithmetic meaning, or a printed duration no longer parses")
}

// tableColumn: v is field k of the element a loop takes from a local table (a slice or array composite literal of
// structs): returns the table's backing array and the values the literal puts into field k, row by row.
func tableColumn(v ssa.Value) (*ssa.Alloc, []ssa.Value) {
	var fld int
	var elem ssa.Value
	switch x := v.(type) {
	case *ssa.Field:
		fld, elem = x.Field, x.X
	case *ssa.UnOp:
		fa, ok := x.X.(*ssa.FieldAddr)
		if !ok {
			return nil, nil
		}
		fld, elem = fa.Field, fa.X
	default:
		return nil, nil
	}
	// elem: *IndexAddr(table, i), or IndexAddr itself (address form), possibly via a local copy
	if u, ok := elem.(*ssa.UnOp); ok {
		elem = u.X
	}
	if al, ok := elem.(*ssa.Alloc); ok {
		// a per-iteration copy: its single store is the loaded element
		var st *ssa.Store
		n := 0
		for _, s := range storesTo(al) {
			st, n = s, n+1
		}
		if n != 1 {
			return nil, nil
		}
		elem = st.Val
		if u, ok := elem.(*ssa.UnOp); ok {
			elem = u.X
		}
	}
	ia, ok := elem.(*ssa.IndexAddr)
	if !ok {
		return nil, nil
	}
	base := ia.X
	if sl, ok := base.(*ssa.Slice); ok {
		base = sl.X
	}
	arr, ok := base.(*ssa.Alloc)
	if !ok {
		return nil, nil
	}
	rows := map[int64]ssa.Value{}
	for _, ref := range *arr.Referrers() {
		ria, ok := ref.(*ssa.IndexAddr)
		if !ok {
			continue
		}
		k, ok := constInt(ria.Index)
		if !ok {
			continue
		}
		for _, r2 := range *ria.Referrers() {
			fa, ok := r2.(*ssa.FieldAddr)
			if !ok || fa.Field != fld {
				continue
			}
			for _, r3 := range *fa.Referrers() {
				if st, ok := r3.(*ssa.Store); ok && st.Addr == ssa.Value(fa) {
					rows[k] = st.Val
				}
			}
		}
	}
	var out []ssa.Value
	for i := int64(0); i < int64(len(rows)); i++ {
		if rows[i] == nil {
			return nil, nil
		}
		out = append(out, rows[i])
	}
	return arr, out
}

// ruleLayoutOrderKept: none of the named entry points (nor a module function they reach) reorders an archive list:
// a list is accepted or refused in the order it was written, declared or stored.
func ruleLayoutOrderKept(w *World, r *Report, rule string, entries ...string) {
	for _, name := range entries {
		f := fn(w.Lib, name)
		if f == nil {
			continue
		}
		var scope []*ssa.Function
		for g := range moduleReachable(w, []*ssa.Function{f}, nil) {
			scope = append(scope, g)
		}
		sort.Slice(scope, func(i, j int) bool { return funcName(scope[i]) < funcName(scope[j]) })
		bad := ""
		for _, g := range scope {
			for _, c := range callsIn(g) {
				sc := c.Common().StaticCallee()
				if sc == nil || sc.Pkg == nil {
					continue
				}
				pth := sc.Pkg.Pkg.Path()
				if (pth == "sort" && sc.Signature.Recv() == nil) || (pth == "slices" && (strings.HasPrefix(sc.Name(), "Sort") || sc.Name() == "Reverse")) {
					if bad == "" {
						bad = pth + "." + sc.Name() + " at " + w.instrPos(c)
					}
				}
			}
		}
		r.Check(bad == "", rule, name+":order-kept", w.pos(f.Pos()), fmt.Sprintf("%d functions reachable, none sorts", len(scope)), name+" reorders a list ("+bad+"): a list written out of order is accepted as another list than the one written, and the entry points no longer agree on it")
	}
}

// ruleOneClockReading: below the named library entry point the clock (the package variable Now) is read at exactly one
// place: the archive choice, the range tests and the clamping of one call all see the same instant.
func ruleOneClockReading(w *World, r *Report, rule string, entries ...string) {
	for _, name := range entries {
		f := fn(w.Lib, name)
		if f == nil {
			continue
		}
		var scope []*ssa.Function
		for g := range moduleReachable(w, []*ssa.Function{f}, nil) {
			scope = append(scope, g)
		}
		sort.Slice(scope, func(i, j int) bool { return funcName(scope[i]) < funcName(scope[j]) })
		var sites []string
		for _, g := range scope {
			eachInstr(g, func(in ssa.Instruction) {
				u, ok := in.(*ssa.UnOp)
				if !ok || u.Op != token.MUL {
					return
				}
				if gl, isG := u.X.(*ssa.Global); isG && gl.Name() == "Now" && gl.Pkg == w.Lib {
					sites = append(sites, w.instrPos(u))
				}
				_ = u
			})
			for _, c := range callsIn(g) {
				if isCallToPkgFunc(c, "time", "Now") {
					sites = append(sites, w.instrPos(c))
				}
			}
		}
		direct := ""
		for _, g := range scope {
			for _, c := range callsIn(g) {
				if isCallToPkgFunc(c, "time", "Now") {
					direct = w.instrPos(c)
				}
			}
		}
		if direct != "" {
			r.Violate(rule, name+":one-clock-reading", w.pos(f.Pos()), name+" reads time.Now directly at "+direct+" instead of the package's clock (the variable Now): this entry point no longer follows a replaced clock while the others do")
			continue
		}
		r.Check(len(sites) == 1, rule, name+":one-clock-reading", w.pos(f.Pos()), "the clock is read at one place ("+strings.Join(sites, ", ")+")", fmt.Sprintf("%s reads the clock at %d places (%s): when a retention boundary passes between two readings the archive is chosen for one instant and the window tested and clamped for another", name, len(sites), strings.Join(sites, ", ")))
	}
}

// ruleParseWindowCheck: a command whose body takes "until not given" (Until == 0) to mean "until now" must not turn the
// window away in Parse because From lies after that zero: a rejection that compares From with Until is reached only
// when Until was given (Until != 0).
func ruleParseWindowCheck(w *World, r *Report, rule, cmdType string) {
	f := fn(w.Cmd, cmdType+".Parse")
	if f == nil {
		return
	}
	ruleFlagsDistinctTargets(w, r, rule, cmdType)
	idx := errResultIndex(f)
	bad := ""
	n := 0
	isFld := func(v ssa.Value, name string) bool { return newExprCtx(w).expr(v) == "p0."+name }
	for _, b := range f.Blocks {
		if len(b.Instrs) == 0 {
			continue
		}
		iff, ok := b.Instrs[len(b.Instrs)-1].(*ssa.If)
		if !ok {
			continue
		}
		cond, _ := stripNot(iff.Cond)
		bo, ok := cond.(*ssa.BinOp)
		if !ok || !isCmp(bo.Op) || bo.Op == token.EQL || bo.Op == token.NEQ {
			continue
		}
		if !((isFld(bo.X, "From") && isFld(bo.Y, "Until")) || (isFld(bo.X, "Until") && isFld(bo.Y, "From"))) {
			continue
		}
		// does an outcome of this test end in a refusal?
		refuses := false
		for _, sc := range b.Succs {
			for _, ret := range returnsOf(f) {
				if idx >= 0 && edgeDominates(b, sc, ret.Block()) && !isNilConst(ret.Results[idx]) {
					refuses = true
				}
			}
		}
		if !refuses {
			continue
		}
		n++
		guarded := false
		for _, g := range f.Blocks {
			if len(g.Instrs) == 0 {
				continue
			}
			gi, ok := g.Instrs[len(g.Instrs)-1].(*ssa.If)
			if !ok {
				continue
			}
			gc, neg := stripNot(gi.Cond)
			gb, ok := gc.(*ssa.BinOp)
			if !ok {
				continue
			}
			var other ssa.Value
			switch {
			case isFld(gb.X, "Until"):
				other = gb.Y
			case isFld(gb.Y, "Until"):
				other = gb.X
			default:
				continue
			}
			if k, isK := constInt(other); !isK || k != 0 {
				continue
			}
			// the edge on which Until is known to be non-zero
			var given *ssa.BasicBlock
			switch gb.Op {
			case token.NEQ, token.GTR, token.LSS:
				given = g.Succs[0]
				if neg {
					given = g.Succs[1]
				}
			case token.EQL:
				given = g.Succs[1]
				if neg {
					given = g.Succs[0]
				}
			default:
				continue
			}
			if given == b || edgeDominates(g, given, b) {
				guarded = true
			}
		}
		if !guarded && bad == "" {
			bad = "the test of From against Until at " + w.blockPos(b) + " refuses the window also when Until was not given (0)"
		}
	}
	r.Check(bad == "", rule, cmdType+".Parse:window-check", w.pos(f.Pos()), fmt.Sprintf("%d refusals compare From with Until, each only when Until was given", n), cmdType+".Parse: "+bad+": the command body reads Until == 0 as `until now`, so the window `-from T` alone — which it would serve — is turned away and the command does none of its work")
}

// ruleLoopBodyAlwaysCalls: the call sits in a loop and every pass through the loop body performs it — there is no way
// from the body's entry back to the loop header (or out of the loop other than by a failing return) that avoids it.
func ruleLoopBodyAlwaysCalls(w *World, r *Report, rule, key string, call ssa.Instruction, why string) {
	if call == nil {
		r.Undecided(rule, key, "-", "the per-element call was not found")
		return
	}
	var header *ssa.BasicBlock
	for b := call.Block(); b != nil; b = b.Idom() {
		if isLoopHeader(b) {
			header = b
			break
		}
	}
	if header == nil {
		r.Violate(rule, key, w.instrPos(call), "the per-element call is not inside a loop: "+why)
		return
	}
	// the body entry: the successor of the header from which the call is reachable
	bad := ""
	for _, s := range header.Succs {
		if s != call.Block() && !blockReachesAvoiding(s, call.Block(), header) {
			continue // the exit side
		}
		if s == call.Block() {
			continue
		}
		// can the header be reached again from s without passing the call's block?
		seen := map[*ssa.BasicBlock]bool{call.Block(): true}
		var walk func(b *ssa.BasicBlock) bool
		walk = func(b *ssa.BasicBlock) bool {
			if b == header {
				return true
			}
			if seen[b] {
				return false
			}
			seen[b] = true
			for _, n := range b.Succs {
				if walk(n) {
					return true
				}
			}
			return false
		}
		if walk(s) {
			bad = "an element can be passed over: from " + w.blockPos(s) + " the loop goes on to the next element without the call"
		}
	}
	r.Check(bad == "", rule, key, w.instrPos(call), "every pass through the loop body performs the call", bad+": "+why)
}

// ruleParseFloatWidth: a number parsed for a float32 option is parsed as a float32 (bitSize 32): parsing it as a float64
// and narrowing rounds twice, so decimals next to a float32 rounding boundary land on the wrong neighbour.
func ruleParseFloatWidth(w *World, r *Report, rule string) {
	n := 0
	bad := ""
	for _, f := range w.modFuncs {
		if !w.inModule(f) {
			continue
		}
		for _, c := range callsIn(f) {
			if !isCallToPkgFunc(c, "strconv", "ParseFloat") || len(c.Common().Args) != 2 {
				continue
			}
			cv, ok := c.(*ssa.Call)
			if !ok {
				continue
			}
			// is result #0 converted to float32?
			to32 := false
			for _, ref := range *cv.Referrers() {
				ex, isEx := ref.(*ssa.Extract)
				if !isEx || ex.Index != 0 {
					continue
				}
				for _, r2 := range *ex.Referrers() {
					if conv, isC := r2.(*ssa.Convert); isC {
						if bt, isB := conv.Type().Underlying().(*types.Basic); isB && bt.Kind() == types.Float32 {
							to32 = true
						}
					}
				}
			}
			if !to32 {
				continue
			}
			n++
			if k, isK := constInt(c.Common().Args[1]); (!isK || k != 32) && bad == "" {
				bad = "the number stored as a float32 is parsed at " + w.instrPos(c) + " with another bit size than 32"
			}
		}
	}
	r.Check(bad == "" && n > 0, rule, "strconv.ParseFloat:width-of-the-option", "cmd/flags.go", fmt.Sprintf("%d float32 options, each parsed with bitSize 32", n), bad+": the value is rounded twice and the file gets another xFilesFactor than the one requested")
}

// ruleFlagsDistinctTargets: in a command's Parse every flag stores into a field of its own — two registrations that
// share a target (a line copied from its neighbour with only the name changed) leave one option without effect and
// let the other be overwritten.
func ruleFlagsDistinctTargets(w *World, r *Report, rule, cmdType string) {
	f := fn(w.Cmd, cmdType+".Parse")
	if f == nil {
		return
	}
	targets := map[string][]string{}
	n := 0
	fieldOf := func(v ssa.Value) string {
		// &c.F directly, or a flag.Value literal holding &c.F
		if _, name, ok := fieldAddrOf(v); ok {
			if fa, isFA := v.(*ssa.FieldAddr); isFA && fa.X == ssa.Value(f.Params[0]) {
				return name
			}
		}
		if mi, ok := v.(*ssa.MakeInterface); ok {
			v = mi.X
		}
		al, ok := v.(*ssa.Alloc)
		if !ok {
			return ""
		}
		found := ""
		for _, ref := range *al.Referrers() {
			fa, isFA := ref.(*ssa.FieldAddr)
			if !isFA {
				continue
			}
			for _, r2 := range *fa.Referrers() {
				if st, isSt := r2.(*ssa.Store); isSt && st.Addr == ssa.Value(fa) {
					if inner, isIn := st.Val.(*ssa.FieldAddr); isIn && inner.X == ssa.Value(f.Params[0]) {
						if _, name, ok2 := fieldAddrOf(inner); ok2 {
							found = name
						}
					}
				}
			}
		}
		return found
	}
	for _, c := range callsIn(f) {
		sc := c.Common().StaticCallee()
		if sc == nil || !isMethodFunc(sc, "flag", "FlagSet", sc.Name()) || !(strings.HasSuffix(sc.Name(), "Var")) || len(c.Common().Args) < 3 {
			continue
		}
		name, ok := constString(c.Common().Args[2])
		if !ok {
			continue
		}
		tgt := fieldOf(c.Common().Args[1])
		if tgt == "" {
			continue
		}
		n++
		targets[tgt] = append(targets[tgt], "-"+name)
	}
	bad := ""
	var keys []string
	for k := range targets {
		keys = append(keys, k)
	}
	sort.Strings(keys)
	for _, k := range keys {
		if len(targets[k]) > 1 {
			bad = "the options " + strings.Join(targets[k], " and ") + " both store into the field " + k
		}
	}
	r.Check(bad == "" && n > 0, rule, cmdType+".Parse:flags-distinct", w.pos(f.Pos()), fmt.Sprintf("%d options, each with a field of its own", n), cmdType+".Parse: "+bad+": one of them overwrites the other and the field the second should set keeps its zero value")
}

// ruleAddSaturates: Timestamp.Add with a negative duration does not wrap below the epoch: its subtraction is reached
// only on the outcome of a test that found the amount no larger than the time (the other outcome returns 0). The age
// cut-offs `now.Add(-retention)` of fetch, update and the batch partition rely on it for layouts whose retention
// reaches back before 1970.
func ruleAddSaturates(w *World, r *Report, rule string) {
	f := fn(w.Lib, "Timestamp.Add")
	if f == nil || len(f.Params) != 2 {
		r.Undecided(rule, "Timestamp.Add:saturates-at-epoch", "-", "Timestamp.Add not found")
		return
	}
	bad := ""
	n := 0
	eachInstr(f, func(in ssa.Instruction) {
		bo, ok := in.(*ssa.BinOp)
		if !ok || bo.Op != token.SUB || bo.X != ssa.Value(f.Params[0]) {
			return
		}
		n++
		// a dominating comparison between the amount subtracted and t whose other outcome returns a constant
		guarded := false
		for _, b := range f.Blocks {
			if len(b.Instrs) == 0 {
				continue
			}
			iff, isIf := b.Instrs[len(b.Instrs)-1].(*ssa.If)
			if !isIf {
				continue
			}
			cond, _ := stripNot(iff.Cond)
			cmp, isCmp2 := cond.(*ssa.BinOp)
			if !isCmp2 || !isCmp(cmp.Op) {
				continue
			}
			xs, ys := newExprCtx(w).expr(cmp.X), newExprCtx(w).expr(cmp.Y)
			amt := newExprCtx(w).expr(bo.Y)
			if !((xs == "p0" && ys == amt) || (ys == "p0" && xs == amt)) {
				continue
			}
			// in the time's own unsigned domain: converted to the signed amount type a time from 2038 on is negative
			// and every step back looks larger than it
			if !unsignedType(cmp.X.Type()) {
				continue
			}
			for k, sc := range b.Succs {
				if edgeDominates(b, sc, bo.Block()) {
					// the other outcome ends in a constant return
					other := b.Succs[1-k]
					for _, in2 := range other.Instrs {
						if rt, isRet := in2.(*ssa.Return); isRet && len(rt.Results) == 1 {
							if _, isK := rt.Results[0].(*ssa.Const); isK {
								guarded = true
							}
						}
					}
				}
			}
		}
		if !guarded {
			bad = "the subtraction at " + w.instrPos(bo) + " is not guarded against an amount larger than the time"
		}
	})
	r.Check(bad == "" && n > 0, rule, "Timestamp.Add:saturates-at-epoch", w.pos(f.Pos()), "t minus a larger amount gives 0, not a wrapped time", "Timestamp.Add: "+bad+": for a layout whose retention reaches back before 1970 (1d:60y) now.Add(-retention) wraps to a time in the far future, so every update is refused as too old and every fetch answers `no series`")
}
