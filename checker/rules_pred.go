package main

import (
	"fmt"
	"os"
	"go/token"
	"regexp"
	"sort"
	"strconv"
	"strings"

	"golang.org/x/tools/go/ssa"
)

// Small predicates the command skeletons rely on, decided by enumerating their decision diagrams.
// The skeleton rules check *that* a verdict or a dispatch is guarded by one of these calls; the rules here check what
// the callee answers. Each rule reads the function body on every run; none matches text or positions.

// lenEnv binds len(param i) to n for the evaluation of f.
func lenEnv(f *ssa.Function, lens map[int]int64) map[ssa.Value]aval {
	env := map[ssa.Value]aval{}
	eachInstr(f, func(in ssa.Instruction) {
		c, ok := in.(*ssa.Call)
		if !ok {
			return
		}
		b, ok := c.Call.Value.(*ssa.Builtin)
		if !ok || b.Name() != "len" {
			return
		}
		for i, n := range lens {
			if i < len(f.Params) && stripChangeType(c.Call.Args[0]) == ssa.Value(f.Params[i]) {
				env[c] = aval{k: kInt, i: n}
			}
		}
	})
	return env
}

var reFirstIndex = regexp.MustCompile(`\[(\d+)\]`)

// rulePointsListAllEmpty: PointsList.AllEmpty, evaluated for a list of two archives, answers true exactly when both
// elements have length zero.
func rulePointsListAllEmpty(w *World, r *Report, rule string) {
	const key = "cmd.PointsList.AllEmpty"
	f := fn(w.Cmd, "PointsList.AllEmpty")
	if f == nil || len(f.Params) != 1 {
		r.Undecided(rule, key, "-", "PointsList.AllEmpty not found")
		return
	}
	const n = 2
	e := &ddEngine{w: w, env: lenEnv(f, map[int]int64{0: n}), maxLeafs: 32, concreteAtoms: true}
	e.run(f)
	var bads []string
	if e.err != nil {
		bads = append(bads, "cannot evaluate: "+e.err.Error())
	}
	sawTrue, sawFalse := false, false
	for _, l := range e.leaves {
		if l.ret == nil || len(l.results) != 1 || l.results[0].k != kBool {
			bads = append(bads, "a path does not return a decided boolean")
			continue
		}
		empty := map[int]bool{} // element index -> known empty (true) / known non-empty (false)
		okAtoms := true
		for k, chosen := range l.atoms {
			_, emptyWhenTrue, ok := lenEmptyCond(l.atomVal[k])
			m := reFirstIndex.FindStringSubmatch(k)
			if !ok || m == nil {
				bads = append(bads, "a condition other than the emptiness of an element decides the result ("+k+")")
				okAtoms = false
				continue
			}
			idx, _ := strconv.Atoi(m[1])
			empty[idx] = chosen == emptyWhenTrue
		}
		if !okAtoms {
			continue
		}
		if l.results[0].b {
			sawTrue = true
			for i := 0; i < n; i++ {
				if isEmpty, known := empty[i]; !known {
					bads = append(bads, fmt.Sprintf("answers true without looking at element %d", i))
				} else if !isEmpty {
					bads = append(bads, fmt.Sprintf("answers true although element %d is not empty", i))
				}
			}
		} else {
			sawFalse = true
			some := false
			for _, isEmpty := range empty {
				if !isEmpty {
					some = true
				}
			}
			if !some {
				bads = append(bads, "answers false although every element examined is empty")
			}
		}
	}
	if len(bads) == 0 && !(sawTrue && sawFalse) {
		bads = append(bads, "the answer does not depend on the elements")
	}
	sort.Strings(bads)
	first := ""
	if len(bads) > 0 {
		first = bads[0]
	}
	r.Check(len(bads) == 0, rule, key, w.pos(f.Pos()), "true iff every element is empty (decided for two archives)", "PointsList.AllEmpty "+first+" — the `nothing differs` verdict of diff/sum-diff and the `nothing to write` shortcut of copy/sum-copy rest on it")
}

// hasPrefixAtom: v is strings.HasPrefix(<param 0 of f>, "<const>") -> the constant.
func hasPrefixAtom(f *ssa.Function, v ssa.Value) (string, bool) {
	neg := false
	for {
		u, ok := v.(*ssa.UnOp)
		if !ok || u.Op != token.NOT {
			break
		}
		v, neg = u.X, !neg
	}
	c, ok := v.(*ssa.Call)
	if !ok || neg {
		return "", false
	}
	sc := c.Common().StaticCallee()
	if sc == nil || sc.Pkg == nil || sc.Pkg.Pkg.Path() != "strings" || sc.Name() != "HasPrefix" || len(c.Common().Args) != 2 {
		return "", false
	}
	if stripChangeType(c.Common().Args[0]) != ssa.Value(f.Params[0]) {
		return "", false
	}
	s, ok := constString(c.Common().Args[1])
	return s, ok
}

// ruleIsBaseURL: isBaseURL(s) is true exactly when s starts with http:// or https://.
func ruleIsBaseURL(w *World, r *Report, rule string) {
	const key = "cmd.isBaseURL"
	f := fn(w.Cmd, "isBaseURL")
	if f == nil || len(f.Params) != 1 {
		r.Undecided(rule, key, "-", "isBaseURL not found")
		return
	}
	e := &ddEngine{w: w, env: map[ssa.Value]aval{}, maxLeafs: 16}
	e.run(f)
	var bads []string
	if e.err != nil {
		bads = append(bads, "cannot evaluate: "+e.err.Error())
	}
	schemes := map[string]bool{"http://": true, "https://": true}
	trueFor := map[string]bool{}
	for _, l := range e.leaves {
		if l.ret == nil || len(l.results) != 1 {
			bads = append(bads, "a path does not return a boolean")
			continue
		}
		known := map[string]bool{}
		okAtoms := true
		for k, chosen := range l.atoms {
			p, ok := hasPrefixAtom(f, l.atomVal[k])
			if !ok || !schemes[p] {
				bads = append(bads, "a condition other than a scheme-prefix test of the argument decides the result ("+k+")")
				okAtoms = false
				continue
			}
			known[p] = chosen
		}
		if !okAtoms {
			continue
		}
		anyTrue := false
		for _, v := range known {
			anyTrue = anyTrue || v
		}
		res := l.results[0]
		if res.k == kBool {
			switch {
			case res.b && !anyTrue:
				bads = append(bads, "answers true although no scheme prefix matched")
			case !res.b && anyTrue:
				bads = append(bads, "answers false although a scheme prefix matched")
			case !res.b && len(known) < len(schemes):
				bads = append(bads, "answers false without testing both http:// and https://")
			}
			if res.b {
				for p, v := range known {
					if v {
						trueFor[p] = true
					}
				}
			}
			continue
		}
		// the result is itself the last prefix test
		rv := res.sym
		if rv == nil {
			rv = l.ret.Results[0]
		}
		p, ok := hasPrefixAtom(f, rv)
		switch {
		case !ok || !schemes[p]:
			bads = append(bads, "the result is "+newExprCtx(w).expr(rv)+", not a scheme-prefix test of the argument")
		case anyTrue:
			bads = append(bads, "a matched scheme prefix is overridden by the test for "+p)
		default:
			if _, dup := known[p]; !dup && len(known)+1 < len(schemes) {
				bads = append(bads, "answers without testing both http:// and https://")
			}
			trueFor[p] = true
		}
	}
	if len(bads) == 0 && len(trueFor) != len(schemes) {
		bads = append(bads, "does not answer true for both http:// and https://")
	}
	sort.Strings(bads)
	first := ""
	if len(bads) > 0 {
		first = bads[0]
	}
	r.Check(len(bads) == 0, rule, key, w.pos(f.Pos()), "true iff the base starts with http:// or https://", "isBaseURL "+first+" — every dispatcher chooses between the local and the remote implementation by it")
}

// isNotExistAtom: v is os.IsNotExist(x) / errors.Is(x, os.ErrNotExist | fs.ErrNotExist) (not negated).
func isNotExistAtom(v ssa.Value) bool {
	c, ok := v.(*ssa.Call)
	if !ok {
		return false
	}
	sc := c.Common().StaticCallee()
	if sc == nil || sc.Pkg == nil {
		return false
	}
	switch sc.Pkg.Pkg.Path() + "." + sc.Name() {
	case "os.IsNotExist":
		return true
	case "errors.Is":
		if len(c.Common().Args) == 2 {
			if u, ok := c.Common().Args[1].(*ssa.UnOp); ok && u.Op == token.MUL {
				if g, ok := u.X.(*ssa.Global); ok && g.Name() == "ErrNotExist" {
					return true
				}
			}
		}
	}
	return false
}

// ruleNotExistWrap: WrapFileNotExistError(side, err) returns a *fileNotExistError only when os.IsNotExist(err), and
// err itself otherwise; AsFileNotExistError(err) returns what errors.As found, and nil when it found nothing.
func ruleNotExistWrap(w *World, r *Report, rule string) {
	{
		const key = "cmd.WrapFileNotExistError"
		f := fn(w.Cmd, "WrapFileNotExistError")
		if f == nil || len(f.Params) != 2 {
			r.Undecided(rule, key, "-", "WrapFileNotExistError not found")
		} else {
			e := &ddEngine{w: w, env: map[ssa.Value]aval{}, maxLeafs: 16}
			e.run(f)
			var bads []string
			if e.err != nil {
				bads = append(bads, "cannot evaluate: "+e.err.Error())
			}
			wraps := false
			for _, l := range e.leaves {
				if l.ret == nil || len(l.ret.Results) != 1 {
					bads = append(bads, "a path does not return")
					continue
				}
				notExist, known := false, false
				for k, chosen := range l.atoms {
					if isNotExistAtom(l.atomVal[k]) {
						notExist, known = chosen, true
					}
				}
				rv := stripMakeInterface(l.ret.Results[0])
				isWrap := false
				if al, ok := rv.(*ssa.Alloc); ok && strings.HasSuffix(al.Type().String(), "fileNotExistError") {
					isWrap = true
				}
				switch {
				case isWrap && !(known && notExist):
					bads = append(bads, "classifies an error as `file does not exist` without os.IsNotExist(err) holding")
				case isWrap:
					wraps = true
				case l.ret.Results[0] == ssa.Value(f.Params[1]):
					if known && notExist {
						bads = append(bads, "returns a not-exist error unclassified")
					}
				default:
					if k, isK := l.ret.Results[0].(*ssa.Const); isK && k.IsNil() {
						// `return nil` is right only where err is known nil
						nilKnown := false
						for k2, chosen := range l.atoms {
							if bo, ok := l.atomVal[k2].(*ssa.BinOp); ok && (bo.Op == token.NEQ || bo.Op == token.EQL) {
								if (bo.X == ssa.Value(f.Params[1]) && isNilConst(bo.Y)) || (bo.Y == ssa.Value(f.Params[1]) && isNilConst(bo.X)) {
									nilKnown = chosen == (bo.Op == token.EQL)
								}
							}
						}
						if !nilKnown {
							bads = append(bads, "drops the error (returns nil for a non-nil error)")
						}
					} else {
						bads = append(bads, "returns something other than err or a fileNotExistError ("+newExprCtx(w).expr(l.ret.Results[0])+")")
					}
				}
			}
			if len(bads) == 0 && !wraps {
				bads = append(bads, "never classifies an error as `file does not exist`")
			}
			sort.Strings(bads)
			first := ""
			if len(bads) > 0 {
				first = bads[0]
			}
			r.Check(len(bads) == 0, rule, key, w.pos(f.Pos()), "wraps exactly the errors for which os.IsNotExist holds; passes every other error on", "WrapFileNotExistError "+first+" — diff/sum-diff report a missing side as a difference and any other read failure as an error")
		}
	}
	{
		const key = "cmd.AsFileNotExistError"
		f := fn(w.Cmd, "AsFileNotExistError")
		if f == nil || len(f.Params) != 1 {
			r.Undecided(rule, key, "-", "AsFileNotExistError not found")
			return
		}
		e := &ddEngine{w: w, env: map[ssa.Value]aval{}, maxLeafs: 16}
		e.run(f)
		var bads []string
		if e.err != nil {
			bads = append(bads, "cannot evaluate: "+e.err.Error())
		}
		found := false
		for _, l := range e.leaves {
			if l.ret == nil || len(l.ret.Results) != 1 {
				bads = append(bads, "a path does not return")
				continue
			}
			as, known := false, false
			var target ssa.Value
			for k, chosen := range l.atoms {
				if c, ok := l.atomVal[k].(*ssa.Call); ok {
					if sc := c.Common().StaticCallee(); sc != nil && sc.Pkg != nil && sc.Pkg.Pkg.Path() == "errors" && sc.Name() == "As" && len(c.Common().Args) == 2 {
						as, known = chosen, true
						target = stripMakeInterface(c.Common().Args[1])
					}
				}
			}
			rv := l.ret.Results[0]
			k, isK := rv.(*ssa.Const)
			switch {
			case isK && k.IsNil():
				if known && as {
					bads = append(bads, "answers nil although errors.As found a fileNotExistError")
				}
			default:
				u, isLoad := rv.(*ssa.UnOp)
				if !isLoad || u.Op != token.MUL || target == nil || u.X != target {
					bads = append(bads, "returns something other than the errors.As target ("+newExprCtx(w).expr(rv)+")")
				} else if !(known && as) {
					bads = append(bads, "returns the target although errors.As found nothing (always nil)")
				} else {
					found = true
				}
			}
		}
		if len(bads) == 0 && !found {
			bads = append(bads, "never returns the error errors.As found")
		}
		sort.Strings(bads)
		first := ""
		if len(bads) > 0 {
			first = bads[0]
		}
		r.Check(len(bads) == 0, rule, key, w.pos(f.Pos()), "non-nil exactly when errors.As finds a *fileNotExistError", "AsFileNotExistError "+first+" — a missing side is then an error instead of a reported difference (or the reverse)")
	}
}

var reParamElem = regexp.MustCompile(`^\*?\$(\w+)\[(\d+)\]$`)

// ruleListDiffElementwise: TimeSeriesList.Diff (resp. DiffExcludeSrcNaN), evaluated for two lists of two archives,
// calls TimeSeries.DiffPoints (resp. DiffPointsExcludeSrcNaN) on (tl[i], ul[i]) for i = 0 and 1 and returns two
// lists whose i-th elements are results #0 and #1 of that call.
func ruleListDiffElementwise(w *World, r *Report, rule string) {
	for _, sp := range []struct{ list, elem string }{
		{"TimeSeriesList.Diff", "TimeSeries.DiffPoints"},
		{"TimeSeriesList.DiffExcludeSrcNaN", "TimeSeries.DiffPointsExcludeSrcNaN"},
	} {
		key := "cmd." + sp.list + ":elementwise"
		f, el := fn(w.Cmd, sp.list), fn(w.Lib, sp.elem)
		if f == nil || el == nil || len(f.Params) != 2 {
			r.Undecided(rule, key, "-", sp.list+" or "+sp.elem+" not found")
			continue
		}
		const n = 2
		type ecall struct {
			c          *ssa.Call
			idx        int
			okOperands bool
		}
		var calls []ecall
		e := &ddEngine{w: w, env: lenEnv(f, map[int]int64{0: n, 1: n}), maxLeafs: 16, concreteAtoms: true}
		e.onCall = func(s *ddState, c *ssa.Call) {
			sc := c.Common().StaticCallee()
			if debugPred {
				fmt.Printf("DEBUG %s call %v static=%v key0=%s\n", key, c, sc, e.keyOf(s, c.Common().Args[0]))
			}
			if sc == nil || sc.Pkg == nil || sc.Pkg.Pkg.Path() != w.Lib.Pkg.Path() || !strings.Contains(sc.Name(), "DiffPoints") {
				return
			}
			ec := ecall{c: c, idx: -1}
			if sc == el && len(c.Common().Args) == 2 {
				m0 := reParamElem.FindStringSubmatch(e.keyOf(s, c.Common().Args[0]))
				m1 := reParamElem.FindStringSubmatch(e.keyOf(s, c.Common().Args[1]))
				if m0 != nil && m1 != nil && m0[1] == f.Params[0].Name() && m1[1] == f.Params[1].Name() && m0[2] == m1[2] {
					ec.idx, _ = strconv.Atoi(m0[2])
					ec.okOperands = true
				}
			}
			calls = append(calls, ec)
		}
		e.run(f)
		var bads []string
		if e.err != nil {
			bads = append(bads, "cannot evaluate: "+e.err.Error())
		}
		if len(e.leaves) != 1 || e.leaves[0].ret == nil || len(e.leaves[0].ret.Results) != 2 {
			bads = append(bads, fmt.Sprintf("for two lists of %d archives the result depends on something other than the lengths (%d paths)", n, len(e.leaves)))
		} else {
			seen := map[int]*ssa.Call{}
			for _, c := range calls {
				switch {
				case !c.okOperands:
					bads = append(bads, "calls "+funcName(c.c.Common().StaticCallee())+" on operands other than (receiver[i], argument[i]) — expected "+sp.elem)
				case seen[c.idx] != nil && seen[c.idx] != c.c:
					bads = append(bads, fmt.Sprintf("archive %d is compared twice", c.idx))
				default:
					seen[c.idx] = c.c
				}
			}
			for i := 0; i < n; i++ {
				if seen[i] == nil {
					bads = append(bads, fmt.Sprintf("archive %d of equally long lists is not compared with %s", i, sp.elem))
				}
			}
			// result #k is a made list whose element [i] receives result #k of the call on index i
			if len(bads) == 0 {
				for k, rv := range e.leaves[0].ret.Results {
					mk, ok := stripChangeType(rv).(*ssa.MakeSlice)
					if !ok {
						bads = append(bads, fmt.Sprintf("result #%d is not a freshly made list (%s)", k, newExprCtx(w).expr(rv)))
						continue
					}
					okStore := false
					nStores := 0
					for _, ref := range *mk.Referrers() {
						ia, ok := ref.(*ssa.IndexAddr)
						if !ok {
							continue
						}
						for _, ref2 := range *ia.Referrers() {
							st, ok := ref2.(*ssa.Store)
							if !ok || st.Addr != ssa.Value(ia) {
								continue
							}
							nStores++
							ex, ok := st.Val.(*ssa.Extract)
							if !ok || ex.Index != k {
								continue
							}
							c, ok := ex.Tuple.(*ssa.Call)
							if !ok || c.Common().StaticCallee() != el {
								continue
							}
							// same index value as the receiver's element
							if rcv := elemIndexOf(c.Common().Args[0]); rcv != nil && rcv == ia.Index {
								okStore = true
							}
						}
					}
					if !okStore || nStores != 1 {
						bads = append(bads, fmt.Sprintf("element i of result #%d is not result #%d of %s(receiver[i], argument[i])", k, k, sp.elem))
					}
				}
			}
		}
		sort.Strings(bads)
		first := ""
		if len(bads) > 0 {
			first = bads[0]
		}
		r.Check(len(bads) == 0, rule, key, w.pos(f.Pos()), "for equally long lists, element i of each result is the matching result of "+sp.elem+"(tl[i], ul[i])", sp.list+": "+first+" — copy writes and diff lists what this returns")
	}
}

// elemIndexOf: v is X[i] (loaded) -> i.
func elemIndexOf(v ssa.Value) ssa.Value {
	if u, ok := v.(*ssa.UnOp); ok && u.Op == token.MUL {
		v = u.X
	}
	switch x := v.(type) {
	case *ssa.IndexAddr:
		return x.Index
	case *ssa.Index:
		return x.Index
	}
	return nil
}

// pathAvoiding: is there a way from block `from` (entered from prev) to a Return that passes no instruction for which
// hit is true? Returns that Return, or nil.
func pathAvoiding(from *ssa.BasicBlock, hit func(ssa.Instruction) bool) *ssa.Return {
	seen := map[*ssa.BasicBlock]bool{}
	var walk func(b *ssa.BasicBlock) *ssa.Return
	walk = func(b *ssa.BasicBlock) *ssa.Return {
		if seen[b] {
			return nil
		}
		seen[b] = true
		for _, in := range b.Instrs {
			if hit(in) {
				return nil
			}
			if ret, ok := in.(*ssa.Return); ok {
				return ret
			}
			if _, ok := in.(*ssa.Panic); ok {
				return nil
			}
		}
		for _, s := range b.Succs {
			if r := walk(s); r != nil {
				return r
			}
		}
		return nil
	}
	return walk(from)
}

// reachesInstr: some instruction with hit true is reachable from block `from`.
func reachesInstr(from *ssa.BasicBlock, hit func(ssa.Instruction) bool) ssa.Instruction {
	seen := map[*ssa.BasicBlock]bool{}
	var walk func(b *ssa.BasicBlock) ssa.Instruction
	walk = func(b *ssa.BasicBlock) ssa.Instruction {
		if seen[b] {
			return nil
		}
		seen[b] = true
		for _, in := range b.Instrs {
			if hit(in) {
				return in
			}
		}
		for _, s := range b.Succs {
			if r := walk(s); r != nil {
				return r
			}
		}
		return nil
	}
	return walk(from)
}

// ruleServerErrorsAnswered: the closure wrapHandler returns answers a handler failure with an error status on every
// path and appends nothing to a successful response; httpError.WriteTo sends its own status code.
// (An unanswered failure is a 200 with an empty body, which every client decoder takes for `does not exist`.)
func ruleServerErrorsAnswered(w *World, r *Report, rule string) {
	wt := fn(w.Cmd, "httpError.WriteTo")
	isErrAnswer := func(in ssa.Instruction) bool {
		c, ok := in.(*ssa.Call)
		if !ok {
			return false
		}
		if sc := c.Common().StaticCallee(); sc != nil {
			return (wt != nil && sc == wt) || isCallToPkgFunc(c, "net/http", "Error")
		}
		return c.Common().IsInvoke() && c.Common().Method.Name() == "WriteHeader"
	}
	wh := fn(w.Cmd, "wrapHandler")
	if wh == nil || wt == nil || len(wh.AnonFuncs) != 1 || len(wh.Params) != 1 {
		r.Undecided(rule, "cmd.wrapHandler", "-", "wrapHandler (with its one closure) or httpError.WriteTo not found")
	} else {
		cl := wh.AnonFuncs[0]
		var hCall *ssa.Call
		for _, c := range callsIn(cl) {
			if cv, ok := c.(*ssa.Call); ok {
				v := cv.Common().Value
				if u, ok := v.(*ssa.UnOp); ok && u.Op == token.MUL {
					v = u.X
				}
				if fv, ok := v.(*ssa.FreeVar); ok && len(cl.FreeVars) > 0 && fv == cl.FreeVars[0] {
					hCall = cv
				}
			}
		}
		bad := ""
		pos := w.pos(cl.Pos())
		if hCall == nil {
			bad = "the closure does not call the handler"
		} else {
			var test, nonNil, isNil *ssa.BasicBlock
			for _, b := range cl.Blocks {
				if x, nn, n, ok := nilTest(b); ok && x == ssa.Value(hCall) {
					test, nonNil, isNil = b, nn, n
				}
			}
			switch {
			case test == nil:
				bad = "the handler's error is not tested"
			default:
				if ret := pathAvoiding(nonNil, isErrAnswer); ret != nil {
					bad = "a handler failure can reach the end of the closure (" + w.instrPos(ret) + ") without an error response being written"
				} else if in := reachesInstr(isNil, isErrAnswer); in != nil && !blockReachableOnlyVia(in.Block(), nonNil, test) {
					bad = "an error response is written (" + w.instrPos(in) + ") after the handler succeeded"
				}
			}
		}
		r.Check(bad == "", rule, "cmd.wrapHandler:answers-failure", pos, "handler failure -> error response on every path; success -> nothing appended", "wrapHandler: "+bad+" — a failure answered with 200 and an empty body is read by the client as `does not exist`; text appended to a good response corrupts it")
	}
	if wt != nil {
		bad := ""
		if ret := pathAvoiding(wt.Blocks[0], func(in ssa.Instruction) bool {
			c, ok := in.(*ssa.Call)
			if !ok {
				return false
			}
			ex := newExprCtx(w)
			if isCallToPkgFunc(c, "net/http", "Error") && len(c.Common().Args) == 3 {
				return ex.expr(c.Common().Args[2]) == "p0.statusCode"
			}
			if c.Common().IsInvoke() && c.Common().Method.Name() == "WriteHeader" && len(c.Common().Args) == 1 {
				return ex.expr(c.Common().Args[0]) == "p0.statusCode"
			}
			return false
		}); ret != nil {
			bad = "can return without sending the error's status code (http.Error / WriteHeader with e.statusCode)"
		}
		r.Check(bad == "", rule, "cmd.httpError.WriteTo:status", w.pos(wt.Pos()), "sends e.statusCode on every path", "httpError.WriteTo "+bad)
	}
}

// blockReachableOnlyVia: b is dominated by the edge test->head.
func blockReachableOnlyVia(b, head, test *ssa.BasicBlock) bool {
	return edgeDominates(test, head, b)
}

var debugPred = os.Getenv("WTDEBUG_PRED") != ""

// ---- comparisons as sign constraints ----

// signOK: does `a op b` hold when sign(a-b) = sg?
func signOK(op token.Token, sg int) bool {
	switch op {
	case token.LSS:
		return sg < 0
	case token.LEQ:
		return sg <= 0
	case token.GTR:
		return sg > 0
	case token.GEQ:
		return sg >= 0
	case token.EQL:
		return sg == 0
	case token.NEQ:
		return sg != 0
	}
	return false
}

// stripNot peels logical negations; neg tells whether an odd number was removed.
func stripNot(v ssa.Value) (ssa.Value, bool) {
	neg := false
	for {
		u, ok := v.(*ssa.UnOp)
		if !ok || u.Op != token.NOT {
			return v, neg
		}
		v, neg = u.X, !neg
	}
}

// ruleFilterByTimeRange (decision diagram): filterPointsByTimeRange, evaluated for one point, keeps it exactly when
// (from == 0 or t > from) and t <= U, where U is until, or until + step when until == from.
func ruleFilterByTimeRange(w *World, r *Report, rule string) {
	const key = "cmd.filterPointsByTimeRange:predicate"
	f := fn(w.Cmd, "filterPointsByTimeRange")
	if f == nil || len(f.Params) != 4 {
		r.Undecided(rule, key, "-", "filterPointsByTimeRange not found")
		return
	}
	e := &ddEngine{w: w, env: lenEnv(f, map[int]int64{1: 1}), maxLeafs: 64, concreteAtoms: true}
	e.run(f)
	var bads []string
	if e.err != nil {
		bads = append(bads, "cannot evaluate: "+e.err.Error())
	}
	var appendBlock *ssa.BasicBlock
	eachInstr(f, func(in ssa.Instruction) {
		if c, ok := in.(*ssa.Call); ok {
			if b, ok := c.Common().Value.(*ssa.Builtin); ok && b.Name() == "append" {
				appendBlock = c.Block()
			}
		}
	})
	if appendBlock == nil {
		bads = append(bads, "no point is ever kept (no append)")
	}
	class := func(st *ddState, v ssa.Value) string {
		for i := 0; i < 6; i++ {
			switch x := v.(type) {
			case *ssa.Convert:
				v = x.X
				continue
			case *ssa.ChangeType:
				v = x.X
				continue
			case *ssa.Phi:
				if a := e.value(st, v); a.k == kSym && a.sym != nil && a.sym != v {
					v = a.sym
					continue
				}
			}
			break
		}
		if a := e.value(st, v); a.k == kInt && a.i == 0 {
			return "0"
		}
		if k, ok := constInt(v); ok && k == 0 {
			return "0"
		}
		switch x := v.(type) {
		case *ssa.Parameter:
			switch x {
			case f.Params[2]:
				return "from"
			case f.Params[3]:
				return "until"
			}
		case *ssa.Call:
			if sc := x.Common().StaticCallee(); sc != nil && funcName(sc) == "whispertool.Timestamp.Add" && len(x.Common().Args) == 2 {
				if x.Common().Args[0] == ssa.Value(f.Params[3]) {
					if c2, ok := stripChangeType(x.Common().Args[1]).(*ssa.Call); ok {
						if sc2 := c2.Common().StaticCallee(); sc2 != nil && funcName(sc2) == "whispertool.ArchiveInfo.SecondsPerPoint" {
							return "until+step"
						}
					}
					if strings.HasSuffix(newExprCtx(w).expr(x.Common().Args[1]), ".secondsPerPoint") {
						return "until+step"
					}
				}
			}
		}
		if strings.HasSuffix(newExprCtx(w).expr(v), ".Time") && elemOfParam(v, f.Params[1]) {
			return "t"
		}
		return "?"
	}
	for _, l := range e.leaves {
		if l.ret == nil {
			bads = append(bads, "a path does not return")
			continue
		}
		included := false
		for _, b := range l.path {
			if b == appendBlock {
				included = true
			}
		}
		type con struct {
			a, b   string
			op     token.Token
			chosen bool
		}
		var cons []con
		okAtoms := true
		for k, chosen := range l.atoms {
			v, neg := stripNot(l.atomVal[k])
			bo, ok := v.(*ssa.BinOp)
			if !ok || !isCmp(bo.Op) {
				bads = append(bads, "a condition that is not a comparison of the point's time, from, until or 0 decides the result ("+k+")")
				okAtoms = false
				continue
			}
			a, b := class(l.st, bo.X), class(l.st, bo.Y)
			if a == "?" || b == "?" {
				bads = append(bads, "a condition that is not a comparison of the point's time, from, until or 0 decides the result ("+k+")")
				okAtoms = false
				continue
			}
			cons = append(cons, con{a, b, bo.Op, chosen != neg})
		}
		if !okAtoms {
			continue
		}
		// enumerate: from vs 0, until vs from, t vs from, t vs until, t vs until+step
		sign := map[[2]string]int{}
		get := func(a, b string) (int, bool) {
			if sg, ok := sign[[2]string{a, b}]; ok {
				return sg, true
			}
			if sg, ok := sign[[2]string{b, a}]; ok {
				return -sg, true
			}
			return 0, false
		}
		pairs := [][2]string{{"from", "0"}, {"until", "from"}, {"t", "from"}, {"t", "until"}, {"t", "until+step"}}
		var enum func(i int)
		enum = func(i int) {
			if i == len(pairs) {
				for _, c := range cons {
					sg, ok := get(c.a, c.b)
					if !ok {
						bads = append(bads, "compares "+c.a+" with "+c.b)
						return
					}
					if signOK(c.op, sg) != c.chosen {
						return // this valuation does not take this path
					}
				}
				f0, _ := get("from", "0")
				deg, _ := get("until", "from")
				tf, _ := get("t", "from")
				tu, _ := get("t", "until")
				tus, _ := get("t", "until+step")
				// valuations no timestamps realise: from = 0 is the least value; until = from makes both comparisons
				// of t agree; until+step lies above until
				if (f0 == 0 && (deg < 0 || tf < 0)) || (deg == 0 && tf != tu) || (tu <= 0 && tus >= 0) || (deg > 0 && tf <= 0 && tu >= 0) || (deg < 0 && tf >= 0 && tu <= 0) {
					return
				}
				upper := tu <= 0
				if deg == 0 {
					upper = tus <= 0
				}
				want := (f0 == 0 || tf > 0) && upper
				if want != included {
					verb := map[bool]string{true: "kept", false: "dropped"}
					bads = append(bads, fmt.Sprintf("a point is %s where (from==0 or t>from) and t<=until%s says %s [from%s0, until%sfrom, t%sfrom, t%suntil, t%suntil+step]",
						verb[included], map[bool]string{true: "+step", false: ""}[deg == 0], verb[want], sgs(f0), sgs(deg), sgs(tf), sgs(tu), sgs(tus)))
				}
				return
			}
			lo := -1
			if pairs[i][0] == "from" && pairs[i][1] == "0" {
				lo = 0 // timestamps are unsigned
			}
			for sg := lo; sg <= 1; sg++ {
				sign[pairs[i]] = sg
				enum(i + 1)
			}
		}
		enum(0)
	}
	sort.Strings(bads)
	first := ""
	if len(bads) > 0 {
		first = bads[0]
	}
	r.Check(len(bads) == 0, rule, key, w.pos(f.Pos()), "keeps a point iff (from == 0 or t > from) and t <= until (until + step when until == from)", "filterPointsByTimeRange: "+first+" — view-raw no longer shows exactly the slots of the requested time range")
}

func sgs(sg int) string {
	switch {
	case sg < 0:
		return "<"
	case sg > 0:
		return ">"
	}
	return "="
}

// elemOfParam: v is (a field of) an element of slice parameter p.
func elemOfParam(v ssa.Value, p *ssa.Parameter) bool {
	for i := 0; i < 8; i++ {
		switch x := v.(type) {
		case *ssa.UnOp:
			v = x.X
		case *ssa.Field:
			v = x.X
		case *ssa.FieldAddr:
			v = x.X
		case *ssa.IndexAddr:
			return stripChangeType(x.X) == ssa.Value(p)
		case *ssa.Index:
			return stripChangeType(x.X) == ssa.Value(p)
		case *ssa.Alloc:
			// a local copy of the element
			var st *ssa.Store
			n := 0
			for _, ref := range *x.Referrers() {
				if s2, ok := ref.(*ssa.Store); ok && s2.Addr == ssa.Value(x) {
					st, n = s2, n+1
				}
			}
			if n != 1 {
				return false
			}
			v = st.Val
		default:
			return false
		}
	}
	return false
}

// ruleWindowEquality (decision diagram): TimeSeries.EqualTimeRangeAndStep answers true exactly when FromTime,
// UntilTime and Step of the two series are pairwise equal.
func ruleWindowEquality(w *World, r *Report, rule string) {
	const key = "whispertool.TimeSeries.EqualTimeRangeAndStep"
	f := fn(w.Lib, "TimeSeries.EqualTimeRangeAndStep")
	if f == nil || len(f.Params) != 2 {
		r.Undecided(rule, key, "-", "TimeSeries.EqualTimeRangeAndStep not found")
		return
	}
	parts := []string{"FromTime", "UntilTime", "Step"}
	// partOf: v compares the same accessor (or field) of both series for equality
	partOf := func(v ssa.Value) (string, bool) {
		v, neg := stripNot(v)
		bo, ok := v.(*ssa.BinOp)
		if !ok || (bo.Op != token.EQL && bo.Op != token.NEQ) {
			return "", false
		}
		side := func(x ssa.Value) (string, int) {
			if c, ok := x.(*ssa.Call); ok {
				if sc := c.Common().StaticCallee(); sc != nil && len(c.Common().Args) == 1 {
					for i, p := range f.Params {
						if c.Common().Args[0] == ssa.Value(p) {
							return strings.TrimPrefix(funcName(sc), "whispertool.TimeSeries."), i
						}
					}
				}
				return "", -1
			}
			s := newExprCtx(w).expr(x)
			for i := range f.Params {
				for fld, acc := range map[string]string{"fromTime": "FromTime", "untilTime": "UntilTime", "step": "Step"} {
					if s == fmt.Sprintf("p%d.%s", i, fld) {
						return acc, i
					}
				}
			}
			return "", -1
		}
		a, ai := side(bo.X)
		b, bi := side(bo.Y)
		if a == "" || a != b || ai == bi || ai < 0 || bi < 0 {
			return "", false
		}
		return a, (bo.Op == token.EQL) != neg
	}
	e := &ddEngine{w: w, env: map[ssa.Value]aval{}, maxLeafs: 32}
	e.run(f)
	var bads []string
	if e.err != nil {
		bads = append(bads, "cannot evaluate: "+e.err.Error())
	}
	sawTrue := false
	for _, l := range e.leaves {
		if l.ret == nil || len(l.results) != 1 {
			bads = append(bads, "a path does not return a boolean")
			continue
		}
		eq := map[string]bool{}
		okAtoms := true
		for k, chosen := range l.atoms {
			part, isEq := partOf(l.atomVal[k])
			if part == "" {
				bads = append(bads, "a condition other than the three accessor comparisons decides the result ("+k+")")
				okAtoms = false
				continue
			}
			eq[part] = chosen == isEq
		}
		if !okAtoms {
			continue
		}
		res := l.results[0]
		canBeTrue := false
		if res.k == kBool {
			canBeTrue = res.b
		} else {
			rv := res.sym
			if rv == nil {
				rv = l.ret.Results[0]
			}
			part, isEq := partOf(rv)
			if part == "" || !isEq {
				bads = append(bads, "the result is "+newExprCtx(w).expr(rv)+", not an equality of the remaining accessor")
				continue
			}
			eq[part] = true
			canBeTrue = true
		}
		if !canBeTrue {
			// a false answer needs a difference
			diff := false
			for _, v := range eq {
				if !v {
					diff = true
				}
			}
			if !diff && res.k == kBool {
				bads = append(bads, "answers false although nothing compared differs")
			}
			continue
		}
		for _, p := range parts {
			if !eq[p] {
				bads = append(bads, "two series are reported to cover the same window although "+p+" differs (or was not compared)")
			}
		}
		sawTrue = true
	}
	if len(bads) == 0 && !sawTrue {
		bads = append(bads, "no path answers true")
	}
	sort.Strings(bads)
	first := ""
	if len(bads) > 0 {
		first = bads[0]
	}
	r.Check(len(bads) == 0, rule, key, w.pos(f.Pos()), "true iff FromTime, UntilTime and Step are pairwise equal", "TimeSeries.EqualTimeRangeAndStep: "+first+" — the commands' window-agreement check (AllEqualTimeRangeAndStep) rests on it")
}

// ruleDiffLengthGuard (decision diagram): DiffPoints / DiffPointsExcludeSrcNaN compare slot by slot when both series
// have the same number of values (no call of Points), and give up with all points of both only when they differ.
func ruleDiffLengthGuard(w *World, r *Report, rule string) {
	values, points, equal := fn(w.Lib, "TimeSeries.Values"), fn(w.Lib, "TimeSeries.Points"), fn(w.Lib, "Value.Equal")
	for _, name := range []string{"TimeSeries.DiffPoints", "TimeSeries.DiffPointsExcludeSrcNaN"} {
		key := "whispertool." + name + ":length-guard"
		f := fn(w.Lib, name)
		if f == nil || values == nil || points == nil || equal == nil || len(f.Params) != 2 {
			r.Undecided(rule, key, "-", name+" (or Values/Points/Value.Equal) not found")
			continue
		}
		var bads []string
		for _, lens := range [][2]int64{{1, 1}, {1, 2}} {
			env := map[ssa.Value]aval{}
			eachInstr(f, func(in ssa.Instruction) {
				c, ok := in.(*ssa.Call)
				if !ok {
					return
				}
				b, ok := c.Call.Value.(*ssa.Builtin)
				if !ok || b.Name() != "len" {
					return
				}
				// len(ts.Values()) or len(ts.values)
				arg := stripChangeType(c.Call.Args[0])
				if vc, ok := arg.(*ssa.Call); ok && vc.Common().StaticCallee() == values && len(vc.Common().Args) == 1 {
					for i, p := range f.Params {
						if vc.Common().Args[0] == ssa.Value(p) {
							env[c] = aval{k: kInt, i: lens[i]}
						}
					}
					return
				}
				s := newExprCtx(w).expr(arg)
				for i := range f.Params {
					if s == fmt.Sprintf("p%d.values", i) {
						env[c] = aval{k: kInt, i: lens[i]}
					}
				}
			})
			nPoints, nEqual := 0, 0
			e := &ddEngine{w: w, env: env, maxLeafs: 64, concreteAtoms: true}
			e.onCall = func(s *ddState, c *ssa.Call) {
				switch c.Common().StaticCallee() {
				case points:
					nPoints++
				case equal:
					nEqual++
				}
			}
			e.run(f)
			if e.err != nil {
				bads = append(bads, "cannot evaluate: "+e.err.Error())
				continue
			}
			if lens[0] == lens[1] {
				if nPoints > 0 {
					bads = append(bads, "series of equal length are answered with all their points instead of the differing ones")
				}
				if nEqual == 0 {
					bads = append(bads, "series of equal length are not compared value by value")
				}
			} else {
				if nEqual > 0 {
					bads = append(bads, "series of different lengths are compared slot by slot (index out of range)")
				}
				if nPoints < 2 {
					bads = append(bads, "series of different lengths are not answered with all points of both")
				}
			}
		}
		sort.Strings(bads)
		first := ""
		if len(bads) > 0 {
			first = bads[0]
		}
		r.Check(len(bads) == 0, rule, key, w.pos(f.Pos()), "equal lengths -> slot-by-slot comparison; different lengths -> all points of both", name+": "+first+" — copy then writes, and diff lists, every slot (NaN included)")
	}
}
