package main

import (
	"fmt"
	"go/constant"
	"go/token"
	"math/big"
	"regexp"
	"strings"

	"golang.org/x/tools/go/ssa"
)

func init() {
	register(&propertyDef{
		ID: "C14",
		Explanation: "Decides the codec structurally with a cursor analysis (E-codec): for the eight AppendTo/TakeFrom pairs the decoder's field layout (offset, width, byte order, destination field, nested decoders, counted loops) equals the encoder's; floats cross only through math.Float{32,64}bits/frombits; every read and every nested fixed-size decoder lies within what a dominating length guard of the same decoder guarantees (so nested 'want' errors are unreachable); every WantLargerBufferError carries consumed+needed bytes of the failed guard; every success return hands back the input advanced by exactly the bytes decoded on its path; readHeader retries once, never in a loop. " +
			"Assumption stated: a TimeSeries holds (until-from)/step values (FetchFromArchive constructs it so). Not decided: arithmetic soundness of the sizes under hostile counts (C15).",
		Run: rulesC14,
	})
}

func reportCodecProblems(w *World, r *Report, prefix string, ci *codecInfo, only map[string]bool) int {
	n := 0
	for _, p := range ci.problems {
		if only != nil && !only[p.rule] {
			continue
		}
		n++
		r.Violate(prefix+"."+p.rule, p.key, w.instrPos(p.pos), p.msg)
	}
	return n
}

func layoutString(ci *codecInfo) string {
	var parts []string
	for _, rd := range ci.reads {
		parts = append(parts, fmt.Sprintf("@%s u%d(%s) %s%s", rd.off, rd.width*8, rd.order, rd.dest, viaStr(rd.via)))
	}
	for _, nd := range ci.nested {
		l := ""
		if nd.loop {
			l = " x" + nd.count
		}
		parts = append(parts, fmt.Sprintf("@%s %s %s%s", nd.off, nd.typ, nd.dest, l))
	}
	return strings.Join(parts, "; ")
}

func viaStr(v string) string {
	if v == "" {
		return ""
	}
	return " via " + v
}

var viaPairs = map[string]string{"math.Float32bits": "math.Float32frombits", "math.Float64bits": "math.Float64frombits", "": ""}

func rulesC14(w *World, r *Report) {
	ce := newCodecEngine(w)
	r.Rule("C14.R1", "symmetry (E-codec): per type the decoder's ordered layout (offset, width, big-endian, destination; nested type, destination, counted loop) equals the encoder's", 8)
	r.Rule("C14.R2", "bit-exact floats: a float crosses the wire via math.FloatNNbits in the encoder and the matching math.FloatNNfrombits in the decoder, never a numeric conversion", 2)
	r.Rule("C14.R3", "exact consumption and bounded reads: every read lies within the length a dominating guard guarantees; every success return hands back the input advanced by exactly what was decoded on its path", 8)
	r.Rule("C14.R4", "want-larger sizes: a too-short input yields *WantLargerBufferError carrying consumed+needed of the failed guard; nested fixed-size decoders are covered by the outer guard so their own (relative) sizes are never reported", 8)
	for _, typ := range codecTypes {
		d := ce.decoder(typ)
		e := ce.encoder(typ)
		if d.fn == nil || e.fn == nil {
			r.Undecided("C14.R1", typ, "-", "AppendTo/TakeFrom pair not found")
			continue
		}
		// R1 symmetry
		bad := ""
		if len(d.reads) != len(e.reads) || len(d.nested) != len(e.nested) {
			bad = "different number of fields"
		}
		if bad == "" {
			for i := range d.reads {
				dr, er := d.reads[i], e.reads[i]
				switch {
				case !dr.off.eq(er.off):
					bad = fmt.Sprintf("field %d is decoded at offset %s but encoded at %s", i, dr.off, er.off)
				case dr.width != er.width:
					bad = fmt.Sprintf("field at %s is %d bytes in the decoder but %d in the encoder", dr.off, dr.width, er.width)
				case dr.order != "big" || er.order != "big":
					bad = fmt.Sprintf("field at %s is not big-endian on both sides (%s/%s)", dr.off, er.order, dr.order)
				case dr.dest != er.dest && dr.dest != "(local)":
					bad = fmt.Sprintf("the bytes at %s are written from %s but read into %s", dr.off, er.dest, dr.dest)
				}
			}
			for i := range d.nested {
				dn, en := d.nested[i], e.nested[i]
				switch {
				case !dn.off.eq(en.off) && !(dn.loop && en.loop && dn.off.c == en.off.c && dn.off.k == en.off.k):
					bad = fmt.Sprintf("nested %s is decoded at %s but encoded at %s", dn.typ, dn.off, en.off)
				case dn.typ != en.typ:
					bad = fmt.Sprintf("nested element at %s is a %s in the decoder but a %s in the encoder", dn.off, dn.typ, en.typ)
				case stripIdx(dn.dest) != stripIdx(en.dest):
					bad = fmt.Sprintf("nested %s at %s is encoded from %s but decoded into %s", dn.typ, dn.off, en.dest, dn.dest)
				case dn.loop != en.loop:
					bad = fmt.Sprintf("nested %s is repeated on one side only", dn.typ)
				}
			}
		}
		// loop counts
		if bad == "" {
			for i := range d.nested {
				dn, en := d.nested[i], e.nested[i]
				if !dn.loop {
					continue
				}
				switch typ {
				case "Header":
					if !(dn.count == "p0.archiveCount" && (en.count == "len(p0.archiveInfoList)")) {
						bad = "Header loops: decoder repeats " + dn.count + " times, encoder " + en.count + " times (expected archiveCount / len(archiveInfoList))"
					}
				case "Points":
					cnt := ""
					for _, rd := range d.reads {
						if rd.off.c == 0 && rd.off.k == 0 {
							cnt = newExprCtx(w).expr(rd.pos.(ssa.Value))
						}
					}
					encCnt := ""
					for _, rd := range e.reads {
						if rd.off.c == 0 && rd.off.k == 0 {
							encCnt = rd.dest
						}
					}
					if dn.count != cnt || !strings.Contains(en.count, "len(") || !strings.HasPrefix(encCnt, "len(") {
						bad = "Points loops: decoder repeats " + dn.count + " times (decoded count " + cnt + "), encoder " + en.count + " times and writes count " + encCnt
					}
				case "TimeSeries":
					cnt := strings.NewReplacer(":int32", "", ":int64", "", ":int", "").Replace(dn.count)
					if !(cnt == "(whispertool.Timestamp.Sub(p0.untilTime, p0.fromTime) / p0.step)" && strings.Contains(en.count, "len(")) {
						bad = "TimeSeries loops: decoder repeats " + dn.count + " times, encoder " + en.count
					}
				}
			}
		}
		// the slice a decoder loop fills was made with the loop's count (and stored to the destination) before the loop
		if bad == "" {
			for _, dn := range d.nested {
				if !dn.loop || dn.pos == nil {
					continue
				}
				c, ok := dn.pos.(ssa.CallInstruction)
				if !ok || len(c.Common().Args) == 0 {
					continue
				}
				ia, ok := c.Common().Args[0].(*ssa.IndexAddr)
				if !ok {
					continue
				}
				ce := &codecEngine{w: w}
				ms := ce.madeWith(ia.X, dn.pos)
				switch {
				case ms == nil:
					bad = "the elements decoded in the loop go into " + newExprCtx(w).expr(ia.X) + ", which is not a slice made for them before the loop (index out of range, or stale elements kept)"
				case newExprCtx(w).expr(stripConvert(ms.Len)) != dn.count:
					bad = "the slice filled by the loop is made with length " + newExprCtx(w).expr(stripConvert(ms.Len)) + " but the loop decodes " + dn.count + " elements"
				}
			}
		}
		if bad != "" {
			r.Violate("C14.R1", typ+":symmetry", w.pos(d.fn.Pos()), typ+": "+bad+". encoder layout ["+layoutString(e)+"], decoder layout ["+layoutString(d)+"]")
		} else {
			r.OK("C14.R1", typ+":symmetry", w.pos(d.fn.Pos()), "decoder mirrors encoder: "+layoutString(d))
		}
		reportCodecProblems(w, r, "C14", e, map[string]bool{"R1": true})
		// R2 floats
		for i := range d.reads {
			if i >= len(e.reads) {
				break
			}
			dr, er := d.reads[i], e.reads[i]
			if dr.via == "" && er.via == "" {
				continue
			}
			okV := viaPairs[er.via] == dr.via && er.via != "numeric-conversion" && dr.via != "numeric-conversion" && er.via != ""
			r.Check(okV, "C14.R2", fmt.Sprintf("%s:float@%s", typ, dr.off), w.instrPos(dr.pos), "float crosses via "+er.via+"/"+dr.via, fmt.Sprintf("the float at offset %s is encoded via %q and decoded via %q: NaN payloads, infinities or signed zero do not round-trip", dr.off, er.via, dr.via))
		}
		// R3 / R4 from the decoder's problems
		n3 := reportCodecProblems(w, r, "C14", d, map[string]bool{"R3": true})
		n4 := reportCodecProblems(w, r, "C14", d, map[string]bool{"R4": true})
		// the remainder handed back is the caller's buffer advanced: nowhere on its way is it cut at an upper bound
		{
			bad := ""
			idx := errResultIndex(d.fn)
			seen := map[ssa.Value]bool{}
			var walk func(v ssa.Value)
			walk = func(v ssa.Value) {
				if seen[v] || bad != "" {
					return
				}
				seen[v] = true
				switch t := v.(type) {
				case *ssa.Parameter:
				case *ssa.Phi:
					for _, e := range t.Edges {
						walk(e)
					}
				case *ssa.Slice:
					if t.High != nil || t.Max != nil {
						bad = "cut at an upper bound at " + w.instrPos(t)
						return
					}
					walk(t.X)
				case *ssa.Extract:
					if c, ok := t.Tuple.(*ssa.Call); ok {
						if sc := c.Common().StaticCallee(); sc != nil && sc.Name() == "TakeFrom" && len(c.Common().Args) == 2 {
							walk(c.Common().Args[1])
							return
						}
					}
					bad = "not derived from the source buffer (" + shortExpr(newExprCtx(w).expr(v)) + ")"
				case *ssa.ChangeType:
					walk(t.X)
				case *ssa.Const:
					if !t.IsNil() {
						bad = "a constant"
					}
				default:
					bad = "not derived from the source buffer (" + shortExpr(newExprCtx(w).expr(v)) + ")"
				}
			}
			nRet := 0
			for _, ret := range returnsOf(d.fn) {
				if idx < 0 || len(ret.Results) != 2 {
					continue
				}
				// failure returns hand back no remainder; `return x.TakeFrom(src)` passes both results on
				if c, isK := ret.Results[0].(*ssa.Const); isK && c.IsNil() {
					continue
				}
				nRet++
				walk(ret.Results[0])
			}
			r.Check(bad == "" && nRet > 0, "C14.R3", typ+":remainder", w.pos(d.fn.Pos()), fmt.Sprintf("%d success returns hand back the source buffer advanced, never shortened at its end", nRet), typ+".TakeFrom: the remainder it returns is "+bad+": the bytes that follow this message are lost to the caller, so concatenated messages no longer decode in sequence")
		}
		if n3 == 0 {
			r.OK("C14.R3", typ+":consumption", w.pos(d.fn.Pos()), fmt.Sprintf("%d reads and %d nested decoders within guarded length; success returns consume %s", len(d.reads), len(d.nested), d.size))
		}
		if n4 == 0 {
			var gs []string
			for _, g := range d.guards {
				gs = append(gs, "want "+g.want.String()+" for total "+g.total.String())
			}
			r.OK("C14.R4", typ+":want-sizes", w.pos(d.fn.Pos()), fmt.Sprintf("%d guards: %s", len(d.guards), strings.Join(gs, "; ")))
		}
		// the encoder's size must equal the decoder's consumption
		if d.size.ok && e.size.ok {
			same := d.size.c == e.size.c && d.size.k == e.size.k
			r.Check(same, "C14.R3", typ+":size", w.pos(e.fn.Pos()), "encoder produces what the decoder consumes ("+e.size.String()+")", fmt.Sprintf("the encoder produces %s bytes but the decoder consumes %s", e.size, d.size))
		} else {
			r.Undecided("C14.R3", typ+":size", w.pos(d.fn.Pos()), fmt.Sprintf("encoded size not determined (encoder %s, decoder %s)", e.size, d.size))
		}
	}
	// count field invariant for Header
	r.Rule("C14.R1c", "count invariant: every store to Header.archiveCount is uint32(len(L)) with L the list stored to archiveInfoList in the same function, or a decoded count with which the list is made", 2)
	for _, f := range libFuncs(w) {
		eachInstr(f, func(in ssa.Instruction) {
			st, ok := in.(*ssa.Store)
			if !ok {
				return
			}
			base, fname, ok := fieldAddrOf(st.Addr)
			if !ok || fname != "archiveCount" || namedTypeName(base.Type()) != "Header" {
				return
			}
			ex := newExprCtx(w)
			val := ex.expr(st.Val)
			okInv := false
			if strings.HasPrefix(val, "len(") {
				// list stored in the same function must be the same expression
				eachInstr(f, func(in2 ssa.Instruction) {
					if st2, ok := in2.(*ssa.Store); ok {
						if _, fn2, ok := fieldAddrOf(st2.Addr); ok && fn2 == "archiveInfoList" && "len("+newExprCtx(w).expr(st2.Val)+")" == val {
							okInv = true
						}
					}
				})
			} else if strings.Contains(val, "Uint32(") {
				eachInstr(f, func(in2 ssa.Instruction) {
					if ms, ok := in2.(*ssa.MakeSlice); ok && strings.Contains(newExprCtx(w).expr(ms.Len), "archiveCount") {
						okInv = true
					}
				})
			}
			r.Check(okInv, "C14.R1c", "archiveCount@"+funcName(f), w.instrPos(st), "archiveCount = len(archiveInfoList)", "Header.archiveCount is set to "+val+" without the archive list having that length: the encoded count and the encoded list disagree")
		})
	}
	// R6: the decoder accepts what the encoder writes
	r.Rule("C14.R6", "round trip: the validation inside TimeSeries.TakeFrom rejects only what AppendTo never writes for a well-formed series (step <= 0, untilTime < fromTime), and accepts the all-zero series AppendTo writes for an absent one (decision diagram)", 2)
	if tf := need(w, r, "C14.R6", w.Lib, "TimeSeries.TakeFrom"); tf != nil {
		ruleRejectsOnlyMalformed(w, r, "C14.R6", tf, []rejectEntry{
			{"p0.untilTime", "p0.fromTime", []int{-1}, "a well-formed series (untilTime >= fromTime) is rejected, so what AppendTo wrote does not decode"},
			{"p0.step", "0", []int{-1, 0}, "a series with a positive step is rejected, so what AppendTo wrote does not decode"},
		})
	}
	// a count is refused only when its message cannot be encoded at all: the constant C of the rejecting test `C < count`
	// is the largest count whose message (prefix + elem*count, the decoder's own length guard) still fits MaxInt32, so
	// (C+1)*elem + prefix > MaxInt32 — a smaller "sane" cap turns valid long lists into hard errors
	for _, typ := range []string{"Header", "TimeSeries", "Points"} {
		d := ce.decoder(typ)
		if d.fn == nil {
			continue
		}
		fcs := failConditions(w, d.fn)
		eachInstr(d.fn, func(in ssa.Instruction) {
			ms, ok := in.(*ssa.MakeSlice)
			if !ok {
				return
			}
			if _, isC := constInt(ms.Len); isC {
				return
			}
			lexpr := newExprCtx(w).expr(stripConvert(ms.Len))
			var guard *codecGuard
			for i := range d.guards {
				g := d.guards[i]
				if g.total.k >= 1 && g.total.sym == lexpr && edgeDominates(g.from, g.pass, ms.Block()) {
					guard = &d.guards[i]
				}
			}
			if guard == nil {
				return // C15.R1 reports the missing guard
			}
			var bound *big.Int
			for _, fc := range fcs {
				if fc.Op != "<" || len(fc.Guards) > 0 || !fc.At.Block().Dominates(ms.Block()) || fc.R != lexpr {
					continue
				}
				if c, ok := stripConvert(fc.X).(*ssa.Const); ok && c.Value != nil {
					if bi, ok2 := new(big.Int).SetString(c.Value.ExactString(), 10); ok2 {
						bound = bi
					}
				}
			}
			if bound == nil {
				return // C15.R1 reports the missing bound
			}
			next := new(big.Int).Add(bound, big.NewInt(1))
			next.Mul(next, big.NewInt(guard.total.k))
			next.Add(next, big.NewInt(guard.total.c))
			r.Check(next.Cmp(bigMaxInt32()) > 0, "C14.R6", typ+".TakeFrom:refuses-only-what-cannot-fit", w.instrPos(ms), fmt.Sprintf("count bound %s is the largest whose message fits (%s)", bound, guard.total), fmt.Sprintf("%s.TakeFrom refuses counts above %s although a message of %s+1 elements (%s) still fits: a valid long list gets a hard error instead of being decoded or asked to continue", typ, bound, bound, guard.total))
		})
	}
	// the fixed-size decoders have nothing to validate: whatever AppendTo wrote decodes
	for _, tn := range []string{"ArchiveInfo", "Point", "Value", "Timestamp", "Duration"} {
		tf := fn(w.Lib, tn+".TakeFrom")
		if tf == nil {
			continue
		}
		idx := errResultIndex(tf)
		bad := ""
		n := 0
		for _, ret := range returnsOf(tf) {
			if idx < 0 || !isFreshOrSentinel(ret.Results[idx]) {
				continue
			}
			n++
			short := false
			for _, b := range tf.Blocks {
				if len(b.Instrs) == 0 {
					continue
				}
				iff, ok := b.Instrs[len(b.Instrs)-1].(*ssa.If)
				if !ok {
					continue
				}
				cond, neg := stripNot(iff.Cond)
				bo, ok := cond.(*ssa.BinOp)
				if !ok || !isCmp(bo.Op) {
					continue
				}
				ex := newExprCtx(w)
				flip := 0
				switch {
				case strings.HasPrefix(ex.expr(bo.X), "len("):
					flip = 1
				case strings.HasPrefix(ex.expr(bo.Y), "len("):
					flip = -1
				default:
					continue
				}
				// the edge taken when the source is shorter than what it is compared with (and not when it is longer)
				tShort, tLong := signOK(bo.Op, -1*flip) != neg, signOK(bo.Op, 1*flip) != neg
				if tShort == tLong {
					continue
				}
				sc := b.Succs[1]
				if tShort {
					sc = b.Succs[0]
				}
				if edgeDominates(b, sc, ret.Block()) {
					short = true
				}
			}
			if !short && bad == "" {
				bad = "the failure at " + w.instrPos(ret) + " is not the outcome of a length test on the source bytes"
			}
		}
		r.Check(bad == "", "C14.R6", tn+".TakeFrom:fails-only-short", w.pos(tf.Pos()), fmt.Sprintf("%d own failure returns, each behind a length test", n), tn+".TakeFrom: "+bad+": a value AppendTo writes is refused, so encoding then decoding no longer gives the value back")
	}
	if tf := fn(w.Lib, "TimeSeries.TakeFrom"); tf != nil {
		// the zero series (what AppendTo writes for an absent series) decodes successfully
		e := &ddEngine{w: w, env: map[ssa.Value]aval{}, maxLeafs: 512, maxAtoms: 12, stop: isLoopHeader} // the value loop lies behind the validation
		e.run(tf)
		bad := ""
		if e.err != nil {
			bad = "cannot evaluate: " + e.err.Error()
		}
		seen := false
		idx := errResultIndex(tf)
		for _, l := range e.leaves {
			if l.ret == nil || idx < 0 {
				continue
			}
			zero := map[string]bool{}
			other := false
			for k, chosen := range l.atoms {
				v, neg := stripNot(l.atomVal[k])
				bo, ok := v.(*ssa.BinOp)
				if !ok {
					continue
				}
				xs, ys := newExprCtx(w).expr(bo.X), newExprCtx(w).expr(bo.Y)
				fld := ""
				for _, f := range []string{"step", "fromTime", "untilTime"} {
					if (xs == "p0."+f && ys == "0") || (ys == "p0."+f && xs == "0") {
						fld = f
					}
				}
				if fld == "" {
					// a failed nested decode or a short buffer is another story
					if (bo.Op == token.NEQ || bo.Op == token.EQL) && (isNilConst(bo.X) || isNilConst(bo.Y)) && (chosen != neg) == (bo.Op == token.NEQ) {
						other = true
					}
					if bo.Op == token.LSS && chosen != neg && strings.HasPrefix(xs, "len(") {
						other = true
					}
					continue
				}
				if bo.Op == token.EQL || bo.Op == token.NEQ {
					if (chosen != neg) == (bo.Op == token.EQL) {
						zero[fld] = true
					}
				} else if bo.Op == token.LEQ && xs == "p0."+fld && chosen != neg {
					// x <= 0 on an unsigned/non-negative field
				}
			}
			if debugPred {
				fmt.Println("DEBUG zero-series leaf", zero, other, l.atoms)
			}
			if other || !(zero["step"] && zero["fromTime"] && zero["untilTime"]) {
				continue
			}
			seen = true
			if !isNilConst(l.ret.Results[idx]) {
				bad = "the all-zero series (the encoding of an absent series) is rejected at " + w.instrPos(l.ret)
			}
		}
		if bad == "" && !seen {
			bad = "no path recognises the all-zero series (the encoding of an absent series): it falls through to the positive-step test and is rejected"
		}
		r.Check(bad == "", "C14.R6", "whispertool.TimeSeries.TakeFrom:zero-series", w.pos(tf.Pos()), "step = from = until = 0 decodes to an absent series", "TimeSeries.TakeFrom: "+bad+" — what AppendTo writes for an unselected archive no longer decodes, and remote view/sum of such an archive fails where the local one succeeds")
	}
	ruleHeaderFirstRead(w, r, "C14.R5")
	ruleSingleStoreOf(w, r, "C14.R2", "whispertool.Value.TakeFrom:bits", fn(w.Lib, "Value.TakeFrom"), regexp.MustCompile(`^math\.Float64frombits\(`), "the decoded value is exactly Float64frombits of the eight bytes", "NaN payloads and signed zeros no longer round-trip")
	// R5 retry
	r.Rule("C14.R5", "readHeader calls Header.TakeFrom at most twice, never inside a loop, the retry reads exactly WantedBufSize bytes and returns the second error", 1)
	if rh := need(w, r, "C14.R5", w.Lib, "Whisper.readHeader"); rh != nil {
		tf := fn(w.Lib, "Header.TakeFrom")
		calls := callsTo(rh, tf)
		inLoop := false
		for _, c := range calls {
			if inLoopWith(c.Block()) {
				inLoop = true
			}
		}
		// the header the handle keeps is the object that was decoded, field for field as stored (not one rebuilt from
		// some of its fields: the stored max retention is not derivable from the archive list of a foreign file)
		{
			bad := ""
			n := 0
			eachInstr(rh, func(in ssa.Instruction) {
				st, ok := in.(*ssa.Store)
				if !ok {
					return
				}
				if _, fld, isFld := fieldAddrOf(st.Addr); !isFld || fld != "header" {
					return
				}
				n++
				okV := false
				if u, isU := st.Val.(*ssa.UnOp); isU && u.Op == token.MUL {
					for _, c := range calls {
						if len(c.Common().Args) > 0 && c.Common().Args[0] == u.X {
							okV = true
						}
					}
				}
				if !okV {
					bad = "the header stored at " + w.instrPos(st) + " is " + shortExpr(newExprCtx(w).expr(st.Val)) + ", not the object Header.TakeFrom decoded"
				}
			})
			r.Check(bad == "" && n > 0, "C14.R5", "readHeader:stores-decoded-header", w.pos(rh.Pos()), "the handle keeps the decoded header object", "readHeader: "+bad+": what view prints and the server streams as the file's metadata is then recomputed, not what the file stores")
		}
		okRetry := len(calls) == 2 && !inLoop && dominatesInstr(calls[0], calls[1])
		if okRetry {
			if msg := checkErrorHandled(w, calls[1]); msg != "" {
				okRetry = false
			}
		}
		// the retry buffer holds the wanted size: a slice bound taken from WantedBufSize is applied to a buffer made
		// with that size, or one the controlling test found at least that long
		bad := ""
		eachInstr(rh, func(in ssa.Instruction) {
			sl, ok := in.(*ssa.Slice)
			if !ok || sl.High == nil || !strings.Contains(newExprCtx(w).expr(sl.High), "WantedBufSize") {
				return
			}
			holds := func(v ssa.Value) bool {
				mk, ok := stripChangeType(v).(*ssa.MakeSlice)
				return ok && stripConvert(mk.Len) == stripConvert(sl.High)
			}
			ph, isPhi := sl.X.(*ssa.Phi)
			if !isPhi {
				if !holds(sl.X) {
					bad = "slices " + newExprCtx(w).expr(sl.X) + " to the wanted size without growing it (" + w.instrPos(sl) + ")"
				}
				return
			}
			for i, ev := range ph.Edges {
				if holds(ev) {
					continue
				}
				p := ph.Block().Preds[i]
				okEdge := false
				if iff, ok := p.Instrs[len(p.Instrs)-1].(*ssa.If); ok {
					cond, neg := stripNot(iff.Cond)
					if bo, ok := cond.(*ssa.BinOp); ok && isCmp(bo.Op) {
						onTrue := (ph.Block() == p.Succs[0]) != neg
						isLenOf := func(v ssa.Value) bool {
							c, ok := v.(*ssa.Call)
							if !ok {
								return false
							}
							b, ok := c.Common().Value.(*ssa.Builtin)
							return ok && (b.Name() == "len" || b.Name() == "cap") && c.Common().Args[0] == ev
						}
						flip := 0
						switch {
						case stripConvert(bo.X) == stripConvert(sl.High) && isLenOf(bo.Y):
							flip = 1
						case stripConvert(bo.Y) == stripConvert(sl.High) && isLenOf(bo.X):
							flip = -1
						}
						if flip != 0 {
							okEdge = true
							for sg := -1; sg <= 1; sg++ {
								if signOK(bo.Op, sg*flip) == onTrue && sg > 0 {
									okEdge = false // wanted > len reaches the slice
								}
							}
						}
					}
				}
				if !okEdge {
					bad = "keeps the first buffer although it may be shorter than the wanted size (" + w.instrPos(sl) + ")"
				}
			}
		})
		r.Check(bad == "", "C14.R5", "readHeader:retry-buffer", w.pos(rh.Pos()), "the retry buffer is at least WantedBufSize long", "readHeader "+bad+": a header longer than one page makes Open panic instead of decoding")
		r.Check(okRetry, "C14.R5", "readHeader:retry-once", w.pos(rh.Pos()), "one retry with the wanted size, no loop", fmt.Sprintf("readHeader's retry protocol is not 'decode, on want-larger read that size once and decode again' (%d TakeFrom calls, in loop: %v)", len(calls), inLoop))
	}
}

func stripIdx(s string) string {
	// p0.values[i0] / (*p0)[i1] -> strip the index
	if i := strings.LastIndex(s, "["); i >= 0 && strings.HasSuffix(s, "]") {
		return s[:i]
	}
	return s
}

// constValue reads a package-level constant.
func constValue(w *World, name string) (int64, bool) {
	if nn, ok := constAlias[libPath+"."+name]; ok {
		name = nn
	}
	o := w.LibP.Types.Scope().Lookup(name)
	c, ok := o.(interface{ Val() constant.Value })
	if !ok || o == nil {
		return 0, false
	}
	v, exact := constant.Int64Val(c.Val())
	return v, exact
}
