package main

import (
	"fmt"
	"go/token"
	"sort"
	"strings"

	"golang.org/x/tools/go/ssa"
)

// Shared rule machinery for the copy / diff / sum / sum-copy / sum-diff commands.

// callsTo returns the calls in f (and its literals) whose static callee is g.
func callsTo(f *ssa.Function, g *ssa.Function) []*ssa.Call {
	var out []*ssa.Call
	if g == nil {
		return nil
	}
	for _, h := range withLiterals(f) {
		for _, c := range callsIn(h) {
			if cv, ok := c.(*ssa.Call); ok && cv.Common().StaticCallee() == g {
				out = append(out, cv)
			}
		}
	}
	return out
}

// leafCalls: the calls (with result index) that v derives from; ok=false if
// some leaf is not a call result.
type leafCall struct {
	call *ssa.Call
	idx  int
}

func leafCallsOf(v ssa.Value) ([]leafCall, bool) {
	var out []leafCall
	allCalls := true
	for _, l := range leavesOf(v) {
		c, i, ok := callResult(l)
		if !ok {
			allCalls = false
			continue
		}
		out = append(out, leafCall{c, i})
	}
	return out, allCalls && len(out) > 0
}

func calleeIs(c *ssa.Call, fns ...*ssa.Function) bool {
	sc := c.Common().StaticCallee()
	for _, f := range fns {
		if f != nil && sc == f {
			return true
		}
	}
	return false
}

// derivesFromCall: every leaf of v is result #idx of a call to one of fns.
func derivesFromCall(v ssa.Value, idx int, fns ...*ssa.Function) bool {
	ls, ok := leafCallsOf(v)
	if !ok {
		return false
	}
	for _, l := range ls {
		if l.idx != idx || !calleeIs(l.call, fns...) {
			return false
		}
	}
	return true
}

// throughMethod: if v is (every leaf) the result of method m called on a
// receiver, returns the receivers.
func recvOfMethodResult(v ssa.Value, m *ssa.Function) ([]ssa.Value, bool) {
	ls, ok := leafCallsOf(v)
	if !ok {
		return nil, false
	}
	var out []ssa.Value
	for _, l := range ls {
		if !calleeIs(l.call, m) {
			return nil, false
		}
		out = append(out, l.call.Common().Args[0])
	}
	return out, true
}

// condEdges: for an If block, which successor is taken when call c's boolean
// result is true / false (handles `if c`, `if !c`). ok=false if the
// condition is not (the negation of) c.
func boolCallEdges(b *ssa.BasicBlock, c ssa.Value) (onTrue, onFalse *ssa.BasicBlock, ok bool) {
	if len(b.Instrs) == 0 {
		return
	}
	iff, isIf := b.Instrs[len(b.Instrs)-1].(*ssa.If)
	if !isIf {
		return
	}
	switch x := iff.Cond.(type) {
	case *ssa.UnOp:
		if x.Op == token.NOT && x.X == c {
			return b.Succs[1], b.Succs[0], true
		}
	default:
		if iff.Cond == c {
			return b.Succs[0], b.Succs[1], true
		}
	}
	return
}

// boolCallTrueEdge: the successor of b taken only when call c returned true — b tests c itself, or a conjunction
// kept in a variable (x := a() && c(); if x): a phi whose other edges are the constant false and whose edge from c's
// block is c, or which is reached only through c's own true edge.
func boolCallTrueEdge(b *ssa.BasicBlock, c ssa.Value) (*ssa.BasicBlock, bool) {
	if onT, _, ok := boolCallEdges(b, c); ok {
		return onT, true
	}
	if len(b.Instrs) == 0 {
		return nil, false
	}
	iff, isIf := b.Instrs[len(b.Instrs)-1].(*ssa.If)
	if !isIf {
		return nil, false
	}
	ph, ok := iff.Cond.(*ssa.Phi)
	if !ok {
		return nil, false
	}
	implied := false
	for i, e := range ph.Edges {
		if k, isK := e.(*ssa.Const); isK {
			if k.Value == nil || k.Value.String() != "false" {
				return nil, false
			}
			continue
		}
		// a non-constant edge: either c itself, or a value computed where c is already known true
		if e == c {
			implied = true
			continue
		}
		pred := ph.Block().Preds[i]
		cc, isCall := c.(*ssa.Call)
		okVia := false
		if isCall {
			for _, tb := range cc.Parent().Blocks {
				if onT, _, ok := boolCallEdges(tb, c); ok && edgeDominates(tb, onT, pred) {
					okVia = true
				}
			}
		}
		if !okVia {
			return nil, false
		}
		implied = true
	}
	if !implied {
		return nil, false
	}
	return b.Succs[0], true
}

// guardDominates checks the template "a boolean check guards an action":
// the result of `check` is branched on in its own block (or a successor
// chain through boolean phis is NOT accepted); the action's block is
// dominated by the edge taken when check is `want`; from the other edge no
// may-succeed return is reachable when failOther is set.
func guardDominates(w *World, check *ssa.Call, want bool, action ssa.Instruction, failOther bool) string {
	f := check.Parent()
	for _, b := range f.Blocks {
		onT, onF, ok := boolCallEdges(b, check)
		if !ok {
			continue
		}
		good, other := onT, onF
		if !want {
			good, other = onF, onT
		}
		if !edgeDominates(b, good, action.Block()) {
			return fmt.Sprintf("the action at %s is not dominated by the passing edge of the check at %s", w.instrPos(action), w.instrPos(check))
		}
		if failOther {
			if p, ret := findBypass(pathQuery{fn: f, startBlock: other, passes: func(ssa.Instruction) bool { return false }, exit: maySucceed}); p != nil {
				return fmt.Sprintf("when the check at %s fails, a return that may report success is reachable at %s", w.instrPos(check), w.instrPos(ret))
			}
		}
		return ""
	}
	return fmt.Sprintf("the result of the check at %s is not branched on", w.instrPos(check))
}

type cmdAnchors struct {
	readWhisperFile, readWhisperFileLocal, sumWhisperFile, sumWhisperFileLocal, fetchTSL, openOrCreate, update *ssa.Function
	hdrAIL, wHeader, ailEqual, allEqualTRS, tslDiff, tslDiffEx, plAllEmpty, printDiff, printFileData           *ssa.Function
	wrapNotExist, asNotExist, syncF, tsFromStd                                                                 *ssa.Function
}

func getCmdAnchors(w *World, r *Report, rule string) *cmdAnchors {
	a := &cmdAnchors{}
	miss := []string{}
	get := func(dst **ssa.Function, pkg *ssa.Package, name string) {
		*dst = fn(pkg, name)
		if *dst == nil {
			miss = append(miss, name)
		}
	}
	get(&a.readWhisperFile, w.Cmd, "readWhisperFile")
	get(&a.readWhisperFileLocal, w.Cmd, "readWhisperFileLocal")
	get(&a.sumWhisperFile, w.Cmd, "sumWhisperFile")
	get(&a.sumWhisperFileLocal, w.Cmd, "sumWhisperFileLocal")
	get(&a.fetchTSL, w.Cmd, "fetchTimeSeriesList")
	get(&a.openOrCreate, w.Cmd, "openOrCreateCopyDestFile")
	get(&a.update, w.Cmd, "updateFileDataWithPointsList")
	get(&a.hdrAIL, w.Lib, "Header.ArchiveInfoList")
	get(&a.wHeader, w.Lib, "Whisper.Header")
	get(&a.ailEqual, w.Lib, "ArchiveInfoList.Equal")
	get(&a.allEqualTRS, w.Cmd, "TimeSeriesList.AllEqualTimeRangeAndStep")
	get(&a.tslDiff, w.Cmd, "TimeSeriesList.Diff")
	get(&a.tslDiffEx, w.Cmd, "TimeSeriesList.DiffExcludeSrcNaN")
	get(&a.plAllEmpty, w.Cmd, "PointsList.AllEmpty")
	get(&a.printDiff, w.Cmd, "printDiff")
	get(&a.printFileData, w.Cmd, "printFileData")
	get(&a.wrapNotExist, w.Cmd, "WrapFileNotExistError")
	get(&a.asNotExist, w.Cmd, "AsFileNotExistError")
	get(&a.syncF, w.Lib, "Whisper.Sync")
	get(&a.tsFromStd, w.Lib, "TimestampFromStdTime")
	if len(miss) > 0 {
		r.Undecided(rule, "anchors", "-", "anchor functions not found: "+strings.Join(miss, ", "))
		return nil
	}
	return a
}

// itemSkeleton describes one of copyOneFile / sumCopyItem / diffOneFile / sumDiffItem.
type itemSkeleton struct {
	f               *ssa.Function
	srcRead         *ssa.Call // readWhisperFile / sumWhisperFile (source side)
	destRead        *ssa.Call // fetchTimeSeriesList (copy) or readWhisperFile (diff) for the destination
	srcHdr, srcList func(v ssa.Value) bool
	dstHdr, dstList func(v ssa.Value) bool
}

// findSkeleton locates the source and destination reads of an item function.
func findSkeleton(w *World, a *cmdAnchors, f *ssa.Function, srcFn *ssa.Function, destIsHandle bool) (*itemSkeleton, string) {
	sk := &itemSkeleton{f: f}
	var srcReads, destReads []*ssa.Call
	if destIsHandle {
		srcReads = callsTo(f, srcFn)
		destReads = callsTo(f, a.fetchTSL)
	} else {
		// diff: two reads; the destination one takes the command's DestBase
		all := callsTo(f, a.readWhisperFile)
		if srcFn == a.readWhisperFile {
			for _, c := range all {
				if strings.Contains(newExprCtx(w).expr(c.Common().Args[0]), ".DestBase") {
					destReads = append(destReads, c)
				} else {
					srcReads = append(srcReads, c)
				}
			}
		} else {
			srcReads = callsTo(f, srcFn)
			destReads = all
		}
	}
	if len(srcReads) != 1 || len(destReads) != 1 {
		return nil, fmt.Sprintf("expected exactly one source read and one destination read, found %d and %d", len(srcReads), len(destReads))
	}
	sk.srcRead, sk.destRead = srcReads[0], destReads[0]
	sk.srcHdr = func(v ssa.Value) bool { return derivesOnlyFromCallIdx(v, sk.srcRead, 0) }
	sk.srcList = func(v ssa.Value) bool { return derivesOnlyFromCallIdx(v, sk.srcRead, 1) }
	if destIsHandle {
		sk.dstList = func(v ssa.Value) bool { return derivesOnlyFromCallIdx(v, sk.destRead, 0) }
		sk.dstHdr = func(v ssa.Value) bool {
			// destDB.Header() where destDB is the handle passed to fetchTimeSeriesList
			recvs, ok := recvOfMethodResult(v, a.wHeader)
			if !ok {
				return false
			}
			for _, rv := range recvs {
				if !sameLeaves(rv, sk.destRead.Common().Args[0]) {
					return false
				}
			}
			return true
		}
	} else {
		sk.dstHdr = func(v ssa.Value) bool { return derivesOnlyFromCallIdx(v, sk.destRead, 0) }
		sk.dstList = func(v ssa.Value) bool { return derivesOnlyFromCallIdx(v, sk.destRead, 1) }
	}
	return sk, ""
}

func derivesOnlyFromCallIdx(v ssa.Value, c *ssa.Call, idx int) bool {
	ls, ok := leafCallsOf(v)
	if !ok {
		return false
	}
	for _, l := range ls {
		if l.call != c || l.idx != idx {
			return false
		}
	}
	return true
}

func sameLeaves(a, b ssa.Value) bool {
	if a == b {
		return true
	}
	// loads of the same parameter field / the same pure expression
	if ea, eb := newExprCtx(nil).expr(a), newExprCtx(nil).expr(b); ea == eb && !strings.Contains(ea, "var:") && !strings.Contains(ea, "%!") && !strings.Contains(ea, "*ssa.") {
		return true
	}
	la, lb := leavesOf(a), leavesOf(b)
	if len(la) != len(lb) || len(la) == 0 {
		return false
	}
	set := map[ssa.Value]bool{}
	for _, x := range la {
		set[x] = true
	}
	for _, x := range lb {
		if !set[x] {
			// allow structurally equal pure values
			found := false
			for y := range set {
				if sameValue(x, y) {
					found = true
				}
			}
			if !found {
				return false
			}
		}
	}
	return true
}

// ---- skeleton rules ----

// ruleOneClock: both reads receive the same archive id, from, until, now.
func ruleOneClock(w *World, r *Report, rule string, a *cmdAnchors, sk *itemSkeleton) {
	key := funcName(sk.f)
	sa := sk.srcRead.Common().Args
	da := sk.destRead.Common().Args
	// last four arguments of both calls: archiveID, from, until, now
	if len(sa) < 4 || len(da) < 4 {
		r.Undecided(rule, key+":one-clock", w.instrPos(sk.srcRead), "read calls have unexpected arity")
		return
	}
	names := []string{"archive", "from", "until", "now"}
	for i := 0; i < 4; i++ {
		x, y := sa[len(sa)-4+i], da[len(da)-4+i]
		r.Check(sameLeaves(x, y), rule, key+":same-"+names[i], w.instrPos(sk.destRead),
			"source and destination are read with the same "+names[i], "source and destination are read with different "+names[i]+" values ("+newExprCtx(w).expr(x)+" vs "+newExprCtx(w).expr(y)+"): the two series are not comparable slot by slot")
	}
	// now is one evaluation of the wall clock
	nowLeaves := leavesOf(sa[len(sa)-1])
	okNow := len(nowLeaves) == 1
	if okNow {
		c, _, isCall := callResult(nowLeaves[0])
		okNow = isCall && calleeIs(c, a.tsFromStd)
	}
	r.Check(okNow, rule, key+":single-now", w.instrPos(sk.srcRead), "now is a single reading of the clock", "now is not a single reading of the clock shared by both sides")
}

// ruleChecksBeforeUse: the layout-equality and time-range agreement checks
// compare source with destination and guard `action` (an update, print or
// success return).
func ruleChecksBefore(w *World, r *Report, rule string, a *cmdAnchors, sk *itemSkeleton, action ssa.Instruction, what string, needTRS bool) {
	key := funcName(sk.f)
	// layout
	var layout *ssa.Call
	for _, c := range callsTo(sk.f, a.ailEqual) {
		if c.Parent() == sk.f {
			layout = c
		}
	}
	if layout == nil {
		r.Violate(rule, key+":layout-check", w.pos(sk.f.Pos()), "no ArchiveInfoList.Equal check between source and destination layouts")
	} else {
		args := layout.Common().Args
		recvHdr, ok1 := recvOfMethodResult(args[0], a.hdrAIL)
		argHdr, ok2 := recvOfMethodResult(args[1], a.hdrAIL)
		okSides := ok1 && ok2 && len(recvHdr) == 1 && len(argHdr) == 1 &&
			((sk.srcHdr(recvHdr[0]) && sk.dstHdr(argHdr[0])) || (sk.dstHdr(recvHdr[0]) && sk.srcHdr(argHdr[0])))
		r.Check(okSides, rule, key+":layout-sides", w.instrPos(layout), "compares the source file's layout with the destination file's",
			"the layout check does not compare the header read from the source with the header of the destination file ("+newExprCtx(w).expr(args[0])+" vs "+newExprCtx(w).expr(args[1])+")")
		if msg := guardDominates(w, layout, true, action, true); msg != "" {
			r.Violate(rule, key+":layout-guards-"+what, w.instrPos(layout), msg)
		} else {
			r.OK(rule, key+":layout-guards-"+what, w.instrPos(layout), "the "+what+" is reached only when the layouts are equal; the other edge fails")
		}
	}
	// no report of success (or of a verdict) without the comparison of the two layouts having been made: a return that
	// is not a failure is not reachable from the function's entry around the layout check
	if layout != nil {
		idx := errResultIndex(sk.f)
		// a return whose error result is nil on every way into it (results may be spilled around a defer)
		succeeds := func(ret *ssa.Return) bool {
			if idx < 0 {
				return false
			}
			vals, complete := resultValues(ret, idx)
			if !complete || len(vals) == 0 {
				return false
			}
			for _, v := range vals {
				if !isNilConst(v) {
					return false
				}
			}
			return true
		}
		ret := pathAvoidingTo(sk.f.Blocks[0], func(in ssa.Instruction) bool { return in == ssa.Instruction(layout) }, succeeds)
		if ret != nil {
			r.Violate(rule, key+":layout-before-success", w.instrPos(ret), "the success return at "+w.instrPos(ret)+" can be reached without the layouts of the two files having been compared: with nothing to write (or to list) a destination of another layout is accepted, or created, and the command reports success")
		} else {
			r.OK(rule, key+":layout-before-success", w.instrPos(layout), "every success return comes after the layout comparison")
		}
	}
	if !needTRS {
		return
	}
	var trs *ssa.Call
	for _, c := range callsTo(sk.f, a.allEqualTRS) {
		if c.Parent() == sk.f {
			trs = c
		}
	}
	if trs == nil {
		r.Violate(rule, key+":range-check", w.pos(sk.f.Pos()), "no AllEqualTimeRangeAndStep check between source and destination series")
		return
	}
	args := trs.Common().Args
	okSides := (sk.srcList(args[0]) && sk.dstList(args[1])) || (sk.dstList(args[0]) && sk.srcList(args[1]))
	r.Check(okSides, rule, key+":range-sides", w.instrPos(trs), "compares the source series with the destination series", "the time-range check does not compare the source list with the destination list")
	if msg := guardDominates(w, trs, true, action, true); msg != "" {
		r.Violate(rule, key+":range-guards-"+what, w.instrPos(trs), msg)
	} else {
		r.OK(rule, key+":range-guards-"+what, w.instrPos(trs), "the "+what+" is reached only when windows and steps agree")
	}
}

// diffOrigin checks that v derives (only) from result #idx of the allowed
// diff functions applied as src.Diff(dest), and returns the calls.
func diffCallsOf(w *World, r *Report, rule, key string, v ssa.Value, idx int, sk *itemSkeleton, allowed ...*ssa.Function) []*ssa.Call {
	ls, ok := leafCallsOf(v)
	if !ok {
		r.Violate(rule, key, w.instrPos(sk.srcRead), "value does not derive from a Diff of the two series lists: "+newExprCtx(w).expr(v))
		return nil
	}
	var calls []*ssa.Call
	good := true
	for _, l := range ls {
		if l.idx != idx || !calleeIs(l.call, allowed...) {
			good = false
			r.Violate(rule, key, w.instrPos(l.call), fmt.Sprintf("derives from result #%d of %s; expected result #%d of %s", l.idx, calleeName(l.call), idx, fnNames(allowed)))
			continue
		}
		args := l.call.Common().Args
		if !(sk.srcList(args[0]) && sk.dstList(args[1])) {
			good = false
			r.Violate(rule, key, w.instrPos(l.call), "the diff is not computed as source.Diff(destination)")
			continue
		}
		calls = append(calls, l.call)
	}
	if good {
		r.OK(rule, key, w.instrPos(calls[0]), fmt.Sprintf("derives from result #%d of %s(source, destination)", idx, fnNames(allowed)))
	}
	return calls
}

func calleeName(c *ssa.Call) string {
	if sc := c.Common().StaticCallee(); sc != nil {
		return funcName(sc)
	}
	return "dynamic call"
}

func fnNames(fs []*ssa.Function) string {
	var ns []string
	for _, f := range fs {
		ns = append(ns, f.Name())
	}
	return strings.Join(ns, "/")
}

// ruleVerdict (diffOneFile / sumDiffItem): T5 return classification.
func ruleVerdict(w *World, r *Report, rule string, a *cmdAnchors, sk *itemSkeleton, needTRS bool) {
	f := sk.f
	key := funcName(f)
	// (i) not-exist region -> ErrDiffFound
	var asNE *ssa.Call
	for _, c := range callsTo(f, a.asNotExist) {
		if c.Parent() == f {
			asNE = c
		}
	}
	if asNE == nil {
		r.Violate(rule, key+":missing-side", w.pos(f.Pos()), "no AsFileNotExistError classification of the read error")
	} else {
		var region *ssa.BasicBlock
		var test *ssa.BasicBlock
		for _, b := range f.Blocks {
			x, nonNil, _, ok := nilTest(b)
			if ok && x == ssa.Value(asNE) {
				region, test = nonNil, b
			}
		}
		if region == nil {
			r.Violate(rule, key+":missing-side", w.instrPos(asNE), "the result of AsFileNotExistError is not tested")
		} else {
			n, bad := 0, 0
			for _, ret := range returnsOf(f) {
				if !edgeDominates(test, region, ret.Block()) {
					continue
				}
				n++
				vals, _ := resultValues(ret, errResultIndex(f))
				for _, v := range vals {
					ci := classifyErr(v)
					if !(ci.class == errSentinel && ci.sentinel == "cmd.ErrDiffFound") {
						bad++
						r.Violate(rule, key+":missing-side", w.instrPos(ret), "a file missing on one side must count as a reported difference (ErrDiffFound); this return yields "+ci.class.String())
					}
				}
			}
			if bad == 0 && n > 0 {
				r.OK(rule, key+":missing-side", w.instrPos(asNE), "a missing source/destination is reported as ErrDiffFound")
			} else if n == 0 {
				r.Violate(rule, key+":missing-side", w.instrPos(asNE), "the not-exist branch does not return")
			}
		}
		// the wait error feeds the classification and other errors are propagated
		if msgs := leavesOf(asNE.Common().Args[0]); len(msgs) == 0 {
			r.Undecided(rule, key+":missing-side-arg", w.instrPos(asNE), "cannot trace the classified error")
		}
	}
	// (ii) printDiff receives both diff sides of Diff(src,dest); after it succeeded only ErrDiffFound is returned
	var pd *ssa.Call
	for _, c := range callsTo(f, a.printDiff) {
		if c.Parent() == f {
			pd = c
		}
	}
	if pd == nil {
		r.Violate(rule, key+":listing", w.pos(f.Pos()), "differences are not listed (no printDiff call)")
		return
	}
	args := pd.Common().Args
	r.Check(sk.srcHdr(args[1]) && sk.dstHdr(args[2]), rule, key+":listing-headers", w.instrPos(pd), "printDiff gets the source and destination headers", "printDiff does not get (source header, destination header)")
	c1 := diffCallsOf(w, r, rule, key+":listing-src-side", args[3], 0, sk, a.tslDiff)
	c2 := diffCallsOf(w, r, rule, key+":listing-dest-side", args[4], 1, sk, a.tslDiff)
	if len(c1) == 1 && len(c2) == 1 {
		r.Check(c1[0] == c2[0], rule, key+":listing-one-diff", w.instrPos(pd), "both sides come from the same Diff call", "the two sides of the listing come from different Diff calls")
	}
	q := pathQuery{fn: f, passes: func(ssa.Instruction) bool { return false }, exit: func(ret *ssa.Return) bool {
		vals, complete := resultValues(ret, errResultIndex(f))
		if !complete {
			return true
		}
		for _, v := range vals {
			ci := classifyErr(v)
			if !(ci.class == errSentinel && ci.sentinel == "cmd.ErrDiffFound") {
				return true
			}
		}
		return false
	}}
	if succ, _, ok := successEdge(pd); ok {
		q.startBlock = succ
	} else {
		q.startAfter = pd
	}
	if p, ret := findBypass(q); p != nil {
		r.Violate(rule, key+":found-verdict", w.instrPos(ret), "after the differences were listed the function can return something other than ErrDiffFound", w.blockPathString(p))
	} else {
		r.OK(rule, key+":found-verdict", w.instrPos(pd), "after listing, every return is ErrDiffFound")
	}
	// (iii) every success return is guarded by AllEmpty() of both diff sides, or precedes nothing (none other)
	for _, ret := range returnsOf(f) {
		if !isSuccessReturn(ret) {
			continue
		}
		guarded := false
		for _, c := range callsTo(f, a.plAllEmpty) {
			if c.Parent() != f {
				continue
			}
			for _, b := range f.Blocks {
				onT, ok := boolCallTrueEdge(b, c)
				if ok && edgeDominates(b, onT, ret.Block()) {
					// the receiver must be a Diff side
					if ls, ok := leafCallsOf(c.Common().Args[0]); ok && len(ls) > 0 && calleeIs(ls[0].call, a.tslDiff) {
						guarded = true
					}
				}
			}
		}
		r.Check(guarded, rule, key+":clean-verdict", w.instrPos(ret), "success is returned only when the diff lists are empty", "a success return is not guarded by AllEmpty() of the Diff result: a difference could be reported as clean")
	}
	// (iv) checks precede the diff
	ruleChecksBefore(w, r, rule, a, sk, pd, "listing", needTRS)
}

// ruleLatchedVerdict: in execute, the flag that selects the final
// ErrDiffFound is only ever set to the constant true (latched), under
// errors.Is(err, ErrDiffFound), and other errors are returned.
func ruleLatchedVerdict(w *World, r *Report, rule string, f *ssa.Function) {
	key := funcName(f)
	// find a return of the sentinel guarded by the load of a bool alloc
	var flag *ssa.Alloc
	var guardPos ssa.Instruction
	for _, ret := range returnsOf(f) {
		vals, _ := resultValues(ret, errResultIndex(f))
		isSent := len(vals) > 0
		for _, v := range vals {
			if ci := classifyErr(v); !(ci.class == errSentinel && ci.sentinel == "cmd.ErrDiffFound") {
				isSent = false
			}
		}
		if !isSent {
			continue
		}
		for _, b := range f.Blocks {
			if len(b.Instrs) == 0 {
				continue
			}
			iff, ok := b.Instrs[len(b.Instrs)-1].(*ssa.If)
			if !ok {
				continue
			}
			if u, ok := iff.Cond.(*ssa.UnOp); ok && u.Op == token.MUL {
				if al, ok := u.X.(*ssa.Alloc); ok && edgeDominates(b, b.Succs[0], ret.Block()) {
					flag, guardPos = al, iff
				}
			}
			if ph, ok := iff.Cond.(*ssa.Phi); ok && edgeDominates(b, b.Succs[0], ret.Block()) {
				// flag kept in a register: phi of false / true
				okPhi := true
				for _, e := range ph.Edges {
					if e == ssa.Value(ph) {
						continue
					}
					if k, ok := e.(*ssa.Const); !ok || k.Value == nil {
						if _, isPhi := e.(*ssa.Phi); !isPhi {
							okPhi = false
						}
					}
				}
				if okPhi {
					r.OK(rule, key+":latched", w.instrPos(iff), "the verdict flag is a phi of constants (latched)")
					return
				}
				r.Violate(rule, key+":latched", w.instrPos(iff), "the verdict flag is recomputed from a non-constant: a later clean item can reset a difference found earlier")
				return
			}
		}
	}
	if flag == nil {
		r.Violate(rule, key+":latched", w.pos(f.Pos()), "no `if found { return ErrDiffFound }` after the loop: the accumulated verdict is lost")
		return
	}
	bad := 0
	nTrue := 0
	for _, st := range storesTo(flag) {
		k, ok := st.Val.(*ssa.Const)
		if !ok || k.Value == nil {
			bad++
			r.Violate(rule, key+":latched", w.instrPos(st), "the verdict flag is assigned a computed value: a later clean item can reset a difference found earlier")
			continue
		}
		if k.Value.String() == "true" {
			nTrue++
			// must sit under errors.Is(err, ErrDiffFound)
			under := false
			for _, b := range f.Blocks {
				if len(b.Instrs) == 0 {
					continue
				}
				iff, ok := b.Instrs[len(b.Instrs)-1].(*ssa.If)
				if !ok {
					continue
				}
				if c, ok := iff.Cond.(*ssa.Call); ok && isCallToPkgFunc(c, "errors", "Is") {
					if ci := classifyErr(c.Common().Args[1]); ci.class == errSentinel && ci.sentinel == "cmd.ErrDiffFound" && edgeDominates(b, b.Succs[0], st.Block()) {
						under = true
						// the other edge must return the error
						if p, ret := findBypass(pathQuery{fn: f, startBlock: b.Succs[1], passes: func(ssa.Instruction) bool { return false },
							exit: func(rt *ssa.Return) bool { return false }}); p != nil {
							_ = ret
						}
					}
				}
			}
			if !under {
				bad++
				r.Violate(rule, key+":latched", w.instrPos(st), "the verdict flag is set outside errors.Is(err, ErrDiffFound)")
			}
		}
	}
	if bad == 0 && nTrue > 0 {
		r.OK(rule, key+":latched", w.instrPos(guardPos), "the verdict flag is only ever set to true, under errors.Is(err, ErrDiffFound), and selects the final ErrDiffFound")
	} else if nTrue == 0 {
		r.Violate(rule, key+":latched", w.instrPos(guardPos), "the verdict flag is never set to true")
	}
}

// ruleSourceNeverWrites: from the read-side functions no call path reaches a mutator.
func ruleSourceNeverWrites(w *World, r *Report, rule string) {
	r.Rule(rule, "no-path: from the read-side functions (readWhisperFile*, sumWhisperFile*, fetchTimeSeriesList, readWhisperFileRaw*, fetchRawPointsLists, glob*) no call path reaches putPointAt, putHeader, Whisper.Sync, FileBuffer.Flush/WriteAt, Truncate, Create or a file-mutating os call", 6)
	mut := map[*ssa.Function]bool{}
	for _, n := range []string{"Whisper.putPointAt", "Whisper.putHeader", "Whisper.Sync", "Create", "Whisper.UpdatePointsForArchive", "Whisper.UpdatePointForArchive"} {
		if f := fn(w.Lib, n); f != nil {
			mut[f] = true
		}
	}
	for _, n := range []string{"FileBuffer.Flush", "FileBuffer.WriteAt"} {
		if f := fn(w.FB, n); f != nil {
			mut[f] = true
		}
	}
	isMut := func(g *ssa.Function) bool {
		if mut[g] {
			return true
		}
		if isMethodFunc(g, "os", "File", "Truncate") || isMethodFunc(g, "os", "File", "Write") || isMethodFunc(g, "os", "File", "WriteAt") {
			return true
		}
		if p := pkgOf(g); p != nil && g.Signature.Recv() == nil {
			if m := fileMutatingFuncs[p.Pkg.Path()]; m != nil && m[g.Name()] && !(g.Name() == "OpenFile" || g.Name() == "Open") {
				return true
			}
		}
		return false
	}
	for _, n := range []string{"readWhisperFile", "readWhisperFileLocal", "readWhisperFileRemote", "sumWhisperFile", "sumWhisperFileLocal", "sumWhisperFileRemote",
		"fetchTimeSeriesList", "readWhisperFileRaw", "readWhisperFileRawLocal", "fetchRawPointsLists", "globFiles", "globItems"} {
		f := fn(w.Cmd, n)
		if f == nil {
			r.Undecided(rule, "anchor:"+n, "-", "read-side function "+n+" not found")
			continue
		}
		if p := w.findPath(f, isMut, w.inModuleOrFB); p != nil {
			r.Violate(rule, n+":no-write", w.pos(f.Pos()), "the read side can modify a file: "+w.pathString(p))
		} else {
			r.OK(rule, n+":no-write", w.pos(f.Pos()), "reaches no mutator")
		}
	}
}

func sortedStrs(m map[string]bool) []string {
	var out []string
	for k := range m {
		out = append(out, k)
	}
	sort.Strings(out)
	return out
}
