package main

import (
	"fmt"
	"go/token"
	"go/types"
	"math"
	"regexp"
	"sort"
	"strconv"
	"strings"

	"golang.org/x/tools/go/ssa"
)

func init() {
	register(&propertyDef{
		ID: "C07",
		Explanation: "Decides validation structurally: every entry point (NewHeader, ParseArchiveInfoList, Header.TakeFrom, Create, Open) passes the validators on all success paths with their errors surfaced (must-pass-through) and all reach the same ArchiveInfoList.validate; the float range validators accept exactly the classes {0,(0,1),1} and reject NaN/±Inf/negatives/>1 (abstract evaluation over class representatives); " +
			"each pairwise rule is present as a failing branch with exactly the stated relation at its boundary (canonicalised failing conditions: non-empty, positive step/count, offset equality, strictly finer step, divisibility, strictly shorter retention, enough points), guarded only by 'not the last archive'; sizes and retentions are bounded in wide arithmetic (32-bit representability); library and CLI accept the same six methods. " +
			"Not decided: equality of a reopened header (C14), the grammar of retention strings (C19).",
		Run: rulesC07,
	})
	register(&propertyDef{
		ID: "C02",
		Explanation: "Decides the structure of downsampling: aggregate is only called with a set proven non-empty by a dominating length guard; validator, aggregator and CLI agree on the six methods and the panic arm is unreachable; the xFilesFactor gate compares in float32 a quotient of len(known)/len(all) with XFilesFactor() and its 'too few' edge skips the write; only stored slots are appended to the next level's work-list and propagateChain feeds each level with the previous level's result; " +
			"the aggregate's input is the stale-filtered value set (C01.R2); per method the returned value derives from the right elements (first = [0], last = [len-1], max/min start from [0] and compare in the right direction, sum starts at 0 and adds every element, average = sum/len). " +
			"Not decided: the numeric value of each aggregate, which coarse interval covers which fine slots, 'left exactly as it was'.",
		Run: rulesC02,
	})
	register(&propertyDef{
		ID: "C03",
		Explanation: "Decides the structure of write routing: the batch is stably sorted (sort.Stable on the whole batch) before any partition; a single update is range-checked (fails iff t <= now-maxRetention or now < t) before any write; extractPoints is a backward scan returning the suffix after the last stale point and the prefix up to it, testing the point's time against now-retention; each archive receives result #0 of the partition of what the previous archive left (#1), with the loop index as archive id; findBestArchive receives the point's own time. " +
			"Not decided: the boundary operators of the age tests beyond what is stated above, findBestArchive's choice, last-wins inside alignPoints.",
		Run: rulesC03,
	})
}

// ---------- role normalisation for pairwise conditions ----------

var reIdx = regexp.MustCompile(`p0\[`)

// bracketContent returns the balanced content starting after s[i-1]=='['.
func bracketContent(s string, i int) (string, int) {
	depth := 1
	for j := i; j < len(s); j++ {
		switch s[j] {
		case '[':
			depth++
		case ']':
			depth--
			if depth == 0 {
				return s[i:j], j + 1
			}
		}
	}
	return "", -1
}

// normalisePair rewrites element accesses of the list parameter p0 to CUR /
// NEXT and trivial getters to field names.
func normalisePair(conds []string) []string {
	idx := map[string]bool{}
	for _, s := range conds {
		for _, loc := range reIdx.FindAllStringIndex(s, -1) {
			if c, end := bracketContent(s, loc[1]); end > 0 {
				idx[c] = true
			}
		}
	}
	base := ""
	for c := range idx {
		if idx["("+c+" + 1)"] {
			base = c
		}
	}
	out := make([]string, len(conds))
	for i, s := range conds {
		if base != "" {
			s = strings.ReplaceAll(s, "p0[("+base+" + 1)]", "NEXT")
			s = strings.ReplaceAll(s, "p0["+base+"]", "CUR")
		} else if len(idx) == 1 {
			for c := range idx {
				s = strings.ReplaceAll(s, "p0["+c+"]", "CUR")
			}
		}
		s = strings.ReplaceAll(s, "&CUR", "CUR")
		s = strings.ReplaceAll(s, "&NEXT", "NEXT")
		for _, r := range [][2]string{
			{`whispertool\.ArchiveInfo\.SecondsPerPoint\((CUR|NEXT|p0)\)`, "$1.secondsPerPoint"},
			{`whispertool\.ArchiveInfo\.NumberOfPoints\((CUR|NEXT|p0)\)`, "$1.numberOfPoints"},
			{`whispertool\.ArchiveInfo\.MaxRetention\((CUR|NEXT|p0)\)`, "RET($1)"},
			{`\((CUR|NEXT|p0)\.secondsPerPoint \*:int32 (CUR|NEXT|p0)\.numberOfPoints\)`, "RET($1)"},
		} {
			s = regexp.MustCompile(r[0]).ReplaceAllString(s, r[1])
		}
		out[i] = s
	}
	return out
}

type wantCond struct {
	key, core string // core: exact normalised condition
	guard     string // "" = unguarded, "notlast" = only under the not-last-archive guard
	doc       string
}

func checkFailConds(w *World, r *Report, rule string, f *ssa.Function, wants []wantCond) {
	fcs := failConditions(w, f)
	var cores, guards []string
	for _, fc := range fcs {
		cores = append(cores, fc.Core())
		guards = append(guards, strings.Join(fc.Guards, " && "))
	}
	ncores := normalisePair(cores)
	nguards := normalisePair(guards)
	for _, wc := range wants {
		found := -1
		for i, c := range ncores {
			if c == wc.core {
				found = i
			}
		}
		key := funcName(f) + ":" + wc.key
		if found < 0 {
			r.Violate(rule, key, w.pos(f.Pos()), "missing rejecting test: the function must fail iff "+wc.core+" ("+wc.doc+"); rejecting tests present: "+strings.Join(ncores, " ; "))
			continue
		}
		g := nguards[found]
		okG := false
		switch wc.guard {
		case "":
			okG = g == ""
		case "notlast":
			okG = regexp.MustCompile(`^!\(.* == \(len\(p0\) - 1\)\)$`).MatchString(g) || regexp.MustCompile(`^\(.* != \(len\(p0\) - 1\)\)$`).MatchString(g) || regexp.MustCompile(`^\(.* < \(len\(p0\) - 1\)\)$`).MatchString(g) || regexp.MustCompile(`^\(\(.* \+ 1\) < len\(p0\)\)$`).MatchString(g) || g == ""
		}
		if !okG {
			r.Violate(rule, key, w.instrPos(fcs[found].At), "the rejecting test `"+wc.core+"` is only applied when "+g+": inputs outside that guard are accepted unchecked")
			continue
		}
		r.OK(rule, key, w.instrPos(fcs[found].At), "fails iff "+wc.core+" ("+wc.doc+")")
	}
}

// ---------- C07 ----------

func mustPassChecked(w *World, r *Report, rule string, f *ssa.Function, target *ssa.Function, what string) {
	key := funcName(f) + ":must-" + what
	if f == nil || target == nil {
		r.Undecided(rule, key, "-", "anchor missing")
		return
	}
	mp := newMustPerf(w, func(c ssa.CallInstruction) bool { return c.Common().StaticCallee() == target })
	exit := func(ret *ssa.Return) bool {
		if errResultIndex(f) < 0 {
			return true
		}
		return maySucceed(ret)
	}
	if p, ret := findBypass(pathQuery{fn: f, startBlock: f.Blocks[0], passes: mp.instr, exit: exit}); p != nil {
		r.Violate(rule, key, w.instrPos(ret), funcName(f)+" can succeed without "+what, w.blockPathString(p))
		return
	}
	// every direct call's error is surfaced
	for _, c := range callsIn(f) {
		if cv, ok := c.(*ssa.Call); ok && cv.Common().StaticCallee() == target {
			if msg := checkErrorHandled(w, cv); msg != "" {
				r.Violate(rule, key, w.instrPos(c), "the error of "+what+" is not surfaced: "+msg)
				return
			}
		}
	}
	r.OK(rule, key, w.pos(f.Pos()), "every may-succeed return passes "+what+" and its error is surfaced")
}

func rulesC07(w *World, r *Report) {
	r.Rule("C07.R1", "must-pass-through (checked): NewHeader passes validateAggregationMethod, validateXFilesFactor, fillOffset and ArchiveInfoList.validate; ParseArchiveInfoList passes fillOffset and validate; Header.TakeFrom passes both scalar validators and validate; Create passes NewHeader; Open passes readHeader which passes Header.TakeFrom; all reach the one ArchiveInfoList.validate", 11)
	ruleCreatePassesLayout(w, r, "C07.R1")
	// the six-way validation sees the whole 4-byte header field: the type it is converted to is at least 32 bits wide
	if o := w.LibP.Types.Scope().Lookup("AggregationMethod"); o != nil {
		bt, _ := o.Type().Underlying().(*types.Basic)
		okW := bt != nil && intWidth(bt) >= 32
		name := "?"
		if bt != nil {
			name = bt.Name()
		}
		r.Check(okW, "C07.R1", "AggregationMethod:holds-the-header-field", "aggregationmethod.go", "AggregationMethod is "+name+" (at least 32 bits)", "AggregationMethod is "+name+": Header.TakeFrom converts the 32-bit header field to it before validating, so a field such as 0x00000101 is cut to 1 and accepted as a storable method")
	}
	ruleLayoutOrderKept(w, r, "C07.R1", "ParseArchiveInfoList", "NewHeader", "Header.TakeFrom", "Create")
	ruleHeaderFirstRead(w, r, "C07.R1")
	vAgg := fn(w.Lib, "validateAggregationMethod")
	vXff := fn(w.Lib, "validateXFilesFactor")
	fill := fn(w.Lib, "ArchiveInfoList.fillOffset")
	val := fn(w.Lib, "ArchiveInfoList.validate")
	aiVal := fn(w.Lib, "ArchiveInfo.validate")
	newHeader := fn(w.Lib, "NewHeader")
	parseList := fn(w.Lib, "ParseArchiveInfoList")
	takeFrom := fn(w.Lib, "Header.TakeFrom")
	create := fn(w.Lib, "Create")
	open := fn(w.Lib, "Open")
	readHeader := fn(w.Lib, "Whisper.readHeader")
	for _, x := range []struct {
		f, t *ssa.Function
		what string
	}{
		{newHeader, vAgg, "validateAggregationMethod"}, {newHeader, vXff, "validateXFilesFactor"}, {newHeader, fill, "fillOffset"}, {newHeader, val, "ArchiveInfoList.validate"},
		{parseList, fill, "fillOffset"}, {parseList, val, "ArchiveInfoList.validate"},
		{takeFrom, vAgg, "validateAggregationMethod"}, {takeFrom, vXff, "validateXFilesFactor"}, {takeFrom, val, "ArchiveInfoList.validate"},
		{create, newHeader, "NewHeader"}, {open, readHeader, "readHeader"}, {readHeader, takeFrom, "Header.TakeFrom"},
	} {
		if x.f == nil || x.t == nil || len(x.f.Blocks) == 0 {
			r.Undecided("C07.R1", "anchor:"+x.what, "-", "validator or entry point not found: "+x.what)
			continue
		}
		mustPassChecked(w, r, "C07.R1", x.f, x.t, x.what)
	}
	// NewHeader validates the method and the factor it was given — the parameters themselves, not a default put in
	// their place (method 0 must be refused here as it is when a header is decoded)
	if newHeader != nil && len(newHeader.Params) == 3 {
		for _, pr := range []struct {
			v   *ssa.Function
			idx int
			nm  string
		}{{vAgg, 0, "aggregation method"}, {vXff, 1, "xFilesFactor"}} {
			if pr.v == nil {
				continue
			}
			for _, c := range callsTo(newHeader, pr.v) {
				r.Check(len(c.Common().Args) == 1 && c.Common().Args[0] == ssa.Value(newHeader.Params[pr.idx]), "C07.R1", "NewHeader:validates-the-given-"+strings.ReplaceAll(pr.nm, " ", "-"), w.instrPos(c), "the "+pr.nm+" validated is the parameter itself", "NewHeader validates "+shortExpr(newExprCtx(w).expr(c.Common().Args[0]))+" instead of the "+pr.nm+" it was given: a value the other entry points refuse is replaced and accepted here")
			}
		}
	}
	// Header.TakeFrom validates what it has just decoded: a validator given a field of the receiver runs after the
	// decoded bytes were stored into that field
	if takeFrom != nil {
		for _, v := range []*ssa.Function{vAgg, vXff} {
			if v == nil {
				continue
			}
			for _, c := range callsTo(takeFrom, v) {
				arg := c.Common().Args[0]
				okV := strings.Contains(newExprCtx(w).expr(arg), "Uint32(")
				if u, isU := arg.(*ssa.UnOp); isU && u.Op == token.MUL {
					if _, fld, isF := fieldAddrOf(u.X); isF {
						eachInstr(takeFrom, func(in ssa.Instruction) {
							if st, isSt := in.(*ssa.Store); isSt {
								if _, f2, ok2 := fieldAddrOf(st.Addr); ok2 && f2 == fld && strings.Contains(newExprCtx(w).expr(st.Val), "Uint32(") && dominatesInstr(st, c) {
									okV = true
								}
							}
						})
					}
				}
				r.Check(okV, "C07.R1", "Header.TakeFrom:validates-what-it-decoded:"+v.Name(), w.instrPos(c), "the value validated is the one decoded from the bytes", "Header.TakeFrom gives "+v.Name()+" "+shortExpr(newExprCtx(w).expr(arg))+" before the decoded value is there: what is checked is whatever the Header held before, and a decoded NaN, Inf or out-of-range value is accepted")
			}
		}
	}
	// what is validated is what is kept: validate's receiver is the list stored in the header
	if newHeader != nil && val != nil {
		for _, c := range callsTo(newHeader, val) {
			ex := newExprCtx(w)
			r.Check(ex.expr(c.Common().Args[0]) == "p2", "C07.R1", "NewHeader:validates-its-argument", w.instrPos(c), "validates the list it stores", "NewHeader validates something other than the archive list it stores")
		}
	}
	if takeFrom != nil && val != nil {
		for _, c := range callsTo(takeFrom, val) {
			ex := newExprCtx(w)
			r.Check(ex.expr(c.Common().Args[0]) == "p0.archiveInfoList", "C07.R1", "Header.TakeFrom:validates-decoded-list", w.instrPos(c), "validates the decoded list", "Header.TakeFrom validates something other than the list it decoded")
		}
	}

	// R2 float validators
	r.Rule("C07.R2", "abstract evaluation over class representatives {NaN, -Inf, <0, -0, 0, (0,1), 1, >1, +Inf}: validateXFilesFactor and the -x-files-factor flag accept exactly {-0, 0, (0,1), 1}", 2)
	reps := []struct {
		name string
		v    float64
		ok   bool
	}{{"NaN", math.NaN(), false}, {"-Inf", math.Inf(-1), false}, {"<0", -0.25, false}, {"-0", math.Copysign(0, -1), true}, {"0", 0, true}, {"(0,1)", 0.5, true}, {"1", 1, true}, {">1", 1.5, false}, {"+Inf", math.Inf(1), false}}
	evalValidator := func(key string, f *ssa.Function, bind func(e *ddEngine, v float64)) {
		if f == nil {
			r.Undecided("C07.R2", key, "-", "validator not found")
			return
		}
		var bad []string
		for _, rp := range reps {
			e := &ddEngine{w: w, env: map[ssa.Value]aval{}}
			bind(e, rp.v)
			e.run(f)
			if e.err != nil || len(e.leaves) != 1 || e.leaves[0].ret == nil {
				r.Undecided("C07.R2", key, w.pos(f.Pos()), fmt.Sprintf("class %s does not determine the outcome (%v, %d leaves): the validator branches on something other than comparisons of its argument with constants", rp.name, e.err, len(e.leaves)))
				return
			}
			res := e.leaves[0].results[len(e.leaves[0].results)-1]
			accepted := res.k == kNil
			if accepted != rp.ok {
				bad = append(bad, fmt.Sprintf("%s is %s", rp.name, map[bool]string{true: "accepted", false: "rejected"}[accepted]))
			}
		}
		if len(bad) > 0 {
			r.Violate("C07.R2", key, w.pos(f.Pos()), "xFilesFactor must be a number within [0,1]: "+strings.Join(bad, ", "))
		} else {
			r.OK("C07.R2", key, w.pos(f.Pos()), "accepts exactly the classes -0, 0, (0,1), 1")
		}
	}
	evalValidator("validateXFilesFactor", vXff, func(e *ddEngine, v float64) { e.env[vXff.Params[0]] = aval{k: kFloat, f: float64(float32(v))} })
	if set := fn(w.Cmd, "xFilesFactorValue.Set"); set != nil {
		evalValidator("xFilesFactorValue.Set", set, func(e *ddEngine, v float64) {
			for _, c := range callsIn(set) {
				if cv, ok := c.(*ssa.Call); ok && isCallToPkgFunc(c, "strconv", "ParseFloat") {
					for _, ref := range *cv.Referrers() {
						if ex, ok := ref.(*ssa.Extract); ok {
							if ex.Index == 0 {
								e.env[ex] = aval{k: kFloat, f: v}
							} else {
								e.env[ex] = aval{k: kNil}
							}
						}
					}
				}
			}
		})
	} else {
		r.Undecided("C07.R2", "xFilesFactorValue.Set", "-", "flag validator not found")
	}

	// R3 pairwise rules at their boundaries
	r.Rule("C07.R3", "canonicalised failing conditions: ArchiveInfoList.validate fails iff the list is empty / an element is invalid / the offset differs from the recurrence / next.step <= cur.step / next.step % cur.step != 0 / RET(next) <= RET(cur) / cur.points < next.step/cur.step, the pairwise ones guarded only by 'not the last archive'; ArchiveInfo.validate fails iff step <= 0 / points <= 0", 9)
	if val != nil {
		checkFailConds(w, r, "C07.R3", val, []wantCond{
			{"non-empty", "0 == len(p0)", "", "an empty list is rejected"},
			{"element", "nil != whispertool.ArchiveInfo.validate(CUR)", "", "every archive is validated on its own"},
			{"step-strict", "NEXT.secondsPerPoint <= CUR.secondsPerPoint", "notlast", "strictly finer step"},
			{"step-divides", "(NEXT.secondsPerPoint %:int32 CUR.secondsPerPoint) != 0", "notlast", "the finer step divides the coarser"},
			{"retention-strict", "RET(NEXT) <= RET(CUR)", "notlast", "strictly shorter retention"},
			{"enough-points", "CUR.numberOfPoints < (NEXT.secondsPerPoint /:int32 CUR.secondsPerPoint)", "notlast", "enough points to consolidate one point of the next archive"},
		})
		// offset recurrence: fails iff off != CUR.offset, off being the loop-carried offset
		offOK := false
		for _, fc := range failConditions(w, val) {
			nc := normalisePair([]string{fc.Core()})[0]
			if regexp.MustCompile(`^i\d+ != CUR\.offset$`).MatchString(nc) || regexp.MustCompile(`^CUR\.offset != i\d+$`).MatchString(nc) {
				offOK = len(fc.Guards) == 0
			}
		}
		r.Check(offOK, "C07.R3", funcName(val)+":offset", w.pos(val.Pos()), "fails iff the stored offset differs from the running offset", "validate does not reject an archive whose offset differs from the contiguous layout")
	}
	if aiVal != nil {
		checkFailConds(w, r, "C07.R3", aiVal, []wantCond{
			{"positive-step", "p0.secondsPerPoint <= 0", "", "positive step"},
			{"positive-count", "p0.numberOfPoints <= 0", "", "positive point count"},
		})
	}

	// R4 32-bit representability
	r.Rule("C07.R4", "wide-arithmetic bounds: ArchiveInfo.validate fails iff MaxInt32 < int64(step)*int64(points); ArchiveInfoList.validate fails iff MaxUint32 < uint64(offset) + uint64(points)*12 for every archive (unguarded); Header.TakeFrom bounds the archive count before sizing", 3)
	if aiVal != nil {
		checkFailConds(w, r, "C07.R4", aiVal, []wantCond{{"retention-31-bits", "2147483647 < (p0.secondsPerPoint *:int64 p0.numberOfPoints)", "", "the retention fits the format's int32 seconds"}})
	}
	if val != nil {
		okEnd := false
		for _, fc := range failConditions(w, val) {
			nc := normalisePair([]string{fc.Core()})[0]
			if regexp.MustCompile(`^4294967295 < \(i\d+ \+:uint64 \(CUR\.numberOfPoints \*:uint64 12\)\)$`).MatchString(nc) && len(fc.Guards) == 0 {
				okEnd = true
			}
		}
		r.Check(okEnd, "C07.R4", funcName(val)+":offsets-32-bits", w.pos(val.Pos()), "every archive's end offset is bounded by MaxUint32 in 64-bit arithmetic", "validate does not reject layouts whose offsets exceed 32 bits (or computes the bound in wrapping 32-bit arithmetic)")
	}
	if takeFrom != nil {
		okCnt := false
		for _, fc := range failConditions(w, takeFrom) {
			if regexp.MustCompile(`^\d+ < p0\.archiveCount$`).MatchString(fc.Core()) {
				okCnt = true
			}
		}
		r.Check(okCnt, "C07.R4", funcName(takeFrom)+":count-bound", w.pos(takeFrom.Pos()), "the decoded archive count is bounded", "Header.TakeFrom does not bound the decoded archive count")
	}

	ruleMethodSets(w, r, "C02.R2")
	r.Rule("C07.R5", "32-bit representability at the parser: ParseDuration rejects x > MaxInt32/unit before multiplying; the validation loop covers the whole list", 2)
	ruleParseOverflowGuards(w, r, "C07.R5")
	ruleAllArchivesValidated(w, r, "C07.R5")
}

// ruleMethodSets: C02.R2
func ruleMethodSets(w *World, r *Report, rule string) {
	r.Rule(rule, "set agreement by abstract evaluation over method values -1..12: validateAggregationMethod accepts exactly {1..6}; aggregate returns (does not panic) exactly for those; the CLI flag accepts exactly those", 3)
	want := map[int64]bool{1: true, 2: true, 3: true, 4: true, 5: true, 6: true}
	v := fn(w.Lib, "validateAggregationMethod")
	acc := acceptedMethods(w, v)
	if acc == nil {
		r.Undecided(rule, "validateAggregationMethod", posOf(w, v), "cannot enumerate the accepted methods: the validator does not decide by comparing its argument with constants")
	} else {
		r.Check(setEq(acc, want), rule, "validateAggregationMethod", posOf(w, v), "accepts exactly average, sum, last, max, min, first", fmt.Sprintf("accepts %v; only the six storable methods 1..6 may be accepted", sortedInts(acc)))
	}
	ag := fn(w.Lib, "aggregate")
	hs := switchCasesReturning(w, ag)
	if hs == nil {
		r.Undecided(rule, "aggregate", posOf(w, ag), "cannot enumerate the methods aggregate handles")
	} else {
		r.Check(setEq(hs, want), rule, "aggregate", posOf(w, ag), "computes a value exactly for the six methods", fmt.Sprintf("aggregate handles %v; the accepted methods are 1..6 (a mismatch makes the panic arm reachable or a method unusable)", sortedInts(hs)))
	}
	set := fn(w.Cmd, "aggregationMethodValue.Set")
	if set == nil {
		r.Undecided(rule, "aggregationMethodValue.Set", "-", "flag validator not found")
		return
	}
	var mVal, errVal ssa.Value
	for _, c := range callsIn(set) {
		if cv, ok := c.(*ssa.Call); ok && cv.Common().StaticCallee() == fn(w.Lib, "AggregationMethodString") {
			for _, ref := range *cv.Referrers() {
				if ex, ok := ref.(*ssa.Extract); ok {
					if ex.Index == 0 {
						mVal = ex
					} else {
						errVal = ex
					}
				}
			}
		}
	}
	if mVal == nil {
		r.Undecided(rule, "aggregationMethodValue.Set", posOf(w, set), "the flag does not parse with AggregationMethodString")
		return
	}
	var vals []int64
	for k := int64(-1); k <= 12; k++ {
		vals = append(vals, k)
	}
	extra := map[ssa.Value]aval{}
	if errVal != nil {
		extra[errVal] = aval{k: kNil}
	}
	leaves, err := evalEnumFunc(w, set, mVal, vals, extra)
	if err != nil {
		r.Undecided(rule, "aggregationMethodValue.Set", posOf(w, set), "cannot enumerate: "+err.Error())
		return
	}
	got := map[int64]bool{}
	for k, l := range leaves {
		if l.ret != nil && l.results[len(l.results)-1].k == kNil {
			got[k] = true
		}
	}
	r.Check(setEq(got, want), rule, "aggregationMethodValue.Set", posOf(w, set), "the CLI accepts exactly the six storable methods", fmt.Sprintf("the CLI accepts %v; library and CLI must agree on 1..6", sortedInts(got)))
}

func posOf(w *World, f *ssa.Function) string {
	if f == nil {
		return "-"
	}
	return w.pos(f.Pos())
}

// ---------- C02 ----------

func rulesC02(w *World, r *Report) {
	prop := need(w, r, "C02.R1", w.Lib, "Whisper.propagate")
	agg := need(w, r, "C02.R1", w.Lib, "aggregate")
	if prop == nil || agg == nil {
		return
	}
	ruleMethodSets(w, r, "C02.R2")
	// R1
	r.Rule("C02.R1", "non-empty contract: aggregate indexes its slice parameter at 0 / len-1 and divides by len; every call site must be dominated by the failing (skipping) edge of a test `len(arg) == 0` (or equivalent) on the very slice it passes", 1)
	put := fn(w.Lib, "Whisper.putPointAt")
	for _, e := range w.callers(agg) {
		c, ok := e.Site.(*ssa.Call)
		if !ok || !w.inModule(e.Caller.Func) {
			continue
		}
		f := c.Parent()
		arg := c.Common().Args[1]
		guarded := false
		for _, b := range f.Blocks {
			if len(b.Instrs) == 0 {
				continue
			}
			iff, ok := b.Instrs[len(b.Instrs)-1].(*ssa.If)
			if !ok {
				continue
			}
			bo, ok := iff.Cond.(*ssa.BinOp)
			if !ok {
				continue
			}
			// len(arg) compared with a constant, in either orientation
			op, _, kv, okC := orientCmp(bo, func(v ssa.Value) bool {
				lc, isCall := v.(*ssa.Call)
				if !isCall {
					return false
				}
				bi, ok := lc.Common().Value.(*ssa.Builtin)
				return ok && bi.Name() == "len" && lc.Common().Args[0] == arg
			})
			k, isK := constInt(kv)
			if !okC || !isK {
				continue
			}
			// which edge means "non-empty"?
			var nonEmpty *ssa.BasicBlock
			switch {
			case op == token.EQL && k == 0, op == token.LSS && k == 1, op == token.LEQ && k == 0:
				nonEmpty = b.Succs[1]
			case op == token.NEQ && k == 0, op == token.GTR && k == 0, op == token.GEQ && k == 1:
				nonEmpty = b.Succs[0]
			}
			if nonEmpty != nil && edgeDominates(b, nonEmpty, c.Block()) {
				guarded = true
			}
		}
		r.Check(guarded, "C02.R1", funcName(f)+"->aggregate", w.instrPos(c), "the value set is proven non-empty before it is aggregated", "aggregate is called with a slice that may be empty: index out of range (last/first/max/min) or an invented 0/NaN (sum/average)")
	}

	// R3 xff gate
	r.Rule("C02.R3", "the slot write in propagate is dominated by the passing edge of a float32 comparison between float32(len(known))/float32(len(all)) and Whisper.XFilesFactor(); the other edge skips the write", 1)
	r.Rule("C02.R4", "only stored slots propagate: the append to the returned work-list is dominated by the success edge of the slot write; propagateChain passes level k's result to level k+1 and stops on an empty list", 3)
	var putCall *ssa.Call
	for _, c := range callsTo(prop, put) {
		putCall = c
	}
	if putCall == nil {
		r.Violate("C02.R3", "propagate:write", w.pos(prop.Pos()), "propagate does not write the aggregate with putPointAt")
	} else {
		okGate := false
		why := "no comparison of the known fraction with XFilesFactor() guards the write"
		for _, b := range prop.Blocks {
			if len(b.Instrs) == 0 {
				continue
			}
			iff, ok := b.Instrs[len(b.Instrs)-1].(*ssa.If)
			if !ok {
				continue
			}
			bo, ok := iff.Cond.(*ssa.BinOp)
			if !ok || !isCmp(bo.Op) {
				continue
			}
			var frac, xff ssa.Value
			for _, side := range [][2]ssa.Value{{bo.X, bo.Y}, {bo.Y, bo.X}} {
				// the file's factor, read through the getter or the field, directly or hoisted
				if newExprCtx(w).expr(side[1]) == "p0.header.xFilesFactor" {
					frac, xff = side[0], side[1]
				}
			}
			if frac == nil {
				continue
			}
			isF32 := func(v ssa.Value) bool {
				bt, ok := v.Type().Underlying().(*types.Basic)
				return ok && bt.Kind() == types.Float32
			}
			if !isF32(frac) || !isF32(xff) {
				why = "the known fraction is compared with xFilesFactor in " + frac.Type().String() + ", not float32: the header's float32 factor rounds differently and boundary fractions are skipped"
				continue
			}
			q, ok := frac.(*ssa.BinOp)
			if !ok || q.Op != token.QUO {
				why = "the compared value is not a quotient known/all"
				continue
			}
			ex := newExprCtx(w)
			num, den := ex.expr(q.X), ex.expr(q.Y)
			if !strings.HasPrefix(num, "len(") || !strings.HasPrefix(den, "len(") || !strings.Contains(num, "filterValidValues") || !strings.Contains(den, "fetchRawPoints") {
				why = "the quotient is not len(known values)/len(all slots): " + num + " / " + den
				continue
			}
			// fraction < xff  => skip ; so the passing edge is where !(frac < xff)
			op := bo.Op
			if bo.X != frac {
				// xff OP frac: mirror
				switch op {
				case token.LSS:
					op = token.GTR
				case token.GTR:
					op = token.LSS
				case token.LEQ:
					op = token.GEQ
				case token.GEQ:
					op = token.LEQ
				}
			}
			var pass *ssa.BasicBlock
			switch op {
			case token.LSS: // frac < xff -> skip on true
				pass = b.Succs[1]
			case token.GEQ: // frac >= xff -> store on true
				pass = b.Succs[0]
			default:
				why = "the gate uses " + op.String() + ": a slot whose known fraction equals xFilesFactor must be stored (>=)"
				continue
			}
			if !edgeDominates(b, pass, putCall.Block()) {
				why = "the slot write is not dominated by the passing edge of the xFilesFactor gate"
				continue
			}
			okGate = true
		}
		r.Check(okGate, "C02.R3", "propagate:xff-gate", w.instrPos(putCall), "float32 gate known/all >= xFilesFactor guards the write", why)
		// nothing else may skip the recomputation of a touched coarser slot
		r.Rule("C02.R6", "every touched coarser slot is recomputed: the slot write in propagate is guarded by nothing but the non-empty test on the known values and the xFilesFactor gate", 1)
		ruleKnownValueFilter(w, r, "C02.R6")
		if pf := fn(w.Lib, "Whisper.propagate"); pf != nil {
			ruleLoopGoesOn(w, r, "C02.R6", "Whisper.propagate:every-slot", firstLoopCall(pf, fn(w.Lib, "Whisper.fetchRawPoints")), "every coarser slot covering a written point is recomputed; a slot without known finer values is skipped, not the rest of the work-list")
		}
		// level by level: what is handed to the next level is aligned to the very next archive's step
		if pf := fn(w.Lib, "Whisper.propagate"); pf != nil && len(pf.Params) == 4 {
			ifw := fn(w.Lib, "ArchiveInfo.intervalForWrite")
			bad := ""
			n := 0
			var leaves func(v ssa.Value, seen map[ssa.Value]bool) []ssa.Value
			leaves = func(v ssa.Value, seen map[ssa.Value]bool) []ssa.Value {
				if u, ok := v.(*ssa.UnOp); ok && u.Op == token.MUL {
					// a value receiver: the archive is loaded through the pointer
					if _, isIA := u.X.(*ssa.IndexAddr); isIA {
						return []ssa.Value{u.X}
					}
					if _, isPhi := u.X.(*ssa.Phi); isPhi {
						return leaves(u.X, seen)
					}
				}
				if ph, ok := v.(*ssa.Phi); ok {
					if seen[ph] {
						return nil
					}
					seen[ph] = true
					var out []ssa.Value
					for _, e := range ph.Edges {
						out = append(out, leaves(e, seen)...)
					}
					return out
				}
				return []ssa.Value{v}
			}
			for _, c := range callsTo(pf, ifw) {
				// only the alignment of the times passed on (its argument is the slot time of the loop), not the base interval
				if len(c.Common().Args) != 2 || c.Common().Args[1] == ssa.Value(pf.Params[3]) {
					continue
				}
				for _, l := range leaves(c.Common().Args[0], map[ssa.Value]bool{}) {
					if k, isK := l.(*ssa.Const); isK && k.IsNil() {
						continue
					}
					ia, isIA := l.(*ssa.IndexAddr)
					if !isIA {
						continue // the archive being written itself (r) or a copy: judged by the aligned-write rules
					}
					idx := newExprCtx(w).expr(ia.Index)
					if idx == "p1" {
						continue
					}
					n++
					if idx != "(p1 + 1)" && bad == "" {
						bad = "the times passed on are aligned to archive " + idx + " at " + w.instrPos(c) + ", not to the next archive (archiveID+1)"
					}
				}
			}
			r.Check(bad == "" && n > 0, "C02.R4", "Whisper.propagate:next-level", w.pos(pf.Pos()), "the work-list for the next level is aligned to archive archiveID+1", "propagate: "+bad+": with more than three archives the level in between is recomputed for the wrong slot (or not at all) and the levels below it are built from stale data")
		}
		// ... and only those: the work-list holds the coarser interval of each written point, nothing in between
		if ttp := fn(w.Lib, "ArchiveInfo.timesToPropagate"); ttp != nil && len(ttp.Params) == 2 {
			ifw := fn(w.Lib, "ArchiveInfo.intervalForWrite")
			bad := ""
			n := 0
			judge := func(v ssa.Value, at ssa.Instruction) {
				n++
				c, isCall := v.(*ssa.Call)
				if !isCall || c.Common().StaticCallee() != ifw || len(c.Common().Args) != 2 {
					if bad == "" {
						bad = "the time put on the work-list at " + w.instrPos(at) + " is " + shortExpr(newExprCtx(w).expr(v)) + ", not intervalForWrite of a written point's time"
					}
					return
				}
				a := newExprCtx(w).expr(c.Common().Args[1])
				if !strings.Contains(a, "p1[") || !strings.HasSuffix(a, ".Time") {
					if bad == "" {
						bad = "the interval put on the work-list at " + w.instrPos(at) + " is computed from " + shortExpr(a) + ", not from a written point's time"
					}
				}
			}
			eachInstr(ttp, func(in ssa.Instruction) {
				switch t := in.(type) {
				case *ssa.Call:
					if bi, ok := t.Common().Value.(*ssa.Builtin); ok && bi.Name() == "append" && len(t.Common().Args) == 2 {
						if _, isTS := t.Type().Underlying().(*types.Slice); isTS && namedTypeName(t.Type().Underlying().(*types.Slice).Elem()) == "Timestamp" {
							for _, e := range varargElems(t.Common().Args[1]) {
								judge(e, t)
							}
						}
					}
				case *ssa.Store:
					if ia, ok := t.Addr.(*ssa.IndexAddr); ok {
						if _, isMk := ia.X.(*ssa.MakeSlice); isMk && namedTypeName(t.Val.Type()) == "Timestamp" {
							judge(t.Val, t)
						}
					}
				}
			})
			r.Check(bad == "" && n > 0, "C02.R6", "ArchiveInfo.timesToPropagate:only-touched", w.pos(ttp.Pos()), fmt.Sprintf("%d places put a time on the work-list: each is intervalForWrite(points[i].Time)", n), "timesToPropagate: "+bad+": coarser slots that cover no written point are recomputed and overwritten")
		}
		var extra []string
		for _, g := range blockGuards(w, putCall.Block()) {
			if (strings.Contains(g, "XFilesFactor(") || strings.Contains(g, ".xFilesFactor")) || isLenEmptinessTest(g, `whispertool\.filterValidValues\(.*\)`) || isLenEmptinessTest(g, `p2`) {
				continue
			}
			extra = append(extra, g)
		}
		r.Check(len(extra) == 0, "C02.R6", "propagate:no-other-skip", w.instrPos(putCall), "only the two stated conditions can skip a slot", "propagate also skips the recomputation unless "+strings.Join(extra, " && ")+": a coarser slot covering a written point is neither recomputed nor propagated further")

		// R4
		var appends []*ssa.Call
		for _, c := range callsIn(prop) {
			if cv, ok := c.(*ssa.Call); ok {
				if bi, ok := cv.Common().Value.(*ssa.Builtin); ok && bi.Name() == "append" && strings.Contains(cv.Type().String(), "Timestamp") {
					appends = append(appends, cv)
				}
			}
		}
		if len(appends) == 0 {
			r.Violate("C02.R4", "propagate:work-list", w.pos(prop.Pos()), "propagate does not build the next level's work-list")
		}
		for _, appendCall := range appends {
			succ, _, ok := successEdge(putCall)
			r.Check(ok && (succ == appendCall.Block() || succ.Dominates(appendCall.Block())), "C02.R4", "propagate:stored-only", w.instrPos(appendCall), "an interval is queued for the next level only after its slot was stored", "an interval is queued for the next level although its slot may not have been stored (skipped by the xFilesFactor gate or failed)")
			// what is appended is intervalForWrite(t) of the next archive
			ex := newExprCtx(w)
			va := variadicArgs(appendCall.Common().Args[1])
			okT := len(va) == 1 && strings.HasPrefix(ex.expr(va[0]), "whispertool.ArchiveInfo.intervalForWrite(")
			r.Check(okT, "C02.R4", "propagate:queued-interval", w.instrPos(appendCall), "queues the next archive's write interval of the stored slot", "the queued value is not the coarser archive's intervalForWrite of the stored slot")
		}
	}
	if pc := need(w, r, "C02.R4", w.Lib, "Whisper.propagateChain"); pc != nil {
		okChain := false
		for _, c := range callsTo(pc, prop) {
			ex := newExprCtx(w)
			ts := ex.expr(c.Common().Args[2])
			// phi of timesToPropagate(...) and propagate(...)#0
			okChain = strings.Contains(ts, "timesToPropagate") && strings.Contains(ts, "@") || (strings.Contains(ts, "timesToPropagate") && strings.Contains(ts, "propagate("))
		}
		r.Check(okChain, "C02.R4", "propagateChain:feeds-next-level", w.pos(pc.Pos()), "level k+1 receives level k's stored intervals", "propagateChain does not feed each level with the intervals stored at the previous level")
	}

	ruleStaleFilter(w, r, "C01.R2")
	ruleAggregateShape(w, r, "C02.R5")
}

// ruleAggregateShape: C02.R5
func ruleAggregateShape(w *World, r *Report, rule string) {
	r.Rule(rule, "derives-from per method: first returns values[0]; last values[len-1]; max/min return an accumulator initialised from values[0] and replaced by an element under `elem > acc` / `elem < acc`; sum returns an accumulator initialised to 0 to which every element is added; average returns sum(values)/len(values)", 6)
	ag := fn(w.Lib, "aggregate")
	sm := fn(w.Lib, "sum")
	if ag == nil || sm == nil {
		r.Undecided(rule, "anchors", "-", "aggregate/sum not found")
		return
	}
	// the case of a method is found by the value of its named constant (the codes themselves belong to C06.R1)
	names := map[int64]string{}
	var codes []int64
	for cname, meth := range map[string]string{"Average": "average", "Sum": "sum", "Last": "last", "Max": "max", "Min": "min", "First": "first"} {
		v, ok := constValue(w, cname)
		if !ok {
			r.Undecided(rule, "aggregate:"+meth, "-", "constant "+cname+" not found")
			continue
		}
		names[v] = meth
		codes = append(codes, v)
	}
	sort.Slice(codes, func(i, j int) bool { return codes[i] < codes[j] })
	for _, k := range codes {
		// find the case body entry for method k
		e := &ddEngine{w: w, env: map[ssa.Value]aval{ag.Params[0]: {k: kInt, i: k}}}
		var entry *ssa.BasicBlock
		e.stop = func(b *ssa.BasicBlock) bool {
			for _, in := range b.Instrs {
				if bo, ok := in.(*ssa.BinOp); ok && (bo.X == ssa.Value(ag.Params[0]) || bo.Y == ssa.Value(ag.Params[0])) {
					return false
				}
			}
			if b != ag.Blocks[0] {
				entry = b
				return true
			}
			return false
		}
		e.run(ag)
		key := "aggregate:" + names[k]
		if entry == nil {
			r.Undecided(rule, key, w.pos(ag.Pos()), "cannot locate the case body")
			continue
		}
		var ret *ssa.Return
		n := 0
		for _, rt := range returnsOf(ag) {
			if entry == rt.Block() || entry.Dominates(rt.Block()) {
				ret = rt
				n++
			}
		}
		if n != 1 {
			r.Undecided(rule, key, w.pos(ag.Pos()), fmt.Sprintf("case has %d returns", n))
			continue
		}
		ex := newExprCtx(w)
		got := ex.expr(ret.Results[0])
		ok := false
		detail := ""
		switch names[k] {
		case "average":
			ok = got == "(whispertool.sum(p1) /:float64 len(p1))"
		case "sum":
			ok = got == "whispertool.sum(p1)"
		case "first":
			ok = got == "p1[0]"
		case "last":
			ok = got == "p1[(len(p1) - 1)]"
		case "max", "min":
			ph, isPhi := ret.Results[0].(*ssa.Phi)
			if isPhi {
				// initial value values[0]; update under elem OP acc
				hasInit := false
				var upd ssa.Value
				var accPhi *ssa.Phi = ph
				// the returned phi may be the loop-header phi itself
				for _, ed := range ph.Edges {
					s := newExprCtx(w).expr(ed)
					if s == "p1[0]" {
						hasInit = true
					}
				}
				// find the conditional update: a phi (or the same) merging acc and elem under a comparison
				okCmp := false
				rangeBad := ""
				for _, b := range ag.Blocks {
					if !(entry == b || entry.Dominates(b)) || len(b.Instrs) == 0 {
						continue
					}
					iff, isIf := b.Instrs[len(b.Instrs)-1].(*ssa.If)
					if !isIf {
						continue
					}
					bo, isBo := iff.Cond.(*ssa.BinOp)
					if !isBo {
						continue
					}
					xs, ys := newExprCtx(w).expr(bo.X), newExprCtx(w).expr(bo.Y)
					// an element of the value list, by a range or index loop, over the list or over list[1:] (the first
					// element is the initial accumulator)
					reElem := regexp.MustCompile(`^p1(\[1:\])?\[(\(i\d+ \+ 1\)|i\d+)\]$`)
					isElem := func(s string) bool { return reElem.MatchString(s) }
					want := token.GTR
					if names[k] == "min" {
						want = token.LSS
					}
					mirror := map[token.Token]token.Token{token.GTR: token.LSS, token.LSS: token.GTR}
					if isElem(xs) && !isElem(ys) && bo.Op == want {
						okCmp = true
						if why := elemNotOfRangedSlice(w, ag, bo.X); why != "" {
							rangeBad = why
						}
					}
					if isElem(ys) && !isElem(xs) && bo.Op == mirror[want] {
						okCmp = true
						if why := elemNotOfRangedSlice(w, ag, bo.Y); why != "" {
							rangeBad = why
						}
					}
					_ = upd
				}
				_ = accPhi
				ok = hasInit && okCmp && rangeBad == ""
				if rangeBad != "" {
					detail = rangeBad
				} else if !hasInit {
					detail = "the accumulator does not start from the first known value (" + got + ")"
				} else if !okCmp {
					detail = "the accumulator is not replaced under the right strict comparison"
				}
			} else {
				detail = "does not return a running accumulator: " + got
			}
		}
		if detail == "" && !ok {
			detail = "returns " + got
		}
		r.Check(ok, rule, key, w.instrPos(ret), "derives from the right elements", "aggregate("+names[k]+") "+detail)
	}
	// sum()
	rets := returnsOf(sm)
	okSum := len(rets) == 1
	if okSum {
		got := newExprCtx(w).expr(rets[0].Results[0])
		okSum = regexp.MustCompile(`^phi\(\(@ \+:float64 p0\[(\(i\d+ \+ 1\)|i\d+)\]\)\|0\)$`).MatchString(got) || regexp.MustCompile(`^phi\(\(p0\[(\(i\d+ \+ 1\)|i\d+)\] \+:float64 @\)\|0\)$`).MatchString(got)
		r.Check(okSum, rule, "sum", w.instrPos(rets[0]), "0 plus every element", "sum does not start at 0 and add every element: "+got)
	}
}

// elemNotOfRangedSlice: elem is X[idx] where idx is a loop counter bounded by len(S); "" when X is S itself (the loop
// reads the elements of the slice it runs over), otherwise what differs — running over values[1:] while indexing values
// with the same counter never looks at the last element.
func elemNotOfRangedSlice(w *World, f *ssa.Function, elem ssa.Value) string {
	if u, ok := elem.(*ssa.UnOp); ok && u.Op == token.MUL {
		elem = u.X
	}
	var x, idx ssa.Value
	switch t := elem.(type) {
	case *ssa.IndexAddr:
		x, idx = t.X, t.Index
	case *ssa.Index:
		x, idx = t.X, t.Index
	default:
		return ""
	}
	why := ""
	eachInstr(f, func(in ssa.Instruction) {
		bo, ok := in.(*ssa.BinOp)
		if !ok || !isCmp(bo.Op) {
			return
		}
		var bound ssa.Value
		switch {
		case bo.X == idx:
			bound = bo.Y
		case bo.Y == idx:
			bound = bo.X
		default:
			return
		}
		lc, ok := bound.(*ssa.Call)
		if !ok {
			return
		}
		if bi, isBi := lc.Common().Value.(*ssa.Builtin); !isBi || bi.Name() != "len" {
			return
		}
		s := stripChangeType(lc.Common().Args[0])
		if s != stripChangeType(x) && newExprCtx(w).expr(s) != newExprCtx(w).expr(x) {
			why = "the loop runs over " + newExprCtx(w).expr(s) + " but reads " + newExprCtx(w).expr(x) + " with the same counter: not every known value is looked at"
		}
	})
	return why
}

// ---------- C03 ----------

func rulesC03(w *World, r *Report) {
	upm := need(w, r, "C03.R1", w.Lib, "Whisper.UpdatePointsForArchive")
	up1 := need(w, r, "C03.R2", w.Lib, "Whisper.UpdatePointForArchive")
	extract := need(w, r, "C03.R3", w.Lib, "extractPoints")
	aum := fn(w.Lib, "Whisper.archiveUpdateMany")
	if upm == nil || up1 == nil || extract == nil || aum == nil {
		return
	}
	// R1
	r.Rule("C03.R1", "dominance + callee identity: in UpdatePointsForArchive sort.Stable (not Sort/Slice) is applied to the whole batch and dominates every extractPoints and archiveUpdateMany call", 2)
	var stable *ssa.Call
	for _, c := range callsIn(upm) {
		if cv, ok := c.(*ssa.Call); ok && isCallToPkgFunc(c, "sort", "Stable") {
			stable = cv
		}
		if isCallToPkgFunc(c, "sort", "Sort") || isCallToPkgFunc(c, "sort", "Slice") {
			r.Violate("C03.R1", "UpdatePointsForArchive:unstable-sort", w.instrPos(c), "the batch is sorted with an unstable sort: points with equal time may be reordered, so 'the one supplied last' no longer wins")
		}
	}
	if stable == nil {
		r.Violate("C03.R1", "UpdatePointsForArchive:stable-sort", w.pos(upm.Pos()), "the batch is not sorted with sort.Stable before it is partitioned")
	} else {
		ex := newExprCtx(w)
		r.Check(ex.expr(stable.Common().Args[0]) == "p1", "C03.R1", "UpdatePointsForArchive:sorts-batch", w.instrPos(stable), "the whole batch is sorted", "sort.Stable is not applied to the batch parameter")
		bad := ""
		for _, c := range callsIn(upm) {
			sc := c.Common().StaticCallee()
			if sc == extract || sc == aum {
				if !dominatesInstr(stable, c.(ssa.Instruction)) {
					bad = w.instrPos(c)
				}
			}
		}
		r.Check(bad == "", "C03.R1", "UpdatePointsForArchive:sort-first", w.instrPos(stable), "the sort dominates every partition and write", "the partition at "+bad+" can run on an unsorted batch (the sort does not dominate it): the backward scan then drops in-range points")
	}
	// the order the sort establishes is the order of the times themselves
	if less := fn(w.Lib, "Points.Less"); less != nil && len(less.Params) == 3 {
		bad := ""
		n := 0
		for _, ret := range returnsOf(less) {
			n++
			vals, complete := resultValues(ret, 0)
			if !complete || len(vals) != 1 {
				bad = "the result is not a single comparison"
				continue
			}
			// canonical form (comparisons are printed with < and <=, locals holding a copy of an element are seen through)
			if got := newExprCtx(w).expr(vals[0]); got != "(p0[p1].Time < p0[p2].Time)" {
				bad = "the result is " + shortExpr(got) + ", not pp[i].Time < pp[j].Time on the times themselves (a difference taken in a narrower or signed type wraps for times far apart, so the batch is no longer ascending and the backward partition drops in-range points)"
			}
		}
		r.Check(bad == "" && n > 0, "C03.R1", "Points.Less:orders-by-time", w.pos(less.Pos()), "Less(i, j) is pp[i].Time < pp[j].Time", "Points.Less: "+bad)
	}

	// R2
	r.Rule("C03.R2", "canonicalised failing conditions + dominance: UpdatePointForArchive fails iff t <= now.Add(-MaxRetention()) and iff now < t (unguarded), and both tests dominate putPointAt and propagateChain", 3)
	fcs := failConditions(w, up1)
	var lo, hi *failCond
	for i := range fcs {
		c := fcs[i].Core()
		if regexp.MustCompile(`^p2 <= whispertool\.Timestamp\.Add\((i\d+|p4), -p0\.header\.maxRetention\)$`).MatchString(c) && len(fcs[i].Guards) == 0 {
			lo = &fcs[i]
		}
		if regexp.MustCompile(`^(i\d+|p4) < p2$`).MatchString(c) {
			hi = &fcs[i]
		}
	}
	r.Check(lo != nil, "C03.R2", "UpdatePointForArchive:too-old", w.pos(up1.Pos()), "fails iff t <= now - maxRetention", "no unguarded test rejecting t <= now.Add(-MaxRetention()): points as old as the maximum retention are accepted")
	r.Check(hi != nil, "C03.R2", "UpdatePointForArchive:future", w.pos(up1.Pos()), "fails iff now < t", "no test rejecting timestamps in the future (now < t)")
	if lo != nil && hi != nil {
		okDom := true
		for _, c := range callsIn(up1) {
			sc := c.Common().StaticCallee()
			if sc == fn(w.Lib, "Whisper.putPointAt") || sc == fn(w.Lib, "Whisper.propagateChain") || sc == fn(w.Lib, "Whisper.getPointOffset") {
				if !lo.At.Block().Dominates(c.Block()) || !hi.At.Block().Dominates(c.Block()) {
					okDom = false
				}
			}
		}
		r.Check(okDom, "C03.R2", "UpdatePointForArchive:check-first", w.instrPos(lo.At), "the range check precedes every write", "a write can happen before the range check")
	}
	ruleAddSaturates(w, r, "C03.R2")
	// one reading of the package's clock per write, whichever entry point is used
	ruleOneClockReading(w, r, "C03.R2", "Whisper.Update", "Whisper.UpdateMany", "Whisper.UpdatePointForArchive", "Whisper.UpdatePointsForArchive")
	// findBestArchive receives t itself (single update) and the unclamped from (fetch): C03.R4 / C04.R4
	r.Rule("C03.R4", "derives-from: findBestArchive receives the point's own timestamp; each archive is written with result #0 of extractPoints applied to what the previous archive left (result #1), the loop index as archive id and the same now", 4)
	fba := fn(w.Lib, "Whisper.findBestArchive")
	if len(callsTo(up1, fba)) == 0 {
		r.Violate("C03.R4", "UpdatePointForArchive:best-archive-arg", w.pos(up1.Pos()), "UpdatePointForArchive does not choose the archive with findBestArchive (retention >= age): a single update whose age equals an archive's retention is routed by another rule")
	}
	for _, c := range callsTo(up1, fba) {
		ex := newExprCtx(w)
		a1 := ex.expr(c.Common().Args[1])
		r.Check(a1 == "p2", "C03.R4", "UpdatePointForArchive:best-archive-arg", w.instrPos(c), "the best archive is chosen for the point's own time", "findBestArchive is called with "+a1+" instead of the point's timestamp: points at a retention boundary are routed to the wrong archive")
	}
	// an accepted single write always stores its point and always hands it to the coarser levels: no success return of
	// UpdatePointForArchive is reached without putPointAt and propagateChain (a write that is "already there" still
	// has to re-establish the consolidated values, which another write may have replaced since)
	{
		idx := errResultIndex(up1)
		bad := ""
		for _, callee := range []string{"Whisper.putPointAt", "Whisper.propagateChain"} {
			g := fn(w.Lib, callee)
			if g == nil {
				continue
			}
			ret := pathAvoidingTo(up1.Blocks[0], func(in ssa.Instruction) bool {
				c, ok := in.(ssa.CallInstruction)
				return ok && c.Common().StaticCallee() == g
			}, func(ret *ssa.Return) bool { return idx >= 0 && isNilConst(ret.Results[idx]) })
			if ret != nil && bad == "" {
				bad = "the success return at " + w.instrPos(ret) + " can be reached without " + callee
			}
		}
		r.Check(bad == "", "C03.R4", "UpdatePointForArchive:writes-and-propagates", w.pos(up1.Pos()), "every success return passes putPointAt and propagateChain", "UpdatePointForArchive: "+bad+": the write is reported done while the slot, or the coarser slots that cover it, keep what an earlier write left")
	}
	// a named archive is the archive written: the id changes only when ArchiveIDBest was asked for
	{
		var used []ssa.Value
		for _, c := range callsTo(up1, fn(w.Lib, "Whisper.propagateChain")) {
			if len(c.Common().Args) > 1 {
				used = append(used, c.Common().Args[1])
			}
		}
		eachInstr(up1, func(in ssa.Instruction) {
			if ia, ok := in.(*ssa.IndexAddr); ok && strings.Contains(newExprCtx(w).expr(ia.X), "rchiveInfoList") {
				used = append(used, ia.Index)
			}
		})
		bad := ""
		idParam := ssa.Value(up1.Params[1])
		for _, u := range used {
			ph, isPhi := u.(*ssa.Phi)
			if !isPhi {
				if u != idParam {
					bad = "the archive index " + newExprCtx(w).expr(u) + " is not the id the caller named"
				}
				continue
			}
			for i, e := range ph.Edges {
				pred := ph.Block().Preds[i]
				if e == idParam {
					continue
				}
				c, isCall := e.(*ssa.Call)
				if !isCall || c.Common().StaticCallee() != fba {
					bad = "the archive index can become " + newExprCtx(w).expr(e)
					continue
				}
				// only on the `archiveID == ArchiveIDBest` outcome
				onlyBest := false
				for _, b := range up1.Blocks {
					if len(b.Instrs) == 0 {
						continue
					}
					iff, ok := b.Instrs[len(b.Instrs)-1].(*ssa.If)
					if !ok {
						continue
					}
					cond, neg := stripNot(iff.Cond)
					bo, ok := cond.(*ssa.BinOp)
					if !ok || (bo.Op != token.EQL && bo.Op != token.NEQ) {
						continue
					}
					var k ssa.Value
					switch {
					case bo.X == idParam:
						k = bo.Y
					case bo.Y == idParam:
						k = bo.X
					default:
						continue
					}
					if kv, isK := constInt(k); !isK || kv != -1 {
						continue
					}
					eqEdge := 0
					if (bo.Op == token.NEQ) != neg {
						eqEdge = 1
					}
					if edgeDominates(b, b.Succs[eqEdge], c.Block()) && (pred == c.Block() || c.Block().Dominates(pred)) {
						onlyBest = true
					}
				}
				if !onlyBest {
					bad = "findBestArchive replaces the archive id on a path where the caller named an archive (not only when it is ArchiveIDBest)"
				}
			}
		}
		r.Check(bad == "" && len(used) > 0, "C03.R4", "UpdatePointForArchive:named-archive", w.pos(up1.Pos()), fmt.Sprintf("%d uses of the archive id: the caller's, or findBestArchive's only under archiveID == ArchiveIDBest", len(used)), "UpdatePointForArchive: "+bad+": a write to a named archive lands in another archive, so the named archive's slot keeps its old value")
	}
	// R3
	r.Rule("C03.R3", "partition (decision diagram over a 3-point batch): for every assignment of 'point j is stale' (points[j].Time <= now.Add(-maxRetention), the only test on the points) extractPoints returns (points[k:], points[:k]) where k-1 is the last stale index (k = 0: the whole batch and an empty remainder); every point after k-1 was tested and found fresh", 3)
	ruleExtractPointsDD(w, r, "C03.R3", extract)
	r.Rule("C03.R5", "no in-range point is lost inside the per-archive writer: archiveUpdateMany aligns and stores every point of the batch it is given", 2)
	ruleWriterWritesAll(w, r, "C03.R5")
	// of two points of a batch that share a time the one supplied last wins, whatever their values are: the store that
	// replaces the earlier value is guarded by the equal-time test only
	if ap := fn(w.Lib, "ArchiveInfo.alignPoints"); ap != nil {
		bad := ""
		n := 0
		eachInstr(ap, func(in ssa.Instruction) {
			st, ok := in.(*ssa.Store)
			if !ok {
				return
			}
			_, fld, isFld := fieldAddrOf(st.Addr)
			if !isFld || fld != "Value" {
				return
			}
			fa, _ := st.Addr.(*ssa.FieldAddr)
			if fa == nil {
				return
			}
			if _, isIA := fa.X.(*ssa.IndexAddr); !isIA {
				return // the literal being built, not an element already in the result
			}
			n++
			for _, g := range blockGuards(w, st.Block()) {
				if strings.Contains(g, ".Value") || strings.Contains(g, "IsNaN") {
					bad = "the replacement at " + w.instrPos(st) + " also depends on " + shortExpr(g)
				}
			}
		})
		if n > 0 {
			r.Check(bad == "", "C03.R5", "ArchiveInfo.alignPoints:last-wins", w.pos(ap.Pos()), "a later point of the same time replaces the earlier one unconditionally", "alignPoints: "+bad+": which of two points of one slot is stored then depends on their values, not on the order they were supplied in")
		}
	}
	ruleLoopGoesOn(w, r, "C03.R5", "Whisper.UpdatePointsForArchive:every-archive", firstLoopCall(upm, extract), "an archive that gets no point of the batch is skipped, not the coarser archives after it")
	ruleLoopGoesOn(w, r, "C03.R5", "Whisper.archiveUpdateMany:every-point", firstLoopCall(aum, fn(w.Lib, "Whisper.putPointAt")), "every aligned point of the batch is stored")
	// R4 routing in UpdatePointsForArchive
	for _, c := range callsTo(upm, aum) {
		ex := newExprCtx(w)
		as := c.Common().Args
		pts, id, now := ex.expr(as[1]), ex.expr(as[2]), ex.expr(as[3])
		okPts := strings.HasPrefix(pts, "whispertool.extractPoints(") && strings.HasSuffix(pts, "#0")
		r.Check(okPts, "C03.R4", "UpdatePointsForArchive:writes-current", w.instrPos(c), "writes the current points of the partition", "archiveUpdateMany does not receive result #0 of extractPoints: "+pts)
		r.Check(regexp.MustCompile(`^\(i\d+ \+ 1\)$|^i\d+$`).MatchString(id), "C03.R4", "UpdatePointsForArchive:archive-id", w.instrPos(c), "the loop index is the archive id", "the archive id passed is not the loop index: "+id)
		_ = now
	}
	for _, c := range callsTo(upm, extract) {
		ex := newExprCtx(w)
		as := c.Common().Args
		in := ex.expr(as[0])
		// input = phi(batch, remaining of previous iteration)
		okIn := strings.Contains(in, "p1") && strings.Contains(in, "@") || strings.Contains(in, "extractPoints(")
		r.Check(okIn, "C03.R4", "UpdatePointsForArchive:remaining-flows-on", w.instrPos(c), "each archive partitions what the previous one left", "extractPoints does not receive the previous archive's remaining points: "+in)
		okNow := false
		for _, c2 := range callsTo(upm, aum) {
			if sameLeaves(as[1], c2.Common().Args[3]) {
				okNow = true
			}
		}
		// ... and that clock value is the one given (or the package clock when 0 was given), nothing taken from the batch
		for _, l := range leavesOf(as[1]) {
			switch t := l.(type) {
			case *ssa.Parameter:
			case *ssa.Call:
				if sc := t.Common().StaticCallee(); sc == nil || sc.Name() != "TimestampFromStdTime" {
					okNow = false
				}
			case *ssa.Const:
			default:
				okNow = false
			}
		}
		r.Check(okNow && !strings.Contains(ex.expr(as[1]), "intervalForWrite"), "C03.R4", "UpdatePointsForArchive:partition-clock", w.instrPos(c), "the partition uses the caller's clock value", "extractPoints is given "+ex.expr(as[1])+" instead of the clock value itself: the per-archive age cutoff moves and points just past a retention boundary are routed to the finer archive or dropped")
		ret := ex.expr(as[2])
		r.Check(strings.Contains(ret, "MaxRetention("), "C03.R4", "UpdatePointsForArchive:retention-arg", w.instrPos(c), "partition by the archive's own retention", "extractPoints is not given the archive's MaxRetention(): "+ret)
	}
}

// findPhiByName: the integer phi used as index in the hit return's slices.
func findPhiByName(ret *ssa.Return, f *ssa.Function) *ssa.Phi {
	var out *ssa.Phi
	var rec func(v ssa.Value, d int)
	rec = func(v ssa.Value, d int) {
		if v == nil || d > 6 || out != nil {
			return
		}
		switch x := v.(type) {
		case *ssa.Phi:
			if isIntType(x.Type()) {
				out = x
			}
		case *ssa.Slice:
			rec(x.Low, d+1)
			rec(x.High, d+1)
		case *ssa.BinOp:
			rec(x.X, d+1)
			rec(x.Y, d+1)
		case *ssa.ChangeType:
			rec(x.X, d+1)
		case *ssa.Convert:
			rec(x.X, d+1)
		}
	}
	for _, res := range ret.Results {
		rec(res, 0)
	}
	return out
}

var _ = sort.Strings

// idxOff parses a rendered index expression iN, (iN + k) or (iN - k) into (variable, offset).
func idxOff(s string) (string, int64, bool) {
	if m := regexp.MustCompile(`^(i\d+)$`).FindStringSubmatch(s); m != nil {
		return m[1], 0, true
	}
	if m := regexp.MustCompile(`^\((i\d+) ([-+]) (\d+)\)$`).FindStringSubmatch(s); m != nil {
		k, _ := strconv.ParseInt(m[3], 10, 64)
		if m[2] == "-" {
			k = -k
		}
		return m[1], k, true
	}
	return "", 0, false
}

// ruleExtractPointsDD decides the partition function semantically: the batch length is bound to 3, the function's
// decision diagram is enumerated with one atom per tested element, and every leaf must return the split at the
// last stale element.
func ruleExtractPointsDD(w *World, r *Report, rule string, f *ssa.Function) {
	const n = 3
	pos := w.pos(f.Pos())
	if len(f.Params) != 3 {
		r.Undecided(rule, "extractPoints:signature", pos, "extractPoints no longer takes (points, now, maxRetention)")
		return
	}
	pts := f.Params[0]
	e := &ddEngine{w: w, env: map[ssa.Value]aval{}, maxLeafs: 64, concreteAtoms: true}
	eachInstr(f, func(in ssa.Instruction) {
		if c, ok := in.(*ssa.Call); ok {
			if b, ok := c.Call.Value.(*ssa.Builtin); ok && b.Name() == "len" && stripChangeType(c.Call.Args[0]) == ssa.Value(pts) {
				e.env[c] = aval{k: kInt, i: n}
			}
		}
	})
	e.run(f)
	if e.err != nil {
		for _, k := range []string{"fall-through", "split", "backward-scan", "stale-test"} {
			r.Undecided(rule, "extractPoints:"+k, pos, "the decision diagram of extractPoints could not be evaluated for a batch of 3 points: "+e.err.Error())
		}
		return
	}
	reIdx := regexp.MustCompile(`\[(-?\d+)\]`)
	var badTest, badSplit, badScan []string
	sawFall := false
	for _, l := range e.leaves {
		if l.panics || l.ret == nil || len(l.ret.Results) != 2 {
			badSplit = append(badSplit, "a path panics or does not return the two lists")
			continue
		}
		// staleness of the tested elements on this path
		stale := map[int]bool{}
		for key, chosen := range l.atoms {
			bo, ok := l.atomVal[key].(*ssa.BinOp)
			m := reIdx.FindStringSubmatch(key)
			if !ok || m == nil || !isCmp(bo.Op) {
				badTest = append(badTest, "a branch inside extractPoints depends on "+key+", which is not a comparison of one point's time with the cutoff")
				continue
			}
			j, _ := strconv.Atoi(m[1])
			ex := newExprCtx(w)
			xs, ys := ex.expr(bo.X), ex.expr(bo.Y)
			op := bo.Op
			if !strings.HasSuffix(xs, ".Time") {
				op, xs, ys = mirrorOp(op), ys, xs
			}
			if !strings.HasSuffix(xs, ".Time") || !strings.HasPrefix(xs, "p0[") || ys != "whispertool.Timestamp.Add(p1, -p2)" {
				badTest = append(badTest, "the test compares "+xs+" with "+ys+", not a point's time with now.Add(-maxRetention)")
				continue
			}
			switch op {
			case token.LEQ:
				stale[j] = chosen
			case token.GTR:
				stale[j] = !chosen
			default:
				badTest = append(badTest, "a point is taken as stale when its time "+op.String()+" the cutoff; the partition requires time <= now - retention")
			}
		}
		// the returned split
		k, ok := splitIndex(e, l, pts, n)
		if !ok {
			ex := newExprCtx(w)
			badSplit = append(badSplit, "returns ("+ex.expr(l.ret.Results[0])+", "+ex.expr(l.ret.Results[1])+"), not (points[k:], points[:k])")
			continue
		}
		if k == 0 {
			sawFall = true
		}
		for j := k; j < n; j++ {
			if st, tested := stale[j]; !tested || st {
				badScan = append(badScan, fmt.Sprintf("with split index %d the point at index %d was not tested or is stale: a stale point stays in the current list", k, j))
			}
		}
		if k > 0 {
			if st, tested := stale[k-1]; !tested || !st {
				badScan = append(badScan, fmt.Sprintf("with split index %d the point at index %d is not stale: fresh points are diverted to the remainder", k, k-1))
			}
		}
	}
	first := func(l []string) string {
		sort.Strings(l)
		if len(l) > 0 {
			return l[0]
		}
		return ""
	}
	r.Check(sawFall, rule, "extractPoints:fall-through", pos, "no stale point: the whole batch is current and the remainder is empty", "no path returns the whole batch with an empty remainder")
	r.Check(len(badSplit) == 0, rule, "extractPoints:split", pos, fmt.Sprintf("all %d paths return (points[k:], points[:k])", len(e.leaves)), "on a stale point at index i the function must return (points[i+1:], points[:i+1]): "+first(badSplit))
	r.Check(len(badScan) == 0, rule, "extractPoints:backward-scan", pos, "k-1 is the last stale index on every path", "the split is not at the last stale point: "+first(badScan))
	r.Check(len(badTest) == 0, rule, "extractPoints:stale-test", pos, "a point is stale iff its time <= now - retention", "the hit is not guarded by points[i].Time <= now.Add(-maxRetention): "+first(badTest))
}

// splitIndex: the leaf returns (p[k:], p[:k]) (k = 0 also as (p, nil) / (p, p[:0]) / (p[0:], ...)); returns k.
func splitIndex(e *ddEngine, l ddLeaf, pts ssa.Value, n int) (int, bool) {
	bound := func(v ssa.Value, def int64) (int64, bool) {
		if v == nil {
			return def, true
		}
		a := e.value(l.st, v)
		return a.i, a.k == kInt
	}
	// current list: p[k:] or p
	k := int64(-1)
	switch x := stripChangeType(l.ret.Results[0]).(type) {
	case *ssa.Parameter:
		if ssa.Value(x) == pts {
			k = 0
		}
	case *ssa.Slice:
		if stripChangeType(x.X) == pts {
			lo, ok1 := bound(x.Low, 0)
			hi, ok2 := bound(x.High, int64(n))
			if ok1 && ok2 && hi == int64(n) {
				k = lo
			}
		}
	}
	if k < 0 || k > int64(n) {
		return 0, false
	}
	// remainder: p[:k], or nil / empty when k == 0
	switch x := stripChangeType(l.ret.Results[1]).(type) {
	case *ssa.Const:
		return int(k), k == 0 && x.Value == nil
	case *ssa.Slice:
		if stripChangeType(x.X) == pts {
			lo, ok1 := bound(x.Low, 0)
			hi, ok2 := bound(x.High, int64(n))
			return int(k), ok1 && ok2 && lo == 0 && hi == k
		}
	case *ssa.MakeSlice:
		ln, ok := bound(x.Len, 0)
		return int(k), k == 0 && ok && ln == 0
	}
	return 0, false
}

// isLenEmptinessTest: guard g (canonical rendering, possibly negated) only asks whether len(<what>) is zero.
func isLenEmptinessTest(g, what string) bool {
	l := `len\(` + what + `\)`
	return regexp.MustCompile(`^!?\((0 (==|!=|<) ` + l + `|` + l + ` (<=) 0|` + l + ` (<) 1|1 (<=) ` + l + `)\)$`).MatchString(g)
}
