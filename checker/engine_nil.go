package main

import (
	"fmt"
	"go/token"
	"go/types"
	"sort"

	"golang.org/x/tools/go/ssa"
)

// E-nil: nil-contract analysis for *whispertool.TimeSeries.

type nilAnalysis struct {
	w       *World
	unsafeP map[*ssa.Function]map[int]string // param index -> reason it is dereferenced unguarded
	mayNilR map[*ssa.Function]map[int]bool   // result index -> may be nil on a may-succeed return
}

func isTSPtr(t types.Type) bool {
	p, ok := t.Underlying().(*types.Pointer)
	if !ok {
		return false
	}
	n, ok := p.Elem().(*types.Named)
	return ok && n.Obj().Name() == "TimeSeries" && n.Obj().Pkg() != nil && n.Obj().Pkg().Path() == libPath
}

// aliasesOf: forward closure of v through Phi and ChangeType within its function.
func aliasesOf(v ssa.Value) map[ssa.Value]bool {
	al := map[ssa.Value]bool{v: true}
	work := []ssa.Value{v}
	for len(work) > 0 {
		x := work[0]
		work = work[1:]
		refs := x.Referrers()
		if refs == nil {
			continue
		}
		for _, r := range *refs {
			switch y := r.(type) {
			case *ssa.Phi:
				if !al[y] {
					al[y] = true
					work = append(work, y)
				}
			case *ssa.ChangeType:
				if !al[y] {
					al[y] = true
					work = append(work, y)
				}
			}
		}
	}
	return al
}

// guardedAt: block b is dominated by the non-nil edge of a nil test on an alias.
func guardedAt(al map[ssa.Value]bool, b *ssa.BasicBlock) bool {
	for _, tb := range b.Parent().Blocks {
		x, nonNil, _, ok := nilTest(tb)
		if ok && al[x] && edgeDominates(tb, nonNil, b) {
			return true
		}
	}
	return false
}

type nilUse struct {
	in   ssa.Instruction
	what string // "deref" or "callee(arg k)"
}

// unsafeUses lists the unguarded uses of v (and aliases) that dereference it
// or hand it to a nil-unsafe parameter.
func (a *nilAnalysis) unsafeUses(v ssa.Value) []nilUse {
	al := aliasesOf(v)
	var out []nilUse
	for x := range al {
		refs := x.Referrers()
		if refs == nil {
			continue
		}
		for _, r := range *refs {
			if guardedAt(al, r.Block()) {
				continue
			}
			switch y := r.(type) {
			case *ssa.FieldAddr:
				if y.X == x {
					out = append(out, nilUse{y, "field access"})
				}
			case *ssa.UnOp:
				if y.Op == token.MUL && y.X == x {
					out = append(out, nilUse{y, "dereference"})
				}
			case ssa.CallInstruction:
				cc := y.Common()
				sc := cc.StaticCallee()
				if sc == nil {
					continue
				}
				for k, arg := range cc.Args {
					if arg == x {
						if why, bad := a.unsafeP[sc][k]; bad {
							out = append(out, nilUse{y, fmt.Sprintf("%s (argument %d: %s)", funcName(sc), k, why)})
						}
					}
				}
			}
		}
	}
	sort.Slice(out, func(i, j int) bool { return out[i].in.Pos() < out[j].in.Pos() })
	return out
}

func newNilAnalysis(w *World) *nilAnalysis {
	a := &nilAnalysis{w: w, unsafeP: map[*ssa.Function]map[int]string{}, mayNilR: map[*ssa.Function]map[int]bool{}}
	// fixpoint for unsafe parameters
	for changed := true; changed; {
		changed = false
		for _, f := range w.modFuncs {
			for i, p := range f.Params {
				if !isTSPtr(p.Type()) {
					continue
				}
				if _, done := a.unsafeP[f][i]; done {
					continue
				}
				if uses := a.unsafeUses(p); len(uses) > 0 {
					if a.unsafeP[f] == nil {
						a.unsafeP[f] = map[int]string{}
					}
					a.unsafeP[f][i] = uses[0].what + " at " + w.instrPos(uses[0].in)
					changed = true
				}
			}
		}
	}
	// fixpoint for may-nil results
	for changed := true; changed; {
		changed = false
		for _, f := range w.modFuncs {
			res := f.Signature.Results()
			for idx := 0; idx < res.Len(); idx++ {
				if !isTSPtr(res.At(idx).Type()) || a.mayNilR[f][idx] {
					continue
				}
				for _, ret := range returnsOf(f) {
					if errResultIndex(f) >= 0 && isFailureReturn(ret) {
						continue
					}
					vals, _ := resultValues(ret, idx)
					for _, v := range vals {
						if isNilConst(v) || a.isMayNilValue(v) {
							if a.mayNilR[f] == nil {
								a.mayNilR[f] = map[int]bool{}
							}
							if !a.mayNilR[f][idx] {
								a.mayNilR[f][idx] = true
								changed = true
							}
						}
					}
				}
			}
		}
	}
	return a
}

// isMayNilValue: v is the result of a may-nil function, or an element loaded
// from a []*TimeSeries that is not forwarded from a fresh object.
func (a *nilAnalysis) isMayNilValue(v ssa.Value) bool {
	switch x := v.(type) {
	case *ssa.Call:
		if sc := x.Common().StaticCallee(); sc != nil && a.mayNilR[sc][0] && x.Common().Signature().Results().Len() == 1 {
			return true
		}
	case *ssa.Extract:
		if c, ok := x.Tuple.(*ssa.Call); ok {
			if sc := c.Common().StaticCallee(); sc != nil && a.mayNilR[sc][x.Index] {
				return true
			}
		}
	case *ssa.UnOp:
		if x.Op != token.MUL {
			return false
		}
		ia, ok := x.X.(*ssa.IndexAddr)
		if !ok || !isTSPtr(x.Type()) {
			return false
		}
		vals, complete := reachingStores(ia, x)
		if complete && len(vals) > 0 {
			allFresh := true
			for _, s := range vals {
				if _, isAlloc := s.(*ssa.Alloc); !isAlloc {
					allFresh = false
				}
			}
			if allFresh {
				return false
			}
		}
		return true
	}
	return false
}

func ruleC16R2(w *World, r *Report) {
	r.Rule("C16.R2", "nil-contract (E-nil): a *TimeSeries that may be nil (result of FetchFromArchive/Fetch/sumTimeSeriesListForArchive on a success path, or an element of a []*TimeSeries not just stored from a fresh object) never reaches, in code reachable from a command or handler, a field access or a parameter that some callee dereferences without a dominating nil test", 10)
	a := newNilAnalysis(w)
	// entry points: Execute of every command, http handlers, main
	reach := map[*ssa.Function]bool{}
	var rec func(f *ssa.Function)
	rec = func(f *ssa.Function) {
		if f == nil || reach[f] || !w.inModule(f) {
			return
		}
		reach[f] = true
		for _, e := range w.callees(f) {
			rec(e.Callee.Func)
		}
		for _, af := range f.AnonFuncs {
			rec(af)
		}
	}
	for _, nt := range commandTypes(w) {
		rec(fn(w.Cmd, nt.Obj().Name()+".Execute"))
		rec(fn(w.Cmd, nt.Obj().Name()+".execute"))
	}
	for _, h := range httpHandlers(w) {
		rec(h)
	}
	rec(fn(w.Main, "main"))
	nSources := 0
	for _, f := range w.modFuncs {
		if !reach[f] {
			continue
		}
		eachInstr(f, func(in ssa.Instruction) {
			v, ok := in.(ssa.Value)
			if !ok || !isTSPtr(v.Type()) || !a.isMayNilValue(v) {
				return
			}
			nSources++
			uses := a.unsafeUses(v)
			if len(uses) == 0 {
				r.OK("C16.R2", funcName(f)+":maynil", w.instrPos(in), "possibly-nil series is only passed to nil-safe positions or used under a nil test")
				return
			}
			seen := map[string]bool{}
			for _, u := range uses {
				key := funcName(f) + ":nil->" + shortUse(u)
				if seen[key] {
					continue
				}
				seen[key] = true
				r.Violate("C16.R2", key, w.instrPos(u.in), "a *TimeSeries that may be nil (source at "+w.instrPos(in)+") reaches "+u.what+" without a nil test: nil pointer dereference (panic) for a single selected archive or a window outside an archive's retention")
			}
		})
	}
	if nSources == 0 {
		r.Undecided("C16.R2", "sources", "-", "no possibly-nil *TimeSeries source found: anchors lost")
	}
	// summary facts as evidence
	var unsafeList []string
	for f, m := range a.unsafeP {
		for i, why := range m {
			unsafeList = append(unsafeList, fmt.Sprintf("%s param %d: %s", funcName(f), i, why))
		}
	}
	sort.Strings(unsafeList)
	r.Notes = append(r.Notes, fmt.Sprintf("E-nil: %d nil-unsafe *TimeSeries parameters: %v", len(unsafeList), unsafeList))
}

func shortUse(u nilUse) string {
	if c, ok := u.in.(ssa.CallInstruction); ok {
		if sc := c.Common().StaticCallee(); sc != nil {
			for k, arg := range c.Common().Args {
				_ = arg
				_ = k
			}
			return funcName(sc)
		}
	}
	return u.what
}

// ---------- C15.R6 / C16: explicit panics ----------

func ruleC15R6(w *World, r *Report, rule string) {
	r.Rule(rule, "no reachable explicit panic: every panic() in the module sits in the default arm of a switch over AggregationMethod whose cases cover exactly the methods validateAggregationMethod accepts (C02.R2), in a function reachable only with validated headers", 1)
	for _, f := range w.modFuncs {
		eachInstr(f, func(in ssa.Instruction) {
			p, ok := in.(*ssa.Panic)
			if !ok {
				return
			}
			key := funcName(f) + ":panic"
			if funcName(f) != "whispertool.aggregate" {
				r.Violate(rule, key, w.instrPos(p), "explicit panic in "+funcName(f)+": a command or handle method can crash instead of returning an error")
				return
			}
			acc := acceptedMethods(w, fn(w.Lib, "validateAggregationMethod"))
			agg := switchCasesReturning(w, f)
			if acc == nil || agg == nil {
				r.Undecided(rule, key, w.instrPos(p), "cannot read the method sets of validateAggregationMethod/aggregate")
				return
			}
			if setEq(acc, agg) {
				r.OK(rule, key, w.instrPos(p), fmt.Sprintf("panic guarded: aggregate handles exactly the validated methods %v", sortedInts(acc)))
			} else {
				r.Violate(rule, key, w.instrPos(p), fmt.Sprintf("aggregate's panic is reachable: validated methods %v, aggregated methods %v", sortedInts(acc), sortedInts(agg)))
			}
		})
	}
	if ri := r.ruleIdx[rule]; ri != nil && ri.Count == 0 {
		r.OKTrivial(rule, "no-panic", "-", "the module contains no explicit panic")
	}
}

func setEq(a, b map[int64]bool) bool {
	if len(a) != len(b) {
		return false
	}
	for k := range a {
		if !b[k] {
			return false
		}
	}
	return true
}

func sortedInts(m map[int64]bool) []int64 {
	var out []int64
	for k := range m {
		out = append(out, k)
	}
	sort.Slice(out, func(i, j int) bool { return out[i] < out[j] })
	return out
}
