package main

import (
	"bytes"
	"fmt"
	"go/ast"
	"go/format"
	"go/parser"
	"go/token"
	"os"
	"path/filepath"
	"strings"
)

// applyAstFuzz rewrites the non-test Go files below root in place with the semantics-preserving syntactic
// transformations named in modes (see tools/astfuzz); returns the number of rewrites.
func applyAstFuzz(modeList string, root string) int {
	modes := map[string]bool{}
	for _, m := range strings.Split(modeList, ",") {
		modes[m] = true
	}
	n := 0
	filepath.Walk(root, func(p string, info os.FileInfo, err error) error {
		if err != nil || info.IsDir() || !strings.HasSuffix(p, ".go") || strings.HasSuffix(p, "_test.go") || strings.HasSuffix(p, "_string.go") {
			return nil
		}
		if strings.Contains(p, "/internal/") || strings.Contains(p, "/.git/") {
			return nil
		}
		fset := token.NewFileSet()
		f, err := parser.ParseFile(fset, p, nil, parser.ParseComments)
		if err != nil {
			return nil
		}
		ast.Inspect(f, func(nd ast.Node) bool {
			switch x := nd.(type) {
			case *ast.BinaryExpr:
				if modes["mirror"] {
					switch x.Op {
					case token.EQL, token.NEQ:
						x.X, x.Y = x.Y, x.X
						n++
					case token.LSS:
						x.X, x.Y, x.Op = x.Y, x.X, token.GTR
						n++
					case token.GTR:
						x.X, x.Y, x.Op = x.Y, x.X, token.LSS
						n++
					case token.LEQ:
						x.X, x.Y, x.Op = x.Y, x.X, token.GEQ
						n++
					case token.GEQ:
						x.X, x.Y, x.Op = x.Y, x.X, token.LEQ
						n++
					}
				}
			case *ast.IfStmt:
				if modes["negate"] {
					if eb, ok := x.Else.(*ast.BlockStmt); ok {
						x.Cond = &ast.UnaryExpr{Op: token.NOT, X: &ast.ParenExpr{X: x.Cond}}
						x.Body, x.Else = eb, x.Body
						n++
					}
				}
			}
			return true
		})
		if modes["ifinit"] || modes["elseif"] || modes["switch2if"] {
			var fixList func(list []ast.Stmt) []ast.Stmt
			var fixStmt func(s ast.Stmt) ast.Stmt
			hasBreak := func(n ast.Node) bool {
				found := false
				ast.Inspect(n, func(x ast.Node) bool {
					switch y := x.(type) {
					case *ast.FuncLit, *ast.ForStmt, *ast.RangeStmt, *ast.SwitchStmt, *ast.TypeSwitchStmt, *ast.SelectStmt:
						if x != n {
							return false
						}
					case *ast.BranchStmt:
						if y.Tok == token.BREAK || y.Tok == token.FALLTHROUGH {
							found = true
						}
					}
					return !found
				})
				return found
			}
			fixStmt = func(s ast.Stmt) ast.Stmt {
				switch x := s.(type) {
				case *ast.BlockStmt:
					x.List = fixList(x.List)
				case *ast.IfStmt:
					x.Body.List = fixList(x.Body.List)
					if x.Else != nil {
						x.Else = fixStmt(x.Else)
						if ei, ok := x.Else.(*ast.IfStmt); ok && modes["elseif"] {
							x.Else = &ast.BlockStmt{List: []ast.Stmt{ei}}
							n++
						}
					}
					if x.Init != nil && modes["ifinit"] {
						init := x.Init
						x.Init = nil
						n++
						return &ast.BlockStmt{List: []ast.Stmt{init, x}}
					}
				case *ast.ForStmt:
					x.Body.List = fixList(x.Body.List)
				case *ast.RangeStmt:
					x.Body.List = fixList(x.Body.List)
				case *ast.LabeledStmt:
					x.Stmt = fixStmt(x.Stmt)
				case *ast.SwitchStmt:
					for _, c := range x.Body.List {
						cc := c.(*ast.CaseClause)
						cc.Body = fixList(cc.Body)
					}
					if modes["switch2if"] && x.Tag == nil && x.Init == nil && len(x.Body.List) > 0 {
						ok := true
						var def *ast.CaseClause
						for i, c := range x.Body.List {
							cc := c.(*ast.CaseClause)
							if cc.List == nil {
								if i != len(x.Body.List)-1 {
									ok = false
								}
								def = cc
							}
							for _, b := range cc.Body {
								if hasBreak(b) {
									ok = false
								}
							}
						}
						if ok {
							var first, cur *ast.IfStmt
							for _, c := range x.Body.List {
								cc := c.(*ast.CaseClause)
								if cc == def {
									continue
								}
								var cond ast.Expr
								for _, e := range cc.List {
									if cond == nil {
										cond = e
									} else {
										cond = &ast.BinaryExpr{X: cond, Op: token.LOR, Y: e}
									}
								}
								is := &ast.IfStmt{Cond: cond, Body: &ast.BlockStmt{List: cc.Body}}
								if first == nil {
									first = is
								} else {
									cur.Else = is
								}
								cur = is
							}
							if first != nil {
								if def != nil {
									cur.Else = &ast.BlockStmt{List: def.Body}
								}
								n++
								return first
							}
						}
					}
				case *ast.TypeSwitchStmt:
					for _, c := range x.Body.List {
						cc := c.(*ast.CaseClause)
						cc.Body = fixList(cc.Body)
					}
				case *ast.SelectStmt:
					for _, c := range x.Body.List {
						cc := c.(*ast.CommClause)
						cc.Body = fixList(cc.Body)
					}
				}
				return s
			}
			fixList = func(list []ast.Stmt) []ast.Stmt {
				for i, s := range list {
					list[i] = fixStmt(s)
				}
				return list
			}
			for _, d := range f.Decls {
				if fd, ok := d.(*ast.FuncDecl); ok && fd.Body != nil {
					fd.Body.List = fixList(fd.Body.List)
				}
			}
			ast.Inspect(f, func(nd ast.Node) bool {
				if fl, ok := nd.(*ast.FuncLit); ok {
					fl.Body.List = fixList(fl.Body.List)
				}
				return true
			})
		}
		if modes["demorgan"] {
			var rewrite func(e ast.Expr) ast.Expr
			rewrite = func(e ast.Expr) ast.Expr {
				b, ok := e.(*ast.BinaryExpr)
				if !ok || (b.Op != token.LAND && b.Op != token.LOR) {
					return e
				}
				op := token.LOR
				if b.Op == token.LOR {
					op = token.LAND
				}
				n++
				not := func(x ast.Expr) ast.Expr {
					return &ast.UnaryExpr{Op: token.NOT, X: &ast.ParenExpr{X: rewrite(x)}}
				}
				return &ast.UnaryExpr{Op: token.NOT, X: &ast.ParenExpr{X: &ast.BinaryExpr{X: not(b.X), Op: op, Y: not(b.Y)}}}
			}
			ast.Inspect(f, func(nd ast.Node) bool {
				switch x := nd.(type) {
				case *ast.IfStmt:
					x.Cond = rewrite(x.Cond)
				case *ast.ForStmt:
					if x.Cond != nil {
						x.Cond = rewrite(x.Cond)
					}
				}
				return true
			})
		}
		var buf bytes.Buffer
		if err := format.Node(&buf, fset, f); err != nil {
			fmt.Fprintln(os.Stderr, p, err)
			return nil
		}
		os.WriteFile(p, buf.Bytes(), 0644)
		return nil
	})
	return n
}
