package main

import (
	"fmt"
	"go/token"
	"go/types"
	"math/big"
	"regexp"
	"sort"
	"strings"

	"golang.org/x/tools/go/ssa"
)

func init() {
	register(&propertyDef{
		ID: "C15",
		Explanation: "Decides untrusted-size discipline structurally: every allocation in a decoder whose length comes from the input is (a) bounded above by a rejecting test `C < count` that dominates it with C*elemSize+prefix <= MaxInt32 (so the size arithmetic, done in int after the conversion, cannot wrap on any platform), (b) non-negative by construction, and (c) dominated by the length guard `len(src) < prefix + count*elemSize` (allocation proportional to the input); Open bounds the retried header size by the file size and rejects files shorter than ExpectedFileSize, which bounds every header-sized allocation of handle methods; " +
			"decoders never read past their guards (E-codec); every division/modulo by a value from bytes is dominated by a positivity test or is a validated ArchiveInfo field; slot indexes driven by file content are bounded by the destination's length; the page cache bounds-checks before copying; the only explicit panic is unreachable for validated headers. " +
			"Not decided: hang-freedom and memory high-water marks in general; the compiler's 57 unproven bounds checks were inspected once, not decided.",
		Run: rulesC15,
	})
}

func bigMaxInt32() *big.Int { return big.NewInt(1<<31 - 1) }

func rulesC15(w *World, r *Report) {
	ce := newCodecEngine(w)
	r.Rule("C15.R1", "untrusted lengths: each MakeSlice in a TakeFrom decoder with a decoded length L is dominated by (a) a rejecting test C < L with C*elem+prefix <= MaxInt32, the product computed in int after converting L, (b) lower bounds making L >= 0, (c) this decoder's length guard on prefix + elem*L", 3)
	for _, typ := range []string{"Header", "TimeSeries", "Points"} {
		d := ce.decoder(typ)
		if d.fn == nil {
			r.Undecided("C15.R1", typ, "-", "decoder not found")
			continue
		}
		f := d.fn
		fcs := failConditions(w, f)
		eachInstr(f, func(in ssa.Instruction) {
			ms, ok := in.(*ssa.MakeSlice)
			if !ok {
				return
			}
			if _, isC := constInt(ms.Len); isC {
				return
			}
			key := typ + ":alloc"
			lexpr := newExprCtx(w).expr(stripConvert(ms.Len))
			// (c) proportional: a guard with total = c + k*L dominating
			var guard *codecGuard
			for i := range d.guards {
				g := d.guards[i]
				if g.total.k >= 1 && g.total.sym == lexpr && edgeDominates(g.from, g.pass, ms.Block()) {
					guard = &d.guards[i]
				}
			}
			if guard == nil {
				r.Violate("C15.R1", key+":proportional", w.instrPos(ms), "allocation of "+lexpr+" elements is not dominated by a length guard len(src) < prefix + elem*"+lexpr+": memory out of proportion to the input")
				return
			}
			r.OK("C15.R1", key+":proportional", w.instrPos(ms), fmt.Sprintf("guarded by len(src) >= %s", guard.total))
			// (a) upper bound C < L dominating, no wrap
			var bound *big.Int
			var boundPos ssa.Instruction
			for _, fc := range fcs {
				if fc.Op != "<" || len(fc.Guards) > 0 || !fc.At.Block().Dominates(ms.Block()) {
					continue
				}
				if fc.R != lexpr {
					continue
				}
				if c, ok := stripConvert(fc.X).(*ssa.Const); ok && c.Value != nil {
					if bi, ok2 := new(big.Int).SetString(c.Value.ExactString(), 10); ok2 {
						bound, boundPos = bi, fc.At
					}
				}
			}
			if bound == nil {
				r.Violate("C15.R1", key+":upper-bound", w.instrPos(ms), "no rejecting test `C < "+lexpr+"` dominates the allocation: the size arithmetic can wrap and a hostile count passes the length guard")
			} else {
				total := new(big.Int).Mul(bound, big.NewInt(guard.total.k))
				total.Add(total, big.NewInt(guard.total.c))
				okB := total.Cmp(bigMaxInt32()) <= 0
				r.Check(okB, "C15.R1", key+":upper-bound", w.instrPos(boundPos), fmt.Sprintf("%s <= %s, so %s <= MaxInt32", lexpr, bound, guard.total), fmt.Sprintf("the bound %s <= %s does not keep the size %s within int range (max %s): the product wraps and the length guard passes", lexpr, bound, guard.total, total))
			}
			// the product must be computed in int (after conversion), not in a narrower/unsigned type
			okMul := true
			why := ""
			eachInstr(f, func(in2 ssa.Instruction) {
				bo, ok := in2.(*ssa.BinOp)
				if !ok || bo.Op != token.MUL {
					return
				}
				e := newExprCtx(w)
				if e.expr(stripConvert(bo.X)) == lexpr || e.expr(stripConvert(bo.Y)) == lexpr {
					bt, _ := bo.Type().Underlying().(*types.Basic)
					if bt == nil || (bt.Kind() != types.Int && bt.Kind() != types.Int64) {
						okMul = false
						why = bo.Type().String()
					}
				}
			})
			r.Check(okMul, "C15.R1", key+":product-type", w.instrPos(ms), "size product computed in int", "the size product is computed in "+why+" (wraps before it is compared with len(src))")
			// (b) non-negative: the length's source is unsigned, or lower-bounded
			nonNeg := false
			src := stripConvert(ms.Len)
			if bt, ok := src.Type().Underlying().(*types.Basic); ok && bt.Info()&types.IsUnsigned != 0 {
				nonNeg = true // unsigned and <= C <= MaxInt32, so the conversion to int keeps it
			}
			if !nonNeg {
				// quotient of two values each proven non-negative / positive by rejecting tests
				if bo, ok := src.(*ssa.BinOp); ok && bo.Op == token.QUO {
					xs, ys := newExprCtx(w).expr(bo.X), newExprCtx(w).expr(bo.Y)
					okX, okY := false, false
					for _, fc := range fcs {
						if !fc.At.Block().Dominates(ms.Block()) || len(fc.Guards) > 0 {
							continue
						}
						if fc.L == xs && fc.Op == "<" && fc.R == "0" {
							okX = true
						}
						if fc.L == ys && fc.Op == "<=" && fc.R == "0" {
							okY = true
						}
					}
					nonNeg = okX && okY
				}
			}
			r.Check(nonNeg, "C15.R1", key+":non-negative", w.instrPos(ms), "the length cannot be negative", "the allocation length "+lexpr+" can be negative (no dominating tests reject a negative numerator / non-positive divisor): make panics")
		})
	}

	// ---- R2 Open-time invariants
	r.Rule("C15.R2", "size invariant: Open fails iff Stat().Size() < header.ExpectedFileSize() before returning the handle; readHeader fails iff fileSize < wanted size before allocating the retry buffer, with fileSize = Stat().Size()", 2)
	if open := need(w, r, "C15.R2", w.Lib, "Open"); open != nil {
		ok := false
		for _, fc := range failConditions(w, open) {
			if fc.Op == "<" && regexp.MustCompile(`^(\S+\.)?Size\(\)?`).MatchString(strings.TrimPrefix(fc.L, "(")) || (fc.Op == "<" && strings.Contains(fc.L, ".Size()") && strings.Contains(fc.R, "ExpectedFileSize(")) {
				if strings.Contains(fc.R, "ExpectedFileSize(") {
					ok = true
				}
			}
		}
		r.Check(ok, "C15.R2", "Open:size-invariant", w.pos(open.Pos()), "a file shorter than its header describes is rejected", "Open does not reject a file shorter than ExpectedFileSize(): raw dumps and fetches then allocate numberOfPoints records for a truncated file")
		// nothing is sized by what the header claims before that test: a call of Open that is handed a header-derived
		// size comes after the passing edge of the size test (error texts excepted)
		var testAt ssa.Instruction
		for _, fc := range failConditions(w, open) {
			if fc.Op == "<" && strings.Contains(fc.L, "Size()") && strings.Contains(fc.R, "ExpectedFileSize(") {
				testAt = fc.At
			}
		}
		bad := ""
		n := 0
		for _, c := range callsIn(open) {
			sc := c.Common().StaticCallee()
			if sc == nil || (sc.Pkg != nil && sc.Pkg.Pkg.Path() == "fmt") || sc == fn(w.Lib, "Header.ExpectedFileSize") {
				continue
			}
			claimed := false
			for _, a := range c.Common().Args {
				if strings.Contains(newExprCtx(w).expr(a), "ExpectedFileSize(") {
					claimed = true
				}
			}
			if !claimed {
				continue
			}
			n++
			if testAt == nil || !testAt.Block().Dominates(c.Block()) || testAt.Block() == c.Block() {
				if bad == "" {
					bad = funcName(sc) + " at " + w.instrPos(c) + " is given the size the header claims before the file was found to be that long"
				}
			}
		}
		r.Check(bad == "", "C15.R2", "Open:claimed-size-after-test", w.pos(open.Pos()), fmt.Sprintf("%d calls take a header-derived size, each after the size test", n), "Open: "+bad+": reading or allocating by a claimed size on a truncated file panics or over-allocates")
	}
	if rh := need(w, r, "C15.R2", w.Lib, "Whisper.readHeader"); rh != nil {
		ok := false
		var mk *ssa.MakeSlice
		eachInstr(rh, func(in ssa.Instruction) {
			if ms, isMS := in.(*ssa.MakeSlice); isMS {
				if _, isC := constInt(ms.Len); !isC && strings.Contains(newExprCtx(w).expr(ms.Len), "WantedBufSize") {
					mk = ms
				}
			}
		})
		for _, fc := range failConditions(w, rh) {
			if fc.Op == "<" && strings.Contains(fc.R, "WantedBufSize") && regexp.MustCompile(`^p\d+$`).MatchString(fc.L) && (mk == nil || fc.At.Block().Dominates(mk.Block())) {
				ok = true
			}
		}
		// the parameter must be the file's size at the call site
		if ok {
			for _, c := range callsTo(fn(w.Lib, "Open"), rh) {
				arg := newExprCtx(w).expr(c.Common().Args[1])
				if !strings.Contains(arg, ".Size()") {
					ok = false
				}
			}
		}
		r.Check(ok, "C15.R2", "readHeader:retry-bounded", w.pos(rh.Pos()), "the retry buffer is bounded by the file size", "readHeader sizes its retry buffer from the untrusted archive count without bounding it by the file's size")
	}

	// ---- R3 decoders never read past their guards
	r.Rule("C15.R3", "E-codec: in all eight decoders every read and nested decode is covered by a dominating length guard", 8)
	for _, typ := range codecTypes {
		d := ce.decoder(typ)
		if d.fn == nil {
			r.Undecided("C15.R3", typ, "-", "decoder not found")
			continue
		}
		n := reportCodecProblems(w, r, "C15", d, map[string]bool{"R3": true})
		if n == 0 {
			r.OK("C15.R3", typ+":bounded-reads", w.pos(d.fn.Pos()), fmt.Sprintf("%d reads, %d nested decodes within guards", len(d.reads), len(d.nested)))
		}
	}

	// ---- R4 divisors
	r.Rule("C15.R4", "divisors: every / and % in the module by a non-constant is by a validated ArchiveInfo field (step/points; ArchiveInfo.validate rejects <= 0), by a value with a dominating rejecting test `x <= 0`/`x == 0`, by floorMod's modulus (whose call sites pass such fields), or by a unit multiplier from the constant table", 10)
	_, stepF, ptsF := archiveInfoRoles(w)
	aiOK := false
	if av := fn(w.Lib, "ArchiveInfo.validate"); av != nil {
		have := map[string]bool{}
		for _, fc := range failConditions(w, av) {
			have[fc.Core()] = true
		}
		aiOK = have["p0."+stepF+" <= 0"] && have["p0."+ptsF+" <= 0"]
	}
	ruleAllArchivesValidated(w, r, "C15.R4")
	reField := regexp.MustCompile(`(^|[^A-Za-z])(` + regexp.QuoteMeta(stepF) + `|` + regexp.QuoteMeta(ptsF) + `)$`)
	isValidatedField := func(s string) bool {
		s = strings.TrimSuffix(s, ")")
		if strings.HasPrefix(s, "whispertool.ArchiveInfo.SecondsPerPoint(") || strings.HasPrefix(s, "whispertool.ArchiveInfo.NumberOfPoints(") {
			return aiOK
		}
		return aiOK && reField.MatchString(s)
	}
	for _, f := range w.modFuncs {
		fcs := failConditions(w, f)
		eachInstr(f, func(in ssa.Instruction) {
			bo, ok := in.(*ssa.BinOp)
			if !ok || (bo.Op != token.QUO && bo.Op != token.REM) {
				return
			}
			if bt, ok := bo.Type().Underlying().(*types.Basic); ok && bt.Info()&types.IsFloat != 0 {
				return
			}
			if _, isC := stripConvert(bo.Y).(*ssa.Const); isC {
				return
			}
			ds := newExprCtx(w).expr(stripConvert(bo.Y))
			key := funcName(f) + ":div:" + shortExpr(ds)
			// only divisors that can come from file/wire bytes (decoded fields, decoded integers) or from parameters are in scope
			hostile := false
			for _, mark := range []string{"secondsPerPoint", "numberOfPoints", ".step", "archiveCount", "SecondsPerPoint(", "NumberOfPoints(", "MaxRetention(", "Uint32(", "Uint64(", "unitMultiplier("} {
				if strings.Contains(ds, mark) {
					hostile = true
				}
			}
			if regexp.MustCompile(`^p\d+$`).MatchString(ds) && pkgOf(f) == w.Lib {
				hostile = true
			}
			if !hostile {
				return
			}
			switch {
			case isValidatedField(ds):
				r.OK("C15.R4", key, w.instrPos(bo), "divisor is a validated ArchiveInfo field")
			case funcName(f) == "whispertool.floorMod":
				// modulus parameter: all call sites pass validated fields
				bad := ""
				for _, e := range w.callers(f) {
					if e.Site == nil {
						continue
					}
					as := newExprCtx(w).expr(stripConvert(e.Site.Common().Args[1]))
					if !isValidatedField(as) {
						bad = as + " at " + w.instrPos(e.Site)
					}
				}
				r.Check(bad == "", "C15.R4", key, w.instrPos(bo), "floorMod's modulus is a validated field at every call site", "floorMod is called with modulus "+bad+", which is not proven non-zero")
			case strings.HasPrefix(ds, "whispertool.unitMultiplier("):
				r.OK("C15.R4", key, w.instrPos(bo), "divisor is a unit multiplier (>= 1 by the constant table, C19.R1)")
			default:
				guarded := false
				for _, fc := range fcs {
					if !fc.At.Block().Dominates(bo.Block()) {
						continue
					}
					if (fc.L == ds && (fc.Op == "<=" || fc.Op == "==") && fc.R == "0") || (fc.R == ds && fc.Op == "==" && fc.L == "0") {
						guarded = true
					}
				}
				// short-circuit: `a <= 0 || b <= 0 || b%a != 0`
				if !guarded {
					for _, g := range blockGuards(w, bo.Block()) {
						if g == "!("+ds+" <= 0)" || g == "("+ds+" > 0)" {
							guarded = true
						}
					}
					for _, fc := range fcs {
						if fc.L == ds && fc.Op == "<=" && fc.R == "0" {
							// evaluated earlier in the same short-circuit chain (its block dominates)
							if fc.At.Block().Dominates(bo.Block()) {
								guarded = true
							}
						}
					}
				}
				r.Check(guarded, "C15.R4", key, w.instrPos(bo), "divisor proven non-zero by a dominating rejecting test", "division by "+ds+", which can be zero for hostile input (no dominating test rejects it): integer divide by zero panic")
			}
		})
	}

	// ---- R5 page cache
	r.Rule("C15.R5", "dependency: FileBuffer.ReadAt and WriteAt call checkOffsetAndLength first and fail on its error before any page is touched", 2)
	for _, name := range []string{"FileBuffer.ReadAt", "FileBuffer.WriteAt"} {
		f := fn(w.FB, name)
		chk := fn(w.FB, "checkOffsetAndLength")
		if f == nil || chk == nil {
			r.Undecided("C15.R5", name, "-", "not found")
			continue
		}
		ok := false
		for _, c := range callsTo(f, chk) {
			if checkErrorHandled(w, c) != "" {
				continue
			}
			succ, _, okE := successEdge(c)
			if !okE {
				continue
			}
			ok = true
			for _, c2 := range callsIn(f) {
				cv, isCall := c2.(*ssa.Call)
				if !isCall {
					continue
				}
				if isBuiltin(cv, "copy") || (cv.Common().StaticCallee() != nil && (cv.Common().StaticCallee().Name() == "preread" || cv.Common().StaticCallee().Name() == "getBuf")) {
					if !(succ == cv.Block() || succ.Dominates(cv.Block())) {
						ok = false
					}
				}
			}
		}
		r.Check(ok, "C15.R5", name, w.pos(f.Pos()), "bounds are checked before any page access", name+" touches pages before/without checkOffsetAndLength succeeding")
	}

	// ---- R7 content-driven indexes
	r.Rule("C15.R7", "bounded indexes: in methods of *Whisper every element store/load whose index is a loop-carried counter is dominated by a test counter < len(that slice) (or the loop ranges over the slice)", 4)
	ruleLastIndexGuarded(w, r, "C15.R7")
	for _, f := range libFuncs(w) {
		if f.Signature.Recv() == nil || namedTypeName(f.Signature.Recv().Type()) != "Whisper" {
			continue
		}
		eachInstr(f, func(in ssa.Instruction) {
			ia, ok := in.(*ssa.IndexAddr)
			if !ok {
				return
			}
			ph, ok := ia.Index.(*ssa.Phi)
			if !ok || !isLoopHeaderPhi(ph) {
				if bo, isBo := ia.Index.(*ssa.BinOp); isBo && bo.Op == token.ADD { // range loops: phi+1
					if p2, ok2 := bo.X.(*ssa.Phi); ok2 && isLoopHeaderPhi(p2) {
						ph = p2
					} else {
						return
					}
				} else {
					return
				}
			}
			if _, isSlice := ia.X.Type().Underlying().(*types.Slice); !isSlice {
				return
			}
			key := funcName(f) + ":index:" + shortExpr(newExprCtx(w).expr(ia.X))
			bounded := false
			for _, b := range f.Blocks {
				if len(b.Instrs) == 0 {
					continue
				}
				iff, isIf := b.Instrs[len(b.Instrs)-1].(*ssa.If)
				if !isIf {
					continue
				}
				bo, isBo := iff.Cond.(*ssa.BinOp)
				if !isBo {
					continue
				}
				// idx < len(X), in either orientation
				op, lv, idxV, okC := orientCmp(bo, func(v ssa.Value) bool {
					c, ok := v.(*ssa.Call)
					return ok && isBuiltin(c, "len")
				})
				if !okC || op != token.GTR {
					continue
				}
				lc := lv.(*ssa.Call)
				sameSlice := lc.Common().Args[0] == ia.X || newExprCtx(w).expr(lc.Common().Args[0]) == newExprCtx(w).expr(ia.X)
				sameIdx := idxV == ia.Index || idxV == ssa.Value(ph)
				if sameSlice && sameIdx && edgeDominates(b, b.Succs[0], ia.Block()) {
					bounded = true
				}
			}
			r.Check(bounded, "C15.R7", key, w.instrPos(ia), "index bounded by the slice's length", "the slot counter indexing "+newExprCtx(w).expr(ia.X)+" is driven by offsets computed from file content and is not bounded by the slice's length: a corrupt base interval makes it run past the end (index out of range panic)")
		})
	}
	// a piece of a split response is taken only after the number of pieces was looked at: Split/SplitN/Fields of
	// foreign text may give fewer pieces than the code hopes for
	{
		n := 0
		bad := ""
		for _, f := range cmdFuncs(w) {
			eachInstr(f, func(in ssa.Instruction) {
				var x, idx ssa.Value
				switch t := in.(type) {
				case *ssa.IndexAddr:
					x, idx = t.X, t.Index
				case *ssa.Index:
					x, idx = t.X, t.Index
				default:
					return
				}
				c, ok := x.(*ssa.Call)
				if !ok {
					return
				}
				sc := c.Common().StaticCallee()
				if sc == nil || sc.Pkg == nil || (sc.Pkg.Pkg.Path() != "strings" && sc.Pkg.Pkg.Path() != "bytes") {
					return
				}
				switch sc.Name() {
				case "Split", "SplitN", "SplitAfter", "SplitAfterN", "Fields", "FieldsFunc":
				default:
					return
				}
				k, isK := constInt(idx)
				if isK && k == 0 && strings.HasPrefix(sc.Name(), "Split") {
					return // Split of anything by a non-empty separator has a first piece
				}
				n++
				// a dominating test on len(of that very result)
				guarded := false
				for _, b := range f.Blocks {
					if len(b.Instrs) == 0 || !b.Dominates(in.Block()) {
						continue
					}
					iff, isIf := b.Instrs[len(b.Instrs)-1].(*ssa.If)
					if !isIf {
						continue
					}
					if bo, isBo := iff.Cond.(*ssa.BinOp); isBo {
						for _, side := range []ssa.Value{bo.X, bo.Y} {
							if lc, isC := side.(*ssa.Call); isC {
								if bi, isB := lc.Common().Value.(*ssa.Builtin); isB && bi.Name() == "len" && lc.Common().Args[0] == x {
									guarded = true
								}
							}
						}
					}
				}
				if !guarded && bad == "" {
					bad = funcName(f) + " takes piece " + newExprCtx(w).expr(idx) + " of " + sc.Pkg.Pkg.Path() + "." + sc.Name() + " at " + w.instrPos(in) + " without having looked at the number of pieces"
				}
			})
		}
		r.Check(bad == "", "C15.R7", "cmd:split-piece-checked", "cmd", fmt.Sprintf("%d pieces of a split taken in package cmd, each after a length test", n), bad+": a response (or line) without the separator makes the command panic with index out of range")
	}
	// the client side does not hang on foreign text: every loop in the cmd functions below the *Remote readers is
	// driven by its input getting shorter — a counter against a length, a range, or a Scanner — not by a predicate on
	// the data that its body is hoped to make false
	{
		var roots []*ssa.Function
		for _, f := range cmdFuncs(w) {
			for _, c := range callsIn(f) {
				if isCallToPkgFunc(c, "net/http", "Get") {
					roots = append(roots, f)
					break
				}
			}
		}
		scope := map[*ssa.Function]bool{}
		for _, root := range roots {
			for g := range moduleReachable(w, []*ssa.Function{root}, nil) {
				if g.Pkg == w.Cmd {
					scope[g] = true
				}
			}
		}
		var fs []*ssa.Function
		for g := range scope {
			fs = append(fs, g)
		}
		sort.Slice(fs, func(i, j int) bool { return funcName(fs[i]) < funcName(fs[j]) })
		bad := ""
		n := 0
		for _, g := range fs {
			for _, b := range g.Blocks {
				if !isLoopHeader(b) || len(b.Instrs) == 0 {
					continue
				}
				n++
				iff, ok := b.Instrs[len(b.Instrs)-1].(*ssa.If)
				if !ok {
					continue // for { ... } with exits inside: judged by its exits' tests below
				}
				okLoop := false
				cond, _ := stripNot(iff.Cond)
				switch t := cond.(type) {
				case *ssa.BinOp:
					for _, side := range []ssa.Value{t.X, t.Y} {
						if lc, isC := side.(*ssa.Call); isC {
							if bi, isB := lc.Common().Value.(*ssa.Builtin); isB && bi.Name() == "len" {
								okLoop = true
							}
						}
						if _, isK := side.(*ssa.Const); isK {
							if _, isPhi := t.X.(*ssa.Phi); isPhi {
								okLoop = true // a counted loop
							}
						}
					}
				case *ssa.Call:
					if isMethodCall(t, "bufio", "Scanner", "Scan") {
						okLoop = true
					}
				case *ssa.Extract:
					if _, isNext := t.Tuple.(*ssa.Next); isNext {
						okLoop = true
					}
				}
				if !okLoop && bad == "" {
					bad = "the loop at " + w.blockPos(b) + " in " + funcName(g) + " goes on while " + shortExpr(newExprCtx(w).expr(iff.Cond))
				}
			}
		}
		r.Check(bad == "", "C15.R7", "cmd:client-loops-bounded", "cmd", fmt.Sprintf("%d loops below the remote readers, each driven by a length, a range or a Scanner", n), bad+": whether it ends depends on what the response contains (a name the body does not change keeps it spinning)")
	}
	ruleC15R6(w, r, "C15.R6")
	ruleClientAllocations(w, r, "C15.R8")
	ruleCmdAllocations(w, r, "C15.R8")
}

// ruleClientAllocations: the functions of cmd that talk to a server (they call net/http.Get, directly or through
// cmd helpers) allocate only amounts taken from what was actually received: every non-constant make length there is
// built from len(...) of something and constants. A length taken from a field of the response (Content-Length) or
// from a parsed header is the server's claim, not the input's size.
func ruleClientAllocations(w *World, r *Report, id string) {
	r.Rule(id, "client allocations: in the cmd functions that issue HTTP requests (and the cmd helpers they call) every non-constant make length is built from len(...) and constants only, never from a field of the response or a parsed number", 4)
	var roots []*ssa.Function
	for _, f := range cmdFuncs(w) {
		for _, c := range callsIn(f) {
			if isCallToPkgFunc(c, "net/http", "Get") || isCallToPkgFunc(c, "net/http", "Post") {
				roots = append(roots, f)
				break
			}
			if c.Common().IsInvoke() == false {
				if sc := c.Common().StaticCallee(); sc != nil && sc.Pkg != nil && sc.Pkg.Pkg.Path() == "net/http" && (sc.Name() == "Do" || sc.Name() == "Get") {
					roots = append(roots, f)
					break
				}
			}
		}
	}
	sort.Slice(roots, func(i, j int) bool { return funcName(roots[i]) < funcName(roots[j]) })
	for _, root := range roots {
		scope := []*ssa.Function{root}
		for g := range moduleReachable(w, []*ssa.Function{root}, nil) {
			if g != root && g.Pkg == w.Cmd {
				scope = append(scope, g)
			}
		}
		sort.Slice(scope[1:], func(i, j int) bool { return funcName(scope[1+i]) < funcName(scope[1+j]) })
		bad := ""
		var badAt ssa.Instruction
		n := 0
		argsOf := func(p *ssa.Parameter) []ssa.Value {
			var out []ssa.Value
			idx := -1
			for i, q := range p.Parent().Params {
				if q == p {
					idx = i
				}
			}
			for _, g := range scope {
				for _, c := range callsIn(g) {
					if c.Common().StaticCallee() == p.Parent() && idx >= 0 && idx < len(c.Common().Args) {
						out = append(out, c.Common().Args[idx])
					}
				}
			}
			return out
		}
		for _, f := range scope {
			eachInstr(f, func(in ssa.Instruction) {
				var lns []ssa.Value
				switch t := in.(type) {
				case *ssa.MakeSlice:
					lns = []ssa.Value{t.Len, t.Cap}
				case *ssa.MakeMap:
					lns = []ssa.Value{t.Reserve}
				case *ssa.MakeChan:
					lns = []ssa.Value{t.Size}
				}
				for _, ln := range lns {
					if ln == nil {
						continue
					}
					if _, isC := ln.(*ssa.Const); isC {
						continue
					}
					n++
					if why := lengthNotReceived(ln, map[ssa.Value]bool{}, argsOf); why != "" && bad == "" {
						bad, badAt = why, in
					}
				}
			})
		}
		if bad != "" {
			r.Violate(id, funcName(root)+":sized-by-input", w.instrPos(badAt), "an allocation reachable from "+funcName(root)+" is sized by "+bad+": a response claiming a large size makes the client allocate out of proportion to what it received (or panic in make)")
		} else {
			r.OK(id, funcName(root)+":sized-by-input", w.pos(root.Pos()), fmt.Sprintf("%d non-constant make lengths, all built from len(...) and constants", n))
		}
	}
}

// ruleCmdAllocations: what the commands allocate after decoding follows the data they hold, not a count a header claims:
// every non-constant make length or capacity in package cmd is built from len(...) and constants. randomPoints is the
// one exception (it sizes the series generate invents from the layout the user asked for; no input bytes are involved).
func ruleCmdAllocations(w *World, r *Report, id string) {
	exempt := map[string]string{"cmd.randomPoints": "generate sizes the series it invents from the requested layout"}
	for _, f := range cmdFuncs(w) {
		if _, ok := exempt[funcName(f)]; ok {
			continue
		}
		bad := ""
		var badAt ssa.Instruction
		n := 0
		argsOf := func(p *ssa.Parameter) []ssa.Value {
			var out []ssa.Value
			for i, q := range p.Parent().Params {
				if q != p {
					continue
				}
				for _, g := range cmdFuncs(w) {
					for _, c := range callsIn(g) {
						if c.Common().StaticCallee() == p.Parent() && i < len(c.Common().Args) {
							out = append(out, c.Common().Args[i])
						}
					}
				}
			}
			return out
		}
		eachInstr(f, func(in ssa.Instruction) {
			ms, ok := in.(*ssa.MakeSlice)
			if !ok {
				return
			}
			for _, ln := range []ssa.Value{ms.Len, ms.Cap} {
				if _, isC := ln.(*ssa.Const); isC || ln == nil {
					continue
				}
				n++
				if why := lengthNotReceived(ln, map[ssa.Value]bool{}, argsOf); why != "" && bad == "" {
					bad, badAt = why, in
				}
			}
		})
		if n == 0 {
			continue
		}
		if bad != "" {
			r.Violate(id, funcName(f)+":make-sized-by-data", w.instrPos(badAt), funcName(f)+" sizes an allocation by "+bad+": for a remote source that is a number the response claims (a header is only checked for self-consistency), so a few bytes make the command allocate out of proportion to them")
		} else {
			r.OK(id, funcName(f)+":make-sized-by-data", w.pos(f.Pos()), fmt.Sprintf("%d non-constant make lengths/capacities, all built from len(...) and constants", n))
		}
	}
}

// lengthNotReceived: "" when v is built from len(...)/cap(...) results and constants by arithmetic; otherwise the
// first foreign ingredient.
func lengthNotReceived(v ssa.Value, seen map[ssa.Value]bool, argsOf func(*ssa.Parameter) []ssa.Value) string {
	if seen[v] {
		return ""
	}
	seen[v] = true
	switch t := v.(type) {
	case *ssa.Const:
		return ""
	case *ssa.Convert:
		return lengthNotReceived(t.X, seen, argsOf)
	case *ssa.ChangeType:
		return lengthNotReceived(t.X, seen, argsOf)
	case *ssa.BinOp:
		if why := lengthNotReceived(t.X, seen, argsOf); why != "" {
			return why
		}
		return lengthNotReceived(t.Y, seen, argsOf)
	case *ssa.Phi:
		for _, e := range t.Edges {
			if why := lengthNotReceived(e, seen, argsOf); why != "" {
				return why
			}
		}
		return ""
	case *ssa.Call:
		if bi, ok := t.Common().Value.(*ssa.Builtin); ok && (bi.Name() == "len" || bi.Name() == "cap" || bi.Name() == "min") {
			if bi.Name() == "min" {
				for _, a := range t.Common().Args {
					if lengthNotReceived(a, map[ssa.Value]bool{}, argsOf) == "" {
						return ""
					}
				}
				return "min(...) of foreign values"
			}
			return ""
		}
		if sc := t.Common().StaticCallee(); sc != nil {
			return "the result of " + funcName(sc)
		}
		return "a call result"
	case *ssa.UnOp:
		if t.Op == token.MUL {
			if fa, ok := t.X.(*ssa.FieldAddr); ok {
				st := fa.X.Type().Underlying().(*types.Pointer).Elem()
				fld := st.Underlying().(*types.Struct).Field(fa.Field).Name()
				return "the field " + namedTypeString(st) + "." + fld
			}
			return "a loaded value"
		}
		return lengthNotReceived(t.X, seen, argsOf)
	case *ssa.Parameter:
		// sized by the caller: the call sites in scope are examined
		for _, a := range argsOf(t) {
			if why := lengthNotReceived(a, seen, argsOf); why != "" {
				return why
			}
		}
		return ""
	case *ssa.Extract:
		return lengthNotReceived(t.Tuple, seen, argsOf)
	}
	return "a " + fmt.Sprintf("%T", v)
}

func namedTypeString(t types.Type) string {
	if n, ok := t.(*types.Named); ok {
		return n.Obj().Name()
	}
	return t.String()
}

func isLoopHeaderPhi(ph *ssa.Phi) bool {
	if !isLoopHeader(ph.Block()) {
		// counters declared before a loop and incremented inside still form a phi at the loop header
		return false
	}
	for _, e := range ph.Edges {
		if bo, ok := e.(*ssa.BinOp); ok && bo.Op == token.ADD && bo.X == ssa.Value(ph) {
			return true
		}
	}
	return false
}

func shortExpr(s string) string {
	if len(s) > 60 {
		return s[:57] + "..."
	}
	return s
}
