package main

import (
	"fmt"
	"sort"
	"strings"

	"golang.org/x/tools/go/ssa"
)

// Error discipline inside the code a property is decided in. C16 states it for the whole module; a failure turned into
// success inside, say, UpdatePointsForArchive also loses points (C03) and leaves coarser archives stale (C02), so the
// same four forms are evaluated for every property over the module functions reachable from that property's entry
// points (rule <property>.RE):
//   - a return of the nil error inside the region entered only with a non-nil error (unless the error was classified),
//   - a return of the tested error on its own nil edge (inverted test),
//   - a path from the failure edge of a tested call to a success return that never touches the error,
//   - an error stored into a local/named result and overwritten or dropped before anything reads it.

// propertyEntries: the functions a property's behaviour starts from. lib:<name>, cmd:<name> or cmdtype:<receiver type>.
var propertyEntries = map[string][]string{
	"C01": {"lib:Whisper.FetchFromArchive", "lib:Whisper.UpdatePointForArchive", "lib:Whisper.UpdatePointsForArchive", "lib:Whisper.GetAllRawUnsortedPoints"},
	"C02": {"lib:Whisper.UpdatePointForArchive", "lib:Whisper.UpdatePointsForArchive"},
	"C03": {"lib:Whisper.UpdatePointForArchive", "lib:Whisper.UpdatePointsForArchive"},
	"C04": {"lib:Whisper.FetchFromArchive", "lib:Whisper.Fetch"},
	"C05": {"lib:Whisper.Sync", "lib:Create", "lib:Open"},
	"C06": {"lib:Create", "lib:Open", "lib:Whisper.UpdatePointsForArchive", "lib:Whisper.FetchFromArchive"},
	"C07": {"lib:NewHeader", "lib:Create", "lib:Open", "lib:ParseArchiveInfoList", "lib:Header.TakeFrom"},
	"C08": {"cmdtype:CopyCommand"},
	"C09": {"cmdtype:DiffCommand"},
	"C10": {"cmdtype:SumCommand"},
	"C11": {"cmdtype:SumCopyCommand", "cmdtype:SumDiffCommand"},
	"C12": {"cmdtype:app", "cmd:readWhisperFileRemote", "cmd:readWhisperFileRawRemote", "cmd:sumWhisperFileRemote", "cmd:globItemsRemote", "cmd:globFilesRemote", "cmd:getFileDataFromRemote", "cmd:getRawFileDataFromRemote"},
	"C13": {"lib:Open", "lib:Create", "lib:Whisper.Close"},
	"C14": {"lib:Header.TakeFrom", "lib:TimeSeries.TakeFrom", "lib:Points.TakeFrom", "lib:Whisper.readHeader"},
	"C15": {"lib:Open", "lib:Header.TakeFrom", "lib:TimeSeries.TakeFrom", "lib:Points.TakeFrom", "lib:Whisper.FetchFromArchive", "lib:Whisper.GetAllRawUnsortedPoints"},
	"C18": {"cmdtype:ViewCommand", "cmdtype:ViewRawCommand"},
	"C19": {"lib:ParseDuration", "lib:ParseArchiveInfoList", "lib:ParseArchiveInfo", "lib:ParseTimestamp"},
	"C20": {"cmdtype:GenerateCommand"},
}

func moduleReachable(w *World, roots []*ssa.Function, mineTypes []string) map[*ssa.Function]bool {
	seen := map[*ssa.Function]bool{}
	var q []*ssa.Function
	for _, f := range roots {
		if f != nil && !seen[f] {
			seen[f] = true
			q = append(q, f)
		}
	}
	mine := func(tn string) bool {
		for _, x := range mineTypes {
			if x == tn {
				return true
			}
		}
		return false
	}
	for len(q) > 0 {
		f := q[0]
		q = q[1:]
		for _, e := range w.callees(f) {
			g := e.Callee.Func
			if !w.inModule(g) || seen[g] {
				continue
			}
			// the callback of shared helpers resolves to every command's body: another command's code is not ours
			if o := ownerTypeName(g); strings.HasSuffix(o, "Command") && len(mineTypes) > 0 && !mine(o) {
				continue
			}
			seen[g] = true
			q = append(q, g)
		}
		for _, g := range f.AnonFuncs {
			if !seen[g] {
				seen[g] = true
				q = append(q, g)
			}
		}
	}
	return seen
}

func ownerTypeName(f *ssa.Function) string {
	root := f
	for root.Parent() != nil {
		root = root.Parent()
	}
	if root.Signature.Recv() == nil {
		return ""
	}
	s := root.Signature.Recv().Type().String()
	s = strings.TrimPrefix(s, "*")
	if i := strings.LastIndex(s, "."); i >= 0 {
		s = s[i+1:]
	}
	return s
}

func ruleErrorDisciplineScoped(w *World, r *Report, prop string) {
	entries, ok := propertyEntries[prop]
	if !ok {
		return
	}
	rule := prop + ".RE"
	r.Rule(rule, "error discipline in the functions reachable from this property's entry points: no nil return inside a failure region (unless the error was classified), no return of a tested error on its nil edge, no path from a failure edge to a success return that never touches the error, no error stored and then overwritten or dropped unread", 1)
	var roots []*ssa.Function
	var types []string
	for _, e := range entries {
		switch {
		case strings.HasPrefix(e, "lib:"):
			roots = append(roots, fn(w.Lib, e[4:]))
		case strings.HasPrefix(e, "cmd:"):
			roots = append(roots, fn(w.Cmd, e[4:]))
		case strings.HasPrefix(e, "cmdtype:"):
			types = append(types, e[8:])
			for _, f := range cmdFuncs(w) {
				if ownerTypeName(f) == e[8:] {
					roots = append(roots, f)
				}
			}
		}
	}
	scope := moduleReachable(w, roots, types)
	var fs []*ssa.Function
	for f := range scope {
		if len(f.Blocks) > 0 {
			fs = append(fs, f)
		}
	}
	sort.Slice(fs, func(i, j int) bool { return funcName(fs[i]) < funcName(fs[j]) })
	n := 0
	for _, f := range fs {
		for _, v := range errorDisciplineViolations(w, f) {
			n++
			r.Violate(rule, v.key, v.pos, v.msg)
		}
	}
	if n == 0 {
		r.OK(rule, "scope", "-", fmt.Sprintf("%d functions reachable from %s examined: no failure is turned into success", len(fs), strings.Join(entries, ", ")))
	}
	if len(fs) < 2 {
		r.Undecided(rule, "scope:entries", "-", "entry points not found: "+strings.Join(entries, ", "))
	}
}

type discViolation struct{ key, pos, msg string }

// errorDisciplineViolations: the four forms for one function (violations only).
func errorDisciplineViolations(w *World, f *ssa.Function) []discViolation {
	var out []discViolation
	idx := errResultIndex(f)
	if idx >= 0 && len(f.Blocks) > 0 {
		type region struct {
			test, head *ssa.BasicBlock
			x          ssa.Value
		}
		var regions []region
		for _, b := range f.Blocks {
			x, nonNil, nilHead, ok := nilTest(b)
			if !ok {
				continue
			}
			if isErrorType(x.Type()) || isErrorLikePointer(x.Type()) {
				regions = append(regions, region{b, nonNil, x})
			}
			// inverted test
			if isErrorType(x.Type()) && isCallError(x) {
				for _, ret := range returnsOf(f) {
					if idx < len(ret.Results) && ret.Results[idx] == x && edgeDominates(b, nilHead, ret.Block()) {
						out = append(out, discViolation{fmt.Sprintf("%s:returns-nil-error:%s", funcName(f), errSourceName(x)), w.instrPos(ret),
							fmt.Sprintf("returns the error of %s on the branch where it was just found nil: success is reported from here and the rest of %s is skipped (the test reads inverted)", errSourceName(x), funcName(f))})
					}
				}
			}
		}
		for _, ret := range returnsOf(f) {
			vals, complete := resultValues(ret, idx)
			nilRet := complete && len(vals) > 0
			for _, v := range vals {
				if classifyErr(v).class != errNil {
					nilRet = false
				}
			}
			if !nilRet {
				continue
			}
			for _, rg := range regions {
				if !edgeDominates(rg.test, rg.head, ret.Block()) {
					continue
				}
				if !errorClassifiedBefore(rg.x, rg.test, rg.head, ret) {
					out = append(out, discViolation{fmt.Sprintf("%s:ret-in-err-region", funcName(f)), w.instrPos(ret),
						fmt.Sprintf("returns nil although it is only reached when the error tested at %s is non-nil: the failure is reported as success", w.blockPos(rg.test))})
					break
				}
			}
		}
		for _, rg := range regions {
			if !isErrorType(rg.x.Type()) || !isCallError(rg.x) {
				continue
			}
			bad := unhandledErrorPath(rg.x, rg.test, rg.head, idx)
			if bad == nil || edgeDominates(rg.test, rg.head, bad.Block()) {
				continue
			}
			out = append(out, discViolation{fmt.Sprintf("%s:err-edge:%s", funcName(f), errSourceName(rg.x)), w.blockPos(rg.test),
				fmt.Sprintf("when %s fails the function can still reach the success return at %s without touching the error: the failure is reported as success", errSourceName(rg.x), posOr(w, bad))})
		}
	}
	eachInstr(f, func(in ssa.Instruction) {
		st, ok := in.(*ssa.Store)
		if !ok || !isErrorType(st.Val.Type()) || !isCallError(st.Val) {
			return
		}
		al, ok := st.Addr.(*ssa.Alloc)
		if !ok || allocCaptured(al) || storeIsRead(st, al) {
			return
		}
		out = append(out, discViolation{fmt.Sprintf("%s:dead-error-store:%s", funcName(f), errSourceName(st.Val)), w.instrPos(st),
			"the error of " + errSourceName(st.Val) + " is stored and then overwritten or dropped before anything tests it: a failure here is reported as success"})
	})
	return out
}
