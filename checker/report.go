package main

import (
	"bufio"
	"encoding/json"
	"fmt"
	"os"
	"path/filepath"
	"sort"
	"strings"
	"time"
)

type Verdict string

const (
	Discharged Verdict = "discharged"
	Violated   Verdict = "violated"
	Undecided  Verdict = "undecided"
)

// Oblig is one proof obligation: a rule applied to one construct.
type Oblig struct {
	Rule       string   `json:"rule"`
	Key        string   `json:"construct"` // position-free key
	Pos        string   `json:"pos"`
	Verdict    Verdict  `json:"verdict"`
	Detail     string   `json:"detail,omitempty"`
	Witness    []string `json:"witness,omitempty"`
	NonTrivial bool     `json:"nontrivial"`
	Config     string   `json:"config,omitempty"`
	Known      string   `json:"known_finding,omitempty"`
}

type RuleInfo struct {
	ID    string `json:"id"`
	Doc   string `json:"doc"`
	Floor int    `json:"floor"`
	Count int    `json:"examined"`
}

type Report struct {
	Property string
	Tier     string
	Config   string
	Obligs   []*Oblig
	Rules    []*RuleInfo
	ruleIdx  map[string]*RuleInfo
	Notes    []string
	keyCount map[string]int
}

func newReport(prop, tier string) *Report {
	return &Report{Property: prop, Tier: tier, ruleIdx: map[string]*RuleInfo{}, keyCount: map[string]int{}}
}

// Rule declares a rule with its documentation and floor (minimum number of
// obligations it must examine on a healthy tree).
func (r *Report) Rule(id, doc string, floor int) {
	if ri, ok := r.ruleIdx[id]; ok {
		ri.Doc, ri.Floor = doc, floor
		return
	}
	ri := &RuleInfo{ID: id, Doc: doc, Floor: floor}
	r.ruleIdx[id] = ri
	r.Rules = append(r.Rules, ri)
}

func (r *Report) add(rule, key, pos string, v Verdict, nontrivial bool, detail string, witness ...string) *Oblig {
	ri := r.ruleIdx[rule]
	if ri == nil {
		r.Rule(rule, "", 0)
		ri = r.ruleIdx[rule]
	}
	ri.Count++
	full := rule + "|" + key
	r.keyCount[full]++
	if n := r.keyCount[full]; n > 1 {
		key = fmt.Sprintf("%s#%d", key, n)
	}
	o := &Oblig{Rule: rule, Key: key, Pos: pos, Verdict: v, Detail: detail, Witness: witness, NonTrivial: nontrivial, Config: r.Config}
	r.Obligs = append(r.Obligs, o)
	return o
}

func (r *Report) OK(rule, key, pos, detail string, witness ...string) {
	r.add(rule, key, pos, Discharged, true, detail, witness...)
}

// OKTrivial records an existence-only obligation (not counted as non-trivial).
func (r *Report) OKTrivial(rule, key, pos, detail string) {
	r.add(rule, key, pos, Discharged, false, detail)
}

func (r *Report) Violate(rule, key, pos, detail string, witness ...string) {
	r.add(rule, key, pos, Violated, true, detail, witness...)
}

func (r *Report) Undecided(rule, key, pos, detail string, witness ...string) {
	r.add(rule, key, pos, Undecided, true, detail, witness...)
}

// Check is a convenience: discharged if cond, else violated.
func (r *Report) Check(cond bool, rule, key, pos, okDetail, badDetail string, witness ...string) bool {
	if cond {
		r.OK(rule, key, pos, okDetail, witness...)
	} else {
		r.Violate(rule, key, pos, badDetail, witness...)
	}
	return cond
}

func (r *Report) checkFloors() {
	for _, ri := range r.Rules {
		if ri.Count < ri.Floor {
			r.add(ri.ID, "floor", "-", Undecided, true,
				fmt.Sprintf("rule examined %d sites, fewer than the %d confirmed by hand: anchors lost or code shape not recognised", ri.Count, ri.Floor))
			ri.Count-- // do not count the floor obligation itself
		}
	}
}

// ---- known findings ----

type knownFinding struct {
	Property, Rule, Key, Text string
}

func loadKnownFindings(path string) ([]knownFinding, error) {
	f, err := os.Open(path)
	if err != nil {
		if os.IsNotExist(err) {
			return nil, nil
		}
		return nil, err
	}
	defer f.Close()
	var out []knownFinding
	sc := bufio.NewScanner(f)
	sc.Buffer(make([]byte, 1<<20), 1<<20)
	for sc.Scan() {
		line := strings.TrimSpace(sc.Text())
		if !strings.HasPrefix(line, "open:") {
			continue
		}
		rest := strings.TrimSpace(strings.TrimPrefix(line, "open:"))
		kf := knownFinding{}
		// fields: property=.. rule=.. construct=<key up to next space> text...
		for i := 0; i < 3; i++ {
			rest = strings.TrimSpace(rest)
			sp := strings.IndexByte(rest, ' ')
			tok := rest
			if sp >= 0 {
				tok = rest[:sp]
				rest = rest[sp+1:]
			} else {
				rest = ""
			}
			switch {
			case strings.HasPrefix(tok, "property="):
				kf.Property = strings.TrimPrefix(tok, "property=")
			case strings.HasPrefix(tok, "rule="):
				kf.Rule = strings.TrimPrefix(tok, "rule=")
			case strings.HasPrefix(tok, "construct="):
				kf.Key = strings.TrimPrefix(tok, "construct=")
			}
		}
		kf.Text = strings.TrimSpace(rest)
		if kf.Rule != "" && kf.Key != "" {
			out = append(out, kf)
		}
	}
	return out, sc.Err()
}

// ---- evidence ----

type evidence struct {
	PropertyID  string                 `json:"property_id"`
	Tier        string                 `json:"tier"`
	Seed        int                    `json:"seed"`
	Level       string                 `json:"level"`
	Coverage    map[string]interface{} `json:"coverage"`
	Assumptions []string               `json:"assumptions"`
	WallS       float64                `json:"wall_s"`
	Violations  int                    `json:"violations"`
}

type runStats struct {
	Packages, Functions, CGNodes int
	Configs                      []string
	Corpus                       []map[string]interface{}
	CrossRef                     []string
}

func (r *Report) finish(verifDir string, seed int, start time.Time, st runStats, explanation string, assumptions []string) int {
	r.checkFloors()
	known, err := loadKnownFindings(filepath.Join(verifDir, "KNOWN_FINDINGS.txt"))
	if err != nil {
		r.Undecided("G.known", "KNOWN_FINDINGS.txt", "-", "cannot read known findings: "+err.Error())
	}
	sort.SliceStable(r.Obligs, func(i, j int) bool {
		if r.Obligs[i].Rule != r.Obligs[j].Rule {
			return r.Obligs[i].Rule < r.Obligs[j].Rule
		}
		return r.Obligs[i].Key < r.Obligs[j].Key
	})
	evBase := filepath.Join(verifDir, "evidence")
	if evidenceDirOverride != "" {
		evBase = evidenceDirOverride
	}
	replayDir := filepath.Join(evBase, "replay")
	os.MkdirAll(replayDir, 0755)
	// remove stale replay files of this property
	if old, _ := filepath.Glob(filepath.Join(replayDir, r.Property+"-*.json")); old != nil {
		for _, f := range old {
			os.Remove(f)
		}
	}
	var nOK, nBad, nKnown, nNonTrivial int
	distinct := map[string]bool{}
	var lines []string
	for _, o := range r.Obligs {
		if o.NonTrivial {
			distinct[o.Rule+"|"+o.Key+"|"+o.Config] = true
		}
		switch o.Verdict {
		case Discharged:
			nOK++
		default:
			if o.Verdict == Violated {
				matched := false
				for _, k := range known {
					if k.Property == r.Property && k.Rule == o.Rule && k.Key == o.Key {
						o.Known = k.Text
						matched = true
						break
					}
				}
				if matched {
					nKnown++
					lines = append(lines, fmt.Sprintf("KNOWN-FINDING: property=%s rule=%s construct=%s at %s: %s", r.Property, o.Rule, o.Key, o.Pos, o.Known))
					continue
				}
			}
			nBad++
			rp := filepath.Join(replayDir, fmt.Sprintf("%s-%d.json", r.Property, nBad))
			b, _ := json.MarshalIndent(map[string]interface{}{
				"property": r.Property, "tier": r.Tier, "obligation": o,
				"how_to_replay": fmt.Sprintf("./bin/wtcheck -replay %s   (re-evaluates rule %s on construct %s against /repo's current tree)", rp, o.Rule, o.Key),
			}, "", " ")
			os.WriteFile(rp, b, 0644)
			fmt.Printf("%s: %s %s [%s] %s\n", o.Pos, strings.ToUpper(string(o.Verdict)), o.Rule, o.Key, o.Detail)
			for _, wl := range o.Witness {
				fmt.Printf("    %s\n", wl)
			}
			lines = append(lines, fmt.Sprintf("VIOLATION property=%s replay=%s", r.Property, rp))
		}
	}
	nNonTrivial = len(distinct)

	// samples: every non-discharged obligation, plus up to 14 discharged ones spread over rules
	var samples []*Oblig
	perRule := map[string]int{}
	for _, o := range r.Obligs {
		if o.Verdict != Discharged {
			samples = append(samples, o)
		}
	}
	for _, o := range r.Obligs {
		if o.Verdict == Discharged && o.NonTrivial && perRule[o.Rule] < 2 && len(samples) < 40 {
			perRule[o.Rule]++
			samples = append(samples, o)
		}
	}
	if len(samples) == 0 && len(r.Obligs) > 0 {
		samples = append(samples, r.Obligs[0])
	}
	var ruleDocs []string
	for _, ri := range r.Rules {
		ruleDocs = append(ruleDocs, fmt.Sprintf("%s (examined %d, floor %d): %s", ri.ID, ri.Count, ri.Floor, ri.Doc))
	}
	cov := map[string]interface{}{
		"explanation":         explanation,
		"rules":               ruleDocs,
		"obligations":         len(r.Obligs),
		"discharged":          nOK,
		"known_findings":      nKnown,
		"evaluations":         len(r.Obligs),
		"distinct_nontrivial": nNonTrivial,
		"rule": "one evaluation = one (rule, construct) obligation decided on the resolved program of /repo's working tree; " +
			"distinct = distinct (rule id, position-free construct key); non-trivial = the verdict required a path, dataflow, call-graph or table argument (bare existence checks of anchors are excluded)",
		"samples":            samples,
		"checker_cmd":        fmt.Sprintf("./bin/wtcheck -property %s -tier %s", r.Property, r.Tier),
		"trusted_base":       []string{"go/types, go/ssa, callgraph/vta of golang.org/x/tools v0.29.0", "the rule code of /verif/checker", "documented behaviour of the Go standard library and bits-and-blooms/bitset (treated as leaves)"},
		"packages_analysed":  st.Packages,
		"functions_analysed": st.Functions,
		"callgraph_nodes":    st.CGNodes,
		"configurations":     st.Configs,
		"exhaustive":         false,
	}
	if st.Corpus != nil {
		cov["seeded_variant_corpus"] = st.Corpus
	}
	if st.CrossRef != nil {
		cov["cross_reference"] = st.CrossRef
	}
	if len(r.Notes) > 0 {
		cov["notes"] = r.Notes
	}
	ev := evidence{
		PropertyID: r.Property, Tier: r.Tier, Seed: seed, Level: "other", Coverage: cov,
		Assumptions: assumptions, WallS: time.Since(start).Seconds(), Violations: nBad,
	}
	b, _ := json.MarshalIndent(ev, "", " ")
	os.MkdirAll(evBase, 0755)
	if err := os.WriteFile(filepath.Join(evBase, r.Property+".json"), b, 0644); err != nil {
		fmt.Println("cannot write evidence:", err)
		return 1
	}
	fmt.Printf("%s %s: %d obligations, %d discharged, %d known findings, %d violated/undecided; %d functions, %d packages, %.1fs\n",
		r.Property, r.Tier, len(r.Obligs), nOK, nKnown, nBad, st.Functions, st.Packages, time.Since(start).Seconds())
	for _, l := range lines {
		fmt.Println(l)
	}
	if nBad > 0 {
		return 1
	}
	return 0
}
