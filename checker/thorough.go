package main

// runThorough: filled in below (other build configurations, seeded-variant corpus, behaviour-preserving refactorings as negative controls).
func runThorough(def *propertyDef, w *World, r *Report, repo, verif string, st *runStats) {
	thoroughConfigs(def, r, repo, st)
	thoroughCorpus(def, r, repo, verif, st)
	runBenign(def, r, repo, verif, st)
}
