package main

import (
	"fmt"
	"go/token"
	"go/types"
	"regexp"
	"strings"

	"golang.org/x/tools/go/ssa"
)

func init() {
	register(&propertyDef{
		ID: "C06",
		Explanation: "Decides the on-disk format structurally: size constants (16-byte metadata, 12-byte archive info, 12-byte point); the encoders' layouts extracted by the cursor analysis equal the classic Whisper table (!2LfL header, !3L archive info, !Ld point, all big-endian) by offset, width, byte order and field role; decoders mirror encoders (C14.R1); offsets follow the contiguous recurrence in fillOffset and in validate; the file length is header + 12 x points and the file is truncated to it at creation; maxRetention is the last archive's retention; " +
			"slot placement is offset + index*12 with index = floorMod((interval-base)/step, points), base read from the archive's first 4 bytes, an empty archive's first point landing at the archive offset; slot alignment is computed in 64-bit floored arithmetic. " +
			"Not decided: that go-whisper reads the same series for every history (behavioural cross-reading).",
		Run: rulesC06,
	})
}

// fieldRoles resolves the three fields of ArchiveInfo by role.
func archiveInfoRoles(w *World) (offset, step, points string) {
	getterField := func(name string) string {
		f := fn(w.Lib, name)
		if f == nil {
			return ""
		}
		for _, rt := range returnsOf(f) {
			if u, ok := rt.Results[0].(*ssa.UnOp); ok {
				if _, fname, ok := fieldAddrOf(u.X); ok {
					return fname
				}
			}
		}
		return ""
	}
	step = getterField("ArchiveInfo.SecondsPerPoint")
	points = getterField("ArchiveInfo.NumberOfPoints")
	if t := w.Lib.Type("ArchiveInfo"); t != nil {
		if st, ok := t.Type().Underlying().(*types.Struct); ok {
			for i := 0; i < st.NumFields(); i++ {
				n := fieldName(st.Field(i))
				if n == step || n == points {
					continue
				}
				// the offset is the remaining 32-bit unsigned field (a field added beside it, a cache say, is not it)
				if bt, isB := st.Field(i).Type().(*types.Basic); !isB || bt.Kind() != types.Uint32 {
					continue
				}
				if offset == "" || n == "offset" {
					offset = n
				}
			}
		}
	}
	return
}

func fieldType(w *World, typ, field string) string {
	t := w.Lib.Type(typ)
	if t == nil {
		return ""
	}
	st, ok := t.Type().Underlying().(*types.Struct)
	if !ok {
		return ""
	}
	for i := 0; i < st.NumFields(); i++ {
		if fieldName(st.Field(i)) == field {
			s := st.Field(i).Type().String()
			if j := strings.LastIndex(s, "."); j >= 0 {
				s = s[j+1:]
			}
			return s
		}
	}
	return ""
}

func rulesC06(w *World, r *Report) {
	r.Rule("C06.R1", "constants: metaSize = 16, archiveInfoListSize = 12, pointSize = 12, uint32Size = 4, float64Size = 8; the encoded sizes found by the cursor analysis agree (Point 12, ArchiveInfo 12, fixed header part 16)", 6)
	for name, want := range map[string]int64{"metaSize": 16, "archiveInfoListSize": 12, "pointSize": 12, "uint32Size": 4, "float64Size": 8} {
		v, ok := constValue(w, name)
		if !ok {
			r.Undecided("C06.R1", "const:"+name, "-", "constant not found")
			continue
		}
		r.Check(v == want, "C06.R1", "const:"+name, "header.go", fmt.Sprintf("%s = %d", name, want), fmt.Sprintf("%s = %d, the Whisper format requires %d", name, v, want))
	}
	// the codes of the aggregation methods are part of the format: the reference reader gives 4 the meaning max, 5 min
	for name, want := range map[string]int64{"Average": 1, "Sum": 2, "Last": 3, "Max": 4, "Min": 5, "First": 6} {
		v, ok := constValue(w, name)
		if !ok {
			r.Undecided("C06.R1", "const:"+name, "-", "constant not found")
			continue
		}
		r.Check(v == want, "C06.R1", "const:"+name, "aggregationmethod.go", fmt.Sprintf("%s = %d", name, want), fmt.Sprintf("the aggregation method %s is written as %d; in the Whisper format (and for the reference reader) it is %d, so a file of one implementation is aggregated with another method by the other", name, v, want))
	}
	ce := newCodecEngine(w)
	offF, stepF, ptsF := archiveInfoRoles(w)
	r.Rule("C06.R2", "format table (E-codec): Header.AppendTo emits BE u32 aggregation method @0, Duration max retention @4, BE u32 Float32bits(xFilesFactor) @8, BE u32 archive count @12, then one ArchiveInfo per archive from @16 in 12-byte steps; ArchiveInfo: BE u32 offset @0, Duration step @4, BE u32 points @8; Point: Timestamp @0, Value @4; Value: BE u64 Float64bits; Timestamp, Duration: BE u32", 6)
	type wantRead struct {
		off   int64
		width int64
		role  string // type of the source field, or a role name
		via   string
	}
	type wantNested struct {
		off  int64
		k    int64
		typ  string
		role string
	}
	check := func(typ string, reads []wantRead, nested []wantNested, size lin) {
		e := ce.encoder(typ)
		if e.fn == nil {
			r.Undecided("C06.R2", typ, "-", "encoder not found")
			return
		}
		bad := ""
		if len(e.reads) != len(reads) || len(e.nested) != len(nested) {
			bad = fmt.Sprintf("expected %d integer fields and %d nested elements, found %d and %d", len(reads), len(nested), len(e.reads), len(e.nested))
		}
		roleOf := func(dest string) string {
			// p0.<field> -> role
			if !strings.HasPrefix(dest, "p0") {
				return dest
			}
			fld := strings.TrimPrefix(dest, "p0.")
			if i := strings.IndexAny(fld, "[."); i >= 0 {
				fld = fld[:i]
			}
			if dest == "p0" {
				return "self"
			}
			if typ == "ArchiveInfo" {
				switch fld {
				case offF:
					return "offset"
				case stepF:
					return "step"
				case ptsF:
					return "points"
				}
			}
			if fld == "Time" || fld == "Value" {
				return fld
			}
			return fieldType(w, typ, fld)
		}
		if bad == "" {
			for i, wr := range reads {
				g := e.reads[i]
				switch {
				case !(g.off.k == 0 && g.off.c == wr.off):
					bad = fmt.Sprintf("field %d (%s) is written at offset %s, the format has it at %d", i, wr.role, g.off, wr.off)
				case g.width != wr.width:
					bad = fmt.Sprintf("field %s at %d is %d bytes wide, the format has %d", wr.role, wr.off, g.width, wr.width)
				case g.order != "big":
					bad = fmt.Sprintf("field %s at %d is not big-endian", wr.role, wr.off)
				case roleOf(g.dest) != wr.role:
					bad = fmt.Sprintf("offset %d carries %s (%s), the format has the %s there", wr.off, g.dest, roleOf(g.dest), wr.role)
				case g.via != wr.via:
					bad = fmt.Sprintf("field %s is converted via %q, the format requires %q", wr.role, g.via, wr.via)
				}
			}
			for i, wn := range nested {
				g := e.nested[i]
				switch {
				case g.off.c != wn.off || g.off.k != wn.k:
					bad = fmt.Sprintf("nested %s is written at %s, the format has it at %d (+%d per element)", wn.typ, g.off, wn.off, wn.k)
				case g.typ != wn.typ:
					bad = fmt.Sprintf("nested element at %d is a %s, the format has a %s", wn.off, g.typ, wn.typ)
				case roleOf(g.dest) != wn.role:
					bad = fmt.Sprintf("nested %s at %d is %s (%s), the format has the %s", wn.typ, wn.off, g.dest, roleOf(g.dest), wn.role)
				}
			}
		}
		if bad == "" && !(e.size.ok && e.size.c == size.c && e.size.k == size.k) {
			bad = fmt.Sprintf("encoded size is %s, the format has %s", e.size, size)
		}
		if bad != "" {
			r.Violate("C06.R2", typ+":layout", w.pos(e.fn.Pos()), typ+" is not encoded as classic Whisper: "+bad+" (encoder layout: "+layoutString(e)+")")
		} else {
			r.OK("C06.R2", typ+":layout", w.pos(e.fn.Pos()), "matches the Whisper table: "+layoutString(e))
		}
		reportCodecProblems(w, r, "C06", e, map[string]bool{"R1": true})
	}
	check("Header", []wantRead{{0, 4, "AggregationMethod", ""}, {8, 4, "float32", "math.Float32bits"}, {12, 4, "uint32", ""}},
		[]wantNested{{4, 0, "Duration", "Duration"}, {16, 12, "ArchiveInfo", "ArchiveInfoList"}}, lin{c: 16, k: 12, ok: true})
	check("ArchiveInfo", []wantRead{{0, 4, "offset", ""}, {8, 4, "points", ""}}, []wantNested{{4, 0, "Duration", "step"}}, linC(12))
	check("Point", nil, []wantNested{{0, 0, "Timestamp", "Time"}, {4, 0, "Value", "Value"}}, linC(12))
	check("Value", []wantRead{{0, 8, "self", "math.Float64bits"}}, nil, linC(8))
	check("Timestamp", []wantRead{{0, 4, "self", ""}}, nil, linC(4))
	check("Duration", []wantRead{{0, 4, "self", ""}}, nil, linC(4))
	// decoders mirror encoders for the file-format types
	for _, typ := range []string{"Header", "ArchiveInfo", "Point", "Value", "Timestamp", "Duration"} {
		d, e := ce.decoder(typ), ce.encoder(typ)
		same := len(d.reads) == len(e.reads) && len(d.nested) == len(e.nested)
		if same {
			for i := range d.reads {
				if !d.reads[i].off.eq(e.reads[i].off) || d.reads[i].width != e.reads[i].width || d.reads[i].order != e.reads[i].order || (d.reads[i].dest != e.reads[i].dest && d.reads[i].dest != "(local)") {
					same = false
				}
			}
			for i := range d.nested {
				if d.nested[i].typ != e.nested[i].typ || d.nested[i].off.c != e.nested[i].off.c || d.nested[i].off.k != e.nested[i].off.k || stripIdx(d.nested[i].dest) != stripIdx(e.nested[i].dest) {
					same = false
				}
			}
		}
		r.Check(same, "C14.R1", typ+":symmetry", posOf(w, d.fn), "decoder mirrors encoder", typ+": decoder layout ["+layoutString(d)+"] differs from encoder layout ["+layoutString(e)+"]: files written cannot be read back identically")
	}
	if s := ce.encoder("Point").size; s.ok {
		r.Check(s.c == 12 && s.k == 0, "C06.R1", "size:Point", "timeseries.go", "a point encodes to 12 bytes", "a point encodes to "+s.String()+" bytes")
	}

	// ---- R3 offsets
	r.Rule("C06.R3", "offset recurrence: fillOffset stores off_0 = metaSize + len*archiveInfoListSize and off_{i+1} = off_i + points_i*pointSize into each archive, in uint32; validate compares each stored offset with the same recurrence", 2)
	isRecurrence := func(ph *ssa.Phi) (bool, string) {
		if ph == nil {
			return false, "no running offset"
		}
		okInit, okNext := false, false
		desc := ""
		for _, e := range ph.Edges {
			s := newExprCtx(w).expr(e)
			desc += s + " | "
			if regexp.MustCompile(`^\(16 \+:uint32 \(len\(p0\) \*:uint32 12\)\)$`).MatchString(s) || regexp.MustCompile(`^\(\(len\(p0\) \*:uint32 12\) \+:uint32 16\)$`).MatchString(s) {
				okInit = true
			}
			if bo, ok := e.(*ssa.BinOp); ok && bo.Op == token.ADD && bo.X == ssa.Value(ph) {
				ys := newExprCtx(w).expr(bo.Y)
				if regexp.MustCompile(`^\(p0\[\(?i\d+( \+ 1\))?\]\.` + regexp.QuoteMeta(ptsF) + ` \*:uint32 12\)$`).MatchString(ys) {
					okNext = true
				}
			}
		}
		return okInit && okNext, desc
	}
	if fo := need(w, r, "C06.R3", w.Lib, "ArchiveInfoList.fillOffset"); fo != nil {
		var ph *ssa.Phi
		eachInstr(fo, func(in ssa.Instruction) {
			if st, ok := in.(*ssa.Store); ok {
				if _, fname, ok := fieldAddrOf(st.Addr); ok && fname == offF {
					ph, _ = st.Val.(*ssa.Phi)
				}
			}
		})
		ok, desc := isRecurrence(ph)
		r.Check(ok, "C06.R3", "fillOffset:recurrence", w.pos(fo.Pos()), "offsets are contiguous after the 16+12k byte header", "fillOffset does not lay the archives out contiguously after the header (offset_0 = 16 + 12*len, offset_{i+1} = offset_i + 12*points_i): stored value is "+desc)
	}
	if va := need(w, r, "C06.R3", w.Lib, "ArchiveInfoList.validate"); va != nil {
		var ph *ssa.Phi
		for _, fc := range failConditions(w, va) {
			if fc.Op == "!=" {
				for _, side := range []ssa.Value{fc.X, fc.Y} {
					if p, ok := side.(*ssa.Phi); ok {
						ph = p
					}
				}
			}
		}
		ok, desc := isRecurrence(ph)
		r.Check(ok, "C06.R3", "validate:recurrence", w.pos(va.Pos()), "validate recomputes the contiguous layout", "validate does not compare stored offsets with the contiguous layout recurrence: "+desc)
	}

	// ---- R4 length
	r.Rule("C06.R4", "file length: Header.Size = metaSize + archiveCount*archiveInfoListSize; ExpectedFileSize = Size() + sum over all archives of points*pointSize, in int64", 2)
	if sz := need(w, r, "C06.R4", w.Lib, "Header.Size"); sz != nil {
		rets := returnsOf(sz)
		got := ""
		if len(rets) == 1 {
			got = newExprCtx(w).expr(rets[0].Results[0])
		}
		// sums and products in either operand order
		ok := false
		for _, form := range []string{"(16 +:int64 (p0.archiveCount *:int64 12))", "(16 +:int64 (12 *:int64 p0.archiveCount))", "((p0.archiveCount *:int64 12) +:int64 16)", "((12 *:int64 p0.archiveCount) +:int64 16)"} {
			if got == form {
				ok = true
			}
		}
		r.Check(ok, "C06.R4", "Header.Size", w.pos(sz.Pos()), "16 + 12*archiveCount", "Header.Size is "+got+", not 16 + 12*archiveCount")
	}
	if ef := need(w, r, "C06.R4", w.Lib, "Header.ExpectedFileSize"); ef != nil {
		ok := false
		got := ""
		for _, rt := range returnsOf(ef) {
			if ph, isPhi := rt.Results[0].(*ssa.Phi); isPhi {
				okInit, okNext := false, false
				for _, e := range ph.Edges {
					s := newExprCtx(w).expr(e)
					got += s + " | "
					if s == "whispertool.Header.Size(p0)" {
						okInit = true
					}
					if bo, isBo := e.(*ssa.BinOp); isBo && bo.Op == token.ADD && bo.X == ssa.Value(ph) {
						y := newExprCtx(w).expr(bo.Y)
						if regexp.MustCompile(`^\(p0\.archiveInfoList\[\(i\d+ \+ 1\)\]\.`+regexp.QuoteMeta(ptsF)+` \*:int64 12\)$`).MatchString(y) ||
							regexp.MustCompile(`^\(12 \*:int64 p0\.archiveInfoList\[\(i\d+ \+ 1\)\]\.`+regexp.QuoteMeta(ptsF)+`\)$`).MatchString(y) {
							okNext = true
						}
					}
				}
				ok = okInit && okNext
			}
		}
		r.Check(ok, "C06.R4", "Header.ExpectedFileSize", w.pos(ef.Pos()), "header size + 12 x total points", "ExpectedFileSize is not Size() + sum of 12*points over all archives: "+got)
	}

	// ---- R5
	r.Rule("C06.R5", "derives-from: NewHeader stores maxRetention = MaxRetention() of the last archive and archiveCount = len(list)", 1)
	if nh := need(w, r, "C06.R5", w.Lib, "NewHeader"); nh != nil {
		okMR := false
		got := ""
		list := "p2"
		eachInstr(nh, func(in ssa.Instruction) {
			if st, ok := in.(*ssa.Store); ok {
				if _, fname, ok := fieldAddrOf(st.Addr); ok && fname == "archiveInfoList" {
					list = newExprCtx(w).expr(st.Val)
				}
			}
		})
		eachInstr(nh, func(in ssa.Instruction) {
			if st, ok := in.(*ssa.Store); ok {
				if _, fname, ok := fieldAddrOf(st.Addr); ok && fname == "maxRetention" {
					got = newExprCtx(w).expr(st.Val)
					okMR = got == "whispertool.ArchiveInfo.MaxRetention("+list+"[(len("+list+") - 1)])"
				}
			}
		})
		r.Check(okMR, "C06.R5", "NewHeader:maxRetention", w.pos(nh.Pos()), "max retention = retention of the last archive of the list the header stores", "the header's max retention is "+got+", not the retention of the last archive of the list it stores ("+list+")")
	}

	// ---- R6 slot placement
	r.Rule("C06.R6", "slot placement: pointOffsetAt = offset + uint32(index)*12; pointIndex = floorMod(Sub(interval, base)/step, points) in int64; baseInterval decodes the 4 bytes at the archive's offset; getPointOffset returns the archive offset for an empty archive and pointOffsetAt(pointIndex(base, t)) otherwise; archiveUpdateMany uses its first aligned point as base for an empty archive; putPointAt writes Point.AppendTo's bytes at the offset; interval/intervalForWrite align with floorMod in int64", 8)
	chk := func(name, want string, re bool) {
		f := need(w, r, "C06.R6", w.Lib, name)
		if f == nil {
			return
		}
		var got []string
		ok := false
		for _, rt := range returnsOf(f) {
			if len(rt.Results) == 0 {
				continue
			}
			s := newExprCtx(w).expr(rt.Results[0])
			got = append(got, s)
			if (re && regexp.MustCompile(want).MatchString(s)) || (!re && s == want) {
				ok = true
			}
		}
		r.Check(ok, "C06.R6", name, w.pos(f.Pos()), "computes "+want, name+" computes "+strings.Join(got, " / ")+"; the format requires "+want)
	}
	chk("ArchiveInfo.pointOffsetAt", "(p0."+offF+" +:uint32 (p1 *:uint32 12))", false)
	chk("ArchiveInfo.pointIndex", "whispertool.floorMod((whispertool.Timestamp.Sub(p2, p1) /:int64 p0."+stepF+"), p0."+ptsF+")", false)
	chk("ArchiveInfo.intervalForWrite", "(p1 -:int64 whispertool.floorMod(p1, p0."+stepF+"))", false)
	chk("ArchiveInfo.interval", `^(\(\(p1 -:int64 whispertool\.floorMod\(p1, p0\.`+stepF+`\)\) \+:int64 p0\.`+stepF+`\)|whispertool\.Timestamp\.Add\(whispertool\.ArchiveInfo\.intervalForWrite\(p0, p1\), p0\.`+stepF+`\)|\(whispertool\.ArchiveInfo\.intervalForWrite\(p0, p1\) \+:uint32 p0\.`+stepF+`\)|\(p0\.`+stepF+` \+:uint32 whispertool\.ArchiveInfo\.intervalForWrite\(p0, p1\)\))$`, true)
	if fm := need(w, r, "C06.R6", w.Lib, "floorMod"); fm != nil {
		// floored modulo: returns x%y, or x%y+y when the remainder is non-zero and signs differ
		var rs []string
		set := map[string]bool{}
		for _, rt := range returnsOf(fm) {
			// every value a return may carry (through phis of locals)
			for _, v := range leavesOf(rt.Results[0]) {
				e := newExprCtx(w).expr(v)
				rs = append(rs, e)
				set[e] = true
			}
		}
		ok := len(set) == 2 && set["(p0 %:int64 p1)"] && (set["((p0 %:int64 p1) +:int64 p1)"] || set["(p1 +:int64 (p0 %:int64 p1))"])
		r.Check(ok, "C06.R6", "floorMod", w.pos(fm.Pos()), "x%y, corrected by +y", "floorMod does not return x%y or x%y+y: "+strings.Join(rs, " / "))
	}
	if bi := need(w, r, "C06.R6", w.Lib, "Whisper.baseInterval"); bi != nil {
		okRead, okDec := false, false
		var readCall *ssa.Call
		for _, c := range callsIn(bi) {
			cv, ok := c.(*ssa.Call)
			if !ok {
				continue
			}
			es := callArgExprs(w, cv)
			if isMethodCall(c, fbPath, "FileBuffer", "ReadAt") && len(es) == 3 && es[2] == "p1."+offF {
				if sl, ok := cv.Common().Args[1].(*ssa.Slice); ok && appendedWidth(sl) == 4 {
					okRead = true
					readCall = cv
				}
			}
			if cv.Common().StaticCallee() == fn(w.Lib, "Timestamp.TakeFrom") {
				okDec = true
			}
		}
		r.Check(okRead && okDec, "C06.R6", "baseInterval", w.pos(bi.Pos()), "decodes the 4-byte timestamp at the archive's offset", "baseInterval does not decode the 4 bytes at the archive's offset as a Timestamp")
		// ... on every call: no answer that did not come through the page buffer (a value remembered beside it is not
		// what another handle, or this handle after the slot was rewritten, finds in the file)
		if readCall != nil {
			bad := ""
			for _, rt := range returnsOf(bi) {
				if isFailureReturn(rt) {
					continue
				}
				if !readCall.Block().Dominates(rt.Block()) {
					bad = "the return at " + w.instrPos(rt) + " answers without reading the slot through the page buffer"
				}
			}
			r.Check(bad == "", "C06.R6", "baseInterval:always-reads-the-file", w.pos(bi.Pos()), "every answer is decoded from the page buffer", "baseInterval: "+bad+": the first slot's time kept outside the page buffer is shared by whatever holds the same layout value and is not what a second handle reads")
		}
	}
	if gp := need(w, r, "C06.R6", w.Lib, "Whisper.getPointOffset"); gp != nil {
		var rs []string
		for _, rt := range returnsOf(gp) {
			if !isFailureReturn(rt) {
				rs = append(rs, newExprCtx(w).expr(rt.Results[0]))
			}
		}
		ok := containsStr(rs, "p2."+offF) && containsStr(rs, "whispertool.ArchiveInfo.pointOffsetAt(p2, whispertool.ArchiveInfo.pointIndex(p2, whispertool.Whisper.baseInterval(p0, p2)#0, p1))")
		// the offset-only return must be under base == 0
		r.Check(ok, "C06.R6", "getPointOffset", w.pos(gp.Pos()), "archive offset when empty, else pointOffsetAt(pointIndex(base, t))", "getPointOffset returns "+strings.Join(rs, " / "))
	}
	if au := need(w, r, "C06.R6", w.Lib, "Whisper.archiveUpdateMany"); au != nil {
		ok := false
		got := ""
		for _, c := range callsTo(au, fn(w.Lib, "ArchiveInfo.pointIndex")) {
			base := c.Common().Args[1]
			if ph, isPhi := base.(*ssa.Phi); isPhi {
				var es []string
				for _, e := range ph.Edges {
					es = append(es, newExprCtx(w).expr(e))
				}
				got = strings.Join(es, " | ")
				hasRead, hasFirst := false, false
				for _, e := range es {
					if strings.HasPrefix(e, "whispertool.Whisper.baseInterval(p0, ") && strings.HasSuffix(e, "#0") {
						hasRead = true
					}
					if strings.HasSuffix(e, "[0].Time") && strings.Contains(e, "alignPoints(") {
						hasFirst = true
					}
				}
				ok = hasRead && hasFirst
				// ... and only an empty archive does: the first point replaces the stored base on the outcome
				// `base == 0` and on no other (a base that merely looks old is still the phase of every live slot)
				for i, e := range ph.Edges {
					es0 := newExprCtx(w).expr(e)
					if !(strings.HasSuffix(es0, "[0].Time") && strings.Contains(es0, "alignPoints(")) {
						continue
					}
					pred := ph.Block().Preds[i]
					onlyEmpty := false
					for _, b := range au.Blocks {
						if len(b.Instrs) == 0 {
							continue
						}
						iff, isIf := b.Instrs[len(b.Instrs)-1].(*ssa.If)
						if !isIf {
							continue
						}
						cond, neg := stripNot(iff.Cond)
						bo, isBo := cond.(*ssa.BinOp)
						if !isBo || (bo.Op != token.EQL && bo.Op != token.NEQ) {
							continue
						}
						xs, ys := newExprCtx(w).expr(bo.X), newExprCtx(w).expr(bo.Y)
						isBase := func(s string) bool {
							return strings.HasPrefix(s, "whispertool.Whisper.baseInterval(p0, ") && strings.HasSuffix(s, "#0")
						}
						if !((isBase(xs) && ys == "0") || (isBase(ys) && xs == "0")) {
							continue
						}
						emptyEdge := 0
						if (bo.Op == token.NEQ) != neg {
							emptyEdge = 1
						}
						if b == pred && ph.Block() == b.Succs[emptyEdge] && b.Succs[0] != b.Succs[1] {
							onlyEmpty = true
						}
						if edgeDominates(b, b.Succs[emptyEdge], pred) {
							onlyEmpty = true
						}
					}
					if !onlyEmpty {
						ok = false
						got = "replaced by the first point of the batch also when the stored base is not 0"
					}
				}
			}
		}
		r.Check(ok, "C06.R6", "archiveUpdateMany:base", w.pos(au.Pos()), "an empty archive takes its first aligned point as base (slot 0)", "archiveUpdateMany's base interval is "+got+": for an empty archive the first written point must become the base so that it lands in slot 0")
		// every aligned point is written at pointOffsetAt(pointIndex(base, p.Time))
		okW := false
		guardNote := ""
		for _, c := range callsTo(au, fn(w.Lib, "Whisper.putPointAt")) {
			es := callArgExprs(w, c)
			if regexp.MustCompile(`alignPoints\(.*\)\[(\(i\d+ \+ 1\)|i\d+)\]$`).MatchString(es[1]) && strings.HasPrefix(es[2], "whispertool.ArchiveInfo.pointOffsetAt(") && strings.Contains(es[2], ".Time") {
				okW = true
			}
			if inLoopWith(c.Block()) == false {
				okW = false
			}
			if gs := blockGuards(w, c.Block()); len(gs) > 0 {
				okW = false
				guardNote = " (the write is skipped unless " + strings.Join(gs, " && ") + ": the first aligned point may be skipped although it was chosen as the base of an empty archive, leaving slot 0 empty and every later point misplaced)"
			}
		}
		r.Check(okW, "C06.R6", "archiveUpdateMany:writes", w.pos(au.Pos()), "every aligned point is written at its slot", "archiveUpdateMany does not write every aligned point at pointOffsetAt(pointIndex(base, p.Time))"+guardNote)
	}
	if pp := need(w, r, "C06.R6", w.Lib, "Whisper.putPointAt"); pp != nil {
		ok := false
		for _, c := range callsIn(pp) {
			if isMethodCall(c, fbPath, "FileBuffer", "WriteAt") {
				es := callArgExprs(w, c)
				ok = strings.HasPrefix(es[1], "whispertool.Point.AppendTo(p1, ") && es[2] == "p2"
			}
		}
		r.Check(ok, "C06.R6", "putPointAt", w.pos(pp.Pos()), "writes the encoded point at the given offset", "putPointAt does not write Point.AppendTo's bytes at the offset it was given")
	}
	ruleC05R5SizeOnly(w, r)
	// reading reference-written files as the reference does needs the exact-interval stale-lap filter; every file a command leaves behind must have its header on disk
	ruleStaleFilter(w, r, "C01.R2")
	ruleC05R7(w, r, "C05.R7", 4, nil)
}

// ruleC05R5SizeOnly re-uses the creation-time length check for C06.
func ruleC05R5SizeOnly(w *World, r *Report) {
	r.Rule("C06.R4b", "Create truncates the file to Header.ExpectedFileSize()", 1)
	create := fn(w.Lib, "Create")
	if create == nil {
		return
	}
	truncs := w.findCallsBelow(create, func(c ssa.CallInstruction) bool { return isMethodCall(c, "os", "File", "Truncate") }, 1)
	ok := false
	if len(truncs) == 1 {
		arg := originThroughChain(callArgs(truncs[0].call)[0], truncs[0].chain)
		if cv, isCall := stripChangeType(arg).(*ssa.Call); isCall && cv.Common().StaticCallee() == fn(w.Lib, "Header.ExpectedFileSize") {
			ok = true
		}
	}
	r.Check(ok, "C06.R4b", "Create:length", w.pos(create.Pos()), "total length = header + 12 x points", "Create does not size the file to ExpectedFileSize()")
}
