package main

import (
	"go/token"
	"sort"
	"strings"

	"golang.org/x/tools/go/ssa"
)

// Integer expressions as polynomials over opaque atoms (canonical expression strings), so that two spellings of one
// formula — (n-1-i)*step, step*(n-i-1), -(i-(n-1))*step — compare equal. Wrap-around and the truncation of integer
// division are not modelled: a quotient is an atom.

type poly map[string]int64 // monomial (atoms sorted, joined by "*"; "" = constant) -> coefficient

func polyConst(k int64) poly {
	if k == 0 {
		return poly{}
	}
	return poly{"": k}
}

func polyAtom(a string) poly { return poly{a: 1} }

func (p poly) add(q poly, sign int64) poly {
	out := poly{}
	for m, c := range p {
		out[m] = c
	}
	for m, c := range q {
		out[m] += sign * c
		if out[m] == 0 {
			delete(out, m)
		}
	}
	return out
}

func (p poly) mul(q poly) poly {
	out := poly{}
	for m1, c1 := range p {
		for m2, c2 := range q {
			var atoms []string
			if m1 != "" {
				atoms = append(atoms, strings.Split(m1, "*")...)
			}
			if m2 != "" {
				atoms = append(atoms, strings.Split(m2, "*")...)
			}
			sort.Strings(atoms)
			m := strings.Join(atoms, "*")
			out[m] += c1 * c2
			if out[m] == 0 {
				delete(out, m)
			}
		}
	}
	return out
}

func (p poly) equal(q poly) bool {
	if len(p) != len(q) {
		return false
	}
	for m, c := range p {
		if q[m] != c {
			return false
		}
	}
	return true
}

func (p poly) String() string {
	var ms []string
	for m := range p {
		ms = append(ms, m)
	}
	sort.Strings(ms)
	var parts []string
	for _, m := range ms {
		c := p[m]
		switch {
		case m == "":
			parts = append(parts, itoa(c))
		case c == 1:
			parts = append(parts, m)
		default:
			parts = append(parts, itoa(c)+"*"+m)
		}
	}
	if len(parts) == 0 {
		return "0"
	}
	return strings.Join(parts, " + ")
}

func itoa(n int64) string {
	neg := n < 0
	if neg {
		n = -n
	}
	s := ""
	for {
		s = string(rune('0'+n%10)) + s
		n /= 10
		if n == 0 {
			break
		}
	}
	if neg {
		return "-" + s
	}
	return s
}

// polyOf: the polynomial of integer value v; anything that is not +, -, *, negation, a conversion or a constant is an
// atom named by its canonical expression (atomName may override the name of chosen values).
func polyOf(w *World, v ssa.Value, atomName func(ssa.Value) (string, bool)) poly {
	var rec func(v ssa.Value, d int) poly
	rec = func(v ssa.Value, d int) poly {
		if atomName != nil {
			if n, ok := atomName(v); ok {
				return polyAtom(n)
			}
		}
		if k, ok := constInt(v); ok {
			return polyConst(k)
		}
		if d < 24 {
			switch x := v.(type) {
			case *ssa.Convert:
				return rec(x.X, d+1)
			case *ssa.ChangeType:
				return rec(x.X, d+1)
			case *ssa.UnOp:
				if x.Op == token.SUB {
					return polyConst(0).add(rec(x.X, d+1), -1)
				}
			case *ssa.BinOp:
				switch x.Op {
				case token.ADD:
					return rec(x.X, d+1).add(rec(x.Y, d+1), 1)
				case token.SUB:
					return rec(x.X, d+1).add(rec(x.Y, d+1), -1)
				case token.MUL:
					return rec(x.X, d+1).mul(rec(x.Y, d+1))
				}
			}
		}
		return polyAtom(newExprCtx(w).expr(v))
	}
	return rec(v, 0)
}
