package main

import (
	"fmt"
	"go/token"
	"go/types"
	"sort"
	"strings"

	"golang.org/x/tools/go/ssa"
)

func init() {
	register(&propertyDef{
		ID: "C05",
		Explanation: "Decides the clause 'the file's bytes change only during Sync' structurally: who may flush, fsync, write or truncate the file (call-graph who-may-call rules over the VTA graph incl. the filebuffer dependency), " +
			"Sync = flush then fsync with both errors surfaced, Close reaches no write, the header is written and the length fixed only in Create, library code never syncs on its own, and every command that mutates a handle passes a checked Sync on that handle on all paths to a success return. " +
			"Not decided: page-level equality of a reopened handle with the live one and torn writes inside one Flush (value/crash clauses).",
		Run: func(w *World, r *Report) {
			rulesC05Lib(w, r)
			ruleC05R7(w, r, "C05.R7", 4, nil)
			ruleC05R8(w, r)
		},
	})
}

// osFileMethodsAllowedInLib: the *os.File methods package whispertool may call, and where.
var osFileMethodsAllowedInLib = map[string][]string{
	"Close":    nil, // anywhere (C13 constrains it)
	"Stat":     nil,
	"Fd":       nil,
	"Sync":     {"whispertool.Whisper.Sync"},
	"Truncate": {"whispertool.Create"},
}

// package-level functions that create, write, move or delete files
var fileMutatingFuncs = map[string]map[string]bool{
	"os":        {"Create": true, "WriteFile": true, "Truncate": true, "Rename": true, "Remove": true, "RemoveAll": true, "Chmod": true, "Chtimes": true, "Link": true, "Symlink": true, "NewFile": true, "CreateTemp": true, "Open": true, "OpenFile": true, "Mkdir": true, "MkdirAll": true},
	"io/ioutil": {"WriteFile": true, "TempFile": true},
}

func libFuncs(w *World) []*ssa.Function {
	var out []*ssa.Function
	for _, f := range w.modFuncs {
		if pkgOf(f) == w.Lib {
			out = append(out, f)
		}
	}
	return out
}

func cmdFuncs(w *World) []*ssa.Function {
	var out []*ssa.Function
	for _, f := range w.modFuncs {
		if p := pkgOf(f); p == w.Cmd || p == w.Main {
			out = append(out, f)
		}
	}
	return out
}

func need(w *World, r *Report, rule string, pkg *ssa.Package, name string) *ssa.Function {
	f := fn(pkg, name)
	if f == nil || len(f.Blocks) == 0 {
		r.Undecided(rule, "anchor:"+name, "-", "anchor function "+name+" not found in package "+pkg.Pkg.Name()+": the rule cannot be evaluated")
		return nil
	}
	return f
}

func rulesC05Lib(w *World, r *Report) {
	sync := need(w, r, "C05.R1", w.Lib, "Whisper.Sync")
	closeF := need(w, r, "C05.R4", w.Lib, "Whisper.Close")
	create := need(w, r, "C05.R5", w.Lib, "Create")
	flush := need(w, r, "C05.R1", w.FB, "FileBuffer.Flush")
	writeAt := need(w, r, "C05.R3", w.FB, "FileBuffer.WriteAt")
	readAt := need(w, r, "C05.R6", w.FB, "FileBuffer.ReadAt")
	if sync == nil || closeF == nil || create == nil || flush == nil || writeAt == nil || readAt == nil {
		return
	}

	// ---------- R1: only Sync flushes / fsyncs; the library never syncs on its own
	r.Rule("C05.R1", "who-may-call: FileBuffer.Flush and (*os.File).Sync are called only from Whisper.Sync; no function of package whispertool calls Whisper.Sync", 3)
	nFlushCallers := 0
	for _, e := range w.callers(flush) {
		c := e.Caller.Func
		if !w.inModule(c) {
			if pkgOf(c) == w.FB {
				r.Violate("C05.R1", "flush-caller:"+funcName(c), w.instrPos(e.Site), "filebuffer calls Flush internally: pages reach the file outside Sync")
			}
			continue
		}
		nFlushCallers++
		r.Check(c == sync, "C05.R1", "flush-caller:"+funcName(c), w.instrPos(e.Site),
			"Flush is called from Whisper.Sync", "FileBuffer.Flush is called outside Whisper.Sync: dirty pages reach the file between Syncs")
	}
	if nFlushCallers == 0 {
		r.Violate("C05.R1", "flush-caller:none", w.pos(sync.Pos()), "nobody calls FileBuffer.Flush: Sync cannot persist anything")
	}
	for _, f := range libFuncs(w) {
		for _, c := range callsIn(f) {
			if isMethodCall(c, "os", "File", "Sync") {
				r.Check(f == sync, "C05.R1", "fsync-caller:"+funcName(f), w.instrPos(c),
					"(*os.File).Sync is called from Whisper.Sync", "(*os.File).Sync is called outside Whisper.Sync")
			}
		}
	}
	libSyncCallers := 0
	for _, e := range w.callers(sync) {
		if pkgOf(e.Caller.Func) == w.Lib {
			libSyncCallers++
			r.Violate("C05.R1", "lib-sync-caller:"+funcName(e.Caller.Func), w.instrPos(e.Site),
				"package whispertool calls Whisper.Sync on its own: unsynced changes no longer stay off disk until the caller's Sync")
		}
	}
	if libSyncCallers == 0 {
		r.OK("C05.R1", "lib-sync-caller:none", w.pos(sync.Pos()), fmt.Sprintf("no function of package whispertool calls Whisper.Sync (%d callers in total, all in cmd)", len(w.callers(sync))))
	}

	// ---------- R2: Sync = flush then fsync, both checked
	r.Rule("C05.R2", "must-pass-through: in Whisper.Sync every path to a return that may report success passes FileBuffer.Flush and then (*os.File).Sync; both errors are tested and their failure edges cannot reach a success return", 4)
	var flushCall, fsyncCall *ssa.Call
	for _, c := range callsIn(sync) {
		cv, ok := c.(*ssa.Call)
		if !ok {
			continue
		}
		if isMethodCall(c, fbPath, "FileBuffer", "Flush") && isLoadOfField(callRecv(c), "Whisper", "fileBuf") {
			flushCall = cv
		}
		if isMethodCall(c, "os", "File", "Sync") && isLoadOfField(callRecv(c), "Whisper", "file") {
			fsyncCall = cv
		}
	}
	if flushCall == nil || fsyncCall == nil {
		r.Violate("C05.R2", "Sync:calls", w.pos(sync.Pos()), fmt.Sprintf("Whisper.Sync must call w.fileBuf.Flush() and w.file.Sync() directly (flush found: %v, fsync found: %v)", flushCall != nil, fsyncCall != nil))
	} else {
		for _, tc := range []struct {
			name string
			c    *ssa.Call
		}{{"flush", flushCall}, {"fsync", fsyncCall}} {
			p, ret := findBypass(pathQuery{fn: sync, startBlock: sync.Blocks[0],
				passes: func(in ssa.Instruction) bool { return in == ssa.Instruction(tc.c) },
				exit:   maySucceed})
			if p != nil {
				r.Violate("C05.R2", "Sync:must-"+tc.name, w.instrPos(ret), "a return of Sync that may report success is reachable without "+tc.name, w.blockPathString(p))
			} else {
				r.OK("C05.R2", "Sync:must-"+tc.name, w.instrPos(tc.c), "every may-succeed return passes "+tc.name)
			}
			if msg := checkErrorHandled(w, tc.c); msg != "" {
				r.Violate("C05.R2", "Sync:checked-"+tc.name, w.instrPos(tc.c), "error of "+tc.name+" is not surfaced: "+msg)
			} else {
				r.OK("C05.R2", "Sync:checked-"+tc.name, w.instrPos(tc.c), "error tested; failure edge reaches only failure returns")
			}
		}
		r.Check(dominatesInstr(flushCall, fsyncCall), "C05.R2", "Sync:order", w.instrPos(fsyncCall),
			"flush dominates fsync", "fsync is not dominated by the flush: the file may be synced before the dirty pages are written")
	}

	// ---------- R3: no direct writes to the file from the library
	r.Rule("C05.R3", "who-may-call: package whispertool touches the file only through {Close, Stat, Fd} plus Sync (in Whisper.Sync) and Truncate (in Create); FileBuffer.WriteAt is called only from putPointAt and putHeader; os.OpenFile only from openAndLockFile; no other file-creating/-writing os/syscall call", 6)
	for _, f := range libFuncs(w) {
		for _, c := range callsIn(f) {
			sc := c.Common().StaticCallee()
			if sc == nil || sc.Name() == "init" {
				continue
			}
			if sc.Signature.Recv() != nil && isMethodFunc(sc, "os", "File", sc.Name()) {
				where, ok := osFileMethodsAllowedInLib[sc.Name()]
				key := "osfile:" + sc.Name() + "@" + funcName(f)
				switch {
				case !ok:
					r.Violate("C05.R3", key, w.instrPos(c), "package whispertool calls (*os.File)."+sc.Name()+": the file may only be accessed through the page buffer")
				case where != nil && !contains(where, funcName(f)):
					r.Violate("C05.R3", key, w.instrPos(c), "(*os.File)."+sc.Name()+" may only be called from "+strings.Join(where, ", "))
				default:
					r.OK("C05.R3", key, w.instrPos(c), "allowed file method at an allowed site")
				}
				continue
			}
			if p := pkgOf(sc); sc.Signature.Recv() == nil && p != nil {
				pp := p.Pkg.Path()
				key := "call:" + pp + "." + sc.Name() + "@" + funcName(f)
				if m := fileMutatingFuncs[pp]; m != nil && m[sc.Name()] {
					if pp == "os" && sc.Name() == "OpenFile" && funcName(f) == "whispertool.Whisper.openAndLockFile" {
						r.OK("C05.R3", key, w.instrPos(c), "the one descriptor of a handle is opened here")
					} else {
						r.Violate("C05.R3", key, w.instrPos(c), "package whispertool calls "+pp+"."+sc.Name()+": a second way to create/modify files besides the handle's page buffer")
					}
				}
				if pp == "syscall" || strings.HasPrefix(pp, "golang.org/x/sys/") {
					if pp == "syscall" && sc.Name() == "Flock" {
						continue
					}
					r.Violate("C05.R3", key, w.instrPos(c), "package whispertool makes a raw system call "+pp+"."+sc.Name())
				}
			}
		}
	}
	// the commands never override the open flags: Create keeps O_EXCL and never truncates an existing file
	if wo := fn(w.Lib, "WithOpenFileFlag"); wo != nil {
		nCallers := 0
		for _, e := range w.callers(wo) {
			if w.inModule(e.Caller.Func) {
				nCallers++
				r.Violate("C05.R3", "open-flag-override:"+funcName(e.Caller.Func), w.instrPos(e.Site), funcName(e.Caller.Func)+" overrides the handle's open flags: Create without O_EXCL truncates an existing file to the new layout's size and rewrites its header before anything is synced")
			}
		}
		if nCallers == 0 {
			r.OK("C05.R3", "open-flag-override", w.pos(wo.Pos()), "no function of the module overrides the open flags")
		}
	}
	allowedWriters := map[string]bool{"whispertool.Whisper.putPointAt": true, "whispertool.Whisper.putHeader": true}
	nW := 0
	for _, e := range w.callers(writeAt) {
		c := e.Caller.Func
		if !w.inModule(c) {
			continue
		}
		nW++
		r.Check(allowedWriters[funcName(c)], "C05.R3", "writeat-caller:"+funcName(c), w.instrPos(e.Site),
			"page write from the slot/header writer", "FileBuffer.WriteAt is called from "+funcName(c)+", not from putPointAt/putHeader")
	}
	if nW < 2 {
		r.Undecided("C05.R3", "writeat-callers", "-", fmt.Sprintf("expected putPointAt and putHeader to call FileBuffer.WriteAt, found %d callers", nW))
	}
	// the descriptor must not escape: loads of Whisper.file are used only as
	// receivers of *os.File methods, as argument 0 of filebuffer.New, or in comparisons.
	checkFieldConfinement(w, r, "C05.R3", "Whisper", "file", func(user ssa.Instruction, v ssa.Value) bool {
		switch u := user.(type) {
		case ssa.CallInstruction:
			if callRecv(u) == v {
				if sc := u.Common().StaticCallee(); sc != nil && isMethodFunc(sc, "os", "File", sc.Name()) {
					return true
				}
			}
			if isCallToPkgFunc(u, fbPath, "New") && len(u.Common().Args) > 0 && u.Common().Args[0] == v {
				return true
			}
		case *ssa.BinOp:
			return u.Op == token.EQL || u.Op == token.NEQ
		}
		return false
	})
	checkFieldConfinement(w, r, "C05.R3", "Whisper", "fileBuf", func(user ssa.Instruction, v ssa.Value) bool {
		switch u := user.(type) {
		case ssa.CallInstruction:
			if callRecv(u) == v {
				if sc := u.Common().StaticCallee(); sc != nil && isMethodFunc(sc, fbPath, "FileBuffer", sc.Name()) {
					return true
				}
			}
		case *ssa.BinOp:
			return u.Op == token.EQL || u.Op == token.NEQ
		}
		return false
	})

	// ---------- R4: Close reaches no write
	// neither package removes, renames or rewrites a file by its path: the only way bytes of an existing file change
	// is through a handle (and then only in Sync)
	{
		bad := ""
		n := 0
		for _, f := range w.modFuncs {
			if !w.inModule(f) {
				continue
			}
			n++
			for _, c := range callsIn(f) {
				sc := c.Common().StaticCallee()
				if sc == nil || sc.Pkg == nil {
					continue
				}
				pth, nm := sc.Pkg.Pkg.Path(), sc.Name()
				if sc.Signature.Recv() != nil {
					continue // methods of an open handle are C05.R3's own subject
				}
				if (pth == "os" && (nm == "Remove" || nm == "RemoveAll" || nm == "Rename" || nm == "Truncate" || nm == "WriteFile" || nm == "Create" || nm == "Link" || nm == "Symlink")) ||
					(pth == "io/ioutil" && nm == "WriteFile") || (pth == "syscall" && (nm == "Unlink" || nm == "Rename" || nm == "Truncate")) {
					if bad == "" {
						bad = funcName(f) + " calls " + pth + "." + nm + " at " + w.instrPos(c)
					}
				}
			}
		}
		r.Check(bad == "", "C05.R3", "module:no-path-level-writes", "whisper.go", fmt.Sprintf("%d functions of the module, none removes, renames, truncates or rewrites a file by path", n), bad+": an existing file can lose its contents outside Sync (a clean-up after a failed command deletes a destination that was there before)")
	}
	r.Rule("C05.R4", "no-path: from Whisper.Close no call path reaches FileBuffer.Flush, FileBuffer.WriteAt, (*os.File).Sync or Whisper.Sync", 1)
	isWrite := func(g *ssa.Function) bool {
		return g == flush || g == writeAt || g == sync || isMethodFunc(g, "os", "File", "Sync") || isMethodFunc(g, "os", "File", "Write") || isMethodFunc(g, "os", "File", "WriteAt") || isMethodFunc(g, "os", "File", "Truncate")
	}
	if p := w.findPath(closeF, isWrite, w.inModuleOrFB); p != nil {
		r.Violate("C05.R4", "Close:no-write", w.pos(closeF.Pos()), "Close reaches a write/flush: "+w.pathString(p))
	} else {
		r.OK("C05.R4", "Close:no-write", w.pos(closeF.Pos()), "no call path from Close to a flush, page write, truncate or fsync")
	}

	// ---------- R5: header and length are fixed at creation
	r.Rule("C05.R5", "who-may-call + derives-from: putHeader is called only from Create; Truncate's size and the page buffer's size in Create are the same ExpectedFileSize() value; Whisper.header is stored only in Create and readHeader (called only from Open); Header.TakeFrom receivers are fresh objects", 6)
	// the handle Sync writes through was opened for writing: every flag the package itself supplies is O_RDWR (a handle
	// that fell back to read-only makes Flush a no-op the dependency does not report, and Sync succeeds)
	{
		acc := osConst(w, "O_RDWR") | osConst(w, "O_WRONLY") | osConst(w, "O_RDONLY")
		rdwr := osConst(w, "O_RDWR")
		consts, nArgs := openFlagConsts(w)
		bad := ""
		for _, k := range consts {
			if k&acc != rdwr {
				bad = fmt.Sprintf("a flag value (%#x) whose access mode is not O_RDWR", k)
			}
		}
		if rdwr == 0 || nArgs == 0 {
			r.Undecided("C05.R5", "openFileFlag:read-write", "-", "os.O_RDWR or the os.OpenFile call not found")
		} else {
			r.Check(bad == "" && len(consts) > 0, "C05.R5", "openFileFlag:read-write", w.pos(create.Pos()), fmt.Sprintf("%d constants reach the flag of os.OpenFile, all with access mode O_RDWR", len(consts)), "os.OpenFile is reached by "+bad+": writes through such a handle are lost while Sync reports success")
		}
	}
	if ph := need(w, r, "C05.R5", w.Lib, "Whisper.putHeader"); ph != nil {
		n := 0
		for _, e := range w.callers(ph) {
			n++
			r.Check(e.Caller.Func == create, "C05.R5", "putHeader-caller:"+funcName(e.Caller.Func), w.instrPos(e.Site),
				"header written at creation", "putHeader is called from "+funcName(e.Caller.Func)+": the header bytes change after creation")
		}
		if n == 0 {
			r.Violate("C05.R5", "putHeader-caller:none", w.pos(ph.Pos()), "Create does not write the header")
		}
	}
	truncs := w.findCallsBelow(create, func(c ssa.CallInstruction) bool { return isMethodCall(c, "os", "File", "Truncate") }, 1)
	news := w.findCallsBelow(create, func(c ssa.CallInstruction) bool { return isCallToPkgFunc(c, fbPath, "New") }, 1)
	if len(truncs) != 1 || len(news) != 1 {
		r.Violate("C05.R5", "Create:size", w.pos(create.Pos()), fmt.Sprintf("Create must size the file with exactly one Truncate and hand the same size to one filebuffer.New (found %d Truncate, %d New)", len(truncs), len(news)))
	} else {
		truncArg := originThroughChain(callArgs(truncs[0].call)[0], truncs[0].chain)
		newArg := originThroughChain(news[0].call.Common().Args[1], news[0].chain)
		same := sameValue(truncArg, newArg)
		fromExpected := false
		if cv, ok := stripChangeType(truncArg).(*ssa.Call); ok {
			if sc := cv.Common().StaticCallee(); sc != nil && sc == fn(w.Lib, "Header.ExpectedFileSize") {
				fromExpected = true
			}
		}
		r.Check(same, "C05.R5", "Create:size-same", w.instrPos(news[0].call), "Truncate and filebuffer.New receive the same size value", "Truncate and filebuffer.New receive different sizes: the buffer's idea of the length differs from the file's, so a Sync can change the file's length")
		r.Check(fromExpected, "C05.R5", "Create:size-expected", w.instrPos(truncs[0].call), "size is Header.ExpectedFileSize()", "the file is not truncated to Header.ExpectedFileSize()")
	}
	if open := fn(w.Lib, "Open"); open != nil {
		onews := w.findCallsBelow(open, func(c ssa.CallInstruction) bool { return isCallToPkgFunc(c, fbPath, "New") }, 1)
		if len(onews) != 1 {
			r.Violate("C05.R5", "Open:size", w.pos(open.Pos()), fmt.Sprintf("Open must construct exactly one page buffer (found %d filebuffer.New)", len(onews)))
		} else {
			sz := stripChangeType(originThroughChain(onews[0].call.Common().Args[1], onews[0].chain))
			okSize := false
			if cv, ok := sz.(*ssa.Call); ok && cv.Common().IsInvoke() && cv.Common().Method.Name() == "Size" {
				// receiver must be the FileInfo returned by w.file.Stat()
				if ex, ok := cv.Common().Value.(*ssa.Extract); ok {
					if sc, ok := ex.Tuple.(*ssa.Call); ok && isMethodCall(sc, "os", "File", "Stat") {
						// of the handle's file, or of the very file the page buffer is built on
						fileArg := stripChangeType(originThroughChain(onews[0].call.Common().Args[0], onews[0].chain))
						if mi, isMI := fileArg.(*ssa.MakeInterface); isMI {
							fileArg = mi.X
						}
						if isLoadOfField(callRecv(sc), "Whisper", "file") || callRecv(sc) == fileArg {
							okSize = true
						}
					}
				}
			}
			r.Check(okSize, "C05.R5", "Open:size-stat", w.instrPos(onews[0].call), "the page buffer is sized by Stat().Size() of the opened file", "the page buffer of Open is not sized by the file's actual size (w.file.Stat().Size()): a Sync can then write beyond or short of the file's length")
		}
	}
	hdrWriters := map[string]bool{"whispertool.Create": true, "whispertool.Whisper.readHeader": true}
	nStores := 0
	for _, f := range libFuncs(w) {
		eachInstr(f, func(in ssa.Instruction) {
			st, ok := in.(*ssa.Store)
			if !ok {
				return
			}
			if base, fname, ok := fieldAddrOf(st.Addr); ok && fname == "header" && namedTypeName(base.Type()) == "Whisper" {
				nStores++
				// initialising the header field of a handle that is being constructed (fresh allocation in Open/Create) is not
				// a change of an existing handle's header
				_, fresh := base.(*ssa.Alloc)
				okStore := hdrWriters[funcName(f)] || (fresh && (funcName(f) == "whispertool.Open" || funcName(f) == "whispertool.Create"))
				r.Check(okStore, "C05.R5", "header-store:"+funcName(f), w.instrPos(st),
					"header set by a constructor", "Whisper.header is overwritten in "+funcName(f))
			}
		})
	}
	if nStores < 2 {
		r.Undecided("C05.R5", "header-stores", "-", fmt.Sprintf("expected stores to Whisper.header in Create and readHeader, found %d", nStores))
	}
	if rh := need(w, r, "C05.R5", w.Lib, "Whisper.readHeader"); rh != nil {
		open := fn(w.Lib, "Open")
		for _, e := range w.callers(rh) {
			r.Check(e.Caller.Func == open, "C05.R5", "readHeader-caller:"+funcName(e.Caller.Func), w.instrPos(e.Site),
				"header read at open", "readHeader is called from "+funcName(e.Caller.Func)+": the in-memory header can change after Open")
		}
	}
	if tf := need(w, r, "C05.R5", w.Lib, "Header.TakeFrom"); tf != nil {
		for _, e := range w.callers(tf) {
			c := e.Caller.Func
			if !w.inModule(c) || e.Site == nil {
				continue
			}
			recv := callRecv(e.Site)
			_, fresh := recv.(*ssa.Alloc)
			r.Check(fresh, "C05.R5", "Header.TakeFrom-recv@"+funcName(c), w.instrPos(e.Site),
				"decodes into a fresh Header", "Header.TakeFrom decodes into a Header that is not a fresh object (could be a live handle's header)")
		}
	}

	// ---------- R6: the page cache writes the file only in Flush
	r.Rule("C05.R6", "dependency: in filebuffer the write primitive (pwritevFull -> pwritev -> unix.Pwritev / (*os.File).WriteAt) is reachable only from Flush; ReadAt, WriteAt, Preread do not reach it", 3)
	pwFull := need(w, r, "C05.R6", w.FB, "pwritevFull")
	pw := need(w, r, "C05.R6", w.FB, "pwritev")
	if pwFull != nil && pw != nil {
		for _, e := range w.callers(pwFull) {
			r.Check(e.Caller.Func == flush, "C05.R6", "pwritevFull-caller:"+funcName(e.Caller.Func), w.instrPos(e.Site), "called from Flush", "pwritevFull is called outside Flush")
		}
		for _, e := range w.callers(pw) {
			r.Check(e.Caller.Func == pwFull, "C05.R6", "pwritev-caller:"+funcName(e.Caller.Func), w.instrPos(e.Site), "called from pwritevFull", "pwritev is called outside pwritevFull")
		}
		isPrim := func(g *ssa.Function) bool {
			if g == pw || g == pwFull {
				return true
			}
			if p := pkgOf(g); p != nil && strings.HasPrefix(p.Pkg.Path(), "golang.org/x/sys/unix") && strings.HasPrefix(g.Name(), "Pwrite") {
				return true
			}
			return isMethodFunc(g, "os", "File", "WriteAt") || isMethodFunc(g, "os", "File", "Write") || isMethodFunc(g, "os", "File", "Truncate")
		}
		var fbMethods []*ssa.Function
		for _, name := range []string{"FileBuffer.ReadAt", "FileBuffer.WriteAt", "FileBuffer.Preread"} {
			if m := fn(w.FB, name); m != nil {
				fbMethods = append(fbMethods, m)
			}
		}
		fbMethods = append(fbMethods, fn(w.FB, "New"))
		for _, m := range fbMethods {
			if m == nil {
				continue
			}
			if p := w.findPath(m, isPrim, func(g *ssa.Function) bool { return pkgOf(g) == w.FB }); p != nil {
				r.Violate("C05.R6", "no-write:"+funcName(m), w.pos(m.Pos()), "reaches the file-write primitive: "+w.pathString(p))
			} else {
				r.OK("C05.R6", "no-write:"+funcName(m), w.pos(m.Pos()), "does not reach the file-write primitive")
			}
		}
		// direct writes anywhere else in filebuffer
		for f := range w.allFuncs {
			if pkgOf(f) != w.FB || f == pw {
				continue
			}
			for _, c := range callsIn(f) {
				if sc := c.Common().StaticCallee(); sc != nil && f != pwFull && (isMethodFunc(sc, "os", "File", "WriteAt") || isMethodFunc(sc, "os", "File", "Write") || isMethodFunc(sc, "os", "File", "Truncate")) {
					r.Violate("C05.R6", "fb-direct-write@"+funcName(f), w.instrPos(c), "filebuffer writes the file outside pwritev")
				}
			}
		}
	}
}

func contains(ss []string, s string) bool {
	for _, x := range ss {
		if x == s {
			return true
		}
	}
	return false
}

// checkFieldConfinement: every load of T.field in the module is used only in
// ways accepted by ok; stores of the field are listed.
func checkFieldConfinement(w *World, r *Report, rule, typeName, field string, ok func(user ssa.Instruction, v ssa.Value) bool) {
	n := 0
	for _, f := range w.modFuncs {
		eachInstr(f, func(in ssa.Instruction) {
			u, isLoad := in.(*ssa.UnOp)
			if !isLoad || u.Op != token.MUL {
				return
			}
			base, fname, isF := fieldAddrOf(u.X)
			if !isF || fname != field || namedTypeName(base.Type()) != typeName {
				return
			}
			n++
			refs := u.Referrers()
			if refs == nil {
				return
			}
			for _, user := range *refs {
				if _, isDbg := user.(*ssa.DebugRef); isDbg {
					continue
				}
				if !ok(user, u) {
					r.Violate(rule, "escape:"+typeName+"."+field+"@"+funcName(f), w.instrPos(user),
						fmt.Sprintf("%s.%s escapes the handle (used by %T): who-may-call rules on the descriptor are no longer complete", typeName, field, user))
					return
				}
			}
		})
	}
	if n == 0 {
		r.Undecided(rule, "confined:"+typeName+"."+field, "-", "no load of "+typeName+"."+field+" found: field renamed?")
	} else {
		r.OK(rule, "confined:"+typeName+"."+field, "-", fmt.Sprintf("%d loads, all used as method receivers / buffer construction / nil comparison", n))
	}
}

func namedTypeName(t interface{ String() string }) string {
	s := t.String()
	s = strings.TrimPrefix(s, "*")
	if i := strings.LastIndex(s, "."); i >= 0 {
		s = s[i+1:]
	}
	return s
}

// ---------- R7: commands sync after their last write ----------

// mutating library API on a handle (receiver): names of *Whisper methods.
var mutatingMethods = map[string]bool{"UpdatePointsForArchive": true, "UpdatePointForArchive": true, "Update": true, "UpdateMany": true}

// handleRoot canonicalises a *Whisper value to its storage root so that two
// uses of the same variable compare equal.
func handleRoot(v ssa.Value) ssa.Value {
	for {
		switch x := v.(type) {
		case *ssa.UnOp:
			if x.Op == token.MUL {
				switch a := x.X.(type) {
				case *ssa.Alloc:
					return a
				case *ssa.FreeVar:
					return a
				}
			}
			return v
		case *ssa.ChangeType:
			v = x.X
		case *ssa.Phi:
			// all edges must agree
			var root ssa.Value
			for _, e := range x.Edges {
				er := handleRoot(e)
				if root == nil {
					root = er
				} else if root != er {
					return v
				}
			}
			if root != nil {
				return root
			}
			return v
		default:
			return v
		}
	}
}

type mutSite struct {
	call   ssa.CallInstruction
	handle ssa.Value // root of the handle mutated
	what   string
	start  *ssa.BasicBlock // block from which paths are explored (success edge), or nil: after call
}

// mutationSummary: does f mutate (without syncing afterwards) the handle
// passed as parameter i? Memoised. Returns parameter indices.
type syncAnalysis struct {
	unsynced map[*ssa.Function]bool
	w        *World
	memo     map[*ssa.Function]map[int]bool
	inProg   map[*ssa.Function]bool
	syncF    *ssa.Function
	createF  *ssa.Function
}

func (a *syncAnalysis) isSyncOn(in ssa.Instruction, root ssa.Value) bool {
	c, ok := in.(*ssa.Call)
	if !ok {
		return false
	}
	if c.Common().StaticCallee() != a.syncF {
		return false
	}
	return handleRoot(callRecv(c)) == root
}

// sites lists the mutation sites of f (direct API calls and calls to
// wrappers that leave a parameter handle mutated and unsynced).
func (a *syncAnalysis) sites(f *ssa.Function) []mutSite {
	var out []mutSite
	for _, c := range callsIn(f) {
		sc := c.Common().StaticCallee()
		if sc == nil {
			continue
		}
		if isMethodFunc(sc, libPath, "Whisper", sc.Name()) && mutatingMethods[sc.Name()] {
			out = append(out, mutSite{call: c, handle: handleRoot(callRecv(c)), what: "(*Whisper)." + sc.Name()})
			continue
		}
		if sc == a.createF {
			if cv, ok := c.(*ssa.Call); ok {
				// the handle is result #0
				var h ssa.Value
				for _, ref := range *cv.Referrers() {
					if e, ok := ref.(*ssa.Extract); ok && e.Index == 0 {
						h = e
					}
				}
				ms := mutSite{call: c, handle: h, what: "whispertool.Create"}
				if succ, _, ok := successEdge(cv); ok {
					ms.start = succ
				}
				out = append(out, ms)
			}
			continue
		}
		if a.w.inModule(sc) && pkgOf(sc) != a.w.Lib {
			if a.returnsUnsynced(sc) {
				if cv, ok := c.(*ssa.Call); ok {
					var h ssa.Value
					if refs := cv.Referrers(); refs != nil {
						for _, ref := range *refs {
							if e, ok := ref.(*ssa.Extract); ok && e.Index == 0 {
								h = e
							}
						}
					}
					if cv.Common().Signature().Results().Len() == 1 {
						h = cv
					}
					ms := mutSite{call: c, handle: h, what: funcName(sc) + " (returns a created handle that is not synced yet)"}
					if succ, _, ok := successEdge(cv); ok {
						ms.start = succ
					}
					out = append(out, ms)
				}
			}
			for pi := range a.pending(sc) {
				args := c.Common().Args
				if pi < len(args) {
					out = append(out, mutSite{call: c, handle: handleRoot(args[pi]), what: funcName(sc) + " (mutates its argument without syncing)"})
				}
			}
		}
	}
	return out
}

// handleAliases: the set of roots that denote the same handle as root within
// f (the variable a Create/Extract result is stored to, and loads of it).
func handleAliases(f *ssa.Function, root ssa.Value) map[ssa.Value]bool {
	al := map[ssa.Value]bool{root: true}
	changed := true
	for changed {
		changed = false
		eachInstr(f, func(in ssa.Instruction) {
			switch x := in.(type) {
			case *ssa.Store:
				if al[handleRoot(x.Val)] || al[x.Val] {
					var tgt ssa.Value = x.Addr
					if !al[tgt] {
						al[tgt] = true
						changed = true
					}
				}
			case *ssa.Phi:
				for _, e := range x.Edges {
					if (al[e] || al[handleRoot(e)]) && !al[x] {
						al[x] = true
						changed = true
					}
				}
			}
		})
	}
	return al
}

// bypassReturns lists the may-succeed returns reachable from site s without a Sync on its handle.
func (a *syncAnalysis) bypassReturns(f *ssa.Function, s mutSite) []*ssa.Return {
	al := handleAliases(f, s.handle)
	mp := newMustPerf(a.w, func(c ssa.CallInstruction) bool {
		if c.Common().StaticCallee() != a.syncF {
			return false
		}
		rv := callRecv(c)
		return al[rv] || al[handleRoot(rv)]
	})
	var out []*ssa.Return
	excluded := map[*ssa.Return]bool{}
	for {
		q := pathQuery{fn: f, passes: mp.instr, exit: func(rt *ssa.Return) bool { return maySucceed(rt) && !excluded[rt] }}
		if s.start != nil {
			q.startBlock = s.start
		} else {
			q.startAfter = s.call.(ssa.Instruction)
		}
		p, ret := findBypass(q)
		if p == nil {
			return out
		}
		out = append(out, ret)
		excluded[ret] = true
	}
}

// returnsHandle: the return hands the site's handle to the caller.
func returnsHandle(f *ssa.Function, s mutSite, rt *ssa.Return) bool {
	al := handleAliases(f, s.handle)
	for _, res := range rt.Results {
		if namedTypeName(res.Type()) != "Whisper" {
			continue
		}
		vals, _ := resolveValue(res, rt, map[ssa.Value]bool{})
		for _, v := range append(vals, res) {
			if al[v] || al[handleRoot(v)] {
				return true
			}
		}
	}
	return false
}

// returnsUnsynced: g creates (or receives from such a callee) a handle and can return it, successfully, without having synced it.
func (a *syncAnalysis) returnsUnsynced(g *ssa.Function) bool {
	if v, ok := a.unsynced[g]; ok {
		return v
	}
	if a.unsynced == nil {
		a.unsynced = map[*ssa.Function]bool{}
	}
	a.unsynced[g] = false
	res := false
	for _, s := range a.sites(g) {
		if !strings.HasPrefix(s.what, "whispertool.Create") && !strings.Contains(s.what, "not synced yet") {
			continue
		}
		if s.handle == nil {
			continue
		}
		for _, rt := range a.bypassReturns(g, s) {
			if returnsHandle(g, s, rt) {
				res = true
			}
		}
	}
	a.unsynced[g] = res
	return res
}

// capturedTarget: if the site's handle is stored into a variable captured from the enclosing function, returns that variable.
func capturedTarget(f *ssa.Function, s mutSite) *ssa.Alloc {
	al := handleAliases(f, s.handle)
	for v := range al {
		if fv, ok := v.(*ssa.FreeVar); ok {
			if b, ok := bindingOf(fv).(*ssa.Alloc); ok {
				return b
			}
		}
	}
	return nil
}

// pending: parameters of f whose handle is mutated in f and may be returned
// (on a may-succeed return) without a checked Sync on it.
func (a *syncAnalysis) pending(f *ssa.Function) map[int]bool {
	if m, ok := a.memo[f]; ok {
		return m
	}
	if a.inProg[f] {
		return nil
	}
	a.inProg[f] = true
	defer delete(a.inProg, f)
	res := map[int]bool{}
	for _, s := range a.sites(f) {
		for pi, p := range f.Params {
			if s.handle == ssa.Value(p) {
				if a.bypass(f, s) != "" {
					res[pi] = true
				}
			}
		}
	}
	a.memo[f] = res
	return res
}

// bypass returns a witness if from site s a may-succeed return is reachable
// without a Sync on the handle; "" otherwise.
func (a *syncAnalysis) bypass(f *ssa.Function, s mutSite) string {
	al := handleAliases(f, s.handle)
	mp := newMustPerf(a.w, func(c ssa.CallInstruction) bool {
		if c.Common().StaticCallee() != a.syncF {
			return false
		}
		rv := callRecv(c)
		return al[rv] || al[handleRoot(rv)]
	})
	q := pathQuery{fn: f, passes: mp.instr, exit: maySucceed}
	if s.start != nil {
		q.startBlock = s.start
	} else {
		q.startAfter = s.call.(ssa.Instruction)
	}
	p, ret := findBypass(q)
	if p == nil {
		return ""
	}
	return fmt.Sprintf("return at %s reachable without Sync via %s", a.w.instrPos(ret), a.w.blockPathString(p))
}

// cmdReachableFrom: the cmd/main functions (and their literals) reachable in the call graph from the methods of the named command types.
func cmdReachableFrom(w *World, typeNames ...string) map[*ssa.Function]bool {
	seen := map[*ssa.Function]bool{}
	var q []*ssa.Function
	// owner: the receiver type name of the method a function (or literal, or bound-method wrapper) belongs to
	owner := func(f *ssa.Function) string {
		root := f
		for root.Parent() != nil {
			root = root.Parent()
		}
		var t types.Type
		if root.Signature.Recv() != nil {
			t = root.Signature.Recv().Type()
		} else if len(root.FreeVars) == 1 && strings.HasSuffix(root.Name(), "$bound") {
			t = root.FreeVars[0].Type()
		} else {
			return ""
		}
		if p, ok := t.(*types.Pointer); ok {
			t = p.Elem()
		}
		if n, ok := t.(*types.Named); ok {
			return n.Obj().Name()
		}
		return ""
	}
	mine := func(tn string) bool {
		for _, x := range typeNames {
			if x == tn {
				return true
			}
		}
		return false
	}
	for _, f := range cmdFuncs(w) {
		if mine(owner(f)) && !seen[f] {
			seen[f] = true
			q = append(q, f)
		}
	}
	for len(q) > 0 {
		f := q[0]
		q = q[1:]
		for _, e := range w.callees(f) {
			g := e.Callee.Func
			// the call graph resolves the callback of shared helpers (withTextOutWriter) to every command's
			// body: code owned by another command is not this command's
			if o := owner(g); strings.HasSuffix(o, "Command") && !mine(o) {
				continue
			}
			if p := pkgOf(g); (p == w.Cmd || p == w.Main) && !seen[g] {
				seen[g] = true
				q = append(q, g)
			}
		}
		for _, g := range f.AnonFuncs {
			if !seen[g] {
				seen[g] = true
				q = append(q, g)
			}
		}
	}
	return seen
}

// ruleC05R7: scope (nil = every cmd function) restricts the rule to the functions that serve the property's command.
func ruleC05R7(w *World, r *Report, rule string, floor int, scope map[*ssa.Function]bool) {
	what := "every cmd function"
	if scope != nil {
		what = "every cmd function reachable from the property's command(s)"
	}
	r.Rule(rule, "must-pass-through (checked): in "+what+", from each call that mutates a handle (Update*, Create, or a wrapper that leaves its argument mutated) every path to a return that may report success passes Whisper.Sync on that handle, and Sync's error is surfaced", floor)
	syncF := fn(w.Lib, "Whisper.Sync")
	createF := fn(w.Lib, "Create")
	if syncF == nil || createF == nil {
		r.Undecided(rule, "anchors", "-", "Whisper.Sync / Create not found")
		return
	}
	a := &syncAnalysis{w: w, memo: map[*ssa.Function]map[int]bool{}, inProg: map[*ssa.Function]bool{}, syncF: syncF, createF: createF}
	fs := cmdFuncs(w)
	sort.Slice(fs, func(i, j int) bool { return funcName(fs[i]) < funcName(fs[j]) })
	for _, f := range fs {
		if scope != nil && !scope[f] {
			continue
		}
		for _, s := range a.sites(f) {
			key := fmt.Sprintf("%s:%s", funcName(f), s.what)
			// a parameter handle: obligation moves to the callers (pending)
			isParam := false
			for _, p := range f.Params {
				if s.handle == ssa.Value(p) {
					isParam = true
				}
			}
			wit := a.bypass(f, s)
			if isParam {
				if wit != "" {
					// must have at least one caller that inherits the obligation
					n := 0
					for _, e := range w.callers(f) {
						if w.inModule(e.Caller.Func) {
							n++
						}
					}
					if n == 0 {
						r.Violate(rule, key, w.instrPos(s.call), "mutates its handle argument without Sync and has no caller that could sync: "+wit)
					} else {
						r.OK(rule, key, w.instrPos(s.call), fmt.Sprintf("wrapper: leaves the Sync obligation to its %d caller(s), which are checked", n))
					}
				} else {
					r.OK(rule, key, w.instrPos(s.call), "synced on every may-succeed path")
				}
				continue
			}
			if s.handle == nil {
				r.Undecided(rule, key, w.instrPos(s.call), "cannot identify the handle that is mutated")
				continue
			}
			if wit != "" {
				// ownership transfer: every unsynced success return hands the handle to the caller, or the handle was stored into a variable of the enclosing function
				brs := a.bypassReturns(f, s)
				allTransfer := len(brs) > 0
				for _, rt := range brs {
					if !returnsHandle(f, s, rt) {
						allTransfer = false
					}
				}
				if allTransfer {
					n := 0
					for _, e := range w.callers(f) {
						if w.inModule(e.Caller.Func) {
							n++
						}
					}
					if n > 0 {
						r.OK(rule, key, w.instrPos(s.call), fmt.Sprintf("the unsynced handle is returned: the Sync obligation passes to its %d caller(s), which are checked", n))
						continue
					}
				}
				if cap := capturedTarget(f, s); cap != nil && f.Parent() != nil {
					// the enclosing function must sync the captured handle on every may-succeed return
					parent := f.Parent()
					mp := newMustPerf(w, func(c ssa.CallInstruction) bool {
						if c.Common().StaticCallee() != syncF {
							return false
						}
						return handleRoot(callRecv(c)) == ssa.Value(cap)
					})
					// start after the goroutines were joined (Wait), or at the entry
					var start ssa.Instruction
					for _, c := range callsIn(parent) {
						if isMethodCall(c, "golang.org/x/sync/errgroup", "Group", "Wait") {
							start = c.(ssa.Instruction)
						}
					}
					q := pathQuery{fn: parent, passes: mp.instr, exit: maySucceed}
					if cv, ok := start.(*ssa.Call); ok {
						if succ, _, okE := successEdge(cv); okE {
							q.startBlock = succ
						} else {
							q.startAfter = cv
						}
					} else {
						q.startBlock = parent.Blocks[0]
					}
					if p, ret := findBypass(q); p != nil {
						r.Violate(rule, funcName(parent)+":"+s.what, w.instrPos(ret), "a created, not yet synced destination handle is kept in "+cap.Comment+" and "+parent.Name()+" can report success without Whisper.Sync on it: the new file is left without its header", w.blockPathString(p))
					} else {
						r.OK(rule, funcName(parent)+":"+s.what, w.instrPos(s.call), "the enclosing function syncs the captured handle on every may-succeed return")
					}
					continue
				}
				r.Violate(rule, key, w.instrPos(s.call), "after "+s.what+" a success return is reachable without Whisper.Sync on the same handle: "+wit)
			} else {
				r.OK(rule, key, w.instrPos(s.call), "every path from the mutation to a may-succeed return passes Sync on the same handle")
			}
		}
		// every Sync call in cmd has its error surfaced
		for _, c := range callsIn(f) {
			cv, ok := c.(*ssa.Call)
			if ok && c.Common().StaticCallee() == syncF {
				key := funcName(f) + ":Sync-checked"
				if msg := checkErrorHandled(w, cv); msg != "" {
					r.Violate(rule, key, w.instrPos(c), "error of Sync is not surfaced: "+msg)
				} else {
					r.OK(rule, key, w.instrPos(c), "Sync's error is tested and its failure edge reaches only failure returns")
				}
			} else if c.Common().StaticCallee() == syncF {
				r.Violate(rule, funcName(f)+":Sync-deferred", w.instrPos(c), "Sync is deferred or run in a goroutine: its error cannot be surfaced")
			}
		}
	}
}

func ruleC05R8(w *World, r *Report) {
	r.Rule("C05.R8", "no early Sync: after a Sync call in cmd no mutating call on a handle is reachable within the function, unless the Sync is dominated by a successful Create in the same function (a new file)", 3)
	syncF := fn(w.Lib, "Whisper.Sync")
	createF := fn(w.Lib, "Create")
	a := &syncAnalysis{w: w, memo: map[*ssa.Function]map[int]bool{}, inProg: map[*ssa.Function]bool{}, syncF: syncF, createF: createF}
	for _, f := range cmdFuncs(w) {
		sites := a.sites(f)
		for _, c := range callsIn(f) {
			if c.Common().StaticCallee() != syncF {
				continue
			}
			key := funcName(f) + ":Sync"
			// dominated by a successful Create?
			newFile := false
			for _, s := range sites {
				if s.what == "whispertool.Create" && s.start != nil && (s.start == c.Block() || s.start.Dominates(c.Block())) {
					newFile = true
				}
			}
			// is a mutation reachable after the Sync?
			reach := reachableBlocksAfter(c)
			var later ssa.CallInstruction
			for _, s := range sites {
				if s.what == "whispertool.Create" {
					continue
				}
				si := s.call.(ssa.Instruction)
				if reach[si.Block()] && !(si.Block() == c.Block() && dominatesInstr(si, c) && !inLoopWith(c.Block())) {
					later = s.call
				}
			}
			switch {
			case later == nil:
				r.OK("C05.R8", key, w.instrPos(c), "no mutation reachable after this Sync")
			case newFile:
				r.OK("C05.R8", key, w.instrPos(c), "Sync of a file created in this function")
			default:
				r.Violate("C05.R8", key, w.instrPos(c), "a mutating call at "+w.instrPos(later)+" is reachable after this Sync: a later failure would leave a partially written destination on disk")
			}
		}
	}
	// R8b: after a call that syncs (directly or through a wrapper) a handle
	// that was not created in this function, nothing fallible may follow: a
	// failure return reachable after the Sync means the command can fail with
	// the existing destination already rewritten on disk.
	maySync := map[*ssa.Function]bool{}
	var computeMaySync func(f *ssa.Function, depth int) bool
	computeMaySync = func(f *ssa.Function, depth int) bool {
		if v, ok := maySync[f]; ok {
			return v
		}
		maySync[f] = false
		res := false
		for _, c := range callsIn(f) {
			sc := c.Common().StaticCallee()
			if sc == syncF {
				res = true
			} else if sc != nil && w.inModule(sc) && pkgOf(sc) != w.Lib && depth > 0 && computeMaySync(sc, depth-1) {
				res = true
			}
		}
		maySync[f] = res
		return res
	}
	for _, f := range cmdFuncs(w) {
		sites := a.sites(f)
		for _, c := range callsIn(f) {
			cv, ok := c.(*ssa.Call)
			if !ok {
				continue
			}
			sc := c.Common().StaticCallee()
			if sc == nil || !(sc == syncF || (w.inModule(sc) && pkgOf(sc) != w.Lib && computeMaySync(sc, 4))) {
				continue
			}
			// only calls that take a handle created elsewhere (receiver/argument of type *Whisper)
			hasHandle := false
			for _, arg := range c.Common().Args {
				if namedTypeName(arg.Type()) == "Whisper" {
					hasHandle = true
				}
			}
			if !hasHandle {
				continue
			}
			key := funcName(f) + ":after-sync:" + funcName(sc)
			newFile := false
			for _, s := range sites {
				if s.what == "whispertool.Create" && s.start != nil && (s.start == c.Block() || s.start.Dominates(c.Block())) {
					newFile = true
				}
			}
			if newFile {
				r.OK("C05.R8", key, w.instrPos(c), "syncs a file created in this function")
				continue
			}
			q := pathQuery{fn: f, passes: func(ssa.Instruction) bool { return false }, exit: isFailureReturn}
			if succ, _, ok := successEdge(cv); ok {
				q.startBlock = succ
			} else {
				q.startAfter = cv
			}
			if p, ret := findBypass(q); p != nil {
				r.Violate("C05.R8", key, w.instrPos(c), "after this call has synced the destination a failure return is still reachable at "+w.instrPos(ret)+": the command can fail with an existing destination already rewritten", w.blockPathString(p))
			} else {
				r.OK("C05.R8", key, w.instrPos(c), "the Sync is the last fallible step on every path")
			}
		}
	}
}

// reachableBlocksAfter: blocks reachable from the instruction (its own block
// is included only if reachable again through a cycle or if instructions
// follow it; callers handle same-block ordering).
func reachableBlocksAfter(in ssa.Instruction) map[*ssa.BasicBlock]bool {
	seen := map[*ssa.BasicBlock]bool{}
	var q []*ssa.BasicBlock
	q = append(q, in.Block().Succs...)
	for len(q) > 0 {
		b := q[0]
		q = q[1:]
		if seen[b] {
			continue
		}
		seen[b] = true
		q = append(q, b.Succs...)
	}
	// same block: instructions after `in`
	seen[in.Block()] = true
	return seen
}

func inLoopWith(b *ssa.BasicBlock) bool {
	seen := map[*ssa.BasicBlock]bool{}
	q := append([]*ssa.BasicBlock{}, b.Succs...)
	for len(q) > 0 {
		x := q[0]
		q = q[1:]
		if x == b {
			return true
		}
		if seen[x] {
			continue
		}
		seen[x] = true
		q = append(q, x.Succs...)
	}
	return false
}
