package main

// Re-outlining of inlined-and-deleted anchor functions.
//
// The rules are anchored on the functions of the reference tree. When such a
// function M is gone from the analysed tree T (and was not merely renamed),
// the usual cause is a refactoring that inlined M into its callers. The rules
// about M then have nothing to look at. This pass tries to prove that this is
// all that happened, and if so analyses the reference decomposition instead:
//
//  1. T' := T with the reference text of M added back and the reference text
//     of every reference caller of M put in the place of that caller in T
//     (refsrc/ holds the reference sources; nothing else of T is touched).
//     T' must type-check.
//  2. T'' := T' with M expanded into its callers by the helper-expansion pass
//     of normalise.go (semantics-preserving by construction).
//  3. Every replaced caller C must be *canonically equal* in T and in T'':
//     the two SSA functions are walked in lockstep; every call, store, send,
//     panic, return and branch condition must render to the same canonical
//     expression (expr.go), block for block (negated conditions with swapped
//     successors are the same branch; empty jump blocks are skipped).
//
// If (3) holds, T's callers are T”'s callers, T” is equivalent to T', and
// T' differs from T in nothing else: the rules are evaluated on T'. If any
// step fails the tree is analysed as written and the rules anchored on M
// report *undecided*, as before. The evidence notes say which happened.

import (
	"embed"
	"fmt"
	"go/ast"
	"go/parser"
	"go/token"
	"go/types"
	"os"
	"path/filepath"
	"sort"
	"strings"

	"golang.org/x/tools/go/packages"
	"golang.org/x/tools/go/ssa"
)

//go:embed refsrc
var refFS embed.FS

type refDecl struct {
	key   string // declKey
	file  string // path relative to the module root
	text  string // source text of the declaration (with doc comment)
	calls map[string]bool
	imps  map[string]string // import name -> path of the file it was declared in
}

// loadRefDecls parses the embedded reference sources (syntax only).
func loadRefDecls() (map[string]*refDecl, error) {
	out := map[string]*refDecl{}
	pkgPathOfDir := func(dir string) string {
		if dir == "." || dir == "" {
			return libPath
		}
		return libPath + "/" + filepath.ToSlash(dir)
	}
	var walk func(dir string) error
	walk = func(dir string) error {
		ents, err := refFS.ReadDir(dir)
		if err != nil {
			return err
		}
		for _, e := range ents {
			p := dir + "/" + e.Name()
			if e.IsDir() {
				if err := walk(p); err != nil {
					return err
				}
				continue
			}
			if !strings.HasSuffix(e.Name(), ".go.txt") {
				continue
			}
			b, err := refFS.ReadFile(p)
			if err != nil {
				return err
			}
			rel := strings.TrimSuffix(strings.TrimPrefix(p, "refsrc/"), ".txt")
			fset := token.NewFileSet()
			f, err := parser.ParseFile(fset, rel, b, parser.ParseComments)
			if err != nil {
				return err
			}
			imps := map[string]string{}
			for _, is := range f.Imports {
				path := strings.Trim(is.Path.Value, `"`)
				name := path[strings.LastIndex(path, "/")+1:]
				if is.Name != nil {
					name = is.Name.Name
				}
				imps[name] = path
			}
			pkgPath := pkgPathOfDir(filepath.Dir(rel))
			for _, d := range f.Decls {
				fd, ok := d.(*ast.FuncDecl)
				if !ok || fd.Body == nil {
					continue
				}
				start := fd.Pos()
				if fd.Doc != nil {
					start = fd.Doc.Pos()
				}
				rd := &refDecl{key: declKey(pkgPath, fd), file: rel, text: string(b[fset.Position(start).Offset:fset.Position(fd.End()).Offset]), calls: map[string]bool{}, imps: imps}
				ast.Inspect(fd.Body, func(n ast.Node) bool {
					if c, ok := n.(*ast.CallExpr); ok {
						switch fx := c.Fun.(type) {
						case *ast.Ident:
							rd.calls[fx.Name] = true
						case *ast.SelectorExpr:
							rd.calls["."+fx.Sel.Name] = true
						}
					}
					return true
				})
				out[rd.key] = rd
			}
		}
		return nil
	}
	if err := walk("refsrc"); err != nil {
		return nil, err
	}
	return out, nil
}

// missingAnchors: inventory functions (non-test, module packages lib/cmd/main) that the tree no longer declares.
func missingAnchors(roots []*packages.Package, inv map[string]string, renames map[string]string) []string {
	present := map[string]bool{}
	for _, p := range roots {
		if !strings.HasPrefix(p.PkgPath, libPath) {
			continue
		}
		for _, f := range p.Syntax {
			for _, d := range f.Decls {
				if fd, ok := d.(*ast.FuncDecl); ok {
					present[declKey(p.PkgPath, fd)] = true
				}
			}
		}
	}
	renamedFrom := map[string]bool{}
	for _, old := range renames {
		renamedFrom[old] = true
	}
	var out []string
	for k := range inv {
		pk := pkgOfKey(k)
		if pk != libPath && pk != cmdPath && pk != mainPath {
			continue
		}
		if !present[k] && !renamedFrom[k] {
			out = append(out, k)
		}
	}
	sort.Strings(out)
	return out
}

type reoutlinePlan struct {
	missing  []string          // keys of the functions put back
	replaced []string          // keys of the callers replaced by their reference text
	overlay  map[string][]byte // T'
}

// planReoutline builds T' as an overlay over the files of roots. "" error = ok.
func planReoutline(roots []*packages.Package, missing []string, renames map[string]string) (*reoutlinePlan, string) {
	ref, err := loadRefDecls()
	if err != nil {
		return nil, "reference sources unreadable: " + err.Error()
	}
	newName := map[string]string{} // inventory key -> current key
	for nk, ok := range renames {
		newName[ok] = nk
	}
	// where the functions of T are
	type loc struct {
		p    *packages.Package
		file *ast.File
		fd   *ast.FuncDecl
	}
	where := map[string]loc{}
	for _, p := range roots {
		if !strings.HasPrefix(p.PkgPath, libPath) {
			continue
		}
		for _, f := range p.Syntax {
			for _, d := range f.Decls {
				if fd, ok := d.(*ast.FuncDecl); ok {
					where[declKey(p.PkgPath, fd)] = loc{p, f, fd}
				}
			}
		}
	}
	plan := &reoutlinePlan{missing: missing, overlay: map[string][]byte{}}
	type edit struct {
		start, end int
		text       string
	}
	edits := map[string][]edit{} // file name -> edits
	appendTo := map[string]string{}
	needImps := map[string]map[string]string{}
	replaced := map[string]bool{}
	isMissing := map[string]bool{}
	for _, m := range missing {
		isMissing[m] = true
	}
	for _, m := range missing {
		md := ref[m]
		if md == nil {
			return nil, "no reference text for " + m
		}
		name := m[strings.LastIndex(m, ".")+1:]
		isMethod := strings.Count(strings.TrimPrefix(m, pkgOfKey(m)+"."), ".") == 1
		callName := name
		if isMethod {
			callName = "." + name
		}
		var home string
		var callers []string
		for k, rd := range ref {
			if pkgOfKey(k) != pkgOfKey(m) || !rd.calls[callName] || isMissing[k] {
				continue
			}
			callers = append(callers, k)
		}
		sort.Strings(callers)
		if len(callers) == 0 {
			return nil, "the reference tree has no caller of " + m + " in its package"
		}
		for _, k := range callers {
			cur := k
			if nk, ok := newName[k]; ok {
				cur = nk
			}
			l, ok := where[cur]
			if !ok {
				return nil, "reference caller " + k + " of " + m + " is not in the tree either"
			}
			if cur != k {
				return nil, "reference caller " + k + " of " + m + " was renamed"
			}
			fname := l.p.Fset.Position(l.file.Pos()).Filename
			if home == "" {
				home = fname
			}
			if !replaced[k] {
				replaced[k] = true
				start := l.fd.Pos()
				if l.fd.Doc != nil {
					start = l.fd.Doc.Pos()
				}
				edits[fname] = append(edits[fname], edit{l.p.Fset.Position(start).Offset, l.p.Fset.Position(l.fd.End()).Offset, ref[k].text})
				if needImps[fname] == nil {
					needImps[fname] = map[string]string{}
				}
				for n, p := range ref[k].imps {
					needImps[fname][n] = p
				}
			}
		}
		appendTo[home] += "\n\n" + md.text + "\n"
		if needImps[home] == nil {
			needImps[home] = map[string]string{}
		}
		for n, p := range md.imps {
			needImps[home][n] = p
		}
	}
	for k := range replaced {
		plan.replaced = append(plan.replaced, k)
	}
	sort.Strings(plan.replaced)
	files := map[string]bool{}
	for f := range edits {
		files[f] = true
	}
	for f := range appendTo {
		files[f] = true
	}
	for fname := range files {
		src, err := os.ReadFile(fname)
		if err != nil {
			return nil, err.Error()
		}
		es := edits[fname]
		sort.Slice(es, func(i, j int) bool { return es[i].start > es[j].start })
		for _, e := range es {
			src = append(append(append([]byte{}, src[:e.start]...), e.text...), src[e.end:]...)
		}
		src = append(src, appendTo[fname]...)
		// imports the reference text may need and the file does not have: added only when the name is used
		// as a qualifier in the new text and not yet imported
		var astf *ast.File
		for _, p := range roots {
			for _, f := range p.Syntax {
				if p.Fset.Position(f.Pos()).Filename == fname {
					astf = f
				}
			}
		}
		have := map[string]bool{}
		if astf != nil {
			for _, is := range astf.Imports {
				path := strings.Trim(is.Path.Value, `"`)
				n := path[strings.LastIndex(path, "/")+1:]
				if is.Name != nil {
					n = is.Name.Name
				}
				have[n] = true
			}
		}
		var add []string
		for n, p := range needImps[fname] {
			if have[n] || n == "_" || n == "." {
				continue
			}
			if strings.Contains(string(src), n+".") {
				add = append(add, fmt.Sprintf("import %s %q", n, p))
			}
		}
		if len(add) > 0 && astf != nil {
			sort.Strings(add)
			// after the package clause (edits were applied from the end, offsets before the first decl are intact)
			var pkgEnd int
			for _, p := range roots {
				for _, f := range p.Syntax {
					if f == astf {
						pkgEnd = p.Fset.Position(f.Name.End()).Offset
					}
				}
			}
			src = append(append(append([]byte{}, src[:pkgEnd]...), ("\n"+strings.Join(add, "\n")+"\n")...), src[pkgEnd:]...)
		}
		plan.overlay[fname] = src
	}
	return plan, ""
}

// ---- canonical equality of two SSA functions ----

type eqCtx struct {
	wf, wg *World
	ef, eg *exprCtx
	pair   map[*ssa.BasicBlock]*ssa.BasicBlock
	back   map[*ssa.BasicBlock]*ssa.BasicBlock
	why    string
}

func funcsCanonicallyEqual(wf *World, f *ssa.Function, wg *World, g *ssa.Function) (bool, string) {
	if len(f.Blocks) == 0 || len(g.Blocks) == 0 {
		return false, "no body"
	}
	q := &eqCtx{wf: wf, wg: wg, ef: newExprCtx(wf), eg: newExprCtx(wg), pair: map[*ssa.BasicBlock]*ssa.BasicBlock{}, back: map[*ssa.BasicBlock]*ssa.BasicBlock{}}
	if !q.blocks(f.Blocks[0], g.Blocks[0]) {
		return false, q.why
	}
	if len(f.AnonFuncs) != len(g.AnonFuncs) {
		return false, fmt.Sprintf("%d vs %d function literals", len(f.AnonFuncs), len(g.AnonFuncs))
	}
	for i := range f.AnonFuncs {
		if ok, why := funcsCanonicallyEqual(wf, f.AnonFuncs[i], wg, g.AnonFuncs[i]); !ok {
			return false, "in literal " + fmt.Sprint(i+1) + ": " + why
		}
	}
	return true, ""
}

func isEffect(in ssa.Instruction) bool {
	switch in.(type) {
	case *ssa.Call, *ssa.Go, *ssa.Defer, *ssa.Store, *ssa.MapUpdate, *ssa.Send, *ssa.Panic, *ssa.RunDefers, *ssa.Return, *ssa.If:
		return true
	}
	return false
}

// effective skips blocks that only jump.
func effective(b *ssa.BasicBlock) *ssa.BasicBlock {
	for i := 0; i < 50; i++ {
		hasEffect := false
		for _, in := range b.Instrs {
			if isEffect(in) {
				hasEffect = true
			}
		}
		if hasEffect || len(b.Succs) != 1 {
			return b
		}
		b = b.Succs[0]
	}
	return b
}

// condKey: canonical rendering of a branch condition and whether it is negated w.r.t. that rendering.
func condKey(c *exprCtx, v ssa.Value) (string, bool) {
	neg := false
	for i := 0; i < 4; i++ {
		u, ok := v.(*ssa.UnOp)
		if !ok || u.Op != token.NOT {
			break
		}
		v = u.X
		neg = !neg
	}
	if bo, ok := v.(*ssa.BinOp); ok && isCmp(bo.Op) {
		op, x, y := bo.Op, bo.X, bo.Y
		isInt := func(v ssa.Value) bool {
			b, ok := v.Type().Underlying().(*types.Basic)
			return ok && b.Info()&types.IsInteger != 0
		}
		switch op {
		case token.NEQ:
			op, neg = token.EQL, !neg
		case token.GTR:
			op, x, y = token.LSS, y, x
		case token.GEQ:
			op, x, y = token.LEQ, y, x
		}
		if op == token.LEQ && isInt(x) && isInt(y) {
			// a <= b  ==  !(b < a) for integers
			op, x, y, neg = token.LSS, y, x, !neg
		}
		xs, ys := c.expr(x), c.expr(y)
		if op == token.EQL && xs > ys {
			xs, ys = ys, xs
		}
		return "(" + xs + " " + op.String() + " " + ys + ")", neg
	}
	return c.expr(v), neg
}

func (q *eqCtx) fail(format string, args ...interface{}) bool {
	if q.why == "" {
		q.why = fmt.Sprintf(format, args...)
	}
	return false
}

func renderCommon(c *exprCtx, cc *ssa.CallCommon) string {
	var args []string
	for _, a := range cc.Args {
		args = append(args, c.expr(a))
	}
	name := ""
	switch {
	case cc.IsInvoke():
		name = c.expr(cc.Value) + "." + cc.Method.Name()
	case cc.StaticCallee() != nil:
		name = funcName(cc.StaticCallee())
	default:
		name = c.expr(cc.Value)
	}
	return name + "(" + strings.Join(args, ", ") + ")"
}

func (q *eqCtx) blocks(bf, bg *ssa.BasicBlock) bool {
	bf, bg = effective(bf), effective(bg)
	if p, ok := q.pair[bf]; ok {
		if p != bg {
			return q.fail("block %d of one function corresponds to two different blocks of the other", bf.Index)
		}
		return true
	}
	if p, ok := q.back[bg]; ok && p != bf {
		return q.fail("block %d of the expanded function corresponds to two different blocks", bg.Index)
	}
	q.pair[bf], q.back[bg] = bg, bf
	var ef, eg []ssa.Instruction
	for _, in := range bf.Instrs {
		if isEffect(in) {
			ef = append(ef, in)
		}
	}
	for _, in := range bg.Instrs {
		if isEffect(in) {
			eg = append(eg, in)
		}
	}
	if len(ef) != len(eg) {
		return q.fail("a block performs %d effects, its counterpart %d (%s vs %s)", len(ef), len(eg), q.wf.instrPos(firstOr(ef, bf)), q.wg.instrPos(firstOr(eg, bg)))
	}
	for i := range ef {
		a, b := ef[i], eg[i]
		var sa, sb string
		switch x := a.(type) {
		case *ssa.Call:
			y, ok := b.(*ssa.Call)
			if !ok {
				return q.fail("different kinds of effect at %s", q.wf.instrPos(a))
			}
			sa, sb = "call "+q.ef.callExpr(x), "call "+q.eg.callExpr(y)
		case *ssa.Go:
			y, ok := b.(*ssa.Go)
			if !ok {
				return q.fail("different kinds of effect at %s", q.wf.instrPos(a))
			}
			sa, sb = "go "+renderCommon(q.ef, &x.Call), "go "+renderCommon(q.eg, &y.Call)
		case *ssa.Defer:
			y, ok := b.(*ssa.Defer)
			if !ok {
				return q.fail("different kinds of effect at %s", q.wf.instrPos(a))
			}
			sa, sb = "defer "+renderCommon(q.ef, &x.Call), "defer "+renderCommon(q.eg, &y.Call)
		case *ssa.Store:
			y, ok := b.(*ssa.Store)
			if !ok {
				return q.fail("different kinds of effect at %s", q.wf.instrPos(a))
			}
			sa, sb = "store "+q.ef.expr(x.Addr)+" = "+q.ef.expr(x.Val), "store "+q.eg.expr(y.Addr)+" = "+q.eg.expr(y.Val)
		case *ssa.MapUpdate:
			y, ok := b.(*ssa.MapUpdate)
			if !ok {
				return q.fail("different kinds of effect at %s", q.wf.instrPos(a))
			}
			sa, sb = "map "+q.ef.expr(x.Map)+"["+q.ef.expr(x.Key)+"]="+q.ef.expr(x.Value), "map "+q.eg.expr(y.Map)+"["+q.eg.expr(y.Key)+"]="+q.eg.expr(y.Value)
		case *ssa.Send:
			y, ok := b.(*ssa.Send)
			if !ok {
				return q.fail("different kinds of effect at %s", q.wf.instrPos(a))
			}
			sa, sb = "send "+q.ef.expr(x.Chan)+" "+q.ef.expr(x.X), "send "+q.eg.expr(y.Chan)+" "+q.eg.expr(y.X)
		case *ssa.Panic:
			y, ok := b.(*ssa.Panic)
			if !ok {
				return q.fail("different kinds of effect at %s", q.wf.instrPos(a))
			}
			sa, sb = "panic "+q.ef.expr(x.X), "panic "+q.eg.expr(y.X)
		case *ssa.RunDefers:
			if _, ok := b.(*ssa.RunDefers); !ok {
				return q.fail("different kinds of effect at %s", q.wf.instrPos(a))
			}
		case *ssa.Return:
			y, ok := b.(*ssa.Return)
			if !ok || len(x.Results) != len(y.Results) {
				return q.fail("different kinds of effect at %s", q.wf.instrPos(a))
			}
			for j := range x.Results {
				sa += " " + q.ef.expr(x.Results[j])
				sb += " " + q.eg.expr(y.Results[j])
			}
		case *ssa.If:
			y, ok := b.(*ssa.If)
			if !ok {
				return q.fail("different kinds of effect at %s", q.wf.instrPos(a))
			}
			ka, na := condKey(q.ef, x.Cond)
			kb, nb := condKey(q.eg, y.Cond)
			if ka != kb {
				return q.fail("branch conditions differ at %s: %s vs %s", q.wf.instrPos(a), ka, kb)
			}
			s0, s1 := bf.Succs[0], bf.Succs[1]
			t0, t1 := bg.Succs[0], bg.Succs[1]
			if na != nb {
				t0, t1 = t1, t0
			}
			return q.blocks(s0, t0) && q.blocks(s1, t1)
		}
		if sa != sb {
			return q.fail("effects differ at %s: %s vs %s", q.wf.instrPos(a), sa, sb)
		}
	}
	// fall through to the single successor (after the last non-terminating effect)
	if len(bf.Succs) == 1 && len(bg.Succs) == 1 {
		return q.blocks(bf.Succs[0], bg.Succs[0])
	}
	if len(bf.Succs) != len(bg.Succs) {
		return q.fail("control flow differs after block %d", bf.Index)
	}
	return true
}

func firstOr(l []ssa.Instruction, b *ssa.BasicBlock) ssa.Instruction {
	if len(l) > 0 {
		return l[0]
	}
	if len(b.Instrs) > 0 {
		return b.Instrs[0]
	}
	return nil
}
