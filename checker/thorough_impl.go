package main

import (
	"encoding/json"
	"fmt"
	"io"
	"os"
	"os/exec"
	"path/filepath"
	"sort"
	"strings"
)

// Build configurations the module can be built as, beyond the default.
var extraConfigs = []LoadConfig{
	{GOOS: "linux", GOARCH: "386"},
	{GOOS: "darwin", GOARCH: "arm64"},
	{Tags: "tools"},
}

func cfgName(c LoadConfig) string {
	s := c.GOOS + "/" + c.GOARCH
	if c.GOOS == "" {
		s = "linux/amd64"
	}
	if c.Tags != "" {
		s += " -tags " + c.Tags
	}
	return s
}

// thoroughConfigs re-evaluates the property's rules under every other build
// configuration; obligations are recorded with their configuration.
func thoroughConfigs(def *propertyDef, r *Report, repo string, st *runStats) {
	for _, c := range extraConfigs {
		c.Dir = repo
		name := cfgName(c)
		w, err := loadWorld(c)
		if err != nil {
			r.Config = name
			r.Undecided("G.load", "load:"+name, "-", "cannot load /repo under "+name+": "+err.Error())
			r.Config = ""
			continue
		}
		st.Configs = append(st.Configs, name)
		sub := newReport(def.ID, r.Tier)
		sub.Config = name
		ruleG0(w, sub)
		def.Run(w, sub)
		sub.checkFloors()
		for _, o := range sub.Obligs {
			r.Obligs = append(r.Obligs, o)
			if ri := r.ruleIdx[o.Rule]; ri != nil {
				ri.Count++
			} else {
				r.Rule(o.Rule, "", 0)
				r.ruleIdx[o.Rule].Count++
			}
		}
	}
}

type corpusEntry struct {
	ID          string   `json:"id"`
	File        string   `json:"file"`
	Properties  []string `json:"properties"`
	ExpectRules []string `json:"expect_rules"`
	Control     bool     `json:"control"`
	Note        string   `json:"note"`
	dir         string
}

func loadCorpus(verif string) []corpusEntry {
	var out []corpusEntry
	if b, err := os.ReadFile(filepath.Join(verif, "mutants", "INDEX.json")); err == nil {
		var es []corpusEntry
		if json.Unmarshal(b, &es) == nil {
			for _, e := range es {
				e.dir = filepath.Join(verif, "mutants")
				out = append(out, e)
			}
		}
	}
	// independently seeded changes, and the single-site mutants of the mutation campaigns that the tests do not
	// notice and the checker reports (thorough tier only; never quick controls)
	metas, _ := filepath.Glob(filepath.Join(verif, "seeded", "*", "meta.json"))
	sort.Strings(metas)
	mmetas, _ := filepath.Glob(filepath.Join(verif, "mutation", "controls", "*", "meta.json"))
	sort.Strings(mmetas)
	metas = append(metas, mmetas...)
	for _, m := range metas {
		b, err := os.ReadFile(m)
		if err != nil {
			continue
		}
		var meta struct {
			ID         string              `json:"id"`
			DetectedBy map[string][]string `json:"detected_by"`
			Summary    string              `json:"summary"`
		}
		if json.Unmarshal(b, &meta) != nil {
			continue
		}
		for prop, rules := range meta.DetectedBy {
			prefix := "seeded/"
			if strings.Contains(m, string(filepath.Separator)+"mutation"+string(filepath.Separator)) {
				prefix = "mutation/"
			}
			out = append(out, corpusEntry{ID: prefix + meta.ID, File: "patch.diff", Properties: []string{prop}, ExpectRules: rules, Note: meta.Summary, dir: filepath.Dir(m)})
		}
	}
	return out
}

func copyTree(src, dst string) error {
	return filepath.Walk(src, func(p string, info os.FileInfo, err error) error {
		if err != nil {
			return err
		}
		rel, _ := filepath.Rel(src, p)
		if rel == ".git" || strings.HasPrefix(rel, ".git"+string(filepath.Separator)) {
			if info.IsDir() {
				return filepath.SkipDir
			}
			return nil
		}
		target := filepath.Join(dst, rel)
		if info.IsDir() {
			return os.MkdirAll(target, 0755)
		}
		if !info.Mode().IsRegular() {
			return nil
		}
		in, err := os.Open(p)
		if err != nil {
			return err
		}
		defer in.Close()
		out, err := os.OpenFile(target, os.O_CREATE|os.O_WRONLY|os.O_TRUNC, 0644)
		if err != nil {
			return err
		}
		defer out.Close()
		_, err = io.Copy(out, in)
		return err
	})
}

// runCorpus applies each variant to a scratch copy of the current /repo tree
// (under the system temp dir, removed afterwards), analyses it and requires
// that one of the expected rules reports a violation. A variant whose
// context no longer applies is recorded as skipped.
func runCorpus(def *propertyDef, r *Report, repo, verif string, st *runStats, controlsOnly bool) {
	entries := loadCorpus(verif)
	for _, e := range entries {
		relevant := false
		for _, p := range e.Properties {
			if p == def.ID {
				relevant = true
			}
		}
		if !relevant || (controlsOnly && !e.Control) {
			continue
		}
		rec := map[string]interface{}{"id": e.ID, "note": e.Note, "expect": e.ExpectRules}
		scratch, err := os.MkdirTemp("", "wtcheck-variant-")
		if err != nil {
			rec["status"] = "error: " + err.Error()
			st.Corpus = append(st.Corpus, rec)
			continue
		}
		func() {
			defer os.RemoveAll(scratch)
			if err := copyTree(repo, scratch); err != nil {
				rec["status"] = "error: copy: " + err.Error()
				return
			}
			cmd := exec.Command("git", "apply", "--whitespace=nowarn", filepath.Join(e.dir, e.File))
			cmd.Dir = scratch
			cmd.Env = append(os.Environ(), "GIT_CEILING_DIRECTORIES="+filepath.Dir(scratch))
			if out, err := cmd.CombinedOutput(); err != nil {
				rec["status"] = "skipped: patch no longer applies to the current tree"
				rec["git"] = strings.TrimSpace(string(out))
				return
			}
			w, err := loadWorld(LoadConfig{Dir: scratch})
			if err != nil {
				rec["status"] = "skipped: variant does not load: " + err.Error()
				return
			}
			sub := newReport(def.ID, "quick")
			ruleG0(w, sub)
			func() {
				defer func() {
					if p := recover(); p != nil {
						sub.Undecided("G.panic", "analyser", "-", fmt.Sprint(p))
					}
				}()
				def.Run(w, sub)
			}()
			sub.checkFloors()
			fired := map[string]bool{}
			for _, o := range sub.Obligs {
				if o.Verdict != Discharged {
					fired[o.Rule] = true
				}
			}
			var fl []string
			for k := range fired {
				fl = append(fl, k)
			}
			sort.Strings(fl)
			rec["fired"] = fl
			hit := false
			for _, want := range e.ExpectRules {
				if fired[want] {
					hit = true
				}
			}
			if hit {
				rec["status"] = "detected"
			} else {
				rec["status"] = "MISSED"
			}
		}()
		st.Corpus = append(st.Corpus, rec)
		kind := "variant"
		if e.Control {
			kind = "control"
		}
		switch rec["status"] {
		case "detected":
			r.OK("G.control", kind+":"+e.ID, "-", fmt.Sprintf("rule(s) %v fire on the seeded variant (%s)", rec["fired"], e.Note))
		case "MISSED":
			r.Undecided("G.control", kind+":"+e.ID, "-", fmt.Sprintf("the variant %q (%s) is not reported by any of %v (fired: %v): the rule is dead or too weak", e.ID, e.Note, e.ExpectRules, rec["fired"]))
		default:
			r.Notes = append(r.Notes, fmt.Sprintf("corpus %s: %v", e.ID, rec["status"]))
		}
	}
}

func thoroughCorpus(def *propertyDef, r *Report, repo, verif string, st *runStats) {
	r.Rule("G.control", "positive controls: each seeded variant (one instance broken in a scratch copy of the current tree) must be reported by its expected rule; a miss marks the rule dead", 0)
	runCorpus(def, r, repo, verif, st, false)
}

// ---- negative controls: behaviour-preserving refactorings must stay silent ----

type benignEntry struct {
	ID      string   `json:"id"`
	Focus   []string `json:"focus"`
	Summary string   `json:"summary"`
	Silent  bool     `json:"silent"`           // all 20 checks were silent on it when the index was made
	Alarms  []string `json:"alarms,omitempty"` // properties whose check alarmed (known limit, see DESIGN 10.6)
}

// runBenign applies every behaviour-preserving refactoring of /verif/benign that was made with this property in
// focus (and is recorded as silent) to a scratch copy of the current tree and requires the property's rules to
// stay silent on it. A patch that no longer applies is skipped.
func runBenign(def *propertyDef, r *Report, repo, verif string, st *runStats) {
	b, err := os.ReadFile(filepath.Join(verif, "benign", "INDEX.json"))
	if err != nil {
		return
	}
	var es []benignEntry
	if json.Unmarshal(b, &es) != nil {
		return
	}
	r.Rule("G.benign", "negative controls: the behaviour-preserving refactorings of /verif/benign written with this property in focus (independent sub-agents; build, vet and the 66 tests pass with each) are applied one at a time to a scratch copy of the current tree; the property's rules must raise nothing on them", 0)
	// if the current tree itself is not clean for this property, the controls say nothing
	known0, _ := loadKnownFindings(filepath.Join(verif, "KNOWN_FINDINGS.txt"))
	for _, o := range r.Obligs {
		if o.Verdict == Discharged || o.Config != "" || strings.HasPrefix(o.Rule, "G.") {
			continue
		}
		isKnown := false
		for _, k := range known0 {
			if k.Property == def.ID && k.Rule == o.Rule && k.Key == o.Key {
				isKnown = true
			}
		}
		if !isKnown {
			r.Notes = append(r.Notes, "negative controls skipped: the current tree already raises "+o.Rule)
			return
		}
	}
	runFuzzControls(def, r, repo, verif, st)
	for _, e := range es {
		rel := false
		for _, p := range e.Focus {
			if p == def.ID {
				rel = true
			}
		}
		if !rel || !e.Silent {
			continue
		}
		scratch, err := os.MkdirTemp("", "wtcheck-benign-")
		if err != nil {
			continue
		}
		func() {
			defer os.RemoveAll(scratch)
			if err := copyTree(repo, scratch); err != nil {
				return
			}
			cmd := exec.Command("git", "apply", "--whitespace=nowarn", filepath.Join(verif, "benign", e.ID, "patch.diff"))
			cmd.Dir = scratch
			cmd.Env = append(os.Environ(), "GIT_CEILING_DIRECTORIES="+filepath.Dir(scratch))
			if _, err := cmd.CombinedOutput(); err != nil {
				r.Notes = append(r.Notes, "benign "+e.ID+": skipped, the patch no longer applies to the current tree")
				return
			}
			w, err := loadWorld(LoadConfig{Dir: scratch})
			if err != nil {
				r.Notes = append(r.Notes, "benign "+e.ID+": skipped, does not load: "+err.Error())
				return
			}
			sub := newReport(def.ID, "quick")
			ruleG0(w, sub)
			func() {
				defer func() {
					if p := recover(); p != nil {
						sub.Undecided("G.panic", "analyser", "-", fmt.Sprint(p))
					}
				}()
				def.Run(w, sub)
			}()
			sub.checkFloors()
			known, _ := loadKnownFindings(filepath.Join(verif, "KNOWN_FINDINGS.txt"))
			var bad []string
			for _, o := range sub.Obligs {
				if o.Verdict == Discharged {
					continue
				}
				isKnown := false
				for _, k := range known {
					if k.Property == def.ID && k.Rule == o.Rule && k.Key == o.Key {
						isKnown = true
					}
				}
				if !isKnown {
					bad = append(bad, o.Rule+" ["+o.Key+"] "+o.Detail)
				}
			}
			st.Corpus = append(st.Corpus, map[string]interface{}{"id": "benign/" + e.ID, "note": e.Summary, "status": map[bool]string{true: "silent", false: "ALARM"}[len(bad) == 0]})
			if len(bad) == 0 {
				r.OK("G.benign", "benign:"+e.ID, "-", "silent on the behaviour-preserving refactoring ("+e.Summary+")")
			} else {
				sort.Strings(bad)
				r.Undecided("G.benign", "benign:"+e.ID, "-", "FALSE ALARM of this checker on a behaviour-preserving refactoring ("+e.Summary+"): "+bad[0])
			}
		}()
	}
}

// runFuzzControls: whole-tree syntactic rewrites that preserve semantics (every comparison mirrored, every if/else
// negated and swapped, De Morgan on every condition, if-inits moved out, else-ifs nested, tagless switches as
// if-chains) must leave the property's rules silent.
func runFuzzControls(def *propertyDef, r *Report, repo, verif string, st *runStats) {
	known, _ := loadKnownFindings(filepath.Join(verif, "KNOWN_FINDINGS.txt"))
	for _, modes := range []string{"mirror", "negate,demorgan", "ifinit,elseif,switch2if", "mirror,negate,demorgan,ifinit,elseif,switch2if"} {
		scratch, err := os.MkdirTemp("", "wtcheck-fuzz-")
		if err != nil {
			continue
		}
		func() {
			defer os.RemoveAll(scratch)
			if err := copyTree(repo, scratch); err != nil {
				return
			}
			n := applyAstFuzz(modes, scratch)
			w, err := loadWorld(LoadConfig{Dir: scratch})
			if err != nil {
				r.Notes = append(r.Notes, "fuzz "+modes+": skipped, the rewritten tree does not load: "+err.Error())
				return
			}
			sub := newReport(def.ID, "quick")
			ruleG0(w, sub)
			func() {
				defer func() {
					if p := recover(); p != nil {
						sub.Undecided("G.panic", "analyser", "-", fmt.Sprint(p))
					}
				}()
				def.Run(w, sub)
			}()
			sub.checkFloors()
			var bad []string
			for _, o := range sub.Obligs {
				if o.Verdict == Discharged {
					continue
				}
				isKnown := false
				for _, k := range known {
					if k.Property == def.ID && k.Rule == o.Rule && k.Key == o.Key {
						isKnown = true
					}
				}
				if !isKnown {
					bad = append(bad, o.Rule+" ["+o.Key+"] "+o.Detail)
				}
			}
			st.Corpus = append(st.Corpus, map[string]interface{}{"id": "fuzz/" + modes, "note": fmt.Sprintf("%d syntactic rewrites", n), "status": map[bool]string{true: "silent", false: "ALARM"}[len(bad) == 0]})
			if len(bad) == 0 {
				r.OK("G.benign", "fuzz:"+modes, "-", fmt.Sprintf("silent on the tree with %d semantics-preserving syntactic rewrites (%s)", n, modes))
			} else {
				sort.Strings(bad)
				r.Undecided("G.benign", "fuzz:"+modes, "-", "FALSE ALARM of this checker on a semantics-preserving syntactic rewrite ("+modes+"): "+bad[0])
			}
		}()
	}
}
