package main

func thoroughConfigs(def *propertyDef, r *Report, repo string, st *runStats) {}
func thoroughCorpus(def *propertyDef, r *Report, repo, verif string, st *runStats) {}
