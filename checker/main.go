// wtcheck: repository-specific static analyser deciding structural clauses of
// the 20 given properties of hnakamur/whispertool. See /verif/DESIGN.md.
package main

import (
	"encoding/json"
	"flag"
	"fmt"
	"os"
	"path/filepath"
	"regexp"
	"runtime/debug"
	"sort"
	"strconv"
	"strings"
	"time"

	"golang.org/x/tools/go/ssa"
)

type propertyDef struct {
	ID          string
	Explanation string
	Assumptions []string
	Run         func(w *World, r *Report)
}

var properties = map[string]*propertyDef{}

func register(p *propertyDef) {
	run := p.Run
	id := p.ID
	rawRuns[id] = run
	p.Run = func(w *World, r *Report) {
		run(w, r)
		ruleErrorDisciplineScoped(w, r, id)
		for _, b := range borrowed[id] {
			borrowRules(w, r, b.from, b.rules...)
		}
	}
	properties[p.ID] = p
}

// rawRuns: each property's own rule set (without the shared additions of register).
var rawRuns = map[string]func(w *World, r *Report){}

// borrowed: rules another property's rule set evaluates and that this property depends on as well. The obligations
// keep their rule id (as C05.R7 does where several commands share it); a violation is reported under both properties.
var borrowed = map[string][]struct {
	from  string
	rules []string
}{
	// reading the same series as the reference reader includes the fetch contract
	"C06": {{"C04", []string{"C04.R2", "C04.R3", "C04.R4"}}},
	// generate -fill=false must not reach the writer with an empty list (index out of range)
	"C16": {{"C20", []string{"C20.R3"}}},
	// the coarser intervals to recompute are aligned with the same floored modulo
	"C02": {{"C01", []string{"C01.R1"}}},
	"C03": {{"C01", []string{"C01.R1"}}},
	// diff of a file with itself, and of files served by one server, rests on the blocking exclusive lock
	"C09": {{"C13", []string{"C13.R2"}}},
	// printed timestamps are parsed back by the server and by -from/-until
	"C19": {{"C18", []string{"C18.R1"}}},
	// fetch bounds are aligned by interval(): the floored-modulo and slot-placement rules
	"C04": {{"C01", []string{"C01.R1"}}, {"C06", []string{"C06.R6"}}},
	// copy and sum-copy write through the propagating batch writer: its gate and its stored-slot rule
	"C08": {{"C02", []string{"C02.R3", "C02.R6"}}, {"C09", []string{"C09.R1"}}},
	// sum-copy stores, and sum-diff compares with, what sum computes
	"C11": {{"C10", []string{"C10.R2", "C10.R4", "C17.R3"}}, {"C02", []string{"C02.R3", "C02.R6"}}, {"C09", []string{"C09.R1"}}},
	// a server URL behaves like the directory only if handlers keep no state across requests and parse every
	// timestamp the client prints
	"C12": {{"C17", []string{"C17.R4"}}, {"C19", []string{"C19.R2"}}},
	// sizes derived from untrusted counts are bounded in wide arithmetic by the layout validation
	"C15": {{"C07", []string{"C07.R4"}}},
	// remote sum goes through the /sum handler
	"C10": {{"C17", []string{"C17.R4"}}, {"C12", []string{"C12.R1", "C12.R2"}}},
	// a point that is routed to the wrong archive or dropped is not the last value written to its slot; the age
	// partition of a batch decides which of its points reach an archive at all
	"C01": {{"C03", []string{"C03.R1", "C03.R3", "C03.R4"}}, {"C06", []string{"C06.R6"}}},
	// the worker that opens a file closes it before it returns: a handle (and its lock) kept until the other workers
	// are done is hold-and-wait between two overlapping sums
	"C17": {{"C13", []string{"C13.R6"}}},
	// the window of a remote view is printed by the client and parsed back by the server
	"C18": {{"C19", []string{"C19.R2"}}, {"C12", []string{"C12.R2~^(readWhisperFile|readWhisperFileRaw):"}}},
}

func init() {
	add := func(p, from string, rules ...string) {
		borrowed[p] = append(borrowed[p], struct {
			from  string
			rules []string
		}{from, rules})
	}
	// the remote source of copy and diff is requested with the query the handler reads back
	add("C08", "C12", "C12.R2~^(readWhisperFile|globFiles):")
	add("C09", "C12", "C12.R2~^(readWhisperFile|globFiles):")
	add("C11", "C12", "C12.R2~^(sumWhisperFile|globItems):")
	// the listing shows stored values and slot times as they are
	add("C09", "C18", "C18.R1")
	// the method names the library prints are the names the -agg-method flag takes back
	add("C19", "C02", "C02.R2~^aggregationMethodValue")
	// sum reads its files through an errgroup: every worker is started and waited for
	add("C16", "C17", "C17.R3")
	// the blocking exclusive lock is what makes overlapping requests on one file take turns
	add("C17", "C13", "C13.R2")
	// copy into a fresh destination goes through the batch writer's choice of the base interval
	add("C08", "C06", "C06.R6~^archiveUpdateMany")
	// what the reference reader accepts as a layout must be accepted here (the pairwise rules, no stricter)
	add("C06", "C07", "C07.R3")
	// items are named relative to the base directory however it is spelled
	add("C10", "C08", "C08.R7~globItemsLocal")
	add("C11", "C08", "C08.R7~globItemsLocal")
	// the points of a decoded series are indexed by its values, whatever window the bytes claim
	add("C15", "C18", "C18.R3~^TimeSeries.Points")
	// the count a decoder refuses is the count whose message no longer fits, not a smaller one
	add("C14", "C15", "C15.R1~upper-bound")
	// sum-copy writes where sum-diff reads; copy compares the source with the file it opened
	add("C16", "C11", "C11.R4~^dest-path")
	add("C16", "C08", "C08.R2~layout-sides")
	// the consolidated value of a coarser slot is a write to that slot as well: skipped, the slot keeps a stale lap
	add("C01", "C02", "C02.R6")
	// the window the commands work on is the one the flags spell
	for _, pp := range []string{"C08", "C09", "C10", "C11"} {
		add(pp, "C19", "C19.R2~^cmd\\.timestampValue")
	}
	// borrowed after the tenth seeding round
	add("C06", "C04", "C04.R1")
	add("C07", "C19", "C19.R3~^ParseArchiveInfo:rejects")
	add("C09", "C12", "C12.R6~^glob(Files|Items)Remote:")
	add("C11", "C08", "C08.R6")
	add("C13", "C14", "C14.R5~retry-buffer")
	add("C14", "C07", "C07.R1~^whispertool\\.Header\\.TakeFrom:must")
	add("C16", "C08", "C08.R9~writes-every-point")
	add("C18", "C14", "C14.R6~zero-series")
	add("C12", "C14", "C14.R6~zero-series")
	add("C19", "C20", "C20.R6~^cmd\\.(archiveInfoList|aggregationMethod|timestamp)Value")
	add("C15", "C04", "C04.R4~^findBestArchive")
	add("C01", "C04", "C04.R4~^findBestArchive")
	add("C03", "C04", "C04.R4~^findBestArchive")
	// what Open reads first lies inside every valid file; the six storable methods are the ones the reference writes
	add("C06", "C14", "C14.R5~first-read")
	add("C06", "C02", "C02.R2~^validateAggregationMethod")
	// a repeated single write re-establishes the coarser levels
	add("C02", "C03", "C03.R4~writes-and-propagates")
	// a series has as many values as its window and step say, whatever the archive's first slot holds
	add("C15", "C04", "C04.R1")
	// a command value can be executed again: the default of until is taken per run, not written back
	add("C16", "C08", "C08.R3~until-default")
	// diff looks at the destination it was given
	add("C16", "C09", "C09.R2~reads-named-files")
	// the header shown (and streamed) is the header the file stores
	add("C18", "C14", "C14.R5~stores-decoded-header")
	add("C12", "C14", "C14.R5~stores-decoded-header")
	// each archive of a remote read is decoded into its own object
	add("C08", "C12", "C12.R4~^readWhisperFile:")
	add("C09", "C12", "C12.R4~^readWhisperFile:")
	add("C10", "C12", "C12.R4~^sumWhisperFile:")
	add("C11", "C12", "C12.R4~^sumWhisperFile:")
	add("C18", "C12", "C12.R4~^readWhisperFile(Raw)?:")
	// the coarser levels are recomputed from what the batch writer hands on
	add("C02", "C03", "C03.R5~propagates-what-it-wrote")
	// the method a file names (by text or by number) is the method aggregate applies
	add("C02", "C19", "C19.R4~^name-of:")
	// the text output of sum shows stored values and slot times as they are
	add("C10", "C18", "C18.R1")
	// what the handlers stream is decoded by the clients: encoder and decoder agree field by field
	add("C12", "C14", "C14.R1")
	// a layout that does not match is refused by sum; copy and sum-copy write every selected archive
	add("C16", "C10", "C10.R2")
	add("C16", "C08", "C08.R9~every-archive")
	// round 11
	// the fetch clamps to MaxRetention = step x points: a layout admitted although the product wraps has another retention
	add("C04", "C07", "C07.R4~retention-31-bits")
	// what a second handle reads after Sync is the page buffer's contents: the ring's phase is answered from there only
	add("C05", "C06", "C06.R6~^baseInterval:always-reads-the-file")
	// the same bytes as the reference writer: the propagation gate and the aggregates
	add("C06", "C02", "C02.R3", "C02.R5")
	// copy and sum-copy store coarser slots through the aggregates
	add("C08", "C02", "C02.R5")
	add("C11", "C02", "C02.R5")
	// a layout every constructor accepts is reopened: the header read grows its buffer
	add("C07", "C14", "C14.R5~retry-buffer")
	add("C15", "C14", "C14.R5~retry-buffer")
	// the item list of a remote sum-copy / sum-diff
	add("C11", "C12", "C12.R6~^globItemsRemote:")
	// a series read through a server compares like the one read from the directory
	add("C12", "C08", "C08.R2~EqualTimeRangeAndStep")
	// the commands work on the requested window
	add("C16", "C09", "C08.R3~until-default")
	add("C16", "C11", "C11.R1~flags-distinct")
	add("C16", "C10", "C10.R6~flags-distinct")
}

func init() {
	// every reading command goes through fetchTimeSeriesList / fetchRawPointsLists: the archive-selection rule
	for _, p := range []string{"C08", "C09", "C10", "C11", "C12", "C18"} {
		borrowed[p] = append(borrowed[p], struct {
			from  string
			rules []string
		}{"C16", []string{"C16.R6"}})
	}
}

func borrowRules(w *World, r *Report, from string, rules ...string) {
	run := rawRuns[from]
	if run == nil {
		return
	}
	sub := newReport(from, r.Tier)
	sub.Config = r.Config
	func() {
		defer func() {
			if p := recover(); p != nil {
				sub.Undecided("G.panic", "analyser:"+from, "-", fmt.Sprint(p))
			}
		}()
		run(w, sub)
	}()
	// "Cxx.Rn~regexp" borrows only the obligations of the rule whose construct key matches (the part of the rule
	// this property depends on)
	want := map[string]bool{}
	filter := map[string]*regexp.Regexp{}
	for _, id := range rules {
		if i := strings.Index(id, "~"); i >= 0 {
			filter[id[:i]] = regexp.MustCompile(id[i+1:])
			id = id[:i]
		}
		want[id] = true
	}
	have := map[string]bool{}
	for _, o := range r.Obligs {
		have[o.Rule+"|"+o.Key] = true
	}
	for _, ri := range sub.Rules {
		if want[ri.ID] {
			if _, ok := r.ruleIdx[ri.ID]; !ok {
				r.Rule(ri.ID, ri.Doc+" [evaluated by the rule set of "+from+"; this property depends on it as well]", 0)
			}
		}
	}
	for _, o := range sub.Obligs {
		if re := filter[o.Rule]; re != nil && !re.MatchString(o.Key) {
			continue
		}
		if (want[o.Rule] || o.Rule == "G.panic") && !have[o.Rule+"|"+o.Key] {
			r.add(o.Rule, o.Key, o.Pos, o.Verdict, o.NonTrivial, o.Detail, o.Witness...)
		}
	}
}

var commonAssumptions = []string{
	"the structural clauses checked are necessary conditions of the property; holding all of them does not prove the property (value clauses are listed as not decided in DESIGN.md section 5)",
	"go/types, go/ssa and the VTA call graph of x/tools v0.29.0 represent the program faithfully; packages whispertool and cmd use neither unsafe nor reflect (rule G0 checks the imports)",
	"standard-library and bitset calls behave as documented and are leaves of the analysis; github.com/hnakamur/filebuffer is analysed from the module cache at the version pinned in go.mod",
	"analysis of the default build configuration (linux/amd64, no tags) in the quick tier; thorough adds linux/386, darwin/arm64 and -tags tools",
}

func main() {
	prop := flag.String("property", "", "property id (C01..C20)")
	tier := flag.String("tier", "quick", "quick|thorough")
	repo := flag.String("repo", "/repo", "repository root")
	verif := flag.String("verif", "", "verif dir (default: parent of the binary's dir, or /verif)")
	replay := flag.String("replay", "", "replay file written by a previous run")
	list := flag.Bool("list", false, "list properties")
	noControls := flag.Bool("no-controls", false, "developer aid: skip the positive controls (quick tier)")
	evDir := flag.String("evidence-dir", "", "developer aid: write evidence and replay files below this directory instead of <verif>/evidence")
	debugFn := flag.String("debug-exprs", "", "developer aid: print the canonical expressions of all calls/returns in the named function (e.g. cmd:CopyCommand.copyOneFile)")
	flag.BoolVar(&noNormalise, "no-normalise", false, "developer aid: do not expand non-inventory helpers before analysis")
	flag.BoolVar(&noReoutline, "no-reoutline", false, "developer aid: do not try to put inlined-and-deleted anchor functions back")
	flag.BoolVar(&dumpNormalised, "dump-normalised", false, "developer aid: print the files rewritten by the helper-expansion pass")
	genInv := flag.Bool("gen-inventory", false, "developer aid: print the function inventory of the tree at -repo")
	dbgScope := flag.String("debug-scope", "", "developer aid: print the cmd functions reachable from a command type")
	allProps := flag.Bool("all", false, "developer aid: load the tree at -repo once and run the rules of every property; prints one line per property (ok / FAIL with the first report) and writes no evidence; exit 1 if any fails")
	flag.Parse()
	if *allProps {
		os.Exit(runAll(*repo, *verif))
	}
	if *dbgScope != "" {
		debugScope(*repo, *dbgScope)
		return
	}
	if *genInv {
		noNormalise = true
		w, err := loadWorld(LoadConfig{Dir: *repo})
		if err != nil {
			fmt.Fprintln(os.Stderr, err)
			os.Exit(2)
		}
		for _, k := range moduleFuncDecls(w.Roots) {
			fmt.Println(k)
		}
		for _, k := range moduleStructFields(w.Roots) {
			fmt.Println(k)
		}
		for _, k := range moduleConsts(w.Roots) {
			fmt.Println(k)
		}
		return
	}
	if *debugFn != "" {
		debugExprs(*repo, *debugFn)
		return
	}

	if *verif == "" {
		*verif = "/verif"
		if exe, err := os.Executable(); err == nil {
			d := filepath.Dir(filepath.Dir(exe))
			if _, err := os.Stat(filepath.Join(d, "properties.jsonl")); err == nil {
				*verif = d
			}
		}
	}
	if *list {
		var ids []string
		for id := range properties {
			ids = append(ids, id)
		}
		sort.Strings(ids)
		fmt.Println(strings.Join(ids, " "))
		return
	}
	if t := os.Getenv("VERIF_TIER"); t != "" && *tier == "" {
		*tier = t
	}
	seed := 0
	if s := os.Getenv("VERIF_SEED"); s != "" {
		seed, _ = strconv.Atoi(s)
	}

	if *replay != "" {
		os.Exit(doReplay(*replay, *repo, *verif, seed))
	}
	def := properties[*prop]
	if def == nil {
		fmt.Fprintf(os.Stderr, "unknown property %q\n", *prop)
		os.Exit(2)
	}
	skipControls = *noControls
	evidenceDirOverride = *evDir
	os.Exit(runProperty(def, *tier, *repo, *verif, seed, true))
}

var skipControls bool
var evidenceDirOverride string

func runProperty(def *propertyDef, tier, repo, verif string, seed int, writeEvidence bool) (code int) {
	start := time.Now()
	r := newReport(def.ID, tier)
	var st runStats
	defer func() {
		if p := recover(); p != nil {
			// a panic of the analyser is a failure of the check, never a pass
			fmt.Printf("analyser panic: %v\n%s\n", p, debug.Stack())
			r.Config = ""
			r.Undecided("G.panic", "analyser", "-", fmt.Sprintf("analyser panicked: %v", p))
			code = r.finish(verif, seed, start, st, def.Explanation, append(def.Assumptions, commonAssumptions...))
			if code == 0 {
				code = 1
			}
		}
	}()
	w, err := loadWorld(LoadConfig{Dir: repo})
	if err != nil {
		r.Undecided("G.load", "load", "-", "cannot load and type-check /repo: "+err.Error())
		return r.finish(verif, seed, start, st, def.Explanation, append(def.Assumptions, commonAssumptions...))
	}
	st.Packages, st.Functions, st.CGNodes = w.nPackages, w.nFuncs, w.nCGNodes
	st.Configs = []string{"linux/amd64"}
	if w.nPackages < 3 {
		r.Undecided("G.load", "packages", "-", fmt.Sprintf("only %d packages loaded", w.nPackages))
	}
	r.Notes = append(r.Notes, w.NormNotes...)
	ruleG0(w, r)
	def.Run(w, r)

	if tier == "thorough" {
		runThorough(def, w, r, repo, verif, &st)
	} else {
		// quick tier: the positive controls of this property (rules must still fire)
		r.Rule("G.control", "positive controls: each control variant (one instance broken in a scratch copy of the current tree) must be reported by its expected rule; a miss marks the rule dead", 0)
		if !skipControls {
			runCorpus(def, r, repo, verif, &st, true)
		}
	}
	return r.finish(verif, seed, start, st, def.Explanation, append(def.Assumptions, commonAssumptions...))
}

func doReplay(path, repo, verif string, seed int) int {
	b, err := os.ReadFile(path)
	if err != nil {
		fmt.Println("cannot read replay file:", err)
		return 2
	}
	var rp struct {
		Property   string `json:"property"`
		Obligation Oblig  `json:"obligation"`
	}
	if err := json.Unmarshal(b, &rp); err != nil {
		fmt.Println("bad replay file:", err)
		return 2
	}
	def := properties[rp.Property]
	if def == nil {
		fmt.Println("unknown property in replay file")
		return 2
	}
	w, err := loadWorld(LoadConfig{Dir: repo})
	if err != nil {
		fmt.Println("load failed:", err)
		return 1
	}
	r := newReport(def.ID, "quick")
	ruleG0(w, r)
	def.Run(w, r)
	r.checkFloors()
	found := false
	code := 0
	for _, o := range r.Obligs {
		if o.Rule == rp.Obligation.Rule && o.Key == rp.Obligation.Key {
			found = true
			ob, _ := json.MarshalIndent(o, "", " ")
			fmt.Printf("replay of %s %s [%s] on the current tree:\n%s\n", rp.Property, o.Rule, o.Key, ob)
			if o.Verdict != Discharged {
				fmt.Printf("VIOLATION property=%s replay=%s\n", rp.Property, path)
				code = 1
			}
		}
	}
	if !found {
		fmt.Printf("obligation %s [%s] no longer exists on the current tree (construct renamed or removed); run the full check\n", rp.Obligation.Rule, rp.Obligation.Key)
		return 1
	}
	return code
}

// ruleG0: trusted-base guard shared by all properties.
func ruleG0(w *World, r *Report) {
	r.Rule("G0", "packages whispertool and cmd import neither unsafe nor reflect (soundness of the call-graph and field-based rules)", 2)
	for _, p := range []struct {
		name string
		imp  map[string]bool
	}{{"whispertool", importsOf(w, libPath)}, {"cmd", importsOf(w, cmdPath)}} {
		bad := ""
		for _, b := range []string{"unsafe", "reflect"} {
			if p.imp[b] {
				bad += b + " "
			}
		}
		if bad != "" {
			r.Violate("G0", p.name+".imports", "-", "package imports "+bad+": pointer/field-based reasoning is no longer sound")
		} else {
			r.OKTrivial("G0", p.name+".imports", "-", "no unsafe/reflect import")
		}
	}
}

func importsOf(w *World, path string) map[string]bool {
	m := map[string]bool{}
	if p := w.All[path]; p != nil {
		for ip := range p.Imports {
			m[ip] = true
		}
	}
	return m
}

func debugExprs(repo, name string) {
	w, err := loadWorld(LoadConfig{Dir: repo})
	if err != nil {
		fmt.Println(err)
		return
	}
	parts := strings.SplitN(name, ":", 2)
	pkg := map[string]*ssa.Package{"lib": w.Lib, "cmd": w.Cmd, "main": w.Main, "fb": w.FB}[parts[0]]
	f := fn(pkg, parts[1])
	if f == nil {
		fmt.Println("not found")
		return
	}
	for _, fc := range failConditions(w, f) {
		fmt.Printf("  FAILS-IFF %s: %s\n", w.instrPos(fc.At), fc)
	}
	for _, g := range withLiterals(f) {
		fmt.Println("==", funcName(g))
		c := newExprCtx(w)
		eachInstr(g, func(in ssa.Instruction) {
			switch x := in.(type) {
			case *ssa.Call:
				fmt.Printf("  %s: %s\n", w.instrPos(x), c.callExpr(x))
			case *ssa.Return:
				var rs []string
				for i := range x.Results {
					vals, _ := resultValues(x, i)
					for _, v := range vals {
						rs = append(rs, c.expr(v))
					}
					rs = append(rs, ";")
				}
				fmt.Printf("  %s: return %s\n", w.instrPos(x), strings.Join(rs, " "))
			case *ssa.Store:
				fmt.Printf("  %s: store %s <- %s\n", w.instrPos(x), c.expr(x.Addr), c.expr(x.Val))
			}
		})
	}
}

func debugScope(repo string, tn string) {
	w, err := loadWorld(LoadConfig{Dir: repo})
	if err != nil {
		panic(err)
	}
	sc := cmdReachableFrom(w, tn)
	var names []string
	for f := range sc {
		names = append(names, funcName(f))
	}
	sort.Strings(names)
	for _, n := range names {
		fmt.Println(n)
	}
}

// runAll: developer aid used by the mutation and refactoring campaigns (tools/): every property's rules on one load.
func runAll(repo, verif string) int {
	if verif == "" {
		verif = "/verif"
	}
	w, err := loadWorld(LoadConfig{Dir: repo})
	if err != nil {
		fmt.Println("LOAD-FAILED", err)
		return 2
	}
	known, _ := loadKnownFindings(filepath.Join(verif, "KNOWN_FINDINGS.txt"))
	var ids []string
	for id := range properties {
		ids = append(ids, id)
	}
	sort.Strings(ids)
	code := 0
	for _, id := range ids {
		def := properties[id]
		sub := newReport(def.ID, "quick")
		ruleG0(w, sub)
		func() {
			defer func() {
				if p := recover(); p != nil {
					sub.Undecided("G.panic", "analyser", "-", fmt.Sprint(p))
				}
			}()
			def.Run(w, sub)
		}()
		sub.checkFloors()
		var bad []string
		for _, o := range sub.Obligs {
			if o.Verdict == Discharged {
				continue
			}
			isKnown := false
			for _, k := range known {
				if k.Property == def.ID && k.Rule == o.Rule && k.Key == o.Key {
					isKnown = true
				}
			}
			if !isKnown {
				bad = append(bad, fmt.Sprintf("%s: %s %s [%s] %s", o.Pos, strings.ToUpper(string(o.Verdict)), o.Rule, o.Key, o.Detail))
			}
		}
		if len(bad) == 0 {
			fmt.Printf("%s ok\n", id)
			continue
		}
		code = 1
		sort.Strings(bad)
		for _, b := range bad {
			fmt.Printf("%s FAIL %s\n", id, b)
		}
	}
	return code
}
