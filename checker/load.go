package main

import (
	"fmt"
	"go/ast"
	"go/token"
	"go/types"
	"os"
	"regexp"
	"runtime"
	"runtime/debug"
	"sort"
	"strings"

	"golang.org/x/tools/go/callgraph"
	"golang.org/x/tools/go/callgraph/cha"
	"golang.org/x/tools/go/callgraph/vta"
	"golang.org/x/tools/go/packages"
	"golang.org/x/tools/go/ssa"
	"golang.org/x/tools/go/ssa/ssautil"
)

const (
	libPath  = "github.com/hnakamur/whispertool"
	cmdPath  = "github.com/hnakamur/whispertool/cmd"
	mainPath = "github.com/hnakamur/whispertool/cmd/whispertool"
	fbPath   = "github.com/hnakamur/filebuffer"
)

// World is the resolved program: type-checked syntax, SSA and call graph.
type World struct {
	Dir   string
	Env   []string
	Fset  *token.FileSet
	All   map[string]*packages.Package // by path, transitive
	Roots []*packages.Package
	Prog  *ssa.Program
	CG    *callgraph.Graph

	LibP, CmdP, MainP, FBP *packages.Package
	Lib, Cmd, Main, FB     *ssa.Package

	allFuncs  map[*ssa.Function]bool
	modFuncs  []*ssa.Function // functions (incl. literals) of the module packages
	nFuncs    int
	nCGNodes  int
	nPackages int
	callersOf map[*ssa.Function][]*callgraph.Edge
	NormNotes []string

	rawRoots []*packages.Package // as loaded, before helper expansion
	missing  []string            // inventory functions the tree no longer declares (and that were not renamed)
	renames  map[string]string
}

var noNormalise, dumpNormalised bool

func anyModuleErrors(roots []*packages.Package) bool { return firstModuleError(roots) != "" }

func firstModuleError(roots []*packages.Package) string {
	msg := ""
	packages.Visit(roots, nil, func(p *packages.Package) {
		if strings.HasPrefix(p.PkgPath, libPath) || p.PkgPath == fbPath {
			for _, e := range p.Errors {
				if msg == "" {
					msg = e.Error()
				}
			}
		}
	})
	return msg
}

type LoadConfig struct {
	Dir    string
	GOOS   string
	GOARCH string
	Tags   string
}

// loadWorld loads the tree, normalises it (renames, helper expansion) and — when an anchored function is gone —
// tries the re-outlining pass of reoutline.go.
func loadWorld(cfg LoadConfig) (*World, error) {
	// per-program caches must not keep earlier programs alive (the thorough tier loads dozens of variants in one process)
	getterMemo = map[*ssa.Function][]string{}
	getterBusy = map[*ssa.Function]bool{}
	runtime.GC()
	debug.FreeOSMemory()
	fieldAlias = map[*types.Var]string{}
	aliasOldName = map[types.Object]string{}
	aliasNewName = map[string]string{}
	constAlias = map[string]string{}
	w, err := loadWorldStage(cfg, nil, nil)
	if err != nil || noNormalise || noReoutline || len(w.missing) == 0 {
		return w, err
	}
	note := func(s string) { w.NormNotes = append(w.NormNotes, s) }
	plan, why := planReoutline(w.rawRoots, w.missing, w.renames)
	if plan == nil {
		note("re-outlining of " + strings.Join(w.missing, ", ") + " not attempted: " + why)
		return w, nil
	}
	force := map[string]bool{}
	for _, m := range plan.missing {
		force[m] = true
	}
	w2, err2 := loadWorldStage(cfg, plan.overlay, force)
	if err2 != nil {
		note("re-outlining of " + strings.Join(w.missing, ", ") + " abandoned: the tree with the reference text put back does not load (" + err2.Error() + ")")
		return w, nil
	}
	for _, k := range plan.replaced {
		f, g := w.funcByKey(k), w2.funcByKey(k)
		if f == nil || g == nil {
			note("re-outlining abandoned: " + k + " not found after expansion")
			return w, nil
		}
		if ok, why := funcsCanonicallyEqual(w, f, w2, g); !ok {
			note("re-outlining of " + strings.Join(w.missing, ", ") + " abandoned: " + k + " is not canonically equal to its reference text with the missing function expanded (" + why + "); the tree is analysed as written")
			if dumpNormalised {
				fmt.Println("REOUTLINE REJECTED:", k, why)
			}
			return w, nil
		}
	}
	w3, err3 := loadWorldStage(cfg, plan.overlay, nil)
	if err3 != nil {
		note("re-outlining abandoned: " + err3.Error())
		return w, nil
	}
	w3.NormNotes = append(w3.NormNotes, fmt.Sprintf("re-outlined: %s no longer exist(s) in the tree; %s proved canonically equal (calls, stores, returns and branch conditions, block for block) to the reference text of these callers with the missing function(s) expanded in place, so the tree is analysed with the reference decomposition of exactly these functions", strings.Join(plan.missing, ", "), strings.Join(plan.replaced, ", ")))
	return w3, nil
}

var noReoutline bool

func (w *World) funcByKey(key string) *ssa.Function {
	for f := range w.allFuncs {
		if f.Parent() == nil && f.Synthetic == "" && w.inModule(f) && ssaDeclKey(f) == key {
			return f
		}
	}
	return nil
}

// loadWorldStage: base = overlay to load over the files on disk (nil = none); forceHelper = inventory functions to
// treat as non-inventory helpers (they are expanded into their callers).
func loadWorldStage(cfg LoadConfig, base map[string][]byte, forceHelper map[string]bool) (*World, error) {
	env := append(os.Environ(), "GOFLAGS=-mod=mod", "GOPROXY=off", "GOSUMDB=off", "GOWORK=off", "GOTOOLCHAIN=local")
	if cfg.GOOS != "" {
		env = append(env, "GOOS="+cfg.GOOS, "CGO_ENABLED=0")
	}
	if cfg.GOARCH != "" {
		env = append(env, "GOARCH="+cfg.GOARCH, "CGO_ENABLED=0")
	}
	pc := &packages.Config{
		Mode:  packages.LoadAllSyntax,
		Dir:   cfg.Dir,
		Env:   env,
		Tests: false,
	}
	if cfg.Tags != "" {
		pc.BuildFlags = []string{"-tags=" + cfg.Tags}
	}
	if base != nil {
		pc.Overlay = base
	}
	roots, err := packages.Load(pc, "./...")
	if err != nil {
		return nil, fmt.Errorf("load: %v", err)
	}
	rawRoots := roots
	var normNotes []string
	var dead map[string]bool
	var missing []string
	renames := map[string]string{}
	if !noNormalise && !anyModuleErrors(roots) {
		// renamed unexported types first: the source is rewritten to the inventory names and loaded again
		if tov, tnotes := renameTypesBack(roots, loadInventory()); tov != nil {
			merged := map[string][]byte{}
			for k, v := range base {
				merged[k] = v
			}
			for k, v := range tov {
				merged[k] = v
			}
			pcT := *pc
			pcT.Overlay = merged
			if rootsT, errT := packages.Load(&pcT, "./..."); errT == nil && !anyModuleErrors(rootsT) {
				roots, base = rootsT, merged
				pc.Overlay = merged
				normNotes = append(normNotes, tnotes...)
			} else {
				normNotes = append(normNotes, "a renamed type was recognised but the tree with the inventory name put back does not type-check (the old name is in use for something else); types are analysed under their new names")
			}
		}
		inv := loadInventory()
		for k := range forceHelper {
			delete(inv, k)
		}
		renames = resolveRenames(roots, inv)
		if forceHelper == nil {
			missing = missingAnchors(roots, inv, renames)
		}
		for nk, ok := range renames {
			inv[nk] = inv[ok]
			normNotes = append(normNotes, fmt.Sprintf("renamed: %s is analysed in the place of the inventory function %s (same package, receiver and signature; %s is gone)", nk, ok, ok))
		}
		sort.Strings(normNotes)
		if overlay, rep := normalise(roots, inv, base); overlay != nil {
			pc2 := *pc
			for name, b := range base {
				if _, ok := overlay[name]; !ok {
					overlay[name] = b
				}
			}
			pc2.Overlay = overlay
			roots2, err2 := packages.Load(&pc2, "./...")
			if err2 == nil && !anyModuleErrors(roots2) {
				roots = roots2
				normNotes = append(normNotes, rep.notes()...)
				dead = rep.Dead
				if dumpNormalised {
					for name, b := range overlay {
						fmt.Printf("==== %s (normalised)\n%s\n", name, b)
					}
				}
			} else {
				msg := ""
				if err2 != nil {
					msg = err2.Error()
				} else {
					msg = firstModuleError(roots2)
				}
				rep.Err = "the expanded source does not type-check: " + msg
				normNotes = append(normNotes, rep.notes()...)
				if dumpNormalised {
					for name, b := range overlay {
						fmt.Printf("==== %s (normalised, REJECTED: %s)\n%s\n", name, msg, b)
					}
				}
			}
		} else {
			normNotes = append(normNotes, rep.notes()...)
		}
	}
	w := &World{Dir: cfg.Dir, Env: env, All: map[string]*packages.Package{}, Roots: roots, NormNotes: normNotes, rawRoots: rawRoots, missing: missing, renames: renames}
	var errs []string
	packages.Visit(roots, nil, func(p *packages.Package) {
		w.All[p.PkgPath] = p
		if strings.HasPrefix(p.PkgPath, libPath) || p.PkgPath == fbPath {
			for _, e := range p.Errors {
				errs = append(errs, e.Error())
			}
		}
	})
	if len(errs) > 0 {
		return nil, fmt.Errorf("type/load errors: %s", strings.Join(errs, "; "))
	}
	w.LibP, w.CmdP, w.MainP, w.FBP = w.All[libPath], w.All[cmdPath], w.All[mainPath], w.All[fbPath]
	if w.LibP == nil || w.CmdP == nil || w.MainP == nil || w.FBP == nil {
		return nil, fmt.Errorf("expected packages missing: lib=%v cmd=%v main=%v filebuffer=%v (loaded %d roots)",
			w.LibP != nil, w.CmdP != nil, w.MainP != nil, w.FBP != nil, len(roots))
	}
	for _, p := range []*packages.Package{w.LibP, w.CmdP, w.MainP, w.FBP} {
		if len(p.Syntax) == 0 || p.TypesInfo == nil {
			return nil, fmt.Errorf("package %s has no syntax/types", p.PkgPath)
		}
	}
	w.Fset = w.LibP.Fset
	w.nPackages = len(roots)

	prog, _ := ssautil.AllPackages(roots, ssa.InstantiateGenerics)
	prog.Build()
	w.Prog = prog
	w.Lib, w.Cmd, w.Main, w.FB = prog.Package(w.LibP.Types), prog.Package(w.CmdP.Types), prog.Package(w.MainP.Types), prog.Package(w.FBP.Types)
	if w.Lib == nil || w.Cmd == nil || w.Main == nil || w.FB == nil {
		return nil, fmt.Errorf("ssa packages missing")
	}
	w.allFuncs = ssautil.AllFunctions(prog)
	devirtualiseThunks(prog, w.allFuncs)
	if !noNormalise {
		fa, fnotes := resolveFieldRenames(roots)
		for k, v := range fa {
			fieldAlias[k] = v
		}
		w.NormNotes = append(w.NormNotes, fnotes...)
		ca, cnotes := resolveConstRenames(roots)
		for k, v := range ca {
			constAlias[k] = v
		}
		w.NormNotes = append(w.NormNotes, cnotes...)
	}
	// renamed functions answer to their inventory names
	for nk, ok := range renames {
		aliasNewName[ok] = nk
	}
	for f := range w.allFuncs {
		if f.Parent() == nil && f.Object() != nil && f.Synthetic == "" {
			if ok, has := renames[ssaDeclKey(f)]; has {
				aliasOldName[f.Object()] = ok[strings.LastIndex(ok, ".")+1:]
			}
		}
	}
	w.CG = vta.CallGraph(w.allFuncs, cha.CallGraph(prog))
	if len(dead) > 0 {
		// expanded helpers nothing refers to any more are not part of the analysed program
		for f := range w.allFuncs {
			if w.inModule(f) && dead[ssaDeclKey(f)] {
				if n := w.CG.Nodes[f]; n != nil {
					w.CG.DeleteNode(n)
				}
				delete(w.allFuncs, f)
			}
		}
	}
	w.nCGNodes = len(w.CG.Nodes)
	for f := range w.allFuncs {
		if w.inModule(f) {
			if len(dead) > 0 && dead[ssaDeclKey(f)] {
				continue
			}
			w.modFuncs = append(w.modFuncs, f)
		}
	}
	sort.Slice(w.modFuncs, func(i, j int) bool { return funcName(w.modFuncs[i]) < funcName(w.modFuncs[j]) })
	w.nFuncs = len(w.modFuncs)
	return w, nil
}

// pkgOf returns the package of a function (its parent's for literals).
func pkgOf(f *ssa.Function) *ssa.Package {
	for f != nil {
		if f.Pkg != nil {
			return f.Pkg
		}
		if f.Parent() != nil {
			f = f.Parent()
			continue
		}
		if f.Origin() != nil && f.Origin() != f {
			f = f.Origin()
			continue
		}
		// method wrappers etc: use the object's package
		if o := f.Object(); o != nil && o.Pkg() != nil {
			return f.Prog.Package(o.Pkg())
		}
		return nil
	}
	return nil
}

func (w *World) inModule(f *ssa.Function) bool {
	p := pkgOf(f)
	return p != nil && (p == w.Lib || p == w.Cmd || p == w.Main)
}

func (w *World) inModuleOrFB(f *ssa.Function) bool {
	p := pkgOf(f)
	return p != nil && (p == w.Lib || p == w.Cmd || p == w.Main || p == w.FB)
}

// funcName gives a stable, position-free name: pkg.(*T).M, pkg.F, pkg.F$1.
// aliasOldName: renamed function object -> the name it has in the inventory; aliasNewName: inventory key -> current key.
var aliasOldName = map[types.Object]string{}
var aliasNewName = map[string]string{}

func funcName(f *ssa.Function) string {
	if f == nil {
		return "<nil>"
	}
	s := f.String()
	if len(aliasOldName) > 0 {
		root := f
		for root.Parent() != nil {
			root = root.Parent()
		}
		if o := root.Object(); o != nil {
			if old, ok := aliasOldName[o]; ok {
				rs := root.String()
				if strings.HasPrefix(s, rs) && strings.HasSuffix(rs, "."+o.Name()) {
					s = rs[:len(rs)-len(o.Name())] + old + s[len(rs):]
				}
			}
		}
	}
	s = strings.ReplaceAll(s, libPath+"/cmd/whispertool", "main")
	s = strings.ReplaceAll(s, libPath+"/cmd", "cmd")
	s = strings.ReplaceAll(s, libPath, "whispertool")
	s = strings.ReplaceAll(s, fbPath, "filebuffer")
	// methods of module types are named pkg.T.M whatever the receiver kind (pointer or value)
	if strings.HasPrefix(s, "(") {
		s = reRecvForm.ReplaceAllString(s, "$1.")
	}
	return s
}

var reRecvForm = regexp.MustCompile(`^\(\*?((?:whispertool|cmd|main|filebuffer)\.\w+)\)\.`)

// fn finds a package-level function or a method by "Name" or "T.Name" (pointer or
// value receiver alike). Returns nil when absent.
func fn(pkg *ssa.Package, name string) *ssa.Function {
	if pkg == nil {
		return nil
	}
	if nk, ok := aliasNewName[pkg.Pkg.Path()+"."+name]; ok {
		name = nk[len(pkg.Pkg.Path())+1:]
	}
	if i := strings.Index(name, "."); i >= 0 {
		tn, mn := name[:i], name[i+1:]
		t := pkg.Type(tn)
		if t == nil {
			return nil
		}
		nt := t.Type()
		for _, typ := range []types.Type{types.NewPointer(nt), nt} {
			ms := pkg.Prog.MethodSets.MethodSet(typ)
			for i := 0; i < ms.Len(); i++ {
				sel := ms.At(i)
				if sel.Obj().Name() == mn {
					// want the declared method, not a wrapper
					if fo, ok := sel.Obj().(*types.Func); ok {
						if f := pkg.Prog.FuncValue(fo); f != nil {
							return f
						}
					}
				}
			}
		}
		return nil
	}
	return pkg.Func(name)
}

func (w *World) pos(p token.Pos) string {
	if !p.IsValid() {
		return "-"
	}
	ps := w.Fset.Position(p)
	f := ps.Filename
	if strings.HasPrefix(f, w.Dir+"/") {
		f = f[len(w.Dir)+1:]
	} else if i := strings.Index(f, "/pkg/mod/"); i >= 0 {
		f = f[i+len("/pkg/mod/"):]
	}
	return fmt.Sprintf("%s:%d", f, ps.Line)
}

// instrPos returns the position of an instruction, or of the nearest
// positioned instruction in its block, or of the function.
func (w *World) instrPos(in ssa.Instruction) string {
	if in == nil {
		return "-"
	}
	if in.Pos().IsValid() {
		return w.pos(in.Pos())
	}
	b := in.Block()
	if b != nil {
		idx := -1
		for i, x := range b.Instrs {
			if x == in {
				idx = i
			}
		}
		for d := 1; d < len(b.Instrs); d++ {
			for _, j := range []int{idx - d, idx + d} {
				if j >= 0 && j < len(b.Instrs) && b.Instrs[j].Pos().IsValid() {
					return w.pos(b.Instrs[j].Pos())
				}
			}
		}
		if b.Parent() != nil {
			return w.pos(b.Parent().Pos())
		}
	}
	return "-"
}

// ---- call graph helpers ----

func (w *World) callers(f *ssa.Function) []*callgraph.Edge {
	n := w.CG.Nodes[f]
	if n == nil {
		return nil
	}
	return n.In
}

func (w *World) callees(f *ssa.Function) []*callgraph.Edge {
	n := w.CG.Nodes[f]
	if n == nil {
		return nil
	}
	return n.Out
}

// calleesOfCall resolves the possible callees of one call instruction.
func (w *World) calleesOfCall(c ssa.CallInstruction) []*ssa.Function {
	if sc := c.Common().StaticCallee(); sc != nil {
		return []*ssa.Function{sc}
	}
	n := w.CG.Nodes[c.Parent()]
	if n == nil {
		return nil
	}
	var out []*ssa.Function
	for _, e := range n.Out {
		if e.Site == c {
			out = append(out, e.Callee.Func)
		}
	}
	return out
}

// findPath returns the shortest call path (as edges) from `from` to any
// function satisfying target, visiting only functions accepted by through
// (targets themselves need not satisfy through). nil if none.
func (w *World) findPath(from *ssa.Function, target func(*ssa.Function) bool, through func(*ssa.Function) bool) []*callgraph.Edge {
	type item struct {
		f    *ssa.Function
		prev *item
		e    *callgraph.Edge
	}
	seen := map[*ssa.Function]bool{from: true}
	q := []*item{{f: from}}
	for len(q) > 0 {
		it := q[0]
		q = q[1:]
		outs := w.callees(it.f)
		sort.Slice(outs, func(i, j int) bool { return funcName(outs[i].Callee.Func) < funcName(outs[j].Callee.Func) })
		for _, e := range outs {
			g := e.Callee.Func
			if seen[g] {
				continue
			}
			seen[g] = true
			ni := &item{f: g, prev: it, e: e}
			if target(g) {
				var path []*callgraph.Edge
				for x := ni; x.e != nil; x = x.prev {
					path = append([]*callgraph.Edge{x.e}, path...)
				}
				return path
			}
			if through(g) {
				q = append(q, ni)
			}
		}
	}
	return nil
}

func (w *World) pathString(path []*callgraph.Edge) string {
	if len(path) == 0 {
		return ""
	}
	var sb strings.Builder
	sb.WriteString(funcName(path[0].Caller.Func))
	for _, e := range path {
		site := "-"
		if e.Site != nil {
			site = w.instrPos(e.Site)
		}
		fmt.Fprintf(&sb, " -[%s]-> %s", site, funcName(e.Callee.Func))
	}
	return sb.String()
}

// ---- syntax helpers ----

// funcDecl finds the syntax of a package-level function or method.
func funcDecl(p *packages.Package, name string) *ast.FuncDecl {
	recv := ""
	if i := strings.Index(name, "."); i >= 0 {
		recv, name = name[:i], name[i+1:]
	}
	for _, f := range p.Syntax {
		for _, d := range f.Decls {
			fd, ok := d.(*ast.FuncDecl)
			if !ok || fd.Name.Name != name {
				continue
			}
			if recv == "" && fd.Recv == nil {
				return fd
			}
			if recv != "" && fd.Recv != nil && len(fd.Recv.List) == 1 {
				t := fd.Recv.List[0].Type
				if st, ok := t.(*ast.StarExpr); ok {
					t = st.X
				}
				if id, ok := t.(*ast.Ident); ok && id.Name == recv {
					return fd
				}
			}
		}
	}
	return nil
}

// ssaDeclKey: the declKey of the declared function f (or of the function a literal is nested in).
func ssaDeclKey(f *ssa.Function) string {
	for f.Parent() != nil {
		f = f.Parent()
	}
	fo, ok := f.Object().(*types.Func)
	if !ok || fo.Pkg() == nil {
		return ""
	}
	sig := fo.Type().(*types.Signature)
	if sig.Recv() == nil {
		return fo.Pkg().Path() + "." + fo.Name()
	}
	t := sig.Recv().Type()
	if p, ok := t.(*types.Pointer); ok {
		t = p.Elem()
	}
	if n, ok := t.(*types.Named); ok {
		return fo.Pkg().Path() + "." + n.Obj().Name() + "." + fo.Name()
	}
	return ""
}

// devirtualiseThunks: a call of a method expression applied on the spot, (*T).M(x, a), is built by go/ssa as a call
// of the synthetic thunk M$thunk. Where the thunk's first parameter has exactly the method's receiver type the call
// is the static method call x.M(a); the callee is replaced so that every rule sees the method itself.
func devirtualiseThunks(prog *ssa.Program, funcs map[*ssa.Function]bool) {
	for f := range funcs {
		for _, b := range f.Blocks {
			for _, in := range b.Instrs {
				c, ok := in.(ssa.CallInstruction)
				if !ok {
					continue
				}
				cc := c.Common()
				th, ok := cc.Value.(*ssa.Function)
				if !ok || !strings.HasPrefix(th.Synthetic, "thunk for ") {
					continue
				}
				obj, ok := th.Object().(*types.Func)
				if !ok {
					continue
				}
				real := prog.FuncValue(obj)
				if real == nil || real.Signature.Recv() == nil || th.Signature.Params().Len() == 0 {
					continue
				}
				if types.Identical(th.Signature.Params().At(0).Type(), real.Signature.Recv().Type()) {
					cc.Value = real
				}
			}
		}
	}
}
